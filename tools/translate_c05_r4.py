#!/usr/bin/env python3
"""C05 (fourth round) translator: the integer side of ==, cmp and Hash, re-read from the Rust source on every run.

  integer/src/repr.rs   impl Hash for Repr::hash          -> repr_hash_steps_gen (what is hashed, in source order)
                        impl PartialEq for Repr::eq       -> repr_eq_views_gen (both sides read with as_sign_slice)
  integer/src/cmp.rs    impl Ord for TypedReprRef::cmp    -> typed_cmp_gen (the four arms, Small < Large shortcut included)
                        impl Ord for IBig::cmp            -> ibig_cmp_gen (the four sign arms)
                        cmp_in_place / cmp_same_len       -> cmp_in_place_shape_gen (length first, then most significant word first)
                        every `impl Trait<Rhs> for UBig|IBig` -> int_cmp_impls_gen (trait, self type, rhs type, how each side is read)
  integer/src/ubig.rs, ibig.rs   derive lists + the single field of the tuple struct  -> ubig_derives_gen, ibig_derives_gen
  base/src/sign.rs      derive list and variant order of Sign -> sign_derives_gen, sign_disc_gen

into coq/gen/HashGen.v.  coq/theories/Int/HashSeqProofs.v proves the round-4 theorems over the generated definitions
(equal to the hand-written as-is models for all inputs), so an edit of the source breaks a proof obligation.

    tools/translate_c05_r4.py --repo /repo --out coq/gen

prints `FRAGMENT HashGen ok|unparsed <why>` (exit 0 always).  Unparseable source is not an alarm: the previous copy is
kept, its first line gets `(* STALE *)`.
"""
import argparse
import os
import re
import sys

sys.path.insert(0, os.path.dirname(os.path.abspath(__file__)))
import translate_c05_r3 as R3  # noqa: E402

Unparsed = R3.Unparsed


def strip_comments(src):
    src = re.sub(r"/\*.*?\*/", "", src, flags=re.S)
    return re.sub(r"//[^\n]*", "", src)


def block_after(src, pos):
    """the text between the `{` at or after pos and its matching `}`"""
    i = src.index("{", pos)
    depth, j = 0, i
    while j < len(src):
        if src[j] == "{":
            depth += 1
        elif src[j] == "}":
            depth -= 1
            if depth == 0:
                return src[i + 1:j], j + 1
        j += 1
    raise Unparsed("unbalanced braces")


def impl_block(src, head_re):
    m = re.search(head_re, src)
    if not m:
        raise Unparsed("no impl matching %s" % head_re)
    body, _ = block_after(src, m.end() - 1 if src[m.end() - 1] == "{" else m.end())
    return body


def fn_body(block, name):
    m = re.search(r"fn\s+%s\s*(<[^>]*>)?\s*\(" % re.escape(name), block)
    if not m:
        raise Unparsed("no fn %s" % name)
    body, _ = block_after(block, m.end())
    return body


def norm(s):
    return re.sub(r"\s+", " ", s).strip()


# ------------------------------------------------------------------------------------------------ Hash / == of Repr
def hash_steps(repr_src):
    body = norm(fn_body(impl_block(repr_src, r"impl\s+Hash\s+for\s+Repr\s*\{"), "hash"))
    stmts = [x.strip() for x in body.split(";") if x.strip()]
    if not stmts or not re.fullmatch(r"let \( ?(\w+) ?, ?(\w+) ?\) = self\.as_sign_slice\(\)", stmts[0]):
        raise Unparsed("Repr::hash does not start with as_sign_slice: %r" % stmts[:1])
    sg, arr = re.fullmatch(r"let \( ?(\w+) ?, ?(\w+) ?\) = self\.as_sign_slice\(\)", stmts[0]).groups()
    out = []
    for st in stmts[1:]:
        m = re.fullmatch(r"\(?\*?(\w+)\)?\.hash\(state\)", st)
        if not m:
            raise Unparsed("Repr::hash statement %r" % st)
        if m.group(1) == sg:
            out.append("HFSign")
        elif m.group(1) == arr:
            out.append("HFSlice")
        else:
            raise Unparsed("Repr::hash hashes %r" % m.group(1))
    return out


def repr_eq_views(repr_src):
    body = norm(fn_body(impl_block(repr_src, r"impl\s+PartialEq\s+for\s+Repr\s*\{"), "eq"))
    m = re.fullmatch(r"self\.(\w+)\(\) == other\.(\w+)\(\)", body)
    if not m:
        raise Unparsed("Repr::eq body %r" % body)
    return [view_of("." + m.group(1) + "()"), view_of("." + m.group(2) + "()")]


VIEWS = [
    (r"\.as_sign_typed\(\)\.1$", "VMagTyped"), (r"\.as_typed\(\)$", "VMagTyped"), (r"\.repr\(\)$", "VMagTyped"),
    (r"\.as_sign_slice\(\)\.1$", "VMagSlice"), (r"\.as_slice\(\)$", "VMagSlice"),
    (r"\.as_sign_slice\(\)$", "VSignSlice"), (r"\.as_sign_repr\(\)$", "VSignTyped"),
]


def view_of(expr):
    e = expr.strip().lstrip("&")
    e = re.sub(r"^(self|rhs|other)(\.0)?", "", e)
    if e == "":
        return "VWhole"
    for pat, v in VIEWS:
        if re.search("^" + pat, e):
            return v
    raise Unparsed("operand view %r" % expr)


# ------------------------------------------------------------------------------------------------ cmp.rs
def split_top(s):
    """split at commas outside parentheses / braces"""
    out, depth, cur = [], 0, ""
    for ch in s:
        if ch in "({[":
            depth += 1
        elif ch in ")}]":
            depth -= 1
        if ch == "," and depth == 0:
            out.append(cur.strip())
            cur = ""
        else:
            cur += ch
    if cur.strip():
        out.append(cur.strip())
    return out


def match_arms(src, pat):
    arms = []
    for a in split_top(src):
        m = re.fullmatch(pat + r" => (.+)", a)
        if not m:
            raise Unparsed("match arm %r" % a)
        arms.append(m.groups())
    return arms


ORD = {"Ordering::Less": "Lt", "Ordering::Greater": "Gt", "Ordering::Equal": "Eq"}


def arm_expr(e, names):
    e = e.strip()
    if e in ORD:
        return ORD[e]
    m = re.fullmatch(r"(\w+)\.cmp\(&(\w+)\)", e)
    if m and m.group(1) in names and m.group(2) in names:
        return "(%s %s)" % (names["#cmp"], " ".join([names[m.group(1)], names[m.group(2)]])) if "#cmp" in names \
            else "(%s ?= %s)" % (names[m.group(1)], names[m.group(2)])
    m = re.fullmatch(r"cmp_in_place\((\w+), (\w+)\)", e)
    if m and m.group(1) in names and m.group(2) in names:
        return "(cmp_in_place %s %s)" % (names[m.group(1)], names[m.group(2)])
    raise Unparsed("match arm %r" % e)


def typed_cmp(cmp_src):
    body = norm(fn_body(impl_block(cmp_src, r"impl<'a>\s+Ord\s+for\s+TypedReprRef<'a>\s*\{"), "cmp"))
    m = re.fullmatch(r"match \(\*self, \*other\) \{(.*)\}", body)
    if not m:
        raise Unparsed("TypedReprRef::cmp is not one match on (*self, *other)")
    arms = match_arms(m.group(1), r"\((RefSmall|RefLarge)\((\w+)\), (RefSmall|RefLarge)\((\w+)\)\)")
    if len(arms) != 4:
        raise Unparsed("TypedReprRef::cmp: %d arms" % len(arms))
    lines, seen = [], set()
    for c0, v0, c1, v1, e in arms:
        seen.add((c0, c1))
        names = {v0: v0, v1: v1}
        names.pop("_", None)
        lines.append("  | %s %s, %s %s => %s" % (c0, v0, c1, v1, arm_expr(e, names)))
    if len(seen) != 4:
        raise Unparsed("TypedReprRef::cmp arms do not cover the four cases")
    return lines


def ibig_cmp(cmp_src):
    body = norm(fn_body(impl_block(cmp_src, r"impl\s+Ord\s+for\s+IBig\s*\{"), "cmp"))
    m = re.fullmatch(r"let \((\w+), (\w+)\) = self\.as_sign_repr\(\); let \((\w+), (\w+)\) = other\.as_sign_repr\(\); "
                     r"match \((\w+), (\w+)\) \{(.*)\}", body)
    if not m:
        raise Unparsed("IBig::cmp shape")
    ls, lm, rs, rm, m0, m1, arms_src = m.groups()
    if (m0, m1) != (ls, rs):
        raise Unparsed("IBig::cmp matches on (%s, %s)" % (m0, m1))
    arms = match_arms(arms_src, r"\((Positive|Negative), (Positive|Negative)\)")
    if len(arms) != 4 or len({(a, b) for a, b, _ in arms}) != 4:
        raise Unparsed("IBig::cmp arms")
    names = {lm: "(as_typed w a)", rm: "(as_typed w b)", "#cmp": "typed_cmp_gen"}
    return ["  | %s, %s => %s" % (a, b, arm_expr(e, names)) for a, b, e in arms]


def cmp_in_place_shape(cmp_src):
    """1 when cmp_in_place compares the lengths first and then cmp_same_len, and cmp_same_len compares the words from the
    most significant end: the shape Int/ReprOrdModel.cmp_in_place transcribes"""
    a = norm(fn_body(cmp_src, "cmp_in_place"))
    a = re.sub(r"debug_assert!\(.*?\);", "", a).strip()
    b = norm(fn_body(cmp_src, "cmp_same_len"))
    b = re.sub(r"debug_assert!\(.*?\);", "", b).strip()
    ok_a = re.fullmatch(r"lhs\.len\(\) ?\.cmp\(&rhs\.len\(\)\) ?\.then_with\(\|\| cmp_same_len\(lhs, rhs\)\)", a)
    ok_b = re.fullmatch(r"lhs\.iter\(\)\.rev\(\)\.cmp\(rhs\.iter\(\)\.rev\(\)\)", b)
    if not ok_a:
        raise Unparsed("cmp_in_place body %r" % a)
    if not ok_b:
        raise Unparsed("cmp_same_len body %r" % b)
    return 1


TRAITS = {"PartialEq": "TrPartialEq", "Eq": "TrEq", "PartialOrd": "TrPartialOrd", "Ord": "TrOrd", "AbsEq": "TrAbsEq",
          "AbsOrd": "TrAbsOrd", "Hash": "TrHash"}
TYPES = {"UBig": "TUBig", "IBig": "TIBig"}


def int_impls(cmp_src):
    out = []
    for m in re.finditer(r"impl\s+(\w+)(?:<(\w+)>)?\s+for\s+(UBig|IBig)\s*\{", cmp_src):
        tr, rhs, slf = m.groups()
        if tr not in TRAITS:
            continue
        body, _ = block_after(cmp_src, m.end() - 1)
        rhs_t = TYPES.get(rhs or slf, "TOther")
        lv, rv = "VWhole", "VWhole"
        if tr in ("AbsEq", "AbsOrd"):
            fb = norm(fn_body(body, "abs_eq" if tr == "AbsEq" else "abs_cmp"))
            mm = re.fullmatch(r"(.+?)\.(eq|cmp)\((.+)\)", fb)
            if not mm:
                raise Unparsed("%s for %s: body %r" % (tr, slf, fb))
            if mm.group(2) != ("eq" if tr == "AbsEq" else "cmp"):
                raise Unparsed("%s for %s uses .%s" % (tr, slf, mm.group(2)))
            lv, rv = view_of(mm.group(1)), view_of(mm.group(3))
        if tr == "Ord" and slf == "UBig":
            fb = norm(fn_body(body, "cmp"))
            mm = re.fullmatch(r"(.+?)\.cmp\((.+)\)", fb)
            if not mm:
                raise Unparsed("Ord for UBig: body %r" % fb)
            lv, rv = view_of(mm.group(1)), view_of(mm.group(2))
        if tr == "PartialOrd":
            fb = norm(fn_body(body, "partial_cmp"))
            if not re.fullmatch(r"Some\(self\.cmp\((other|rhs)\)\)", fb):
                raise Unparsed("PartialOrd for %s: body %r" % (slf, fb))
        out.append("MkImpl %s %s %s %s %s" % (TRAITS[tr], TYPES[slf], rhs_t, lv, rv))
    if not out:
        raise Unparsed("no comparison impl found in integer/src/cmp.rs")
    return out


def struct_derives(src, name):
    m = re.search(r"#\[derive\(([^)]*)\)\]\s*(?:#\[[^\]]*\]\s*)*pub struct %s\s*\(((?:[^()]|\([^()]*\))*)\)\s*;" % name, src)
    if not m:
        raise Unparsed("no tuple struct %s with a derive list" % name)
    ds = [d.strip() for d in m.group(1).split(",") if d.strip()]
    fields = [f.strip() for f in m.group(2).split(",") if f.strip()]
    if len(fields) != 1 or not re.fullmatch(r"(pub(\([a-z]+\))?\s+)?Repr", fields[0]):
        raise Unparsed("%s is not a tuple struct over one Repr: %r" % (name, fields))
    return [TRAITS[d] for d in ds if d in TRAITS]


def sign_enum(src):
    m = re.search(r"#\[derive\(([^)]*)\)\]\s*(?:#\[[^\]]*\]\s*)*pub enum Sign\s*\{([^}]*)\}", src)
    if not m:
        raise Unparsed("no enum Sign with a derive list")
    ds = [d.strip() for d in m.group(1).split(",") if d.strip()]
    variants = [v.strip() for v in strip_comments(m.group(2)).split(",") if v.strip()]
    if sorted(variants) != ["Negative", "Positive"] or any("=" in v for v in variants):
        raise Unparsed("Sign variants %r" % variants)
    return [TRAITS[d] for d in ds if d in TRAITS], variants


def render_hash(repo):
    def rd(rel):
        with open(os.path.join(repo, rel)) as f:
            return strip_comments(f.read())
    repr_src, cmp_src = rd("integer/src/repr.rs"), rd("integer/src/cmp.rs")
    steps = hash_steps(repr_src)
    eqv = repr_eq_views(repr_src)
    tc = typed_cmp(cmp_src)
    ic = ibig_cmp(cmp_src)
    shape = cmp_in_place_shape(cmp_src)
    impls = int_impls(cmp_src)
    ud = struct_derives(rd("integer/src/ubig.rs"), "UBig")
    idr = struct_derives(rd("integer/src/ibig.rs"), "IBig")
    sd, variants = sign_enum(rd("base/src/sign.rs"))
    L = [
        "(** GENERATED by tools/translate_c05_r4.py from integer/src/repr.rs, integer/src/cmp.rs, integer/src/ubig.rs, "
        "integer/src/ibig.rs, base/src/sign.rs - do not edit. *)",
        "From Dashu Require Import Base.Prelude Int.ReprOrdModel Int.HashSeqModel.",
        "Open Scope Z_scope.",
        "",
        "(** impl Hash for Repr :: hash - what is hashed after `let (sign, arr) = self.as_sign_slice()`, in source order *)",
        "Definition repr_hash_steps_gen : list hfield := [%s]." % "; ".join(steps),
        "(** impl PartialEq for Repr :: eq - how the two sides are read *)",
        "Definition repr_eq_views_gen : list view := [%s]." % "; ".join(eqv),
        "",
        "(** #[derive(..)] enum Sign { .. }: the discriminant is the position in the declaration *)",
        "Definition sign_derives_gen : list cmp_trait := [%s]." % "; ".join(sd),
        "Definition sign_disc_gen (s : sign) : Z := match s with %s end." % " | ".join("%s => %d" % (v, i) for i, v in enumerate(variants)),
        "(** #[derive(..)] struct UBig(Repr) / IBig(Repr): one field, the traits derived field by field *)",
        "Definition ubig_derives_gen : list cmp_trait := [%s]." % "; ".join(ud),
        "Definition ibig_derives_gen : list cmp_trait := [%s]." % "; ".join(idr),
        "",
        "(** impl Ord for TypedReprRef :: cmp, the whole match *)",
        "Definition typed_cmp_gen (a b : typed) : comparison :=",
        "  match a, b with",
    ] + tc + [
        "  end.",
        "(** cmp_in_place = lengths first, then cmp_same_len = words from the most significant end (1: shape recognised) *)",
        "Definition cmp_in_place_shape_gen : Z := %d." % shape,
        "",
        "(** impl Ord for IBig :: cmp, the whole match on the two signs *)",
        "Definition ibig_cmp_gen (w : Z) (a b : repr) : comparison :=",
        "  match rsign a, rsign b with",
    ] + ic + [
        "  end.",
        "",
        "(** every comparison impl of integer/src/cmp.rs on UBig / IBig: trait, Self, Rhs, how each side is read *)",
        "Definition int_cmp_impls_gen : list cmp_impl :=",
        "  [" + ";\n   ".join(impls) + "].",
        "",
    ]
    return "\n".join(L)


def generate(repo, outdir):
    """regenerates HashGen.v; returns {"HashGen": status}.  Never raises."""
    return {"HashGen": R3._one(render_hash, repo, outdir, "HashGen.v")}


def main():
    ap = argparse.ArgumentParser()
    ap.add_argument("--repo", default=os.environ.get("VERIF_REPO", "/repo"))
    ap.add_argument("--out", required=True)
    a = ap.parse_args()
    for k, v in generate(a.repo, a.out).items():
        print("FRAGMENT %s %s" % (k, v))
    return 0


if __name__ == "__main__":
    sys.exit(main())
