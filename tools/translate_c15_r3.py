#!/usr/bin/env python3
"""C15 translator (round 3): re-reads the table-like call-form fragments of the Rust sources and emits
them as Gallina.

    tools/translate_c15_r3.py --repo /repo --out coq/gen

prints one line per fragment, `FRAGMENT <name> ok` or `FRAGMENT <name> unparsed <why>` (exit code 0
in both cases).  `generate(repo, outdir)` does the same from Python and returns {name: status}.

Fragments
  FormsArms.v      integer/src/{add_ops,mul_ops,div_ops,gcd_ops}.rs `mod repr`: the four ownership impls
                   (TypedRepr / TypedReprRef on either side) of Add, Sub, Mul, DivRem, Div, Rem, Gcd, ExtendedGcd:
                   the Small/Large x Small/Large match arms (which kernel, which operand order, the
                   length test and the clone_from_slice reuse of the shorter-dividend arm) or the
                   forwarding body (`rhs.mul(self)`, `self.as_ref().gcd(rhs.as_ref())`), as Gallina
                   functions over a record of kernels;
                   integer/src/{add_ops,mul_ops,div_ops,bits}.rs: the invocations of the
                   *_with_primitive macro families -> the table of offered primitive forms and their
                   Output type (big / primitive).
  FormsModGen.v    integer/src/modular/{add,mul,div}.rs: for each impl of Add/Sub/Mul/Div (four ownership
                   forms) and of the op= traits (two) on Reduced: the impl it forwards to (operands exchanged
                   or not) or that it has a body of its own.
  FormsRatGen.v    rational/src/helper_macros.rs impl_binop_with_macro / impl_binop_with_int: what each of the
                   four ownership arms binds the arguments of the ONE operator body to.
  FormsFloatGen.v  float/src/mul.rs (four hand-written Mul impls), div.rs (impl_div_or_rem_for_fbig: four
                   arms, instantiations), shift.rs (Shl/ShlAssign/Shr/ShrAssign bodies), iter.rs
                   (Sum / Product = fold), and the FBig methods that forward to the Context method
                   (exp, exp_m1, ln, ln_1p, powi, sqrt, sqr, cubic, inv).

The grammar is tiny and STRICT (tokenizer / expression parser of tools/translate.py, imported, not
edited).  Anything else is `unparsed`: the last good copy is kept, its first line gets `(* STALE *)`
(unparseable is not an alarm; the correspondence run still ties the models).
"""
import argparse
import os
import re
import sys

sys.path.insert(0, os.path.dirname(os.path.abspath(__file__)))
import translate as T  # noqa: E402

STALE = "(* STALE *)"
HERE = os.path.dirname(os.path.abspath(__file__))
FALLBACK_DIR = os.path.join(HERE, "c15_r3_fallback")


class Unparsed(Exception):
    pass


def strip_comments(src):
    src = re.sub(r"//[^\n]*", "", src)
    return re.sub(r"/\*.*?\*/", "", src, flags=re.S)


# ================================================================================================
# 1. integer arms
# ================================================================================================
# kernel name -> (argument types, result family)
Z, W = "dword", "words"
FAMILIES = {
    # family: (file, trait, method, Coq result type, {kernel: [arg types]})
    "add": ("integer/src/add_ops.rs", "Add", "add", "result trepr",
            {"add_dword": [Z, Z], "add_large_dword": [W, Z], "add_large": [W, W]}),
    "sub": ("integer/src/add_ops.rs", "Sub", "sub", "result trepr",
            {"sub_dword": [Z, Z], "sub_large_dword": [W, Z], "sub_large": [W, W], "sub_large_ref_val": [W, W], "panic_negative_ubig": []}),
    "mul": ("integer/src/mul_ops.rs", "Mul", "mul", "result trepr",
            {"mul_dword": [Z, Z], "mul_large_dword": [W, Z], "mul_large": [W, W]}),
    "div_rem": ("integer/src/div_ops.rs", "DivRem", "div_rem", "result (trepr * trepr)",
                {"div_rem_dword": [Z, Z], "div_rem_large_dword": [W, Z], "div_rem_large": [W, W]}),
    "div": ("integer/src/div_ops.rs", "Div", "div", "result trepr",
            {"div_dword": [Z, Z], "div_large_dword": [W, Z], "div_large": [W, W]}),
    "rem": ("integer/src/div_ops.rs", "Rem", "rem", "result trepr",
            {"rem_dword": [Z, Z], "rem_large_dword": [W, Z], "rem_large": [W, W]}),
    "gcd": ("integer/src/gcd_ops.rs", "Gcd", "gcd", "result trepr",
            {"gcd_large_dword": [W, Z], "gcd_large": [W, W]}),
    "gcd_ext": ("integer/src/gcd_ops.rs", "ExtendedGcd", "gcd_ext", "result gx",
                {"gcd_ext_dword": [Z, Z], "gcd_ext_large_dword": [W, Z], "gcd_ext_large": [W, W]}),
}
FAMILY_ORDER = ["add", "sub", "mul", "div_rem", "div", "rem", "gcd", "gcd_ext"]
COQ_TY = {Z: "Z", W: "list Z"}
OWNS = ["OVV", "OVR", "ORV", "ORR"]


def own_of(lk, rk):
    return "O" + lk + rk


def find_impls(src, trait):
    """all `impl<..> Trait<TypedRepr|TypedReprRef<'x>> for TypedRepr|TypedReprRef<'x>` blocks"""
    out = {}
    pat = re.compile(r"impl\s*(?:<[^>{}]*>)?\s+%s\s*<\s*(TypedReprRef|TypedRepr)\s*(?:<[^>]*>)?\s*>\s+for\s+(TypedReprRef|TypedRepr)\s*(?:<[^>]*>)?\s*\{" % trait)
    for m in pat.finditer(src):
        rk = "R" if m.group(1) == "TypedReprRef" else "V"
        lk = "R" if m.group(2) == "TypedReprRef" else "V"
        o = own_of(lk, rk)
        if o in out:
            raise Unparsed("two impls of %s for %s" % (trait, o))
        out[o] = src[m.start(): T.balanced(src, m.end() - 1)]
    return out


class ArmEmit:
    def __init__(self, fam, kernels, method):
        self.fam = fam
        self.kernels = kernels
        self.method = method
        self.fresh = 0

    def var(self, name):
        if not re.match(r"^[a-z_][a-z0-9_]*$", name):
            raise Unparsed("identifier %s" % name)
        return "r_" + name

    def karg(self, e, env, want):
        if e[0] == "call" and e[1] == "into" and len(e[2]) == 1:
            e = e[2][0]
        if e[0] != "var" or e[1] not in env:
            raise Unparsed("kernel argument %r" % (e,))
        if env[e[1]] != want:
            raise Unparsed("kernel argument %s has type %s, expected %s" % (e[1], env[e[1]], want))
        return self.var(e[1])

    def kcall(self, e, env):
        name, args = e[1], e[2]
        if name not in self.kernels:
            raise Unparsed("unknown kernel %s in family %s" % (name, self.fam))
        sig = self.kernels[name]
        if len(args) != len(sig):
            raise Unparsed("arity of %s" % name)
        return "(k_%s K %s)" % (name, " ".join(self.karg(a, env, t) for a, t in zip(args, sig)))

    def pure(self, e, env, eff):
        k = e[0]
        if k == "tuple":
            return "(" + ", ".join(self.pure(x, env, eff) for x in e[1]) + ")"
        if k == "var":
            if e[1] not in env or env[e[1]] != "repr":
                raise Unparsed("variable %s in a result" % e[1])
            return self.var(e[1])
        if k == "app":
            name, args = e[1], e[2]
            if name == "Repr::zero" and not args:
                return "(Small 0)"
            if name == "Repr::one" and not args:
                return "(Small 1)"
            if name == "Repr::from_dword" and len(args) == 1:
                return "(Small %s)" % self.pure_z(args[0], env, eff)
            if name == "Repr::from_buffer" and len(args) == 1:
                return "(k_from_buffer K %s)" % self.karg(args[0], env, W)
        raise Unparsed("result expression %r" % (e,))

    def pure_z(self, e, env, eff):
        if e[0] == "var" and env.get(e[1]) == Z:
            return self.var(e[1])
        if e[0] == "call" and e[1] == "gcd" and len(e[2]) == 2 and all(a[0] == "var" and env.get(a[1]) == Z for a in e[2]):
            self.fresh += 1
            v = "v%d" % self.fresh
            eff.append((v, "(k_dword_gcd K %s %s)" % (self.var(e[2][0][1]), self.var(e[2][1][1]))))
            return v
        raise Unparsed("dword expression %r" % (e,))

    def cond(self, c, env):
        if c[0] == "bin" and c[1] in (">=", "<=", ">", "<"):
            a, b = c[2], c[3]
            if all(x[0] == "call" and x[1] == "len" and len(x[2]) == 1 and x[2][0][0] == "var" and env.get(x[2][0][1]) == W for x in (a, b)):
                la, lb = "length " + self.var(a[2][0][1]), "length " + self.var(b[2][0][1])
                return {">=": "(%s <=? %s)%%nat" % (lb, la), "<=": "(%s <=? %s)%%nat" % (la, lb),
                        ">": "(%s <? %s)%%nat" % (lb, la), "<": "(%s <? %s)%%nat" % (la, lb)}[c[1]]
        raise Unparsed("condition %r" % (c,))

    def tail(self, e, env):
        k = e[0]
        if k == "app" and "::" not in e[1]:
            return self.kcall(e, env)
        if k == "block":
            return self.stmts(e[1], e[2], dict(env))
        if k == "if":
            if e[3] is None:
                raise Unparsed("if without else")
            return "(if %s then %s else %s)" % (self.cond(e[1], env), self.tail(e[2], env), self.tail(e[3], env))
        eff = []
        p = self.pure(e, env, eff)
        out = "(Ok %s)" % p
        for v, call in reversed(eff):
            out = "(rbind %s (fun %s => %s))" % (call, v, out)
        return out

    def stmts(self, stmts, final, env):
        if not stmts:
            if final is None:
                raise Unparsed("block without a value")
            return self.tail(final, env)
        s, rest = stmts[0], stmts[1:]
        if s[0] == "expr" and s[1][0] == "call" and s[1][1] == "clone_from_slice" and len(s[1][2]) == 2 \
                and all(a[0] == "var" and env.get(a[1]) == W for a in s[1][2]):
            dst, srcv = s[1][2][0][1], s[1][2][1][1]
            return "(let %s := k_clone_from_slice K %s %s in %s)" % (self.var(dst), self.var(dst), self.var(srcv), self.stmts(rest, final, env))
        if s[0] == "let" and s[1][0] == "ptuple" and all(p[0] == "pvar" for p in s[1][1]) and s[2][0] == "app" and "::" not in s[2][1]:
            names = [p[1] for p in s[1][1]]
            call = self.kcall(s[2], env)
            for n in names:
                env[n] = "repr"
            return "(rbind %s (fun '(%s) => %s))" % (call, ", ".join(self.var(n) for n in names), self.stmts(rest, final, env))
        raise Unparsed("statement %r" % (s,))


def translate_family(repo, fam, srcs):
    path, trait, method, rty, kernels = FAMILIES[fam]
    if path not in srcs:
        with open(os.path.join(repo, path)) as f:
            srcs[path] = strip_comments(f.read())
    src = srcs[path]
    m = re.search(r"\bmod\s+repr\s*\{", src)
    if not m:
        raise Unparsed("%s: mod repr not found" % path)
    src = src[m.start(): T.balanced(src, m.end() - 1)]
    impls = find_impls(src, trait)
    if sorted(impls) != sorted(OWNS):
        raise Unparsed("%s: impls of %s found for %s" % (path, trait, sorted(impls)))
    defs, deps = {}, {}
    for o, sub in impls.items():
        lk, rk = o[1], o[2]
        body = T.fn_body(sub, r"fn\s+%s\s*\(\s*self\s*,\s*rhs\s*:[^)]*\)\s*(?:->\s*[^{]*)?" % method)
        if len(re.findall(r"\bfn\b", sub)) != 1:
            raise Unparsed("%s %s: more than one fn in the impl" % (trait, o))
        p = T.P(T.tokenize(body))
        ast = p.block()
        if p.peek() is not None or ast[1] or ast[2] is None:
            raise Unparsed("%s %s: body is not a single expression" % (trait, o))
        e = ast[2]
        em = ArmEmit(fam, kernels, method)
        if e[0] == "match":
            sc = e[1]
            if not (sc[0] == "tuple" and [x for x in sc[1]] == [("var", "self"), ("var", "rhs")]):
                raise Unparsed("%s %s: match scrutinee" % (trait, o))
            arms = {}
            for pat, abody in e[2]:
                if not (pat[0] == "ptuple" and len(pat[1]) == 2 and all(q[0] == "pctor" and len(q[2]) == 1 for q in pat[1])):
                    raise Unparsed("%s %s: arm pattern %r" % (trait, o, pat))
                key, env, binds = "", {}, []
                for q, kind in zip(pat[1], (lk, rk)):
                    want = {"V": ("Small", "Large"), "R": ("RefSmall", "RefLarge")}[kind]
                    if q[1] not in want:
                        raise Unparsed("%s %s: constructor %s in a %s position" % (trait, o, q[1], kind))
                    small = q[1] == want[0]
                    key += "S" if small else "L"
                    pv = q[2][0]
                    if pv[0] == "pwild":
                        binds.append("_")
                    elif pv[0] == "pvar":
                        if pv[1] in env:
                            raise Unparsed("duplicate binder")
                        env[pv[1]] = Z if small else W
                        binds.append(em.var(pv[1]))
                    else:
                        raise Unparsed("%s %s: binder %r" % (trait, o, pv))
                if key in arms:
                    raise Unparsed("%s %s: arm %s twice" % (trait, o, key))
                arms[key] = (binds, em.tail(abody, env))
            if sorted(arms) != ["LL", "LS", "SL", "SS"]:
                raise Unparsed("%s %s: arms %s" % (trait, o, sorted(arms)))
            lines = ["  match x, y with"]
            for key in ("SS", "SL", "LS", "LL"):
                binds, txt = arms[key]
                c0 = ("Small " if key[0] == "S" else "Large ") + binds[0]
                c1 = ("Small " if key[1] == "S" else "Large ") + binds[1]
                lines.append("  | %s, %s => %s" % (c0, c1, txt))
            lines.append("  end")
            defs[o] = "\n".join(lines)
            deps[o] = None
        elif e[0] == "call" and e[1] == method and len(e[2]) == 2:
            def operand(x):
                if x[0] == "var" and x[1] in ("self", "rhs"):
                    return x[1], (lk if x[1] == "self" else rk)
                if x[0] == "call" and x[1] == "as_ref" and len(x[2]) == 1 and x[2][0][0] == "var" and x[2][0][1] in ("self", "rhs"):
                    return x[2][0][1], "R"
                raise Unparsed("%s %s: forwarding operand %r" % (trait, o, x))
            (n0, k0), (n1, k1) = operand(e[2][0]), operand(e[2][1])
            if {n0, n1} != {"self", "rhs"}:
                raise Unparsed("%s %s: forwarding does not use both operands" % (trait, o))
            tgt = own_of(k0, k1)
            if tgt == o:
                raise Unparsed("%s %s: forwards to itself" % (trait, o))
            nm = {"self": "x", "rhs": "y"}
            defs[o] = "  gen_%s_%s K %s %s" % (fam, tgt, nm[n0], nm[n1])
            deps[o] = tgt
        else:
            raise Unparsed("%s %s: body %r" % (trait, o, e[0]))
    # forwarding impls after their targets
    order, seen = [], set()

    def visit(o, stack):
        if o in seen:
            return
        if o in stack:
            raise Unparsed("%s: forwarding cycle" % trait)
        if deps[o] is not None:
            visit(deps[o], stack | {o})
        seen.add(o)
        order.append(o)
    for o in OWNS:
        visit(o, set())
    out = []
    for o in order:
        out.append("Definition gen_%s_%s (K : arm_kernels) (x y : trepr) : %s :=\n%s.\n" % (fam, o, rty, defs[o]))
    out.append("Definition gen_%s (K : arm_kernels) (o : own) (x y : trepr) : %s :=\n  match o with %s end.\n"
               % (fam, rty, " | ".join("%s => gen_%s_%s K x y" % (o, fam, o) for o in OWNS)))
    return "\n".join(out)


ARMS_PRELUDE = """From Dashu Require Import Base.Prelude Int.RingOps Forms.FormsSpec.
Open Scope Z_scope.

(** result of gcd_ext at Repr level: (g, s, t), the cofactors carry a sign *)
Definition gx : Type := (trepr * (sign * trepr) * (sign * trepr))%%type.

(** the functions the arms call (hand-written semantics: Forms/FormsArmsProofs.v) *)
Record arm_kernels := {
  k_from_buffer : list Z -> trepr;
  k_clone_from_slice : list Z -> list Z -> list Z;
  k_dword_gcd : Z -> Z -> result Z;
%s
}.
"""


def render_arms(repo):
    srcs = {}
    fields = []
    for fam in FAMILY_ORDER:
        _, _, _, rty, kernels = FAMILIES[fam]
        for k, sig in kernels.items():
            fields.append("  k_%s : %s" % (k, " -> ".join([COQ_TY[t] for t in sig] + [rty])))
    out = ["(** GENERATED by tools/translate_c15_r3.py from integer/src/{mul_ops,div_ops,gcd_ops,add_ops,bits}.rs - do not edit. *)",
           ARMS_PRELUDE % ";\n".join(fields)]
    for fam in FAMILY_ORDER:
        try:
            out.append("(** %s: impl %s<..> for TypedRepr / TypedReprRef *)" % (FAMILIES[fam][0], FAMILIES[fam][1]))
            out.append(translate_family(repo, fam, srcs))
        except Unparsed as ex:
            raise Unparsed("%s: %s" % (fam, ex))
        except (SyntaxError, LookupError, ValueError, T.Unsupported, IndexError) as ex:
            raise Unparsed("%s: %s" % (fam, str(ex).replace("\n", " ")))
    out.append(render_prim_out(repo))
    return "\n".join(out) + "\n"


# ================================================================================================
# 2. primitive-operand macro invocations -> offered forms and Output type
# ================================================================================================
IOP = {"Add": "IoAdd", "Sub": "IoSub", "Mul": "IoMul", "Div": "IoDiv", "Rem": "IoRem",
       "BitAnd": "IoAnd", "BitOr": "IoOr", "BitXor": "IoXor"}
IOPS = ["IoAdd", "IoSub", "IoMul", "IoDiv", "IoRem", "IoAnd", "IoOr", "IoXor"]
UNSIGNED_T = {"u8", "u16", "u32", "u64", "u128", "usize"}
SIGNED_T = {"i8", "i16", "i32", "i64", "i128", "isize"}


def check_helper_macros(repo):
    """the helper macro bodies must still have the shape the table is derived from"""
    with open(os.path.join(repo, "integer/src/helper_macros.rs")) as f:
        hm = strip_comments(f.read())
    with open(os.path.join(repo, "integer/src/div_ops.rs")) as f:
        dv = strip_comments(f.read())

    def body(src, name):
        m = re.search(r"macro_rules!\s+%s\s*\{" % name, src)
        if not m:
            raise Unparsed("macro %s not found" % name)
        return re.sub(r"\s+", " ", src[m.start(): T.balanced(src, m.end() - 1)])
    b = body(hm, "impl_binop_with_primitive")
    if b.count("type Output = $omethod;") != 4 or b.count("self.$method(<$t>::from(") != 4 or b.count(".try_into().unwrap()") != 4 \
            or "impl_binop_with_primitive!(impl $trait<$target> for $t, $method -> $t);" not in b:
        raise Unparsed("impl_binop_with_primitive has a new shape")
    b = body(hm, "impl_commutative_binop_with_primitive")
    if b.count("type Output = $omethod;") != 4 or b.count(".$method(rhs).try_into().unwrap()") != 4 \
            or "impl_binop_with_primitive!(impl $trait<$target> for $t, $method -> $omethod);" not in b \
            or "impl_commutative_binop_with_primitive!(impl $trait<$target> for $t, $method -> $t);" not in b:
        raise Unparsed("impl_commutative_binop_with_primitive has a new shape")
    b = body(dv, "impl_div_by_primitive")
    if b.count("type Output = $target;") != 4 or b.count(".div(rhs).try_into().unwrap()") != 4 or b.count("impl") < 5:
        raise Unparsed("impl_div_by_primitive has a new shape")
    b = body(dv, "impl_divrem_with_primitive")
    if b.count("type OutputRem = $target;") != 4 or b.count("(q, r.try_into().unwrap())") != 4:
        raise Unparsed("impl_divrem_with_primitive has a new shape")


def render_prim_out(repo):
    check_helper_macros(repo)
    table = {}   # (big_signed, prim_signed, iop, left) -> "PoBig" | "PoPrim"
    divrem = {}  # (big_signed, prim_signed) -> True
    for rel in ("integer/src/add_ops.rs", "integer/src/mul_ops.rs", "integer/src/div_ops.rs", "integer/src/bits.rs"):
        with open(os.path.join(repo, rel)) as f:
            src = strip_comments(f.read())
        for m in re.finditer(r"macro_rules!\s+(\w+)\s*\{\s*\(\s*\$\(\s*\$t:ty\s*\)\*\s*\)\s*=>\s*\{\s*\$\(", src):
            name = m.group(1)
            end = T.balanced(src, src.index("{", m.start()))
            body = src[m.end(): end]
            inv = re.findall(r"\b%s!\s*\(([^)]*)\)\s*;" % name, src)
            if len(inv) != 1:
                raise Unparsed("%s: %d invocations of %s" % (rel, len(inv), name))
            tys = set(inv[0].split())
            if not tys or not tys <= (UNSIGNED_T | SIGNED_T):
                raise Unparsed("%s: type list of %s" % (rel, name))
            signs = ([False] if tys & UNSIGNED_T else []) + ([True] if tys & SIGNED_T else [])
            lines = [re.sub(r"\s+", " ", x).strip() for x in body.split(";")]
            lines = [x for x in lines if x and not re.match(r"^[)*}\s]*$", x)]
            for ln in lines:
                ln = re.sub(r"^helper_macros::", "", ln)
                mm = re.match(r"^(impl_commutative_binop_with_primitive|impl_binop_with_primitive)!\(impl (\w+)<\$t> for (UBig|IBig), (\w+)( -> \$t)?\)$", ln)
                if mm:
                    kind, trait, big, _meth, ann = mm.groups()
                    if trait not in IOP:
                        raise Unparsed("%s: trait %s" % (rel, trait))
                    for ps in signs:
                        for left in ([False, True] if kind.startswith("impl_commutative") else [False]):
                            key = (big == "IBig", ps, IOP[trait], left)
                            if key in table:
                                raise Unparsed("%s: form %r generated twice" % (rel, key))
                            table[key] = "PoPrim" if ann else "PoBig"
                    continue
                mm = re.match(r"^impl_div_by_primitive!\(impl <\$t> for (UBig|IBig)\)$", ln)
                if mm:
                    for ps in signs:
                        key = (mm.group(1) == "IBig", ps, "IoDiv", True)
                        if key in table:
                            raise Unparsed("%s: form %r generated twice" % (rel, key))
                        table[key] = "PoPrim"
                    continue
                mm = re.match(r"^impl_divrem_with_primitive!\(impl <\$t> for (UBig|IBig)\)$", ln)
                if mm:
                    for ps in signs:
                        divrem[(mm.group(1) == "IBig", ps)] = True
                    continue
                if re.match(r"^impl_binop_assign_with_primitive!\(impl \w+Assign<\$t> for (UBig|IBig), \w+(, OutputRem = \$t)?\)$", ln):
                    continue
                raise Unparsed("%s: line `%s` in %s" % (rel, ln[:80], name))
    if not table:
        raise Unparsed("no primitive forms found")

    def b(x):
        return "true" if x else "false"
    rows = []
    for key in sorted(table, key=lambda k: (k[0], k[1], IOPS.index(k[2]), k[3])):
        rows.append("  | %s, %s, %s, %s => %s" % (b(key[0]), b(key[1]), key[2], b(key[3]), table[key]))
    out = ["(** primitive-operand forms: (big type is IBig?, primitive is signed?, operator, primitive on the left?)",
           "    -> the Output type of the generated impls (PoNone: no such impl) *)",
           "Inductive pout := PoBig | PoPrim | PoNone.",
           "Definition gen_prim_out (big_signed prim_signed : bool) (o : iop) (left : bool) : pout :=",
           "  match big_signed, prim_signed, o, left with"] + rows + ["  | _, _, _, _ => PoNone", "  end.", "",
           "Definition gen_prim_divrem (big_signed prim_signed : bool) : bool :=",
           "  match big_signed, prim_signed with"]
    for key in sorted(divrem):
        out.append("  | %s, %s => true" % (b(key[0]), b(key[1])))
    out += ["  | _, _ => false", "  end."]
    return "\n".join(out) + "\n"


# ================================================================================================
# 3. float fragments
# ================================================================================================
FLOAT_PRELUDE = """From Dashu Require Import Base.Prelude Float.RoundSpec Float.Model Float.AddModel Int.RingOps.
Open Scope Z_scope.

Definition gen_round_pair (B p : Z) (m : mode) (r : Z * Z) : Z * Z := approx_val (repr_round B p m (fst r) (snd r)).
"""

FIELD = {("self", "significand"): "s1", ("self", "exponent"): "e1", ("rhs", "significand"): "s2", ("rhs", "exponent"): "e2"}


def fbig_impls(src, trait):
    out = {}
    pat = re.compile(r"impl\s*<[^>{}]*>\s+%s\s*<\s*(&\s*'\w+\s+)?FBig\s*<\s*R\s*,\s*B\s*>\s*>\s+for\s+(&\s*'\w+\s+)?FBig\s*<\s*R\s*,\s*B\s*>\s*\{" % trait)
    for m in pat.finditer(src):
        o = own_of("R" if m.group(2) else "V", "R" if m.group(1) else "V")
        if o in out:
            raise Unparsed("two impls of %s for %s" % (trait, o))
        out[o] = src[m.start(): T.balanced(src, m.end() - 1)]
    if sorted(out) != sorted(OWNS):
        raise Unparsed("impls of %s found for %s" % (trait, sorted(out)))
    return out


def fexpr(e, env):
    """integer-valued / pair-valued expressions of the float operator bodies"""
    k = e[0]
    if k == "field" and e[1][0] == "field" and e[1][2] == "repr" and e[1][1][0] == "var" and (e[1][1][1], e[2]) in FIELD:
        return FIELD[(e[1][1][1], e[2])]
    if k == "field" and e[2] == "context" and e[1][0] == "var" and e[1][1] in ("self", "rhs"):
        return "p1" if e[1][1] == "self" else "p2"
    if k == "bin" and e[1] in ("+", "-", "*"):
        return "(%s %s %s)" % (fexpr(e[2], env), e[1], fexpr(e[3], env))
    if k == "app" and e[1] == "Context::max" and len(e[2]) == 2:
        return "(ctx_max %s %s)" % (fexpr(e[2][0], env), fexpr(e[2][1], env))
    if k == "app" and e[1] == "Repr::new" and len(e[2]) == 2:
        return "(normalize B %s %s)" % (fexpr(e[2][0], env), fexpr(e[2][1], env))
    if k == "var" and e[1] in env:
        return e[1]
    if k == "call" and e[1] == "value" and len(e[2]) == 1:
        r = e[2][0]
        if r[0] == "call" and r[1] == "repr_round" and len(r[2]) == 2 and r[2][0][0] == "var" and r[2][0][1] in env:
            return "(gen_round_pair B %s m %s)" % (r[2][0][1], fexpr(r[2][1], env))
    raise Unparsed("float expression %r" % (e,))


def render_float_mul(src):
    impls = fbig_impls(src, "Mul")
    out = []
    for o in OWNS:
        sub = impls[o]
        body = T.fn_body(sub, r"fn\s+mul\s*\(\s*self\s*,\s*rhs\s*:[^)]*\)\s*->\s*[^{]*")
        ast = T.P(T.tokenize(body)).block()
        stmts, final = ast[1], ast[2]
        checked = False
        lets, env = [], {}
        for s in stmts:
            if s[0] == "expr" and s[1][0] == "app" and s[1][1] == "assert_finite_operands":
                checked = True
                continue
            if s[0] == "let" and s[1][0] == "pvar":
                lets.append((s[1][1], fexpr(s[2], env)))
                env[s[1][1]] = True
                continue
            raise Unparsed("Mul %s: statement %r" % (o, s[0]))
        if not (final and final[0] == "app" and final[1] == "FBig::new" and len(final[2]) == 2):
            raise Unparsed("Mul %s: result is not FBig::new(..)" % o)
        res = "(%s, %s)" % (fexpr(final[2][0], env), fexpr(final[2][1], env))
        for n, v in reversed(lets):
            res = "let %s := %s in\n  %s" % (n, v, res)
        out.append("Definition gen_fmul_%s (B : Z) (m : mode) (p1 s1 e1 p2 s2 e2 : Z) : (Z * Z) * Z :=\n  %s.\n" % (o, res))
        out.append("Definition gen_fmul_%s_checks_finite : bool := %s.\n" % (o, "true" if checked else "false"))
    out.append("Definition gen_fmul (o : own) := match o with %s end.\n" % " | ".join("%s => gen_fmul_%s" % (o, o) for o in OWNS))
    out.append("Definition gen_fmul_checks_finite (o : own) : bool := match o with %s end.\n"
               % " | ".join("%s => gen_fmul_%s_checks_finite" % (o, o) for o in OWNS))
    return "\n".join(out)


def render_float_divrem(src):
    m = re.search(r"macro_rules!\s+impl_div_or_rem_for_fbig\s*\{", src)
    if not m:
        raise Unparsed("impl_div_or_rem_for_fbig not found")
    mac = src[m.start(): T.balanced(src, m.end() - 1)]
    if not re.search(r"\(\s*impl\s+\$op:ident\s*,\s*\$method:ident\s*,\s*\$repr_method:ident\s*\)\s*=>", mac):
        raise Unparsed("impl_div_or_rem_for_fbig: parameters")
    mac = mac.replace("$op", "OpTrait").replace("$method", "op_method").replace("$repr_method", "repr_method")
    impls = fbig_impls(mac, "OpTrait")
    out = []
    for o in OWNS:
        body = T.fn_body(impls[o], r"fn\s+op_method\s*\(\s*self\s*,\s*rhs\s*:[^)]*\)\s*->\s*[^{]*")
        ast = T.P(T.tokenize(body)).block()
        stmts, final = ast[1], ast[2]
        if not (len(stmts) == 1 and stmts[0][0] == "let" and stmts[0][1] == ("pvar", "context")):
            raise Unparsed("div/rem %s: statements" % o)
        ctx = fexpr(stmts[0][2], {})
        if not (final and final[0] == "app" and final[1] == "FBig::new" and len(final[2]) == 2 and final[2][1] == ("var", "context")):
            raise Unparsed("div/rem %s: result" % o)
        v = final[2][0]
        if not (v[0] == "call" and v[1] == "value" and v[2][0][0] == "call" and v[2][0][1] == "repr_method" and v[2][0][2][0] == ("var", "context")):
            raise Unparsed("div/rem %s: value" % o)

        def opnd(x, who):
            if x[0] == "call" and x[1] == "clone" and len(x[2]) == 1:
                x = x[2][0]
            if x == ("field", ("var", who), "repr"):
                return "r1" if who == "self" else "r2"
            raise Unparsed("div/rem %s: operand %r" % (o, x))
        a, b = v[2][0][2][1:]
        out.append("Definition gen_fdivrem_%s {A V : Type} (repr_method : Z -> A -> A -> V) (p1 : Z) (r1 : A) (p2 : Z) (r2 : A) : V * Z :=\n"
                   "  let context := %s in (repr_method context %s %s, context).\n" % (o, ctx, opnd(a, "self"), opnd(b, "rhs")))
    out.append("Definition gen_fdivrem {A V : Type} (o : own) := match o with %s end.\n"
               % " | ".join("%s => @gen_fdivrem_%s A V" % (o, o) for o in OWNS))
    insts = re.findall(r"impl_div_or_rem_for_fbig!\s*\(\s*impl\s+(\w+)\s*,\s*(\w+)\s*,\s*(\w+)\s*\)\s*;", src)
    names = {"Div": "FDivOp", "Rem": "FRemOp"}
    reprs = {"repr_div": "FReprDiv", "repr_rem": "FReprRem"}
    if not insts or any(i[0] not in names or i[2] not in reprs for i in insts):
        raise Unparsed("impl_div_or_rem_for_fbig: instantiations %r" % (insts,))
    out.append("Inductive fop_trait := FDivOp | FRemOp.\nInductive frepr_method := FReprDiv | FReprRem.")
    out.append("Definition gen_fdivrem_insts : list (fop_trait * frepr_method) := [%s].\n"
               % "; ".join("(%s, %s)" % (names[i[0]], reprs[i[2]]) for i in insts))
    taking = re.findall(r"impl_binop_assign_by_taking!\s*\(\s*impl\s+(\w+)<Self>\s*,\s*(\w+)\s*,\s*(\w+)\s*\)\s*;", src)
    out.append("(* op= by take-and-replace: %s *)" % ", ".join("%s -> %s" % (t[1], t[2]) for t in taking))
    return "\n".join(out)


def render_float_shift(src):
    out = []
    for trait, method, assign in (("Shl", "shl", False), ("ShlAssign", "shl_assign", True), ("Shr", "shr", False), ("ShrAssign", "shr_assign", True)):
        m = re.search(r"impl\s*<[^>{}]*>\s+%s\s*<\s*isize\s*>\s+for\s+FBig\s*<\s*R\s*,\s*B\s*>\s*\{" % trait, src)
        if not m:
            raise Unparsed("impl %s<isize> for FBig not found" % trait)
        sub = src[m.start(): T.balanced(src, m.end() - 1)]
        body = T.fn_body(sub, r"fn\s+%s\s*\(\s*(?:mut\s+self|&mut\s+self)\s*,\s*rhs\s*:\s*isize\s*\)\s*(?:->\s*[^{]*)?" % method)
        body = re.sub(r"\s+", " ", body)
        mm = re.match(r"^\{ (assert_finite\(&self\.repr\); )?(.*?)( self)? \}$", body)
        if not mm:
            raise Unparsed("%s: body" % trait)
        checked, rest, ret = mm.groups()
        if bool(ret) == assign:
            raise Unparsed("%s: return value" % trait)
        # a sequence of  [if !self.repr.is_zero() {] self.repr.exponent (+=|-=) rhs; [}]
        e = "e"
        pos = 0
        rest = rest.strip()
        steps = []
        while pos < len(rest):
            m1 = re.match(r"if !self\.repr\.is_zero\(\) \{ self\.repr\.exponent (\+=|-=) rhs; \}\s*", rest[pos:])
            m2 = re.match(r"self\.repr\.exponent (\+=|-=) rhs;\s*", rest[pos:])
            if m1:
                steps.append((True, m1.group(1)))
                pos += m1.end()
            elif m2:
                steps.append((False, m2.group(1)))
                pos += m2.end()
            else:
                raise Unparsed("%s: statement `%s`" % (trait, rest[pos:pos + 40]))
        for guarded, op in steps:
            upd = "(%s %s n)" % (e, "+" if op == "+=" else "-")
            e = "(if s =? 0 then %s else %s)" % (e, upd) if guarded else upd
        out.append("Definition gen_f%s (s e n : Z) : Z * Z := (s, %s).\nDefinition gen_f%s_checks_finite : bool := %s.\n"
                   % (method, e, method, "true" if checked else "false"))
    return "\n".join(out)


def render_float_iter(src):
    out = []
    for trait, method, name in (("Sum", "sum", "fsum"), ("Product", "product", "fprod")):
        m = re.search(r"impl\s*<[^{}]*>\s+%s\s*<\s*T\s*>\s+for\s+FBig\s*<\s*R\s*,\s*B\s*>[^{]*\{" % trait, src)
        if not m:
            raise Unparsed("impl %s<T> for FBig not found" % trait)
        sub = src[m.start(): T.balanced(src, m.end() - 1)]
        body = re.sub(r"\s+", " ", T.fn_body(sub, r"fn\s+%s\s*<[^{]*?->\s*Self\s*" % method))
        mm = re.match(r"^\{ iter\.fold\(FBig::(ZERO|ONE|NEG_ONE), FBig::(add|mul|sub|div)\) \}$", body)
        if not mm:
            raise Unparsed("%s: body `%s`" % (trait, body[:60]))
        out.append("Definition gen_%s {A : Type} (ZERO ONE NEG_ONE : A) (add sub mul div : A -> A -> A) (items : list A) : A :=\n"
                   "  fold_left %s items %s.\n" % (name, mm.group(2), mm.group(1)))
    return "\n".join(out)


METHODS = [("exp.rs", "exp"), ("exp.rs", "exp_m1"), ("exp.rs", "powi"), ("log.rs", "ln"), ("log.rs", "ln_1p"),
           ("root.rs", "sqrt"), ("mul.rs", "sqr"), ("mul.rs", "cubic"), ("div.rs", "inv")]
CTXM = ["exp", "exp_m1", "powi", "ln", "ln_1p", "sqrt", "sqr", "cubic", "inv", "powf", "mul", "div", "add", "sub"]


def render_float_methods(repo):
    rows = []
    for fn, meth in METHODS:
        with open(os.path.join(repo, "float/src", fn)) as f:
            src = strip_comments(f.read())
        # the method of FBig (receiver self / &self, no Repr parameter)
        found = []
        for m in re.finditer(r"fn\s+%s\s*\(\s*&?self\s*(?:,\s*(\w+)\s*:\s*[^)]*)?\)\s*->\s*[^{]*\{" % meth, src):
            body = re.sub(r"\s+", " ", src[m.end() - 1: T.balanced(src, m.end() - 1)])
            arg = m.group(1)
            mm = re.match(r"^\{ self\.context\.(\w+)\((?:&self\.repr|self\.repr\(\))(?:, (\w+))?\)\.value\(\) \}$", body)
            if mm and (mm.group(2) or None) == arg:
                found.append(mm.group(1))
            else:
                raise Unparsed("FBig::%s: body `%s`" % (meth, body[:70]))
        if not found or any(f != found[0] for f in found):
            raise Unparsed("FBig::%s: %d forwarding bodies" % (meth, len(found)))
        if found[0] not in CTXM:
            raise Unparsed("FBig::%s forwards to Context::%s" % (meth, found[0]))
        rows.append((meth, found[0]))
    out = ["Inductive fmeth := " + " | ".join("FM_" + c for c in CTXM) + ".",
           "(** FBig::<method> is  self.context.<Context method>(&self.repr, args).value() *)",
           "Definition gen_fmethod_forwards : list (fmeth * fmeth) := [%s].\n" % "; ".join("(FM_%s, FM_%s)" % r for r in rows)]
    return "\n".join(out)


def render_float(repo):
    def rd(fn):
        with open(os.path.join(repo, "float/src", fn)) as f:
            return strip_comments(f.read())
    out = ["(** GENERATED by tools/translate_c15_r3.py from float/src/{mul,div,shift,iter,exp,log,root}.rs - do not edit. *)", FLOAT_PRELUDE]
    for title, fn in (("float/src/mul.rs: the four hand-written impls of Mul", lambda: render_float_mul(rd("mul.rs"))),
                      ("float/src/div.rs: impl_div_or_rem_for_fbig", lambda: render_float_divrem(rd("div.rs"))),
                      ("float/src/shift.rs", lambda: render_float_shift(rd("shift.rs"))),
                      ("float/src/iter.rs", lambda: render_float_iter(rd("iter.rs"))),
                      ("FBig methods that forward to the Context method", lambda: render_float_methods(repo))):
        try:
            out.append("(** %s *)" % title)
            out.append(fn())
        except Unparsed as ex:
            raise Unparsed("%s: %s" % (title.split(":")[0], ex))
        except (SyntaxError, LookupError, ValueError, T.Unsupported, IndexError, AttributeError, TypeError) as ex:
            raise Unparsed("%s: %s" % (title.split(":")[0], str(ex).replace("\n", " ")))
    return "\n".join(out) + "\n"


# ================================================================================================
# 4. residue forms (integer/src/modular/{add,mul,div}.rs): which impl forwards to which
# ================================================================================================
MOD_OPS = [("add", "Add", "add.rs"), ("sub", "Sub", "add.rs"), ("mul", "Mul", "mul.rs"), ("div", "Div", "div.rs")]
MOD_BODIES = ["add_assign_R", "sub_assign_R", "sub_RV", "mul_assign_R", "div_RR"]


def render_mod(repo):
    srcs = {}
    for fn in ("add.rs", "mul.rs", "div.rs"):
        with open(os.path.join(repo, "integer/src/modular", fn)) as f:
            srcs[fn] = re.sub(r"#\[[^\]]*\]", "", strip_comments(f.read()))
    defs = {}   # name -> (text, dependency or None)
    for meth, trait, fn in MOD_OPS:
        src = srcs[fn]
        for tr, assign in ((trait, False), (trait + "Assign", True)):
            pat = re.compile(r"impl\s*<'a>\s+%s\s*<\s*(&?)\s*Reduced\s*<'a>\s*>\s+for\s+(&?)\s*Reduced\s*<'a>\s*\{" % tr)
            seen = set()
            for m in pat.finditer(src):
                rk = "R" if m.group(1) else "V"
                lk = "R" if m.group(2) else "V"
                if assign and lk != "V":
                    raise Unparsed("%s for &Reduced" % tr)
                name = ("%s_assign_%s" % (meth, rk)) if assign else ("%s_%s%s" % (meth, lk, rk))
                if name in seen:
                    raise Unparsed("two impls %s" % name)
                seen.add(name)
                sub = src[m.start(): T.balanced(src, m.end() - 1)]
                mname = meth + ("_assign" if assign else "")
                body = T.fn_body(sub, r"fn\s+%s\s*\(\s*(?:mut\s+self|&mut\s+self|self)\s*,\s*(?:mut\s+)?rhs\s*:[^)]*\)\s*(?:->\s*[^{]*)?" % mname)
                b = re.sub(r"\s+", " ", body)[1:-1].strip()
                kinds = {"self": lk, "rhs": rk}

                def fwd(method, k0, k1, a0, a1):
                    if method.endswith("_assign"):
                        if k0 != "V":
                            raise Unparsed("%s: assign on a reference" % name)
                        return "%s_%s" % (method, k1), a0, a1
                    return "%s_%s%s" % (method, k0, k1), a0, a1
                tgt = None
                if b.startswith("match "):
                    if name not in MOD_BODIES:
                        raise Unparsed("%s has a body of its own" % name)
                    defs[name] = ("rk_%s K a b" % name, None)
                    continue
                mm = re.match(r"^self\.(\w+)\((&?)rhs\)$", b)
                if mm:
                    tgt = fwd(mm.group(1), lk, "R" if mm.group(2) else rk, "a", "b")
                mm = re.match(r"^rhs\.(\w+)\(self\)$", b)
                if mm:
                    tgt = fwd(mm.group(1), rk, lk, "b", "a")
                mm = re.match(r"^self\.clone\(\)\.(\w+)\((&?)rhs\)$", b)
                if mm and lk == "R":
                    tgt = fwd(mm.group(1), "V", "R" if mm.group(2) else rk, "a", "b")
                mm = re.match(r"^\(&self\)\.(\w+)\((&?)rhs\)$", b)
                if mm and lk == "V":
                    tgt = fwd(mm.group(1), "R", "R" if mm.group(2) else rk, "a", "b")
                mm = re.match(r"^self\.(\w+_assign)\((&?)rhs\); self$", b)
                if mm and lk == "V" and not assign:
                    tgt = fwd(mm.group(1), "V", "R" if mm.group(2) else rk, "a", "b")
                mm = re.match(r"^\*self = \(&\*self\)\.(\w+)\((&?)rhs\);?$", b)
                if mm and assign:
                    tgt = fwd(mm.group(1), "R", "R" if mm.group(2) else rk, "a", "b")
                if tgt is None:
                    raise Unparsed("%s: body `%s`" % (name, b[:60]))
                if tgt[0] == name or not re.match(r"^(add|sub|mul|div)(_assign_[VR]|_[VR][VR])$", tgt[0]):
                    raise Unparsed("%s forwards to %s" % (name, tgt[0]))
                defs[name] = ("gen_r%s K %s %s" % tgt, tgt[0])
            want = {("%s_assign_%s" % (meth, k)) for k in "VR"} if assign else {("%s_%s%s" % (meth, a, c)) for a in "VR" for c in "VR"}
            if seen != want:
                raise Unparsed("impls of %s: %s" % (tr, sorted(seen)))
    for b in MOD_BODIES:
        if defs.get(b, (None, 1))[1] is not None:
            raise Unparsed("%s is not a body any more" % b)
    order, done = [], set()

    def visit(n, stack):
        if n in done:
            return
        if n in stack or n not in defs:
            raise Unparsed("forwarding cycle / missing target at %s" % n)
        if defs[n][1] is not None:
            visit(defs[n][1], stack | {n})
        done.add(n)
        order.append(n)
    for n in sorted(defs):
        visit(n, set())
    out = ["(** GENERATED by tools/translate_c15_r3.py from integer/src/modular/{add,mul,div}.rs - do not edit. *)",
           "From Dashu Require Import Base.Prelude Int.RingOps.", "Open Scope Z_scope.", "",
           "(** the impls with a body of their own (a match on the three representations) *)",
           "Record res_kernels (T : Type) := {\n%s\n}." % ";\n".join("  rk_%s : T -> T -> result T" % b for b in MOD_BODIES),
           "\n".join("Arguments rk_%s {T}." % b for b in MOD_BODIES), "",
           "(** every other impl forwards: [a] = self, [b] = rhs *)"]
    for n in order:
        out.append("Definition gen_r%s {T : Type} (K : res_kernels T) (a b : T) : result T := %s." % (n, defs[n][0]))
    out.append("")
    for meth, _, _ in MOD_OPS:
        out.append("Definition gen_r%s {T : Type} (K : res_kernels T) (o : own) (a b : T) : result T :=\n  match o with %s end."
                   % (meth, " | ".join("O%s => gen_r%s_%s K a b" % (k, meth, k) for k in ("VV", "VR", "RV", "RR"))))
        out.append("Definition gen_r%s_assign {T : Type} (K : res_kernels T) (byref : bool) (a b : T) : result T :=\n"
                   "  if byref then gen_r%s_assign_R K a b else gen_r%s_assign_V K a b." % (meth, meth, meth))
    return "\n".join(out) + "\n"


# ================================================================================================
# 5. rational helper macros (rational/src/helper_macros.rs): what each ownership arm hands the body
# ================================================================================================
RAT_RULES = [("RmBin", "impl_binop_with_macro", r"\(impl \$trait:ident for \$t:ty, \$method:ident -> \$omethod:ty, \$impl:ident\)"),
             ("RmBin2", "impl_binop_with_macro", r"\(impl \$trait:ident for \$t:ty, \$method:ident, \$o1:ident = \$ty_o1:ty, \$o2:ident = \$ty_o2:ty, \$impl:ident\)"),
             ("RmIntRight", "impl_binop_with_int", r"\(impl \$trait:ident<\$int:ty>, \$method:ident, \$t:ty, \$impl:ident\)"),
             ("RmIntLeft", "impl_binop_with_int", r"\(impl \$trait:ident for \$int:ty, \$method:ident, \$t:ty, \$impl:ident\)")]


def rat_eval(expr, env, intside):
    """sources of a (tuple) expression"""
    expr = expr.strip()
    if expr.startswith("(") and expr.endswith(")"):
        return [x for part in split_top(expr[1:-1]) for x in rat_eval(part, env, intside)]
    if expr.startswith("&"):
        return rat_eval(expr[1:], env, intside)
    if expr.endswith(".clone()"):
        return rat_eval(expr[:-8], env, intside)
    for who, tag in (("self", "Self"), ("rhs", "Rhs")):
        if expr == who + ".into_parts()":
            if intside == who:
                raise Unparsed("into_parts of the integer operand")
            return [tag + "Num", tag + "Den"]
        if expr == who + ".numerator()" and intside != who:
            return [tag + "Num"]
        if expr == who + ".denominator()" and intside != who:
            return [tag + "Den"]
        if expr == who and intside == who:
            return [tag + "Int"]
    if expr in env:
        return [env[expr]]
    raise Unparsed("rational macro expression `%s`" % expr[:40])


def split_top(s):
    out, d, cur = [], 0, ""
    for ch in s:
        if ch == "(":
            d += 1
        elif ch == ")":
            d -= 1
        if ch == "," and d == 0:
            out.append(cur)
            cur = ""
        else:
            cur += ch
    if cur.strip():
        out.append(cur)
    return [x.strip() for x in out]


def render_rat(repo):
    with open(os.path.join(repo, "rational/src/helper_macros.rs")) as f:
        src = strip_comments(f.read())
    rows = []
    for rid, mac, head in RAT_RULES:
        m = re.search(r"macro_rules!\s+%s\s*\{" % mac, src)
        if not m:
            raise Unparsed("macro %s not found" % mac)
        body = re.sub(r"\s+", " ", src[m.start(): T.balanced(src, m.end() - 1)])
        hm = re.search(head + r" => \{", body)
        if not hm:
            raise Unparsed("%s: rule %s not found" % (mac, rid))
        rule = body[hm.end() - 1: T.balanced(body, hm.end() - 1)]
        seen = {}
        for im in re.finditer(r"impl(?:<[^>]*>)? \$trait(?:<(&'\w+ )?(\$t|\$int)>)? for (&'\w+ )?(\$t|\$int) \{", rule):
            rk = "R" if im.group(1) else "V"
            lk = "R" if im.group(3) else "V"
            o = own_of(lk, rk)
            blk = rule[im.end() - 1: T.balanced(rule, im.end() - 1)]
            fm = re.search(r"fn \$method\(self, rhs: [^)]*\) -> [^{]* \{", blk)
            if not fm:
                raise Unparsed("%s %s: fn" % (rid, o))
            fb = blk[fm.end() - 1: T.balanced(blk, fm.end() - 1)][1:-1].strip()
            intside = {"RmIntRight": "rhs", "RmIntLeft": "self"}.get(rid)
            env = {}
            stmts = [x.strip() for x in fb.split(";") if x.strip()]
            call = stmts.pop()
            for st in stmts:
                lm = re.match(r"^let \(([\w, ]+)\) = (.*)$", st)
                if not lm:
                    raise Unparsed("%s %s: statement `%s`" % (rid, o, st[:40]))
                names = [x.strip() for x in lm.group(1).split(",")]
                vals = rat_eval(lm.group(2), env, intside)
                if len(names) != len(vals):
                    raise Unparsed("%s %s: arity of `%s`" % (rid, o, st[:40]))
                env.update(zip(names, vals))
            cm = re.match(r"^\$impl!\((.*), \$method\)$", call)
            if not cm:
                raise Unparsed("%s %s: call `%s`" % (rid, o, call[:40]))
            seen[o] = [x for a in split_top(cm.group(1)) for x in rat_eval(a, env, intside)]
        if sorted(seen) != sorted(OWNS):
            raise Unparsed("%s: arms %s" % (rid, sorted(seen)))
        for o in OWNS:
            rows.append("  | %s, %s => [%s]" % (rid, o, "; ".join(seen[o])))
    at = re.sub(r"\s+", " ", src)
    if at.count("*self = core::mem::take(self).$method(rhs);") != 2:
        raise Unparsed("impl_binop_assign_by_taking has a new shape")
    out = ["(** GENERATED by tools/translate_c15_r3.py from rational/src/helper_macros.rs - do not edit. *)",
           "From Dashu Require Import Base.Prelude Int.RingOps.", "",
           "(** what an argument of the operator body `$impl!(..)` is bound to in an ownership arm *)",
           "Inductive rsrc := SelfNum | SelfDen | RhsNum | RhsDen | SelfInt | RhsInt.",
           "Inductive rrule := %s." % " | ".join(r[0] for r in RAT_RULES),
           "Definition gen_ratio_arm (r : rrule) (o : own) : list rsrc :=", "  match r, o with"] + rows + ["  end.",
           "(** op= : *self = core::mem::take(self).$method(rhs), by value and by reference *)",
           "Definition gen_ratio_assign_by_taking : bool := true."]
    return "\n".join(out) + "\n"


# ================================================================================================
FRAGMENTS = [("FormsArms", "FormsArms.v", render_arms, "Definition gen_prim_out"),
             ("FormsFloatGen", "FormsFloatGen.v", render_float, "Definition gen_fmethod_forwards"),
             ("FormsModGen", "FormsModGen.v", render_mod, "Definition gen_rdiv_assign"),
             ("FormsRatGen", "FormsRatGen.v", render_rat, "Definition gen_ratio_arm")]


def _write_if_changed(path, txt):
    old = None
    if os.path.exists(path):
        with open(path) as f:
            old = f.read()
    if old != txt:
        with open(path, "w") as f:
            f.write(txt)


def generate(repo, outdir):
    """regenerates the fragments; returns {name: "ok" | "unparsed <reason>"}.  Never raises."""
    res = {}
    for name, fname, render, marker in FRAGMENTS:
        path = os.path.join(outdir, fname)
        try:
            os.makedirs(outdir, exist_ok=True)
            try:
                txt = render(repo)
            except (Unparsed, OSError, UnicodeDecodeError, RecursionError) as ex:
                why = re.sub(r"\s+", " ", str(ex)).strip()[:200] or ex.__class__.__name__
                old = None
                if os.path.exists(path):
                    with open(path) as f:
                        old = f.read()
                if old is None or marker not in old:
                    with open(os.path.join(FALLBACK_DIR, fname + ".txt")) as f:
                        old = f.read()
                if not old.startswith(STALE):
                    old = STALE + " " + old
                _write_if_changed(path, old)
                res[name] = "unparsed " + why
                continue
            _write_if_changed(path, txt)
            res[name] = "ok"
        except Exception as ex:  # never an alarm
            res[name] = "unparsed internal %s" % re.sub(r"\s+", " ", repr(ex))[:160]
    return res


def main():
    ap = argparse.ArgumentParser()
    ap.add_argument("--repo", default=os.environ.get("VERIF_REPO", "/repo"))
    ap.add_argument("--out", required=True)
    a = ap.parse_args()
    for name, st in generate(a.repo, a.out).items():
        print("FRAGMENT %s %s" % (name, st))
    return 0


if __name__ == "__main__":
    sys.exit(main())
