#!/usr/bin/env python3
"""Entry point: tools/check.py <ID> [--tier quick|thorough] [--replay FILE] [--seed N] [--no-coq]"""
import argparse
import collections
import json
import os
import sys
import time

sys.path.insert(0, os.path.dirname(os.path.abspath(__file__)))
import core
from core import ROOT, log


def write_replay(pid, name, payload):
    d = os.path.join(ROOT, "replays")
    os.makedirs(d, exist_ok=True)
    p = os.path.join(d, "%s_%s.json" % (pid, name))
    with open(p, "w") as f:
        json.dump(payload, f, indent=1)
    return p


def judge(plugin, oracle_exe, cases, answers, case_timeout):
    """cases: list of (id, text); answers: id -> impl answer. returns id -> verdict line"""
    lines = [(i, "%s => %s" % (t, answers.get(i, "noanswer"))) for i, t in cases]
    return core.run_sharded(oracle_exe, lines, case_timeout=max(case_timeout, 60))


def parse_verdict(v):
    toks = v.split()
    verdict = toks[0] if toks else "noverdict"
    kv = {}
    for t in toks[1:]:
        if "=" in t:
            k, x = t.split("=", 1)
            kv[k] = x
    return verdict, kv


def shrink_case(plugin, exe, oracle_exe, text, case_timeout, harness_env=None, budget=60):
    """greedy shrinking of hex-integer arguments; keeps the case failing with the same verdict class"""
    if not getattr(plugin, "SHRINK", True):
        return text
    t_end = time.time() + budget

    valid = getattr(plugin, "valid", lambda t: True)

    def fails(t):
        if not valid(t):
            return False
        a = core.run_lines(exe, [(0, t)], case_timeout, env=harness_env)
        v = core.run_lines(oracle_exe, [(0, "%s => %s" % (t, a.get(0, "noanswer")))], 60)
        return parse_verdict(v.get(0, "noverdict"))[0] == "fail"

    toks = text.split()
    changed = True
    while changed and time.time() < t_end:
        changed = False
        for i in range(1, len(toks)):
            tok = toks[i]
            neg = tok.startswith("-")
            body = tok[1:] if neg else tok
            if len(body) <= 4 or any(c not in "0123456789abcdef" for c in body):
                continue
            v = int(body, 16)
            cands = []
            nb = v.bit_length()
            for cut in (nb // 2, nb - 64, nb - 8):
                if 0 < cut < nb:
                    cands.append(v >> (nb - cut))
                    cands.append(v & ((1 << cut) - 1))
            cands.append(1 << (nb - 1))
            cands.append((1 << (nb - 1)) | (v & ((1 << 64) - 1)))
            for c in cands:
                if c == v or c <= 0:
                    continue
                nt = list(toks)
                nt[i] = ("-" if neg else "") + format(c, "x")
                if time.time() > t_end:
                    break
                if fails(" ".join(nt)):
                    toks = nt
                    changed = True
                    break
    return " ".join(toks)


def main():
    ap = argparse.ArgumentParser()
    ap.add_argument("pid")
    ap.add_argument("--tier", default=os.environ.get("VERIF_TIER", "quick"))
    ap.add_argument("--seed", type=int, default=int(os.environ.get("VERIF_SEED", "20260926")))
    ap.add_argument("--replay")
    ap.add_argument("--no-coq", action="store_true", help="(debugging only) skip the proof phase")
    ap.add_argument("--cases", type=int, default=0, help="override the number of generated cases")
    args = ap.parse_args()
    pid = args.pid
    tier = args.tier if args.tier in ("quick", "thorough") else "quick"
    t0 = time.time()
    plugin = core.load_plugin(pid)
    known = core.load_known(pid)
    open_known = {f["class"]: f for f in known if f.get("status") == "open"}
    violations = []  # (replay path, suffix)
    notes = []

    # ---------------------------------------------------------------- replay mode
    if args.replay:
        rp = json.load(open(args.replay))
        exe, out = core.harness_build(plugin.HARNESS_BIN)
        if exe is None:
            print(out[-2000:])
            sys.exit(2)
        oracle = core.oracle_build(plugin.ORACLE)
        text = rp["case"]
        a = core.run_lines(exe, [(0, text)], 120)
        v = core.run_lines(oracle, [(0, "%s => %s" % (text, a.get(0, "noanswer")))], 300)
        print("case   :", text[:2000])
        print("impl   :", a.get(0, "noanswer")[:2000])
        print("oracle :", v.get(0, "noverdict")[:2000])
        verdict = parse_verdict(v.get(0, "noverdict"))[0]
        if verdict == "fail" or (verdict.startswith("known:") and verdict[6:] not in open_known):
            print("VIOLATION property=%s replay=%s" % (pid, args.replay))
            sys.exit(1)
        sys.exit(0)

    # ---------------------------------------------------------------- proof phase
    if args.no_coq:
        coq = {"obligations": 0, "discharged": 0, "failed": [], "axioms": [], "translator": {}, "theorems": [], "wall_s": 0}
    else:
        coq = core.coq_phase(pid, extra_allowed=getattr(plugin, "EXTRA_AXIOMS", ()))
        log("coq: %d/%d obligations discharged in %.0fs" % (coq["discharged"], coq["obligations"], coq["wall_s"]))
        if tier == "thorough" and not coq["failed"] and coq["obligations"]:
            chk = core.coqchk(pid)
            coq["coqchk"] = {k: chk.get(k) for k in ("ok", "axioms", "unsafe", "wall_s", "timed_out")}
            log("coqchk: %s in %.0fs, axioms %s" % ("ok" if chk["ok"] else "FAILED", chk["wall_s"], chk["axioms"] or "<none>"))
            if not chk["ok"]:
                coq["failed"].append({"where": "coqchk DashuProps.%s" % pid, "theorem": None, "log": chk["tail"]})
                coq["discharged"] = 0
    proof_broken = bool(coq["failed"])
    search_tier = "thorough" if proof_broken else tier

    # ---------------------------------------------------------------- extraction mappings validated (cached)
    rc_st, out_st = core.run([sys.executable, os.path.join(ROOT, "tools", "fastz_selftest.py")], timeout=1200)
    selftest = out_st.strip().splitlines()[-1] if out_st.strip() else "no output"
    if rc_st != 0:
        print("check machinery broken: " + selftest)
        sys.exit(2)

    # ---------------------------------------------------------------- builds
    tie_broken = None
    oracle = None
    try:
        oracle = core.oracle_build(plugin.ORACLE)
    except Exception as ex:  # model no longer builds: the proof phase must have failed too
        tie_broken = "oracle build failed: %s" % str(ex)[-1500:]
        log(tie_broken)
    configs = getattr(plugin, "CONFIGS", ["default"])
    exes = {}
    for cfg in configs:
        exe, out = core.harness_build(plugin.HARNESS_BIN, cfg)
        if exe is None:
            tie_broken = "harness build failed (%s): %s" % (cfg, out[-1500:])
            log(tie_broken)
        else:
            exes[cfg] = exe

    # ---------------------------------------------------------------- cases
    stats = collections.Counter()
    hist = collections.Counter()
    samples = []
    nontrivial = set()
    evaluations = 0
    known_seen = collections.Counter()
    fidelity = collections.Counter()
    case_timeout = getattr(plugin, "CASE_TIMEOUT", {"quick": 20, "thorough": 120})[search_tier]
    if oracle and exes:
        rng = core.Rng(args.seed)
        corpus = []
        cp = os.path.join(ROOT, "corpus", pid + ".txt")
        if os.path.exists(cp):
            corpus = [l.strip() for l in open(cp) if l.strip() and not l.startswith("#")]
        n = args.cases or plugin.NCASES[search_tier]
        gen = plugin.gen_cases(rng, search_tier, n)
        texts = corpus + gen
        cases = list(enumerate(texts))
        log("%d cases (%d corpus + %d generated), tier %s" % (len(cases), len(corpus), len(gen), search_tier))
        all_answers = {}
        for cfg, exe in exes.items():
            tA = time.time()
            answers = core.run_sharded(exe, cases, case_timeout=case_timeout)
            all_answers[cfg] = answers
            log("impl[%s] answered %d cases in %.0fs" % (cfg, len(answers), time.time() - tA))
            tB = time.time()
            verdicts = judge(plugin, oracle, cases, answers, case_timeout)
            log("oracle judged %d cases in %.0fs" % (len(verdicts), time.time() - tB))
            evaluations += len(cases)
            failing = []
            for i, t in cases:
                verdict, kv = parse_verdict(verdicts.get(i, "noverdict"))
                op = t.split(" ", 1)[0]
                hist["op:" + op] += 1
                a = answers.get(i, "noanswer")
                hist["outcome:" + a.split(" ", 1)[0]] += 1
                if "cls" in kv:
                    hist["class:" + kv["cls"]] += 1
                if "path" in kv:
                    hist["path:" + op + ":" + kv["path"]] += 1
                if kv.get("nt") == "1":
                    nontrivial.add(t)
                if "asis" in kv:
                    fidelity[kv["asis"]] += 1
                if verdict in ("hang", "noverdict", "noanswer") or verdict.startswith("crash"):
                    # the ORACLE did not finish this case within its budget (even alone with three times the budget) or
                    # died on it: that says nothing about the implementation - undecided, counted and listed, never an alarm
                    stats["undecided"] += 1
                    hist["oracle-undecided:" + verdict.split()[0]] += 1
                    if len(notes) < 20:
                        notes.append("oracle gave no verdict (%s) on: %s" % (verdict, t[:200]))
                elif verdict == "pass":
                    stats["pass"] += 1
                elif verdict.startswith("known:"):
                    tag = verdict[6:]
                    if tag in open_known:
                        stats["known"] += 1
                        known_seen[tag] += 1
                    else:
                        failing.append((i, t, a, verdicts.get(i), "unlisted finding class " + tag))
                elif verdict == "skip":
                    stats["undecided"] += 1
                else:
                    failing.append((i, t, a, verdicts.get(i, "noverdict"), verdict))
                if len(samples) < 12 and (i % max(1, len(cases) // 12) == 0):
                    samples.append({"case": t[:300], "impl": a[:200], "oracle": verdicts.get(i, "")[:200], "config": cfg})
            # report: group failures by op, shrink the first of each group
            by_op = collections.OrderedDict()
            for f in failing:
                by_op.setdefault(f[1].split(" ", 1)[0], []).append(f)
            for op, fl in by_op.items():
                i, t, a, v, why = fl[0]
                small = t
                try:
                    small = shrink_case(plugin, exe, oracle, t, case_timeout)
                except Exception as ex:
                    notes.append("shrinking failed: %r" % ex)
                a2 = core.run_lines(exe, [(0, small)], case_timeout).get(0, "noanswer")
                v2 = core.run_lines(oracle, [(0, "%s => %s" % (small, a2))], 120).get(0, "noverdict")
                rp = write_replay(pid, "%s_%s_%d" % (cfg, op, i), {
                    "property": pid, "config": cfg, "case": small, "impl": a2, "oracle": v2,
                    "original_case": t if small != t else None, "seed": args.seed, "index": i, "tier": search_tier,
                    "failures_of_this_op": len(fl),
                    "replay": "./check %s --replay <this file>" % pid})
                violations.append((rp, ""))
                stats["violations"] += len(fl)
        # cross-configuration agreement (C19 and friends)
        if len(exes) > 1:
            cfgs = list(exes)
            base = all_answers[cfgs[0]]
            for c in cfgs[1:]:
                diff = [(i, t) for i, t in cases if plugin.canon_answer(base.get(i, "")) != plugin.canon_answer(all_answers[c].get(i, ""))]
                hist["config_diff:" + c] = len(diff)
                for i, t in diff[:3]:
                    rp = write_replay(pid, "cfgdiff_%s_%d" % (c, i), {"property": pid, "case": t, cfgs[0]: base.get(i), c: all_answers[c].get(i), "seed": args.seed, "index": i})
                    violations.append((rp, ""))
                    stats["violations"] += 1
    # extra, property-specific phase (e.g. compile-time checks of C20, exhaustive finite domains)
    if hasattr(plugin, "extra_phase") and not tie_broken:
        ex = plugin.extra_phase(search_tier, args.seed, exes, oracle)
        evaluations += ex.get("evaluations", 0)
        for k, v in ex.get("hist", {}).items():
            hist[k] += v
        for item in ex.get("nontrivial", []):
            nontrivial.add(item)
        samples += ex.get("samples", [])[:4]
        for f in ex.get("failures", []):
            rp = write_replay(pid, "extra_%d" % len(violations), dict(f, property=pid))
            violations.append((rp, ""))
            stats["violations"] += 1

    # ---------------------------------------------------------------- broken proof / tie without a witness
    if (proof_broken or tie_broken) and not violations:
        payload = {
            "property": pid,
            "kind": "proof-or-tie-broken",
            "no_longer_checks": [f for f in coq["failed"]] + ([{"tie": tie_broken}] if tie_broken else []),
            "searched": {"tier": search_tier, "evaluations": evaluations, "seed": args.seed},
            "note": "a proof obligation or the model/implementation tie no longer checks; the search of model and implementation found no concrete failing input",
        }
        rp = write_replay(pid, "broken", payload)
        violations.append((rp, " no-failing-input-found"))
    elif proof_broken and violations:
        notes.append("proof obligation broken as well: %s" % json.dumps(coq["failed"])[:500])

    # ---------------------------------------------------------------- evidence
    wall = time.time() - t0
    ev = {
        "property_id": pid,
        "tier": tier,
        "seed": args.seed,
        "level": "proof",
        "coverage": {
            "obligations": max(1, coq["obligations"]),
            "discharged": coq["discharged"],
            "coqchk": coq.get("coqchk", "not run in this tier (thorough tier re-checks props/<id>.vo and its dependencies with coqchk -o)"),
            "checker_cmd": "make -C coq props/%s.vo  (coqc 8.16.1 full .vo build; Print Assumptions gate; forbidden-construct grep)" % pid,
            "trusted_base": plugin.TRUSTED_BASE,
            "theorems": coq.get("theorems", []),
            "axioms_reported": coq.get("axioms", []),
            "translator": coq.get("translator", {}),
            "evaluations": evaluations,
            "distinct_nontrivial": len(nontrivial),
            "rule": plugin.RULE,
            "samples": samples if samples else [{"note": "no cases were run"}],
            "histogram": dict(sorted(hist.items())[:400]),
            "pass": stats["pass"],
            "undecided": stats["undecided"],
            "known_findings_reproduced": dict(known_seen),
            "model_fidelity": dict(fidelity),
            "configs": list(exes.keys()),
            "extraction_selftest": selftest,
            "explanation": plugin.EXPLANATION,
            "notes": notes,
            "proof_failures": coq["failed"],
        },
        "assumptions": plugin.ASSUMPTIONS,
        "wall_s": round(wall, 2),
        "violations": len(violations),
    }
    # evidence/<id>.json is only written by a registered-style run (against /repo itself, proofs on, default case
    # count); scratch runs (VERIF_REPO=<worktree>, --no-coq, --cases N) record theirs under .cache/evidence_scratch/
    scratch = core.REPO != "/repo" or args.no_coq or bool(args.cases)
    evdir = os.path.join(core.CACHE, "evidence_scratch") if scratch else os.path.join(ROOT, "evidence")
    os.makedirs(evdir, exist_ok=True)
    with open(os.path.join(evdir, pid + ".json"), "w") as f:
        json.dump(ev, f, indent=1, sort_keys=True)

    for tag, fnd in open_known.items():
        print("KNOWN-FINDING: property=%s %s [class %s; reproduced in %d cases of this run]" % (pid, fnd["what"], tag, known_seen.get(tag, 0)))
    if stats["undecided"]:
        log("undecided cases: %d" % stats["undecided"])
    log("done in %.0fs: %s" % (wall, dict(stats)))
    if violations:
        for rp, suffix in violations[:10]:
            print("VIOLATION property=%s replay=%s%s" % (pid, rp, suffix))
        sys.exit(1)
    print("OK property=%s obligations=%d/%d evaluations=%d nontrivial=%d" % (pid, coq["discharged"], coq["obligations"], evaluations, len(nontrivial)))
    sys.exit(0)


if __name__ == "__main__":
    main()
