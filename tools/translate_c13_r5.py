#!/usr/bin/env python3
"""C13 round 5 translator: the BODIES of the multi-word ring kernels of integer/src/modular/{add,repr}.rs -> Gallina
(coq/gen/ModRingBodiesGen.v).  Proved equal to the hand models of Int/ModRingWords.v / ModRingClone.v in
Int/ModRingBodiesGenProofs.v, so an edit of a body (a dropped zero guard, a dropped `*ring = src_ring`, another kernel,
a changed assertion) breaks a proof obligation as well as the correspondence run.

Reuses tools/translate_c01_r4.py AS A LIBRARY: its tokenizer / parser (parse_fns, Parser: statements and expression
trees) read the Rust text; the statement compiler below is specific to the straight-line shape of these bodies:

  fn f(ring: &ConstLargeDivisor, x: &mut ReducedLarge, y: &ReducedLarge)      ->   f_gen (w : Z) (nd : list Z) (shift : Z) (x y : list Z)
                                                                                     : result (list Z)      (the `&mut` operand afterwards)
  ring.normalized_divisor -> nd, ring.shift -> shift, x.0 -> x (a ReducedLarge is its word list)
  debug_assert!(c);            -> if c then .. else Panic Undocumented       (KEPT: the harness build has debug assertions on)
  debug_assert_eq!(a, b);      -> if a =? b then .. else Panic Undocumented
  let modulus = &ring.normalized_divisor;          alias
  let o = add::add_same_len_in_place(&mut a.0, b)  -> let '(a, o) := add_same_len w a b in     (kernels of add.rs / shift.rs / cmp.rs
  let o = add::sub_same_len_in_place(&mut a.0, b)  -> let '(a, o) := sub_same_len w a b in      are ATOMS: the hand models of
  let o = add::sub_same_len_in_place_swap(a, &mut b.0) -> let '(b, o) := sub_same_len w a b in  DivWordModel.v; C01 / C02 regenerate
  let o = shift::shl_in_place(&mut a.0, k) > 0     -> let '(a, c) := shl_in_place w a k in let o := if 0 <? c then 1 else 0 in   and prove them)
  if c { .. }                  -> if c then <body; rest> else <rest>          (continuation duplicated)
  x.is_valid(ring)             -> is_valid_gen w nd shift x                   (ReducedLarge::is_valid, regenerated as well)
  x.0.iter().all(|w| *w == 0)  -> all_zero x                                 (textual idiom)
  cmp::cmp_same_len(a, b).is_ge() / .is_lt(), a.len() == b.len(), a[0] & math::ones_word(s) == 0, &&, ||, !
  carry / borrow flags are Z (0 / 1) as in DivWordModel.v: a flag in a condition reads `(o =? 1)`, `!o` reads `(o =? 0)`.

  Clone for ReducedRepr (value level, record `reduced` = raw + ring): `clone` must rebuild every arm from its own fields;
  `clone_from`: the `if let (Large, Large)` arm sets the fields its statements assign (`*ring = src_ring;` the ring,
  `raw.0.clone_from(&src_raw.0)` the content; a field not assigned keeps the DESTINATION's value), the else arm is
  `*self = source.clone()`.

generate(repo, outdir) -> "ok" | "ok unparsed=<names>" | "unparsed <why>"; never raises; a function that cannot be read keeps
its last good copy between `(** BEGIN f *)` / `(** END f *)` and the file is marked (* STALE *).
"""
import argparse
import os
import re
import sys

sys.path.insert(0, os.path.dirname(os.path.abspath(__file__)))
import translate_c01_r4 as L  # noqa: E402
from translate_c01_r4 import Unparsed  # noqa: E402

KERNELS = ["negate_in_place", "add_in_place", "dbl_in_place", "sub_in_place", "sub_in_place_swap"]
OUT = "ModRingBodiesGen.v"

# &mut kernels: name -> (index of the `&mut` argument, Gallina atom, order of the atom's arguments)
MUT_ATOMS = {
    "add::add_same_len_in_place": (0, "add_same_len w {0} {1}"),
    "add::sub_same_len_in_place": (0, "sub_same_len w {0} {1}"),
    "add::sub_same_len_in_place_swap": (1, "sub_same_len w {0} {1}"),
    "shift::shl_in_place": (0, "shl_in_place w {0} {1}"),
}


def preprocess(body):
    body = re.sub(r"//[^\n]*", "", body)
    body = re.sub(r"(\w+(?:\.0)?)\s*\.iter\(\)\s*\.all\(\s*\|\s*(\w+)\s*\|\s*\*\2\s*==\s*0\s*\)", r"all_zero(\1)", body)
    body = body.replace("debug_assert_eq!(", "verif_assert_eq(").replace("debug_assert!(", "verif_assert(")
    if re.search(r"\w+!\s*\(", body):
        raise Unparsed("macro " + re.search(r"\w+!\s*\(", body).group(0))
    return body


class Body:
    def __init__(self, params):
        self.env = {}      # rust name -> (gallina, kind)   kind: list | flag | Z | bool | ring
        self.n = 0
        self.mut = None
        self.multi = False     # synthetic fragments: local buffers may be written too
        for name, ty in params:
            t = ty.replace(" ", "")
            if t == "&ConstLargeDivisor":
                self.env[name] = ("ring", "ring")
            elif t in ("&mutReducedLarge", "&ReducedLarge", "&self", "&Self"):
                self.env[name] = (name if name != "self" else "raw", "list")
                if t.startswith("&mut"):
                    if self.mut is not None:
                        raise Unparsed("two &mut parameters")
                    self.mut = name
            elif t == "bool":
                self.env[name] = (name, "bool")
            elif t == "Sign":
                self.env[name] = (name, "sign")
            elif t == "Buffer":
                self.env[name] = (name, "list")
                self.mut = name
            else:
                raise Unparsed("parameter type %s" % ty)

    def fresh(self, base):
        self.n += 1
        return "%s%d" % (base, self.n)

    # ------------------------------------------------------------ expressions
    def strip(self, e):
        while e[0] == "ref" or (e[0] == "un" and e[1] == "*"):
            e = e[2]
        return e

    def val(self, e):
        """-> (gallina, kind)"""
        e = self.strip(e)
        k = e[0]
        if k == "var":
            if e[1] not in self.env:
                raise Unparsed("unknown variable %s" % e[1])
            return self.env[e[1]]
        if k == "num":
            return (str(e[1]), "Z")
        if k == "field":
            base = self.strip(e[1])
            if base[0] == "var" and self.env.get(base[1], ("", ""))[1] == "ring":
                if e[2] == "normalized_divisor":
                    return ("nd", "list")
                if e[2] == "shift":
                    return ("shift", "Z")
                raise Unparsed("ring field %s" % e[2])
            g, ty = self.val(base)
            if e[2] == "0" and ty == "list":
                return (g, "list")
            raise Unparsed("field .%s" % e[2])
        if k == "index":
            g, ty = self.val(e[1])
            if ty == "list" and e[2] == ("num", 0):
                return ("(hd 0 %s)" % g, "Z")
            raise Unparsed("index")
        if k == "path" and e[1] in ("Sign::Negative", "Negative", "Sign::Positive", "Positive"):
            return (e[1].split("::")[-1], "sign")
        if k == "call" and e[1] == "ReducedLarge" and len(e[2]) == 1:
            a = e[2][0]
            if a[0] == "mcall" and a[2] == "into_boxed_slice" and not a[3]:
                return (self.want(a[1], "list"), "list")
            raise Unparsed("ReducedLarge(..)")
        if k == "call":
            name, args = e[1], e[2]
            if name == "all_zero" and len(args) == 1:
                return ("(all_zero %s)" % self.want(args[0], "list"), "bool")
            if name in ("cmp::cmp_same_len", "cmp_same_len") and len(args) == 2:
                return ("(cmp_same_len %s %s)" % (self.want(args[0], "list"), self.want(args[1], "list")), "cmp")
            if name in ("math::ones_word", "ones_word") and len(args) == 1:
                return ("(ones_word %s)" % self.want(args[0], "Z"), "Z")
            raise Unparsed("call %s" % name)
        if k == "mcall":
            recv, name, args = e[1], e[2], e[3]
            if name == "is_valid" and len(args) == 1 and self.val(args[0])[1] == "ring":
                return ("(is_valid_gen w nd shift %s)" % self.want(recv, "list"), "bool")
            if name in ("is_ge", "is_lt", "is_le") and not args:
                return ("(%s %s)" % (name, self.want(recv, "cmp")), "bool")
            if name == "len" and not args:
                return ("(length %s)" % self.want(recv, "list"), "nat")
            raise Unparsed("method .%s" % name)
        if k == "un" and e[1] == "!":
            g, ty = self.val(e[2])
            if ty == "flag":
                return ("(%s =? 0)" % g, "bool")
            if ty == "bool":
                return ("(negb %s)" % g, "bool")
            raise Unparsed("! of %s" % ty)
        if k == "bin":
            op = e[1]
            if op in ("&&", "||"):
                return ("(%s %s %s)" % (self.cond(e[2]), op, self.cond(e[3])), "bool")
            a, ta = self.val(e[2])
            b, tb = self.val(e[3])
            if op == "==" and ta == tb == "sign" and b in ("Negative", "Positive"):
                return ("(match %s with %s => true | %s => false end)" % (a, b, "Positive" if b == "Negative" else "Negative"), "bool")
            if op == "==" and ta == tb == "nat":
                return ("(Nat.eqb %s %s)" % (a, b), "bool")
            if op == "==" and ta in ("Z", "flag") and tb in ("Z", "flag"):
                return ("(%s =? %s)" % (a, b), "bool")
            if op == ">" and ta == "Z" and b == "0":
                return ("(0 <? %s)" % a, "bool")
            if op == "&" and ta == tb == "Z":
                return ("(Z.land %s %s)" % (a, b), "Z")
            raise Unparsed("operator %s on %s %s" % (op, ta, tb))
        raise Unparsed("expression %s" % k)

    def want(self, e, kind):
        g, ty = self.val(e)
        if ty != kind:
            raise Unparsed("expected %s, found %s" % (kind, ty))
        return g

    def cond(self, e):
        g, ty = self.val(e)
        if ty == "flag":
            return "(%s =? 1)" % g
        if ty == "bool":
            return g
        raise Unparsed("condition of kind %s" % ty)

    # ------------------------------------------------------------ statements (continuation-passing)
    def effect(self, e):
        """a call of a `&mut` kernel -> (text of the let, kind of the value, gallina of the value)"""
        gt = None
        if e[0] == "bin" and e[1] == ">" and e[3] == ("num", 0):
            gt, e = True, e[2]
        if e[0] != "call" or e[1] not in MUT_ATOMS:
            return None
        idx, fmt = MUT_ATOMS[e[1]]
        args = e[2]
        if len(args) != 2 or not (args[idx][0] == "ref" and args[idx][1]):
            raise Unparsed("call shape of %s" % e[1])
        tgt = self.strip(args[idx])
        while tgt[0] == "field":
            tgt = self.strip(tgt[1])
        if tgt[0] != "var" or self.env.get(tgt[1], ("", ""))[1] != "list":
            raise Unparsed("&mut operand of %s" % e[1])
        if tgt[1] != self.mut and not self.multi:
            raise Unparsed("kernel writes %s, not the &mut parameter" % tgt[1])
        a = [self.val(x) for x in args]
        call = fmt.format(a[0][0], a[1][0])
        new = self.fresh("l")
        fl = self.fresh("c")
        self.env[tgt[1]] = (new, "list")
        if e[1] == "shift::shl_in_place":
            if not gt:
                raise Unparsed("shl_in_place carry used as a word")
            ov = self.fresh("o")
            return ("let '(%s, %s) := %s in\n  let %s := if 0 <? %s then 1 else 0 in" % (new, fl, call, ov, fl), ov)
        if gt:
            raise Unparsed("> 0 on a bool")
        return ("let '(%s, %s) := %s in" % (new, fl, call), fl)

    def stmts(self, ss, final, k):
        if not ss:
            if final is not None:
                return self.stmts([("expr", final)], None, k)
            return k()
        s, rest = ss[0], ss[1:]
        cont = lambda: self.stmts(rest, final, k)  # noqa: E731
        if s[0] == "let":
            pat, e = s[1], s[3]
            if not (isinstance(pat, tuple) and pat[0] == "pvar"):
                raise Unparsed("let pattern %r" % (pat,))
            name = pat[1]
            eff = self.effect(e)
            if eff:
                text, v = eff
                self.env[name] = (v, "flag")
                return text + "\n  " + cont()
            g, ty = self.val(e)
            self.env[name] = (g, ty)       # alias (pure expressions are substituted)
            return cont()
        if s[0] == "expr":
            e = s[1]
            if e[0] == "call" and e[1] == "verif_assert" and len(e[2]) == 1:
                return "if %s then\n  %s\n  else Panic Undocumented" % (self.cond(e[2][0]), cont())
            if e[0] == "call" and e[1] == "verif_assert_eq" and len(e[2]) == 2:
                a, ta = self.val(e[2][0])
                b, tb = self.val(e[2][1])
                if ta != "flag" or tb != "flag":
                    raise Unparsed("debug_assert_eq on %s %s" % (ta, tb))
                return "if %s =? %s then\n  %s\n  else Panic Undocumented" % (a, b, cont())
            if e[0] == "if" and e[3] is None and not e[2][1][:-1] and e[2][2] is None and e[2][1] and e[2][1][0] == ("return", ("path", "None")):
                return "if %s then Ok None\n  else %s" % (self.cond(e[1]), cont())
            if e[0] == "call" and e[1] in ("shl_in_place", "shift::shl_in_place") and self.multi:
                text, _ = self.effect(("bin", ">", ("call", "shift::shl_in_place", e[2]), ("num", 0)))
                return text.split("\n")[0].rsplit(",", 1)[0] + ", _) := " + text.split("\n")[0].split(":= ", 1)[1] + "\n  " + cont()
            if e[0] == "call" and e[1] in KERNELS and len(e[2]) == 2 and self.val(e[2][0])[1] == "ring" and e[2][1][0] == "ref" and e[2][1][1]:
                tgt = self.strip(e[2][1])
                if tgt[0] != "var" or self.env.get(tgt[1], ("", ""))[1] != "list":
                    raise Unparsed("&mut operand of %s" % e[1])
                old_g = self.env[tgt[1]][0]
                new_g = self.fresh("l")
                self.env[tgt[1]] = (new_g, "list")
                return "rbind (%s_gen w nd shift %s) (fun %s =>\n  %s)" % (e[1], old_g, new_g, cont())
            if e[0] == "call" and e[1] == "Some" and len(e[2]) == 1 and not rest and final is None:
                return "Ok (Some %s)" % self.want(e[2][0], "list")
            if e[0] == "if" and e[3] is None:
                c = self.cond(e[1])
                snap = dict(self.env)
                th = self.stmts(e[2][1], e[2][2], cont)
                self.env = snap
                el = cont()
                return "if %s then (\n  %s)\n  else (%s)" % (c, th, el)
            eff = self.effect(e)
            if eff:
                raise Unparsed("result of a kernel dropped")
            raise Unparsed("statement %s" % e[0])
        raise Unparsed("statement %s" % s[0])


def params_of(fa):
    out = []
    for p in fa.params:
        name, ty = (p[0], p[1]) if isinstance(p, (tuple, list)) else (str(p), "")
        out.append((name, ty))
    return out


def raw_params(src, name):
    m = re.search(r"fn\s+%s\s*(?:<[^>]*>)?\s*\(([^)]*)\)" % re.escape(name), src)
    if not m:
        raise Unparsed("fn %s not found" % name)
    ps = []
    for p in m.group(1).split(","):
        p = p.strip()
        if not p:
            continue
        if p in ("&self", "&mut self", "self"):
            ps.append(("self", "&Self" if p == "&self" else p))
            continue
        n, t = p.split(":", 1)
        ps.append((n.strip().replace("mut ", ""), t.strip()))
    return ps


def fn_body_text(src, name, first_param=""):
    m = re.search(r"fn\s+%s\s*(?:<[^>]*>)?\s*\(\s*%s" % (re.escape(name), first_param), src)
    if not m:
        raise Unparsed("fn %s not found" % name)
    i = src.index("{", m.end())
    depth, j = 0, i
    while j < len(src):
        if src[j] == "{":
            depth += 1
        elif src[j] == "}":
            depth -= 1
            if depth == 0:
                return src[i:j + 1]
        j += 1
    raise Unparsed("unbalanced body of %s" % name)


def kernel(src, name):
    ps = raw_params(src, name)
    b = Body(ps)
    if b.mut is None:
        raise Unparsed("no &mut parameter")
    blk = L.Parser(L.tokenize(preprocess(fn_body_text(src, name)))).block()
    body = b.stmts(blk[1], blk[2], lambda: "Ok %s" % b.env[b.mut][0])
    args = " ".join("(%s : list Z)" % n for n, t in ps if b.env.get(n, ("", ""))[1] != "ring" or False)
    lists = " ".join("(%s : list Z)" % n for n, t in ps if t.replace(" ", "") != "&ConstLargeDivisor")
    return "Definition %s_gen (w : Z) (nd : list Z) (shift : Z) %s : result (list Z) :=\n  %s." % (name, lists, body)


def inv_large_tail(src):
    """inv_large of div.rs after `let (is_g_one, b_sign) = match raw_len { .. };` (the three gcd arms are transcribed in
    Int/ModRingConv.v): `if !is_g_one { return None; }`, the shift back, the validity assertion, the sign line, Some(inv)"""
    src = re.sub(r"//[^\n]*", "", src)
    body = fn_body_text(src, "inv_large")
    m = re.search(r"let\s*\(\s*is_g_one\s*,\s*b_sign\s*\)\s*=\s*match\s+raw_len\s*\{", body)
    if not m:
        raise Unparsed("inv_large: `let (is_g_one, b_sign) = match raw_len` not found")
    i = m.end() - 1
    depth, j = 0, i
    while True:
        if body[j] == "{":
            depth += 1
        elif body[j] == "}":
            depth -= 1
            if depth == 0:
                break
        j += 1
    tail = body[j + 1:].lstrip()
    if not tail.startswith(";"):
        raise Unparsed("inv_large: match not followed by `;`")
    b = Body([("ring", "&ConstLargeDivisor"), ("is_g_one", "bool"), ("b_sign", "Sign"), ("modulus", "Buffer")])
    b.multi = True
    blk = L.Parser(L.tokenize(preprocess("{" + tail[1:]))).block()
    ss = list(blk[1])
    if blk[2] is not None:
        ss.append(("expr", blk[2]))
    txt = b.stmts(ss, None, lambda: (_ for _ in ()).throw(Unparsed("inv_large does not end in Some(..)")))
    return ("Definition inv_large_tail_gen (w : Z) (nd : list Z) (shift : Z) (is_g_one : bool) (b_sign : sign) (modulus : list Z) "
            ": result (option (list Z)) :=\n  %s." % txt)


def is_valid(src):
    """ReducedLarge::is_valid: the last `fn is_valid` of repr.rs whose parameter is a ConstLargeDivisor"""
    m = None
    for mm in re.finditer(r"fn\s+is_valid\s*\(\s*&self\s*,\s*ring\s*:\s*&ConstLargeDivisor\s*\)\s*->\s*bool\s*", src):
        m = mm
    if not m:
        raise Unparsed("ReducedLarge::is_valid not found")
    i = src.index("{", m.end() - 1)
    depth, j = 0, i
    while True:
        if src[j] == "{":
            depth += 1
        elif src[j] == "}":
            depth -= 1
            if depth == 0:
                break
        j += 1
    b = Body([("self", "&Self"), ("ring", "&ConstLargeDivisor")])
    blk = L.Parser(L.tokenize(preprocess(src[i:j + 1]))).block()
    if blk[1] or blk[2] is None:
        raise Unparsed("is_valid is not a single expression")
    return "Definition is_valid_gen (w : Z) (nd : list Z) (shift : Z) (raw : list Z) : bool :=\n  %s." % b.cond(blk[2])


def clone_impl(src):
    m = re.search(r"impl\s+Clone\s+for\s+ReducedRepr<'_>\s*\{", src)
    if not m:
        raise Unparsed("impl Clone for ReducedRepr not found")
    seg = src[m.end():]
    seg = re.sub(r"//[^\n]*", "", seg)
    # ---- clone: every arm rebuilds itself from its own two fields
    mc = re.search(r"fn\s+clone\s*\(\s*&self\s*\)\s*->\s*Self\s*\{\s*match\s+self\s*\{(.*?)\}\s*\}", seg, re.S)
    if not mc:
        raise Unparsed("clone: not a match on self")
    arms = [a.strip() for a in mc.group(1).split("=>")]
    pairs = re.findall(r"ReducedRepr::(\w+)\(\s*(\w+)\s*,\s*(\w+)\s*\)\s*=>\s*ReducedRepr::(\w+)\(\s*(\*?\w+(?:\.clone\(\))?)\s*,\s*(\w+)\s*\)", mc.group(1))
    kinds = sorted(p[0] for p in pairs)
    if kinds != ["Double", "Large", "Single"] or len(arms) != 4:
        raise Unparsed("clone: arms %s" % kinds)
    for k1, a, r, k2, a2, r2 in pairs:
        if k1 != k2 or a2.lstrip("*").replace(".clone()", "") != a or r2 != r:
            raise Unparsed("clone: arm %s does not rebuild itself" % k1)
    clone = ("Definition clone_gen (x : reduced) : reduced :=\n  match r_kind (e_ring x) with\n"
             "  | KSingle => mkred (e_raw x) (e_ring x)\n  | KDouble => mkred (e_raw x) (e_ring x)\n  | KLarge => mkred (e_raw x) (e_ring x)\n  end.")
    # ---- clone_from
    mf = re.search(r"fn\s+clone_from\s*\(\s*&mut\s+self\s*,\s*source\s*:\s*&Self\s*\)\s*\{\s*if\s+let\s*\(\s*ReducedRepr::Large\(\s*(\w+)\s*,\s*(\w+)\s*\)\s*,"
                   r"\s*ReducedRepr::Large\(\s*(\w+)\s*,\s*(\w+)\s*\)\s*\)\s*=\s*\(\s*&mut\s*\*self\s*,\s*source\s*\)\s*\{(.*?)\}\s*else\s*\{(.*?)\}\s*\}", seg, re.S)
    if not mf:
        raise Unparsed("clone_from: shape")
    raw, ring, sraw, sring, th, el = mf.groups()
    ring_v, raw_v = "(e_ring dst)", "(e_raw dst)"
    for st in [x.strip() for x in th.split(";") if x.strip()]:
        if re.fullmatch(r"\*%s\s*=\s*%s" % (ring, sring), st):
            ring_v = "(e_ring src)"
        elif re.fullmatch(r"%s\.0\.clone_from\(\s*&%s\.0\s*\)" % (raw, sraw), st):
            raw_v = "(e_raw src)"
        else:
            raise Unparsed("clone_from: statement %s" % st[:40])
    if not re.fullmatch(r"\s*\*self\s*=\s*source\.clone\(\)\s*;?\s*", el):
        raise Unparsed("clone_from: else arm")
    cf = ("Definition clone_from_gen (dst src : reduced) : reduced :=\n"
          "  if kind_eqb (r_kind (e_ring dst)) KLarge && kind_eqb (r_kind (e_ring src)) KLarge\n"
          "  then mkred %s %s\n  else clone_gen src." % (raw_v, ring_v))
    return clone, cf



# ------------------------------------------------------------------------------------------------ reducer.rs (value level)
class Val:
    """Reducer<UBig> for ConstDivisor: reduce_once / reduce_negate / add / dbl / sub / neg.  A UBig is its value (Z), `self` is
    the ring r, results are `result Z` (UBig subtraction panics when negative: usub)."""
    def __init__(self, zs):
        self.env = {z: z if z != "target" else "t" for z in zs}
        self.rings = {"self"}

    def v(self, e):
        while e[0] == "ref" or (e[0] == "mcall" and e[2] in ("as_ref", "into", "deref", "clone") and not e[3]):
            e = e[2] if e[0] == "ref" else e[1]
        if e[0] == "var" and e[1] in self.env:
            return self.env[e[1]]
        if e[0] == "mcall" and e[2] == "normalized_divisor" and not e[3] and e[1][0] == "var" and e[1][1] in self.rings:
            return "(nd r)"
        if e[0] == "field" and e[2] == "normalized_divisor" and e[1][0] == "var" and e[1][1] in self.rings:
            return "(nd r)"
        if e[0] == "bin" and e[1] == "+":
            return "(%s + %s)" % (self.v(e[2]), self.v(e[3]))
        if e[0] == "bin" and e[1] == "<<" and e[3][0] == "num":
            return "(%s * 2 ^ %d)" % (self.v(e[2]), e[3][1])
        raise Unparsed("value %s" % (e[:2],))

    def c(self, e):
        if e[0] == "un" and e[1] == "!":
            return "negb %s" % self.c(e[2])
        if e[0] == "mcall" and e[1] == ("var", "self") and e[2] == "check" and len(e[3]) == 1:
            return "(rd_check_with w true r %s)" % self.v(e[3][0])
        if e[0] == "mcall" and e[2] == "is_zero" and not e[3]:
            return "(%s =? 0)" % self.v(e[1])
        if e[0] == "bin" and e[1] in (">=", "<=", ">", "<", "==", "!="):
            a, b = self.v(e[2]), self.v(e[3])
            return {">=": "(%s <=? %s)" % (b, a), "<=": "(%s <=? %s)" % (a, b), ">": "(%s <? %s)" % (b, a), "<": "(%s <? %s)" % (a, b),
                    "==": "(%s =? %s)" % (a, b), "!=": "(negb (%s =? %s))" % (a, b)}[e[1]]
        raise Unparsed("condition %s" % (e[:2],))

    def r(self, e):
        if e[0] == "block":
            if e[1] or e[2] is None:
                raise Unparsed("block with statements")
            return self.r(e[2])
        if e[0] == "if" and e[3] is not None:
            return "(if %s then %s else %s)" % (self.c(e[1]), self.r(e[2]), self.r(e[3]))
        if e[0] == "mcall" and e[1] == ("var", "self") and e[2] in ("reduce_once", "reduce_negate") and len(e[3]) == 1:
            a = e[3][0]
            if a[0] == "bin" and a[1] == "-":       # UBig subtraction: panics when negative
                return "(rbind (usub %s %s) (fun d => %s_gen w r d))" % (self.v(a[2]), self.v(a[3]), e[2])
            return "(%s_gen w r %s)" % (e[2], self.v(a))
        if e[0] == "bin" and e[1] == "-":
            return "(usub %s %s)" % (self.v(e[2]), self.v(e[3]))
        if e[0] == "call" and e[1] == "UBig::from_dword" and len(e[2]) == 1:
            return "(Ok %s)" % self.v(e[2][0])
        if e[0] == "call" and e[1] == "UBig" and len(e[2]) == 1:
            return self.r(e[2][0])
        if e[0] == "call" and e[1] == "sub_large" and len(e[2]) == 2:          # lhs - rhs on word buffers
            return "(usub %s %s)" % (self.v(e[2][0]), self.v(e[2][1]))
        if e[0] == "call" and e[1] in ("sub_large_dword", "sub_large_ref_val") and len(e[2]) == 2:
            return "(usub %s %s)" % (self.v(e[2][0]), self.v(e[2][1]))
        if e[0] == "match":
            sc, arms = e[1], e[2]
            while sc[0] == "ref":
                sc = sc[2]
            if sc == ("field", ("var", "self"), "0"):
                got = {}
                for pat, body in arms:
                    if pat[0] != "pctor" or len(pat[2]) != 1 or pat[2][0][0] != "pvar":
                        raise Unparsed("ring arm pattern")
                    self.rings.add(pat[2][0][1])
                    got[pat[1]] = self.r(body)
                    self.rings.discard(pat[2][0][1])
                if sorted(got) != ["Double", "Large", "Single"]:
                    raise Unparsed("ring arms %s" % sorted(got))
                return "(match r_kind r with KSingle => %s | KDouble => %s | KLarge => %s end)" % (got["Single"], got["Double"], got["Large"])
            if sc[0] == "mcall" and sc[2] == "into_repr" and sc[1][0] == "var":
                t = self.v(sc[1])
                got = {}
                for pat, body in arms:
                    if pat[0] != "pctor" or len(pat[2]) != 1 or pat[2][0][0] != "pvar":
                        raise Unparsed("repr arm pattern")
                    self.env[pat[2][0][1]] = t
                    got[pat[1]] = self.r(body)
                    del self.env[pat[2][0][1]]
                if sorted(got) != ["Large", "Small"]:
                    raise Unparsed("repr arms")
                return "(if %s <? 2 ^ w * 2 ^ w then %s else %s)" % (t, got["Small"], got["Large"])
            raise Unparsed("match scrutinee")
        return "(Ok %s)" % self.v(e)


def reducer_ops(src):
    src = re.sub(r"//[^\n]*", "", src)
    out = []
    for name, zs in (("reduce_once", ["target"]), ("reduce_negate", ["target"]), ("add", ["lhs", "rhs"]), ("dbl", ["target"]),
                     ("sub", ["lhs", "rhs"]), ("neg", ["target"])):
        pat = r"fn\s+%s\s*\(\s*&self\s*,\s*%s\s*\)\s*->\s*UBig\s*" % (name, r"\s*,\s*".join(r"%s\s*:\s*&?UBig" % z for z in zs))
        m = re.search(pat, src)
        if not m:
            raise Unparsed("fn %s of reducer.rs not found" % name)
        i = src.index("{", m.end() - 1)
        depth, j = 0, i
        while True:
            if src[j] == "{":
                depth += 1
            elif src[j] == "}":
                depth -= 1
                if depth == 0:
                    break
            j += 1
        blk = L.Parser(L.tokenize(src[i:j + 1])).block()
        V = Val(zs)
        gname = name if name.startswith("reduce_") else "rd_" + name
        args = " ".join("(%s : Z)" % V.env[z] for z in zs)
        out.append("Definition %s_gen (w : Z) (r : ring) %s : result Z :=\n  %s." % (gname, args, V.r(blk)))
    return "\n\n".join(out)


# ------------------------------------------------------------------------------------------------ pow.rs: the window read
class WordExpr:
    """word arithmetic of the window extraction of large::pow_nontrivial; the exponent is its value `exp`
    (exp_words[i] = (exp / 2^(w i)) mod 2^w), usize / u32 / Word values are Z, WORD_BITS / WORD_BITS_USIZE = w"""
    def __init__(self):
        self.env = {"bit": "bit", "window_len": "window_len"}

    def v(self, e):
        k = e[0]
        if k == "cast":
            return self.v(e[1])
        if k == "num":
            return str(e[1])
        if k == "var":
            if e[1] in self.env:
                return self.env[e[1]]
            raise Unparsed("variable %s" % e[1])
        if k == "path" and e[1] in ("WORD_BITS", "WORD_BITS_USIZE"):
            return "w"
        if k == "index" and e[1] == ("var", "exp_words"):
            return "((exp / 2 ^ (w * %s)) mod 2 ^ w)" % self.v(e[2])
        if k == "if" and e[3] is not None:
            c = e[1]
            if c[0] == "bin" and c[1] == "==":
                return "(if %s =? %s then %s else %s)" % (self.v(c[2]), self.v(c[3]), self.blockv(e[2]), self.blockv(e[3]))
            raise Unparsed("if condition")
        if k == "call" and e[1] == "double_word" and len(e[2]) == 2:
            return "(%s + 2 ^ w * %s)" % (self.v(e[2][0]), self.v(e[2][1]))
        if k == "call" and e[1] in ("math::ones_word", "ones_word") and len(e[2]) == 1:
            return "(ones_word %s)" % self.v(e[2][0])
        if k == "bin":
            a, b = self.v(e[2]), self.v(e[3])
            fmt = {"+": "(%s + %s)", "-": "(%s - %s)", "*": "(%s * %s)", "/": "(%s / %s)", "%": "(%s mod %s)", ">>": "(%s / 2 ^ %s)",
                   "<<": "(%s * 2 ^ %s)", "&": "(Z.land %s %s)"}.get(e[1])
            if fmt is None:
                raise Unparsed("operator %s" % e[1])
            return fmt % (a, b)
        raise Unparsed("word expression %s" % k)

    def blockv(self, b):
        if b[0] != "block" or b[1] or b[2] is None:
            raise Unparsed("block")
        return self.v(b[2])


def pow_window(src):
    """from `let word_idx = ..` to `window &= math::ones_word(window_len);` of the loop of pow_nontrivial (without the test of
    the current bit): the window of window_len bits whose top bit is bit `bit` of the exponent"""
    src = re.sub(r"//[^\n]*", "", src)
    body = fn_body_text(src, "pow_nontrivial", r"ring\s*:\s*&ConstLargeDivisor")
    m = re.search(r"let\s+word_idx\s*=.*?let\s+cur_word\s*=[^;]*;", body, re.S)
    m2 = re.search(r"let\s+next_word\s*=.*?window\s*&=\s*[^;]*;", body, re.S)
    if not m or not m2 or m2.start() < m.end():
        raise Unparsed("pow_nontrivial: window fragment not found")
    between = body[m.end():m2.start()]
    if not re.fullmatch(r"\s*if\s+cur_word\s*&\s*\(\s*1\s*<<\s*bit_idx\s*\)\s*!=\s*0\s*\{\s*", between):
        raise Unparsed("pow_nontrivial: test of the current bit")
    frag = re.sub(r"(\w+)\s*&=\s*", r"\1 = \1 & ", m.group(0) + m2.group(0))
    blk = L.Parser(L.tokenize("{" + frag + "}")).block()
    X = WordExpr()
    lets = []
    for st in blk[1]:
        if st[0] == "let" and st[1][0] == "pvar":
            g = X.v(st[3])
            X.env[st[1][1]] = st[1][1]
            lets.append("let %s := %s in" % (st[1][1], g))
        elif st[0] == "let" and st[1][0] == "ptuple" and st[3][0] == "call" and st[3][1] == "split_dword" and len(st[1][1]) == 2:
            lo = st[1][1][0]
            if lo[0] != "pvar" or st[1][1][1][0] not in ("pwild", "pvar"):
                raise Unparsed("split_dword pattern")
            g = "(%s mod 2 ^ w)" % X.v(st[3][2][0])
            X.env[lo[1]] = lo[1]
            lets.append("let %s := %s in" % (lo[1], g))
        elif st[0] == "assign" and st[1][0] == "var" and st[2] == "=" and st[1][1] in X.env:
            lets.append("let %s := %s in" % (st[1][1], X.v(st[3])))
        else:
            raise Unparsed("window statement %s" % (st[:2],))
    if "window" not in X.env:
        raise Unparsed("no window")
    return "Definition pow_window_gen (w : Z) (exp bit window_len : Z) : Z :=\n  " + "\n  ".join(lets) + "\n  window."


HEADER = """(** GENERATED by tools/translate_c13_r5.py from integer/src/modular/{add,repr,div,pow,reducer}.rs - do not edit.
    Bodies of the multi-word ring kernels (negate / add / dbl / sub / sub_swap in place, ReducedLarge::is_valid) on word lists
    and of Clone for ReducedRepr at value level; proved equal to the hand models in Int/ModRingBodiesGenProofs.v. *)
From Dashu Require Import Base.Prelude Base.Words Int.DivWordModel Int.ModRingModel Int.ModRingWords.
Open Scope Z_scope.
"""


def render(repo, previous=""):
    add = open(os.path.join(repo, "integer/src/modular/add.rs")).read()
    rep = open(os.path.join(repo, "integer/src/modular/repr.rs")).read()
    items, bad = [], []

    def keep(name):
        m = re.search(r"\(\*\* BEGIN %s \*\)\n(.*?)\n\(\*\* END %s \*\)" % (name, name), previous, re.S)
        return m.group(1) if m else None

    def put(name, fn):
        try:
            items.append((name, fn()))
        except Unparsed as ex:
            bad.append("%s(%s)" % (name, re.sub(r"\s+", " ", str(ex))[:80]))
            old = keep(name)
            if old is None:
                raise Unparsed("%s unparsed and no previous copy: %s" % (name, ex))
            items.append((name, old))
        except (IndexError, KeyError, TypeError, ValueError, AttributeError, RecursionError) as ex:
            bad.append("%s(internal %s)" % (name, ex.__class__.__name__))
            old = keep(name)
            if old is None:
                raise Unparsed("%s unparsed and no previous copy" % name)
            items.append((name, old))

    put("is_valid", lambda: is_valid(rep))
    for k in KERNELS:
        put(k, lambda k=k: kernel(add, k))
    put("clone", lambda: "\n\n".join(clone_impl(rep)))
    dv = open(os.path.join(repo, "integer/src/modular/div.rs")).read()
    put("inv_large_tail", lambda: inv_large_tail(dv))
    pw = open(os.path.join(repo, "integer/src/modular/pow.rs")).read()
    put("pow_window", lambda: pow_window(pw))
    red = open(os.path.join(repo, "integer/src/modular/reducer.rs")).read()
    put("reducer", lambda: reducer_ops(red))
    txt = HEADER + ("(* STALE: %s *)\n" % ", ".join(bad) if bad else "")
    for name, body in items:
        txt += "\n(** BEGIN %s *)\n%s\n(** END %s *)\n" % (name, body, name)
    return txt, bad


def generate(repo, outdir):
    path = os.path.join(outdir, OUT)
    try:
        previous = open(path).read() if os.path.exists(path) else ""
        txt, bad = render(repo, previous)
        if txt != previous:
            tmp = path + ".tmp%d" % os.getpid()
            with open(tmp, "w") as f:
                f.write(txt)
            os.replace(tmp, path)
        return "ok" if not bad else "ok unparsed=" + ",".join(bad)
    except Exception as ex:  # noqa: BLE001
        return "unparsed " + re.sub(r"\s+", " ", str(ex))[:200]


def main():
    ap = argparse.ArgumentParser()
    ap.add_argument("--repo", default="/repo")
    ap.add_argument("--out", default=os.path.join(os.path.dirname(os.path.abspath(__file__)), "..", "coq", "gen"))
    a = ap.parse_args()
    print(generate(a.repo, a.out))


if __name__ == "__main__":
    main()
