#!/bin/sh
# coordinator helper: re-run the quick check of every listed property against /repo itself so that
# evidence/<id>.json is the record of a real run;  tools/refresh_all.sh C02 C04 ...
cd "$(dirname "$0")/.."
mkdir -p .cache/logs
for p in "$@"; do
  timeout 3600 ./check "$p" --tier quick > ".cache/logs/refresh_$p.log" 2>&1
  rc=$?
  echo "$p exit=$rc $(tail -1 .cache/logs/refresh_$p.log | cut -c1-200)"
done
