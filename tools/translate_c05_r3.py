#!/usr/bin/env python3
"""C05 (third round) translator: re-reads the comparison code itself and emits it as Gallina.

  float/src/cmp.rs      impl PartialEq<FBig<R2,B>> for FBig<R1,B>::eq           -> fbig_eq_gen
                        fn repr_cmp_same_base<const B, const ABS>                -> repr_cmp_same_base_gen  (whole body)
                        the ABS flag and the arguments each Ord / PartialOrd / AbsOrd impl passes
  float/src/repr.rs     #[derive(PartialEq, Eq)] on Repr; the `match B { 2 => .., 10 => .., _ => .. }` of
                        digits_ub / digits_lb and the final `log as usize + k`    -> DigitsEstGen.v
  rational/src/cmp.rs   fn repr_eq<const ABS>, fn repr_cmp<const ABS> (whole bodies), RBig::eq / abs_eq / hash,
                        the ABS flag of each impl on Repr                        -> q_repr_eq_gen, q_repr_cmp_gen, ...
  rational/src/rbig.rs  the derive lists of RBig and Relaxed (who forwards to Repr, nobody derives Hash)
  float/src/*.rs        no `impl Hash for FBig` / derive(Hash) on FBig

into coq/gen/CmpGen.v and coq/gen/DigitsEstGen.v.  coq/theories/Float/FloatOrdDispatch.v, Ratio/RatioOrdGen.v and
Float/DigitsUbProof.v prove the theorems of C05 over the GENERATED definitions (equal to the hand-written as-is models
for all inputs, hence equal to the specification), so an edit of the source breaks a proof obligation.

    tools/translate_c05_r3.py --repo /repo --out coq/gen

prints `FRAGMENT <name> ok|unparsed <why>` per file (exit 0 always).  Unparseable source is not an alarm: the
previous copy is kept, its first line gets `(* STALE *)`.

Bodies with early `return`s are emitted in continuation style: `let x = <if/match with returns>; REST` becomes
`let k := fun x => REST in <if/match ... k v ... | returned value>`.  The grammar is the expression subset of
tools/translate.py (tokenizer and parser imported, `^` added); receivers are typed (frepr, qrepr, Z, sign, bool,
comparison, f32) from the function signature and every method / field / operator is looked up in a fixed table -
anything outside the table is `unparsed`.
"""
import argparse
import os
import re
import sys

sys.path.insert(0, os.path.dirname(os.path.abspath(__file__)))
import translate as T  # noqa: E402

STALE = "(* STALE *)"


class Unparsed(Exception):
    pass


# ------------------------------------------------------------------------------------------------ parsing
TOK = re.compile(
    r"\s*(?:(//[^\n]*)|(/\*.*?\*/)|(\$?[A-Za-z_][A-Za-z0-9_]*!?)|(\d[\d_]*(?:\.\d+)?(?:[a-z]\w*)?)"
    r"|(=>|==|!=|>=|<=|&&|\|\||::|->|<<|>>|[-+*/%!&|^(){}\[\],;=<>.:#?]))",
    re.S,
)


def tokenize(src):
    pos, out = 0, []
    while pos < len(src):
        m = TOK.match(src, pos)
        if not m:
            if src[pos:].strip() == "":
                break
            raise Unparsed("cannot tokenize at %r" % src[pos:pos + 30])
        pos = m.end()
        if m.group(1) or m.group(2):
            continue
        out.append(m.group(3) or m.group(4) or m.group(5))
    return out


class P5(T.P):
    PREC = [("||",), ("&&",), ("==", "!=", "<", ">", "<=", ">="), ("|",), ("^",), ("&",), ("<<", ">>"), ("+", "-"), ("*", "/", "%")]

    def primary(self, nostruct):
        if self.at("return"):  # `return e` in expression position (match arms)
            self.eat()
            return ("return", self.expr())
        return T.P.primary(self, nostruct)


def parse_body(src):
    try:
        return P5(tokenize(src)).block()
    except SyntaxError as ex:
        raise Unparsed("syntax: %s" % str(ex)[:120])


def fn_src(src, head):
    """text of the `{...}` body following the regex `head`"""
    m = re.compile(head, re.S).search(src)
    if not m:
        raise Unparsed("not found: /%s/" % head[:60])
    i = src.find("{", m.end() - 1)
    if i < 0:
        raise Unparsed("no body after /%s/" % head[:60])
    return src[i:T.balanced(src, i)]


# ------------------------------------------------------------------------------------------------ typed emission
ORD = {"Less": "Lt", "Equal": "Eq", "Greater": "Gt"}
SIGNS = {"Positive": "Positive", "Negative": "Negative"}

FIELDS = {  # (receiver type, field) -> (template, type)
    ("fbig", "repr"): ("{0}", "frepr"),
    ("frepr", "exponent"): ("(fexp {0})", "Z"),
    ("frepr", "significand"): ("(fsig {0})", "Z"),
    ("rat", "0"): ("{0}", "qrepr"),
    ("qrepr", "numerator"): ("(qnum {0})", "Z"),
    ("qrepr", "denominator"): ("(qden {0})", "Z"),
}
METHODS = {  # (receiver type, method, nargs) -> (template, type)
    ("frepr", "is_infinite", 0): ("(f_is_inf {0})", "bool"),
    ("frepr", "is_zero", 0): ("(f_is_zero {0})", "bool"),
    ("frepr", "digits_ub", 0): ("(digits_ub (fsig {0}))", "Z"),
    ("Z", "sign", 0): ("(sign_of {0})", "sign"),
    ("Z", "cmp", 1): ("({0} ?= {1})", "cmp"),
    ("Z", "abs_cmp", 1): ("(Z.abs {0} ?= Z.abs {1})", "cmp"),
    ("Z", "abs_eq", 1): ("(Z.abs {0} =? Z.abs {1})", "bool"),
    ("Z", "is_zero", 0): ("({0} =? 0)", "bool"),
    ("Z", "is_one", 0): ("({0} =? 1)", "bool"),
    ("Z", "bit_len", 0): ("(bit_len {0})", "Z"),
    ("Z", "abs_diff", 1): ("(Z.abs ({0} - {1}))", "Z"),
}
ZCMP = {">": ">?", ">=": ">=?", "<": "<?", "<=": "<=?", "==": "=?"}


class Em:
    """CPS emitter of one function body"""

    def __init__(self, env, apps):
        self.env = dict(env)  # name -> (gallina text, type)
        self.apps = apps      # free function name -> (template, arg types, type)
        self.nk = 0

    # ---- pure expressions (no return inside): (text, type)
    def pure(self, e):
        k = e[0]
        if k == "num":
            return (str(e[1]), "Z")
        if k == "bool":
            return (e[1], "bool")
        if k == "var":
            if e[1] not in self.env:
                raise Unparsed("unknown variable %s" % e[1])
            return self.env[e[1]]
        if k == "path":
            last = e[1].split("::")[-1]
            if e[1] == "ABS":
                return self.env["ABS"]
            if "Ordering" in e[1] and last in ORD:
                return (ORD[last], "cmp")
            if last in SIGNS:
                return (last, "sign")
            raise Unparsed("unknown path %s" % e[1])
        if k == "field":
            r, t = self.pure(e[1])
            if (t, e[2]) not in FIELDS:
                raise Unparsed("field .%s of %s" % (e[2], t))
            tpl, ty = FIELDS[(t, e[2])]
            return (tpl.format(r), ty)
        if k == "call":
            r, t = self.pure(e[2][0])
            args = [self.pure(a) for a in e[2][1:]]
            key = (t, e[1], len(args))
            if key not in METHODS:
                raise Unparsed("method %s.%s/%d" % (t, e[1], len(args)))
            for a in args:
                if a[1] != t and not (t == "Z" and a[1] == "Z"):
                    raise Unparsed("argument type of %s" % e[1])
            tpl, ty = METHODS[key]
            return (tpl.format(r, *[a[0] for a in args]), ty)
        if k == "app":
            name = e[1].split("::")[-1]
            if name not in self.apps:
                raise Unparsed("function %s" % e[1])
            tpl, atys, ty = self.apps[name]
            args = [self.pure(a) for a in e[2]]
            if [a[1] for a in args] != atys:
                raise Unparsed("argument types of %s" % name)
            return (tpl.format(*[a[0] for a in args]), ty)
        if k == "tuple":
            xs = [self.pure(x) for x in e[1]]
            return ("(" + ", ".join(x[0] for x in xs) + ")", tuple(x[1] for x in xs))
        if k == "un":
            x, t = self.pure(e[2])
            if e[1] == "!" and t == "bool":
                return ("(negb %s)" % x, "bool")
            if e[1] == "-" and t == "Z":
                return ("(- %s)" % x, "Z")
            raise Unparsed("unary %s on %s" % (e[1], t))
        if k == "bin":
            op = e[1]
            (a, ta), (b, tb) = self.pure(e[2]), self.pure(e[3])
            if ta == tb == "Z":
                if op in ("+", "-", "*"):
                    return ("(%s %s %s)" % (a, op, b), "Z")
                if op in ZCMP:
                    return ("(%s %s %s)" % (a, ZCMP[op], b), "bool")
                if op == "!=":
                    return ("(negb (%s =? %s))" % (a, b), "bool")
            if ta == tb == "bool":
                if op in ("&&", "||"):
                    return ("(%s %s %s)" % (a, op, b), "bool")
                if op == "^":
                    return ("(xorb %s %s)" % (a, b), "bool")
            if ta == tb == "sign" and op in ("==", "!="):
                s = "(sgn_eqb %s %s)" % (a, b)
                return (s if op == "==" else "(negb %s)" % s, "bool")
            if ta == tb == "frepr" and op == "==":
                return ("(frepr_eqb %s %s)" % (a, b), "bool")
            if ta == "sign" and tb == "cmp" and op == "*":
                return ("(sign_mul_ord %s %s)" % (a, b), "cmp")
            raise Unparsed("operator %s on %s, %s" % (op, ta, tb))
        if k in ("if", "match", "block"):
            # a branching expression without returns in value position
            return (self.emit(e, lambda v: v[0], tyout := []), tyout[0] if tyout else "?")  # noqa: F841
        raise Unparsed("expression kind %s" % k)

    @staticmethod
    def has_return(e):
        if isinstance(e, tuple):
            if e and e[0] == "return":
                return True
            return any(Em.has_return(x) for x in e)
        if isinstance(e, list):
            return any(Em.has_return(x) for x in e)
        return False

    # ---- CPS: the Gallina text of `e` whose value is handed to k; `return`s bypass k
    def emit(self, e, k, tyout=None):
        kind = e[0]
        if kind == "block":
            return self.block(e[1], e[2], k, tyout)
        if kind == "if":
            c, tc = self.pure(e[1])
            if tc != "bool":
                raise Unparsed("if on %s" % tc)
            if e[3] is None:
                raise Unparsed("if without else in value position")
            return "(if %s then %s else %s)" % (c, self.emit(e[2], k, tyout), self.emit(e[3], k, tyout))
        if kind == "match":
            s, ts = self.pure(e[1])
            arms = []
            for pat, body in e[2]:
                arms.append("| %s => %s" % (self.pat(pat, ts), self.emit(body, k, tyout)))
            return "(match %s with %s end)" % (s, " ".join(arms))
        if kind == "return":
            return self.emit(e[1], lambda v: v[0])
        v = self.pure(e)
        if tyout is not None and not tyout:
            tyout.append(v[1])
        return k(v)

    def pat(self, p, ty):
        k = p[0]
        if k == "pwild":
            return "_" if not isinstance(ty, tuple) else "(" + ", ".join("_" for _ in ty) + ")"
        if k == "ptuple":
            if not isinstance(ty, tuple) or len(ty) != len(p[1]):
                raise Unparsed("tuple pattern")
            return "(" + ", ".join(self.pat(q, t) for q, t in zip(p[1], ty)) + ")"
        if k == "plit" and ty == "bool":
            return p[1]
        if k == "pctor" and not p[2]:
            if ty == "sign" and p[1] in SIGNS:
                return p[1]
            if ty == "cmp" and p[1] in ORD:
                return ORD[p[1]]
        raise Unparsed("pattern %r for %s" % (p[:2], ty))

    def fresh(self):
        self.nk += 1
        return "k%d" % self.nk

    def bind(self, pat, ty):
        """declare the variables of a let pattern; returns the Gallina binder"""
        if pat[0] == "pvar":
            self.env[pat[1]] = (pat[1], ty)
            return pat[1]
        if pat[0] == "ptuple" and isinstance(ty, tuple) and len(ty) == len(pat[1]):
            return "'(" + ", ".join(self.bind(q, t).lstrip("'") for q, t in zip(pat[1], ty)) + ")"
        raise Unparsed("let pattern")

    def block(self, stmts, final, k, tyout=None):
        if not stmts:
            if final is None:
                raise Unparsed("empty block in value position")
            return self.emit(final, k, tyout)
        st, rest = stmts[0], stmts[1:]
        saved = dict(self.env)
        try:
            if st[0] == "let":
                pat, rhs = st[1], st[2]
                if not self.has_return(rhs) and rhs[0] not in ("if", "match", "block"):
                    v, ty = self.pure(rhs)
                    b = self.bind(pat, ty)
                    return "(let %s := %s in %s)" % (b, v, self.block(rest, final, k, tyout))
                # branching right-hand side (possibly with returns): continuation
                ty = self.value_type(rhs)
                kn = self.fresh()
                b = self.bind(pat, ty)
                body = self.block(rest, final, k, tyout)
                self.env = dict(saved)
                arg = b if not b.startswith("'") else b
                return "(let %s := (fun %s => %s) in %s)" % (kn, arg, body, self.emit(rhs, lambda v: "(%s %s)" % (kn, v[0])))
            if st[0] == "return":
                return self.emit(st[1], lambda v: v[0])
            if st[0] == "expr" and st[1][0] in ("if", "match"):
                e = st[1]
                kn = self.fresh()
                restk = self.block(rest, final, k, tyout)
                call = "(%s tt)" % kn
                if e[0] == "if":
                    c, tc = self.pure(e[1])
                    if tc != "bool":
                        raise Unparsed("if on %s" % tc)
                    th = self.stmt_branch(e[2], call)
                    el = self.stmt_branch(e[3], call) if e[3] is not None else call
                    inner = "(if %s then %s else %s)" % (c, th, el)
                else:
                    s, ts = self.pure(e[1])
                    arms = ["| %s => %s" % (self.pat(p, ts), self.stmt_branch(b, call)) for p, b in e[2]]
                    inner = "(match %s with %s end)" % (s, " ".join(arms))
                return "(let %s := (fun _ : unit => %s) in %s)" % (kn, restk, inner)
            raise Unparsed("statement %s" % st[0])
        finally:
            self.env = saved

    def stmt_branch(self, b, call):
        """a branch of a statement-level if / match: returns a value, or falls through to the rest"""
        if b[0] == "if":  # else if
            c, tc = self.pure(b[1])
            th = self.stmt_branch(b[2], call)
            el = self.stmt_branch(b[3], call) if b[3] is not None else call
            return "(if %s then %s else %s)" % (c, th, el)
        if b[0] == "return":
            return self.emit(b[1], lambda v: v[0])
        if b[0] != "block":
            raise Unparsed("branch of a statement is a value")
        stmts, final = b[1], b[2]
        if not stmts and final is None:
            return call
        if final is not None and final[0] == "return":
            stmts, final = stmts + [("return", final[1])], None
        if stmts and stmts[-1][0] == "return" and final is None:
            return self.block(stmts, None, lambda v: v[0]) if len(stmts) > 1 else self.emit(stmts[0][1], lambda v: v[0])
        if not stmts and final is not None and final[0] in ("if", "match"):
            return self.stmt_branch_expr(final, call)
        raise Unparsed("branch neither returns nor is empty")

    def stmt_branch_expr(self, e, call):
        if e[0] == "if":
            return self.stmt_branch(e, call)
        s, ts = self.pure(e[1])
        arms = ["| %s => %s" % (self.pat(p, ts), self.stmt_branch(b, call)) for p, b in e[2]]
        return "(match %s with %s end)" % (s, " ".join(arms))

    def value_type(self, e):
        """type of the value a branching expression yields (first non-returning leaf)"""
        if e[0] == "block":
            saved = dict(self.env)
            try:
                for st in e[1]:
                    if st[0] == "let" and not self.has_return(st[2]):
                        self.bind(st[1], self.pure(st[2])[1])
                if e[2] is None:
                    raise Unparsed("block without value")
                return self.value_type(e[2])
            finally:
                self.env = saved
        if e[0] == "if":
            for b in (e[2], e[3]):
                if b is not None:
                    try:
                        return self.value_type(b)
                    except Unparsed:
                        pass
            raise Unparsed("no typed branch")
        if e[0] == "match":
            for _, b in e[2]:
                if b[0] != "return":
                    try:
                        return self.value_type(b)
                    except Unparsed:
                        pass
            raise Unparsed("no typed arm")
        if e[0] == "return":
            raise Unparsed("return")
        return self.pure(e)[1]


def translate_fn(body_src, env, apps=None):
    ast = parse_body(body_src)
    em = Em(env, apps or {})
    return em.emit(ast, lambda v: v[0])


# ------------------------------------------------------------------------------------------------ fragments
def abs_flag(src, impl_head, callee, args):
    """the const argument and the value arguments a forwarding impl passes to `callee`"""
    body = fn_src(src, impl_head)
    m = re.search(r"%s::<\s*(?:B\s*,\s*)?(true|false)\s*>\s*\(\s*([^()]*?)\s*\)" % callee, body)
    if not m:
        raise Unparsed("no call of %s in /%s/" % (callee, impl_head[:50]))
    got = re.sub(r"\s+", "", m.group(2))
    if got != args:
        raise Unparsed("arguments %s instead of %s in /%s/" % (got, args, impl_head[:40]))
    return m.group(1)


def derives(src, struct):
    m = re.search(r"((?:#\[[^\]]*\]\s*)*)pub struct %s\b" % struct, src)
    if not m:
        raise Unparsed("struct %s not found" % struct)
    out = []
    for d in re.findall(r"#\[derive\(([^)]*)\)\]", m.group(1)):
        out += [x.strip() for x in d.split(",") if x.strip()]
    return out


def render_cmp(repo):
    def read(rel):
        with open(os.path.join(repo, rel)) as f:
            return f.read()
    fc, fr_, ff = read("float/src/cmp.rs"), read("float/src/repr.rs"), read("float/src/fbig.rs")
    qc, qr = read("rational/src/cmp.rs"), read("rational/src/rbig.rs")

    if sorted(set(derives(fr_, "Repr")) & {"PartialEq", "Eq"}) != ["Eq", "PartialEq"]:
        raise Unparsed("float Repr does not derive PartialEq, Eq")
    fenv = {"self": ("a", "fbig"), "other": ("b", "fbig")}
    fbig_eq = translate_fn(fn_src(fc, r"impl<[^>]*>\s*PartialEq<FBig<R2,\s*B>>\s*for\s*FBig<R1,\s*B>\s*\{.*?fn eq\([^)]*\)\s*->\s*bool\s*"), fenv)
    cenv = {"lhs": ("lhs", "frepr"), "rhs": ("rhs", "frepr"), "ABS": ("abs", "bool")}
    capps = {"shl_digits": ("(shl_digits B {0} {1})", ["Z", "Z"], "Z")}
    cmp_body = translate_fn(fn_src(fc, r"fn repr_cmp_same_base<const B: Word, const ABS: bool>\s*\([^)]*\)\s*->\s*Ordering\s*"), cenv, capps)
    flags = {
        "fbig_partial_cmp_abs_gen": abs_flag(fc, r"impl<[^>]*>\s*PartialOrd<FBig<R2,\s*B>>\s*for\s*FBig<R1,\s*B>\s*\{.*?fn partial_cmp", "repr_cmp_same_base", "&self.repr,&other.repr"),
        "fbig_cmp_abs_gen": abs_flag(fc, r"impl<[^>]*>\s*Ord\s+for\s+FBig<R,\s*B>\s*\{.*?fn cmp", "repr_cmp_same_base", "&self.repr,&other.repr"),
        "fbig_abs_cmp_abs_gen": abs_flag(fc, r"impl<[^>]*>\s*AbsOrd\s+for\s+FBig<R,\s*B>\s*\{.*?fn abs_cmp", "repr_cmp_same_base", "&self.repr,&other.repr"),
        "frepr_cmp_abs_gen": abs_flag(fc, r"impl<const B: Word>\s*Ord\s+for\s+Repr<B>\s*\{.*?fn cmp", "repr_cmp_same_base", "self,other"),
        "qrepr_eq_abs_gen": abs_flag(qc, r"impl PartialEq for Repr\s*\{.*?fn eq", "repr_eq", "self,other"),
        "qrepr_abs_eq_abs_gen": abs_flag(qc, r"impl AbsEq for Repr\s*\{.*?fn abs_eq", "repr_eq", "self,other"),
        "qrepr_cmp_abs_gen": abs_flag(qc, r"impl Ord for Repr\s*\{.*?fn cmp", "repr_cmp", "self,other"),
        "qrepr_abs_cmp_abs_gen": abs_flag(qc, r"impl AbsOrd for Repr\s*\{.*?fn abs_cmp", "repr_cmp", "self,other"),
        "rat_abs_cmp_abs_gen": abs_flag(qc, r"macro_rules!\s*forward_abs_ord_both_to_repr\s*\{.*?fn abs_cmp", "repr_cmp", "&self.0,&other.0"),
    }
    if not re.search(r"fn partial_cmp\(&self, other: &FBig<R2, B>\)\s*->\s*Option<Ordering>\s*\{\s*Some\(repr_cmp_same_base", fc):
        raise Unparsed("FBig::partial_cmp is not Some(repr_cmp_same_base(..))")
    if not re.search(r"impl PartialOrd for Repr\s*\{[^}]*fn partial_cmp\(&self, other: &Self\)\s*->\s*Option<Ordering>\s*\{\s*Some\(self\.cmp\(other\)\)", qc):
        raise Unparsed("rational Repr::partial_cmp is not Some(self.cmp(other))")

    qenv = {"a": ("a", "qrepr"), "b": ("b", "qrepr"), "ABS": ("abs", "bool")}
    q_eq = translate_fn(fn_src(qc, r"fn repr_eq<const ABS: bool>\s*\([^)]*\)\s*->\s*bool\s*"), qenv)
    qenv2 = {"lhs": ("lhs", "qrepr"), "rhs": ("rhs", "qrepr"), "ABS": ("abs", "bool")}
    q_cmp = translate_fn(fn_src(qc, r"fn repr_cmp<const ABS: bool>\s*\([^)]*\)\s*->\s*Ordering\s*"), qenv2)
    renv = {"self": ("a", "rat"), "other": ("b", "rat")}
    rb_eq = translate_fn(fn_src(qc, r"impl PartialEq for RBig\s*\{.*?fn eq\([^)]*\)\s*->\s*bool\s*"), renv)
    rb_abs_eq = translate_fn(fn_src(qc, r"impl AbsEq for RBig\s*\{.*?fn abs_eq\([^)]*\)\s*->\s*bool\s*"), renv)
    hb = fn_src(qc, r"impl Hash for RBig\s*\{.*?fn hash<H: Hasher>\([^)]*\)\s*")
    fields = re.findall(r"self\.0\.(\w+)\.hash\(state\)\s*;", hb)
    if re.sub(r"\s+", "", hb) != "{" + "".join("self.0.%s.hash(state);" % f for f in fields) + "}" or not fields:
        raise Unparsed("RBig::hash is not a sequence of self.0.<field>.hash(state)")
    fmap = {"numerator": "qnum a", "denominator": "qden a"}
    if any(f not in fmap for f in fields):
        raise Unparsed("RBig::hash field")
    dr, dx = derives(qr, "RBig"), derives(qr, "Relaxed")
    ffb = derives(ff, "FBig")
    relaxed_hash = "Hash" in dx or re.search(r"impl\b[^{;]*\bHash\s+for\s+Relaxed\b", qc + qr) is not None
    fbig_hash = "Hash" in ffb or any(
        re.search(r"impl\b[^{;]*[^mA-Za-z]Hash\s+for\s+FBig\b", read(os.path.join("float/src", f))) is not None
        for f in os.listdir(os.path.join(repo, "float/src")) if f.endswith(".rs"))
    b = lambda x: "true" if x else "false"  # noqa: E731
    out = [
        "(** GENERATED by tools/translate_c05_r3.py from float/src/cmp.rs, float/src/repr.rs, rational/src/cmp.rs, rational/src/rbig.rs - do not edit. *)",
        "From Dashu Require Import Base.Prelude Float.FloatOrdModel Ratio.RatioOrdModel.",
        "Open Scope Z_scope.",
        "",
        "(** #[derive(PartialEq, Eq)] on float Repr: field by field *)",
        "Definition frepr_eqb (a b : frepr) : bool := (fsig a =? fsig b) && (fexp a =? fexp b).",
        "",
        "(** impl PartialEq<FBig<R2, B>> for FBig<R1, B> :: eq  (self.repr = a, other.repr = b) *)",
        "Definition fbig_eq_gen (a b : frepr) : bool :=",
        "  %s." % fbig_eq,
        "",
        "(** fn repr_cmp_same_base<const B: Word, const ABS: bool>(lhs, rhs), the whole body; digits_ub is Repr::digits_ub *)",
        "Definition repr_cmp_same_base_gen (B : Z) (digits_ub : Z -> Z) (abs : bool) (lhs rhs : frepr) : comparison :=",
        "  %s." % cmp_body,
        "",
        "(** the const ABS each forwarding impl passes (the value arguments are checked by the translator:",
        "    &self.repr, &other.repr for FBig - never the context -, self, other for Repr, &self.0, &other.0 for RBig/Relaxed) *)",
    ]
    for name in sorted(flags):
        out.append("Definition %s : bool := %s." % (name, flags[name]))
    out += [
        "",
        "(** fn repr_eq<const ABS: bool>(a, b) and fn repr_cmp<const ABS: bool>(lhs, rhs) of rational/src/cmp.rs, whole bodies *)",
        "Definition q_repr_eq_gen (abs : bool) (a b : qrepr) : bool :=",
        "  %s." % q_eq,
        "Definition q_repr_cmp_gen (abs : bool) (lhs rhs : qrepr) : comparison :=",
        "  %s." % q_cmp,
        "",
        "(** impl PartialEq / AbsEq / Hash for RBig (self.0 = a, other.0 = b) *)",
        "Definition rbig_eq_gen (a b : qrepr) : bool :=",
        "  %s." % rb_eq,
        "Definition rbig_abs_eq_gen (a b : qrepr) : bool :=",
        "  %s." % rb_abs_eq,
        "Definition rbig_hash_fields_gen (a : qrepr) : list Z := [%s]." % "; ".join(fmap[f] for f in fields),
        "",
        "(** derive lists: Relaxed takes ==, Ord from Repr (repr_eq / repr_cmp), RBig takes Ord from Repr; nobody derives Hash;",
        "    Hash is implemented for RBig only (neither Relaxed nor FBig) *)",
        "Definition relaxed_derives_eq_gen : bool := %s." % b("PartialEq" in dx and "Eq" in dx),
        "Definition relaxed_derives_ord_gen : bool := %s." % b("PartialOrd" in dx and "Ord" in dx),
        "Definition rbig_derives_ord_gen : bool := %s." % b("PartialOrd" in dr and "Ord" in dr),
        "Definition rbig_derives_eq_gen : bool := %s." % b("PartialEq" in dr),
        "Definition relaxed_has_hash_gen : bool := %s." % b(relaxed_hash),
        "Definition fbig_has_hash_gen : bool := %s." % b(fbig_hash),
        "",
    ]
    return "\n".join(out)


def render_digits(repo):
    with open(os.path.join(repo, "float/src/repr.rs")) as f:
        src = f.read()

    def one(name):
        body = fn_src(src, r"pub fn %s\(&self\)\s*->\s*usize\s*" % name)
        m = re.search(r"let log = match B \{(.*?)\};\s*log as usize(?:\s*\+\s*(\d+))?\s*\}\s*$", body, re.S)
        if not m:
            raise Unparsed("%s: shape of `let log = match B {..}; log as usize + k`" % name)
        if not re.search(r"if self\.significand\.is_zero\(\)\s*\{\s*return 0;\s*\}", body):
            raise Unparsed("%s: zero shortcut" % name)
        arms = {}
        for pat, ex in re.findall(r"(\d+|_)\s*=>\s*([^,]+),", m.group(1)):
            ex = re.sub(r"\s+", "", ex)
            ex = ex.replace("self.significand.log2_bounds()", "S").replace("Self::BASE.log2_bounds()", "BB").replace("core::f32::consts::LOG10_2", "C")
            g = re.fullmatch(r"S\.([01])(?:([*/])(C|BB\.([01])))?", ex)
            if not g:
                raise Unparsed("%s: arm %s => %s" % (name, pat, ex))
            s = "ub" if g.group(1) == "1" else "lb"
            if g.group(2) is None:
                t = s
            elif g.group(3) == "C":
                t = "(%s %s c_log10_2)" % ("f_mul" if g.group(2) == "*" else "f_div", s)
            else:
                t = "(%s %s %s)" % ("f_mul" if g.group(2) == "*" else "f_div", s, "base_ub" if g.group(4) == "1" else "base_lb")
            arms[pat] = t
        if "_" not in arms:
            raise Unparsed("%s: no default arm" % name)
        txt = arms["_"]
        for pat in sorted((p for p in arms if p != "_"), key=int, reverse=True):
            txt = "(if B =? %s then %s else %s)" % (pat, arms[pat], txt)
        return txt, int(m.group(2) or 0)

    ub, ubk = one("digits_ub")
    lb, lbk = one("digits_lb")
    return "\n".join([
        "(** GENERATED by tools/translate_c05_r3.py from float/src/repr.rs (Repr::digits_ub / digits_lb) - do not edit. *)",
        "From Coq Require Import ZArith.",
        "From Dashu Require Import Cross.XLog2Model.",
        "Open Scope Z_scope.",
        "",
        "(** (lb, ub) = self.significand.log2_bounds(), (base_lb, base_ub) = Self::BASE.log2_bounds(); f32 arithmetic *)",
        "Definition digits_ub_log_gen (B : Z) (lb ub base_lb base_ub : f32) : f32 :=",
        "  %s." % ub,
        "Definition digits_ub_plus_gen : Z := %d." % ubk,
        "Definition digits_lb_log_gen (B : Z) (lb ub base_lb base_ub : f32) : f32 :=",
        "  %s." % lb,
        "Definition digits_lb_plus_gen : Z := %d." % lbk,
        "",
    ])


# ------------------------------------------------------------------------------------------------ driver
def _write_if_changed(path, txt):
    try:
        with open(path) as f:
            if f.read() == txt:
                return
    except OSError:
        pass
    tmp = path + ".tmp%d" % os.getpid()
    with open(tmp, "w") as f:
        f.write(txt)
    os.replace(tmp, path)


def _one(render, repo, outdir, fname):
    path = os.path.join(outdir, fname)
    try:
        os.makedirs(outdir, exist_ok=True)
        try:
            txt = render(repo)
        except (Unparsed, T.Unsupported, OSError, UnicodeDecodeError, ValueError, RecursionError, SyntaxError, KeyError, IndexError, TypeError) as ex:
            why = re.sub(r"\s+", " ", str(ex)).strip()[:160] or ex.__class__.__name__
            if os.path.exists(path):
                with open(path) as f:
                    old = f.read()
                if not old.startswith(STALE):
                    _write_if_changed(path, STALE + " " + old)
                return "unparsed " + why
            return "unparsed " + why + " (no previous copy)"
        _write_if_changed(path, txt)
        return "ok"
    except Exception as ex:  # never an alarm
        return "unparsed internal %s" % re.sub(r"\s+", " ", repr(ex))[:160]


def generate(repo, outdir):
    """regenerates CmpGen.v and DigitsEstGen.v; returns {"CmpGen": status, "DigitsEstGen": status}.  Never raises."""
    return {"CmpGen": _one(render_cmp, repo, outdir, "CmpGen.v"),
            "DigitsEstGen": _one(render_digits, repo, outdir, "DigitsEstGen.v")}


def main():
    ap = argparse.ArgumentParser()
    ap.add_argument("--repo", default=os.environ.get("VERIF_REPO", "/repo"))
    ap.add_argument("--out", required=True)
    a = ap.parse_args()
    for k, v in generate(a.repo, a.out).items():
        print("FRAGMENT %s %s" % (k, v))
    return 0


if __name__ == "__main__":
    sys.exit(main())
