#!/usr/bin/env python3
"""coordinator helper: confirm delivered seeds (/tmp/seed_Cxx_out/{A,B}) and run seedtest for confirmed seeds whose
property check is READY and that have no result.json yet.  Sequential on purpose (shared cargo target, global coq lock)."""
import glob, json, os, subprocess, sys
ROOT = os.path.dirname(os.path.dirname(os.path.abspath(__file__)))
sys.path.insert(0, os.path.join(ROOT, "tools"))
import core
EXTRA = {"C05_B": "C08", "C15_A": "C03", "C15_B": "C05,C17", "C16_B": "C01", "C17_A": "C05,C09", "C05_A": "C15,C17", "C12_A": "C16", "C06_B": "C05"}
SHARD, NSHARD = (int(sys.argv[1]), int(sys.argv[2])) if len(sys.argv) > 2 else (0, 1)
os.environ["SEEDCONFIRM_TARGET"] = "/tmp/seedconfirm_target_%d" % SHARD
def mine(name):
    import zlib
    return zlib.crc32(name.encode()) % NSHARD == SHARD
def ready(pid):
    try:
        return bool(getattr(core.load_plugin(pid), "READY", False))
    except Exception:
        return False
for d in sorted(glob.glob("/tmp/seed_C*_out/*")):
    pid = d.split("seed_")[1].split("_out")[0]; v = os.path.basename(d)
    if not os.path.exists(os.path.join(d, "meta.json")): continue
    name = "%s_%s" % (pid, v)
    if pid == "C09": name += "2"
    dst = os.path.join(ROOT, "seeded", name)
    if not mine(name): continue
    if not os.path.exists(os.path.join(dst, "meta.json")) and not os.path.exists(os.path.join(d, ".rejected")):
        r = subprocess.run([sys.executable, os.path.join(ROOT, "tools", "seedconfirm.py"), d, "seeded/" + name], capture_output=True, text=True)
        ok = '"confirmed": true' in r.stdout
        print("confirm", name, ok, flush=True)
        if not ok:
            open(os.path.join(d, ".rejected"), "w").write(r.stdout[-3000:])
for dst in sorted(glob.glob(os.path.join(ROOT, "seeded", "*"))):
    name = os.path.basename(dst)
    if not mine(name): continue
    if not os.path.exists(os.path.join(dst, "meta.json")) or os.path.exists(os.path.join(dst, "result.json")): continue
    pid = json.load(open(os.path.join(dst, "meta.json"))).get("property") or name[:3]
    if not ready(pid): continue
    extra = ",".join(c for c in EXTRA.get(name, "").split(",") if c and ready(c))
    cmd = [sys.executable, os.path.join(ROOT, "tools", "seedtest.py"), dst] + (["--checks", extra] if extra else [])
    r = subprocess.run(cmd, capture_output=True, text=True)
    print("test", name, r.stdout.strip().replace("\n", " | ")[-400:], flush=True)
print("queue empty")
