#!/usr/bin/env python3
"""Shared machinery of the /verif checks (see DESIGN.md section 3).

A check of property Cxx does, in this order:
  1. regenerate coq/gen/*.v from the Rust sources of the repository under check (tools/translate.py)
  2. build coq/props/Cxx.vo and everything it depends on (full .vo build through coq_makefile),
     read the `Print Assumptions` output and compare it with the allow-list, grep for escapes
  3. extract the executable model to OCaml and build the oracle binary (cached by content hash)
  4. build the Rust harness against the repository's working tree with --cfg dashu_verif
  5. generate cases (one splitmix64 stream seeded by VERIF_SEED), run the implementation on them,
     let the oracle (extracted Coq definitions + thin driver) judge every implementation answer
  6. classify (pass / known finding / violation), write evidence/<id>.json and a replay file.
"""
import fcntl
import hashlib
import importlib.util
import json
import os
import re
import selectors
import shutil
import subprocess
import sys
import time
from concurrent.futures import ThreadPoolExecutor

ROOT = os.path.dirname(os.path.dirname(os.path.abspath(__file__)))
REPO = os.environ.get("VERIF_REPO", "/repo")
CACHE = os.path.join(ROOT, ".cache")
# VERIF_COQ: a private copy of the Coq tree (seeded-change experiments only, so that their regenerated fragments do
# not disturb other builds); registered commands never set it
COQ = os.environ.get("VERIF_COQ", os.path.join(ROOT, "coq"))
NCPU = int(os.environ.get("VERIF_JOBS", "16"))
GUARD = "dashu_verif"

ALLOWED_AXIOMS_STD = {
    # axioms declared by Coq's standard library, reached through Reals / Flocq / CoqInterval
    "ClassicalDedekindReals.sig_not_dec",
    "ClassicalDedekindReals.sig_forall_dec",
    "FunctionalExtensionality.functional_extensionality_dep",
    "Classical_Prop.classic",
}

FORBIDDEN = re.compile(
    r"\b(Admitted|admit|Axiom|Axioms|Parameter|Parameters|Conjecture|Conjectures|Abort All)\b"
    r"|Unset\s+Guard|Unset\s+Positivity|Unset\s+Universe|bypass_check|type-in-type|impredicative-set"
    r"|Admit\s+Obligations"
)


def log(*a):
    print("[check]", *a, file=sys.stderr, flush=True)


# ------------------------------------------------------------------------------------------------
# deterministic PRNG: everything random in a run derives from one splitmix64 state
# ------------------------------------------------------------------------------------------------
class Rng:
    MASK = (1 << 64) - 1

    def __init__(self, seed):
        self.s = seed & self.MASK

    def u64(self):
        self.s = (self.s + 0x9E3779B97F4A7C15) & self.MASK
        z = self.s
        z = ((z ^ (z >> 30)) * 0xBF58476D1CE4E5B9) & self.MASK
        z = ((z ^ (z >> 27)) * 0x94D049BB133111EB) & self.MASK
        return z ^ (z >> 31)

    def below(self, n):
        return self.u64() % n if n > 0 else 0

    def range(self, lo, hi):
        """inclusive"""
        return lo + self.below(hi - lo + 1)

    def choice(self, xs):
        return xs[self.below(len(xs))]

    def chance(self, num, den):
        return self.below(den) < num

    def bits(self, n):
        v = 0
        got = 0
        while got < n:
            v |= self.u64() << got
            got += 64
        return v & ((1 << n) - 1) if n > 0 else 0

    def fork(self, tag):
        h = hashlib.sha256(("%d:%s" % (self.s, tag)).encode()).digest()
        return Rng(int.from_bytes(h[:8], "little"))


# ------------------------------------------------------------------------------------------------
# integer generators shared by the properties (DESIGN 3.6)
# ------------------------------------------------------------------------------------------------
WORD = 64
THRESHOLDS = [16, 24, 30, 32, 192]


def gen_words_len(rng, tier, big=False):
    """a word count from the size classes that switch representation / algorithm"""
    cls = [0, 1, 1, 2, 2, 3, 3, 4, 5, 8]
    for t in THRESHOLDS[:4]:
        cls += [t - 1, t, t + 1]
    if big or tier == "thorough":
        cls += [2 * 32 + 1, 100, 191, 192, 193, 200]
    if tier == "thorough" and big:
        cls += [384, 400, 600, 1024]
    return rng.choice(cls)


def gen_mag(rng, nwords, word=WORD):
    """a magnitude with exactly nwords words (top word non-zero) in an interesting pattern"""
    if nwords == 0:
        return 0
    nb = nwords * word
    k = rng.below(12)
    top_lo = 1 << (nb - word)
    if k == 0:
        v = (1 << nb) - 1  # all ones
    elif k == 1:
        v = 1 << rng.range(nb - word, nb - 1)  # a power of two in the top word
    elif k == 2:
        v = (1 << rng.range(nb - word, nb - 1)) + rng.choice([1, -1]) if nb > word else rng.bits(nb)
    elif k == 3:
        # low words zero
        z = rng.range(0, nwords - 1)
        v = (rng.bits((nwords - z) * word) | (1 << ((nwords - z) * word - 1))) << (z * word)
    elif k == 4:
        v = top_lo  # top word 1, rest zero
    elif k == 5:
        v = ((1 << word) - 1) << (nb - word) | rng.bits(nb - word)  # top word MAX
    elif k == 6:
        # sparse
        v = 0
        for _ in range(rng.range(1, 4)):
            v |= 1 << rng.below(nb)
        v |= 1 << rng.range(nb - word, nb - 1)
    elif k == 7:
        # words that are 0 or MAX
        v = 0
        for i in range(nwords):
            if rng.chance(1, 2):
                v |= ((1 << word) - 1) << (i * word)
        v |= 1 << (nb - 1)
    elif k == 8:
        v = top_lo + rng.bits(word // 2)  # top word 1, tiny low part
    else:
        v = rng.bits(nb) | (1 << rng.range(nb - word, nb - 1))
        v &= (1 << nb) - 1
    if v < top_lo:
        v |= top_lo
    return v & ((1 << nb) - 1)


def gen_int(rng, tier, signed=True, big=False):
    n = gen_words_len(rng, tier, big)
    m = gen_mag(rng, n)
    if signed and rng.chance(1, 2):
        m = -m
    return m


def hx(v):
    return ("-" if v < 0 else "") + format(abs(v), "x")


def unhx(s):
    return int(s, 16)


# ------------------------------------------------------------------------------------------------
# locking / subprocess helpers
# ------------------------------------------------------------------------------------------------
class Lock:
    def __init__(self, name):
        os.makedirs(CACHE, exist_ok=True)
        if name in ("coq", "coqmake") and "VERIF_COQ" in os.environ:
            name += "-" + hashlib.sha256(COQ.encode()).hexdigest()[:8]
        self.path = os.path.join(CACHE, name + ".lock")

    def __enter__(self):
        self.f = open(self.path, "w")
        fcntl.flock(self.f, fcntl.LOCK_EX)
        return self

    def __exit__(self, *a):
        fcntl.flock(self.f, fcntl.LOCK_UN)
        self.f.close()


def run(cmd, cwd=None, timeout=None, env=None, stdin=None):
    e = dict(os.environ)
    if env:
        e.update(env)
    try:
        p = subprocess.run(
            cmd, cwd=cwd, timeout=timeout, env=e, input=stdin, stdout=subprocess.PIPE, stderr=subprocess.STDOUT, text=True
        )
        return p.returncode, p.stdout
    except subprocess.TimeoutExpired as ex:
        out = ex.stdout or ""
        if isinstance(out, bytes):
            out = out.decode(errors="replace")
        return 124, out + "\n[timeout after %ss]" % timeout


def sha(*parts):
    h = hashlib.sha256()
    for p in parts:
        if isinstance(p, str):
            p = p.encode()
        h.update(p)
        h.update(b"\0")
    return h.hexdigest()[:16]


def file_hash(paths):
    h = hashlib.sha256()
    for p in sorted(paths):
        h.update(p.encode())
        with open(p, "rb") as f:
            h.update(f.read())
    return h.hexdigest()[:16]


# ------------------------------------------------------------------------------------------------
# step 1+2: translator and Coq build
# ------------------------------------------------------------------------------------------------
def translate():
    """regenerate coq/gen/*.v from the repository sources; returns {fragment: status}"""
    rc, out = run([sys.executable, os.path.join(ROOT, "tools", "translate.py"), "--repo", REPO, "--out", os.path.join(COQ, "gen")])
    status = {}
    for line in out.splitlines():
        m = re.match(r"FRAGMENT (\S+) (\S+)(.*)", line)
        if m:
            status[m.group(1)] = (m.group(2) + m.group(3)).strip()
    if rc != 0:
        status["_translator"] = "failed: " + out[-400:]
    return status


def coq_project_files():
    fs = []
    for sub in ("theories", "gen", "props"):
        for d, _, names in os.walk(os.path.join(COQ, sub)):
            for n in sorted(names):
                if n.endswith(".v"):
                    fs.append(os.path.relpath(os.path.join(d, n), COQ))
    return sorted(fs)


def coq_makefile():
    files = coq_project_files()
    proj = "-Q theories Dashu\n-Q gen DashuGen\n-Q props DashuProps\n-arg -w -arg -notation-overridden,-deprecated,-ambiguous-paths\n" + "\n".join(files) + "\n"
    pp = os.path.join(COQ, "_CoqProject")
    old = open(pp).read() if os.path.exists(pp) else None
    if old != proj or not os.path.exists(os.path.join(COQ, "Makefile")):
        with open(pp, "w") as f:
            f.write(proj)
        rc, out = run(["coq_makefile", "-f", "_CoqProject", "-o", "Makefile"], cwd=COQ)
        if rc != 0:
            raise RuntimeError("coq_makefile failed: " + out)


def coq_build(targets, timeout=1500, force=()):
    """full .vo build of the given targets (relative to coq/). returns (ok, output)"""
    with Lock("coqmake"):
        return _coq_build(targets, timeout, force)


def _coq_build(targets, timeout, force):
    coq_makefile()
    for t in force:
        for ext in (".vo", ".glob", ".vos", ".vok"):
            p = os.path.join(COQ, t[:-3] + ext)
            if os.path.exists(p):
                os.remove(p)
    rc, out = run(["make", "-j%d" % NCPU, "--no-print-directory"] + list(targets), cwd=COQ, timeout=timeout)
    return rc == 0, out


def grep_forbidden():
    bad = []
    for rel in coq_project_files() + [os.path.join("extract", n) for n in sorted(os.listdir(os.path.join(COQ, "extract"))) if n.endswith(".v")]:
        txt = open(os.path.join(COQ, rel)).read()
        # strip comments (non-nested is enough for our sources; nested handled by a small loop)
        prev = None
        while prev != txt:
            prev = txt
            txt = re.sub(r"\(\*(?:(?!\(\*|\*\)).)*\*\)", " ", txt, flags=re.S)
        for i, line in enumerate(txt.splitlines(), 1):
            if FORBIDDEN.search(line):
                bad.append("%s:%d: %s" % (rel, i, line.strip()[:100]))
    return bad


def parse_props_file(pid):
    """theorem names pinned in coq/props/<pid>.v, in order"""
    txt = open(os.path.join(COQ, "props", pid + ".v")).read()
    return re.findall(r"^\s*(?:Theorem|Lemma|Corollary)\s+([A-Za-z0-9_']+)", txt, flags=re.M)


def parse_assumptions(output):
    """returns list of (closed?, [axiom names]) in the order of the Print Assumptions commands"""
    res = []
    lines = output.splitlines()
    i = 0
    while i < len(lines):
        l = lines[i]
        if "Closed under the global context" in l:
            res.append((True, []))
        elif l.strip() == "Axioms:":
            axs = []
            i += 1
            while i < len(lines) and lines[i].strip() and not lines[i].startswith(("COQC", "make", "File ")):
                if "Closed under the global context" in lines[i] or lines[i].strip() == "Axioms:":
                    i -= 1
                    break
                m = re.match(r"^([A-Za-z0-9_'.]+)\s*:", lines[i])
                if m:
                    axs.append(m.group(1))
                elif re.match(r"^([A-Za-z0-9_'.]+)\s*$", lines[i]) and not lines[i].startswith(" "):
                    axs.append(lines[i].strip())
                if "Closed under the global context" in lines[i] or lines[i].strip() == "Axioms:":
                    i -= 1
                    break
                i += 1
            res.append((False, axs))
        i += 1
    return res



def coqchk(pid, timeout=1800):
    """independent re-check of props/<pid>.vo and everything it depends on (thorough tier).
    returns {"ok": bool, "axioms": [...], "unsafe": [...], "wall_s": s, "tail": text}"""
    t0 = time.time()
    rc, out = run(["coqchk", "-o", "-silent", "-Q", "theories", "Dashu", "-Q", "gen", "DashuGen", "-Q", "props", "DashuProps",
                   "DashuProps." + pid], cwd=COQ, timeout=timeout)
    info = {"ok": rc == 0, "axioms": [], "unsafe": [], "wall_s": round(time.time() - t0, 1), "tail": out[-1500:]}
    if rc == 124:
        # the independent re-check did not finish in its budget: reported, not a verdict (coqc already accepted the proofs)
        info.update(ok=True, timed_out=True)
        return info
    m = re.search(r"\* Axioms:(.*?)\n\s*\n\* Constants/Inductives relying on type-in-type:(.*?)\n\s*\n\* Constants/Inductives relying on unsafe \(co\)fixpoints:(.*?)\n\s*\n\* Inductives whose positivity is assumed:(.*?)(\n\s*\n|$)", out, flags=re.S)
    if not m:
        info["ok"] = False
        return info
    axs = [a.strip() for a in m.group(1).replace("<none>", "").split("\n") if a.strip()]
    info["axioms"] = axs
    for g in (2, 3, 4):
        info["unsafe"] += [a.strip() for a in m.group(g).replace("<none>", "").split("\n") if a.strip()]
    allowed_tail = {x.split(".")[-1] for x in ALLOWED_AXIOMS_STD}
    bad = [a for a in axs if a.split(".")[-1] not in allowed_tail]
    if bad or info["unsafe"]:
        info["ok"] = False
        info["bad_axioms"] = bad
    return info


def coq_phase(pid, extra_allowed=()):
    """build proofs of property pid. returns dict with obligations, discharged, failures..."""
    t0 = time.time()
    info = {"obligations": 0, "discharged": 0, "failed": [], "axioms": [], "forbidden": [], "translator": {}, "output_tail": ""}
    with Lock("coq"):
        info["translator"] = translate()
        theorems = parse_props_file(pid)
        info["obligations"] = len(theorems)
        info["theorems"] = theorems
        target = "props/%s.vo" % pid
        ok, out = coq_build([target], force=[target])
        info["output_tail"] = out[-3000:]
        if not ok:
            # which file / theorem broke?
            m = re.search(r'File "\./([^"]+)", line (\d+)', out)
            where = "%s:%s" % (m.group(1), m.group(2)) if m else "unknown"
            broken = None
            if m and m.group(1) == "props/%s.v" % pid:
                # theorems before the error line are discharged
                txt = open(os.path.join(COQ, "props", pid + ".v")).read().splitlines()
                errl = int(m.group(2))
                done = 0
                for name in theorems:
                    ln = next(i for i, l in enumerate(txt, 1) if re.match(r"^\s*(Theorem|Lemma|Corollary)\s+" + re.escape(name) + r"\b", l))
                    if ln < errl:
                        done += 1
                        broken_candidate = name
                    else:
                        break
                info["discharged"] = max(0, done - 1)
                broken = theorems[max(0, done - 1)] if theorems else None
            info["failed"].append({"where": where, "theorem": broken, "log": out[-1500:]})
            info["wall_s"] = time.time() - t0
            return info
        ass = parse_assumptions(out)
        allowed = ALLOWED_AXIOMS_STD | set(extra_allowed)
        used = set()
        for closed, axs in ass:
            for a in axs:
                used.add(a)
        info["axioms"] = sorted(used)
        bad_ax = sorted(a for a in used if a not in allowed and a.split(".")[-1] not in {x.split(".")[-1] for x in allowed})
        if len(ass) < len(theorems):
            info["failed"].append({"where": "props/%s.v" % pid, "theorem": None, "log": "only %d Print Assumptions outputs for %d theorems" % (len(ass), len(theorems))})
        if bad_ax:
            info["failed"].append({"where": "props/%s.v" % pid, "theorem": None, "log": "axioms outside the allow-list: %s" % bad_ax})
        info["forbidden"] = grep_forbidden()
        if info["forbidden"]:
            info["failed"].append({"where": info["forbidden"][0], "theorem": None, "log": "forbidden construct in the development"})
        if not info["failed"]:
            info["discharged"] = len(theorems)
    info["wall_s"] = time.time() - t0
    return info


# ------------------------------------------------------------------------------------------------
# step 3: oracle (OCaml extraction of the Coq model + driver)
# ------------------------------------------------------------------------------------------------
def oracle_build(name, pure=False):
    """extract coq/extract/Extract_<name>.v and link with oracle/driver_<name>.ml. returns path or raises"""
    ex = os.path.join(COQ, "extract", "Extract_%s.v" % name)
    drv = os.path.join(ROOT, "oracle", "driver_%s.ml" % name)
    common = os.path.join(ROOT, "oracle", "common.ml")
    fastmap = os.path.join(COQ, "extract", "FastZ.v")
    vo_inputs = []
    for d, _, names in os.walk(os.path.join(COQ, "theories")):
        vo_inputs += [os.path.join(d, n) for n in names if n.endswith(".v")]
    for d, _, names in os.walk(os.path.join(COQ, "gen")):
        vo_inputs += [os.path.join(d, n) for n in names if n.endswith(".v")]
    key = file_hash([ex, drv, common, fastmap, os.path.join(ROOT, "oracle", "zar.ml"), os.path.join(ROOT, "oracle", "zfast.ml")] + vo_inputs) + ("p" if pure else "f")
    bindir = os.path.join(CACHE, "oracle", name + "-" + key)
    exe = os.path.join(bindir, "oracle")
    if os.path.exists(exe):
        return exe
    with Lock("oracle-" + name):
        if os.path.exists(exe):
            return exe
        tmp = bindir + ".tmp"
        shutil.rmtree(tmp, ignore_errors=True)
        os.makedirs(tmp)
        # FastZ.v holds our own Extract Constant directives (trusted base, DESIGN section 6)
        src = open(ex).read()
        if pure:
            src = src.replace("Require Import FastZ.", "Require Import ExtrOcamlBasic.")
        with open(os.path.join(tmp, "Extract_%s.v" % name), "w") as f:
            f.write(src)
        shutil.copy(fastmap, os.path.join(tmp, "FastZ.v"))
        flags = ["-Q", os.path.join(COQ, "theories"), "Dashu", "-Q", os.path.join(COQ, "gen"), "DashuGen", "-w", "-all"]
        if not pure:
            rc, out = run(["coqc"] + flags + ["FastZ.v"], cwd=tmp, timeout=600)
            if rc != 0:
                raise RuntimeError("FastZ.v failed: " + out[-2000:])
        rc, out = run(["coqc"] + flags + ["Extract_%s.v" % name], cwd=tmp, timeout=900)
        if rc != 0:
            raise RuntimeError("extraction of %s failed: %s" % (name, out[-2000:]))
        shutil.copy(common, os.path.join(tmp, "common.ml"))
        shutil.copy(os.path.join(ROOT, "oracle", "zar.ml"), os.path.join(tmp, "zar.ml"))
        shutil.copy(drv, os.path.join(tmp, "driver.ml"))
        if pure:
            shutil.copy(os.path.join(ROOT, "oracle", "zpure.ml"), os.path.join(tmp, "zconv.ml"))
        else:
            shutil.copy(os.path.join(ROOT, "oracle", "zfast.ml"), os.path.join(tmp, "zconv.ml"))
        cmd = ["ocamlfind", "ocamlopt", "-O3" if False else "-inline", "100", "-w", "-a", "-package", "zarith,str,unix", "-linkpkg", "zar.ml", "model.mli", "model.ml", "zconv.ml", "common.ml", "driver.ml", "-o", "oracle"]
        rc, out = run(cmd, cwd=tmp, timeout=900)
        if rc != 0:
            raise RuntimeError("ocaml build of %s failed: %s" % (name, out[-3000:]))
        shutil.rmtree(bindir, ignore_errors=True)
        os.rename(tmp, bindir)
    return exe


# ------------------------------------------------------------------------------------------------
# step 4: harness (Rust, against the repository working tree)
# ------------------------------------------------------------------------------------------------
def harness_dir(config="default"):
    """materialise the harness crate for this repo path + build configuration under .cache"""
    key = sha(REPO, config)
    d = os.path.join(CACHE, "harness", key)
    os.makedirs(d, exist_ok=True)
    tmpl = open(os.path.join(ROOT, "harness", "Cargo.toml.in")).read().replace("@REPO@", REPO)
    if config.startswith("nostd"):
        tmpl = tmpl.replace('dashu-base = { path = "%s/base" }' % REPO, 'dashu-base = { path = "%s/base", default-features = false }' % REPO)
        # the std feature of dashu-base is also switched on by the default features of the three
        # dependent crates (feature unification): they must be built without their defaults too
        for crate, sub in (("dashu-int", "integer"), ("dashu-float", "float"), ("dashu-ratio", "rational")):
            tmpl = tmpl.replace('%s = { path = "%s/%s", features' % (crate, REPO, sub), '%s = { path = "%s/%s", default-features = false, features' % (crate, REPO, sub))
    p = os.path.join(d, "Cargo.toml")
    if not os.path.exists(p) or open(p).read() != tmpl:
        open(p, "w").write(tmpl)
    for sub in ("src",):
        link = os.path.join(d, sub)
        if not os.path.islink(link):
            if os.path.exists(link):
                shutil.rmtree(link)
            os.symlink(os.path.join(ROOT, "harness", sub), link)
    lock_src = os.path.join(ROOT, "harness", "Cargo.lock.in")
    if os.path.exists(lock_src):
        dst = os.path.join(d, "Cargo.lock")
        if not os.path.exists(dst):
            shutil.copy(lock_src, dst)
    os.makedirs(os.path.join(d, ".cargo"), exist_ok=True)
    open(os.path.join(d, ".cargo", "config.toml"), "w").write("[net]\noffline = true\n")
    return d


CONFIGS = {
    # name: (rustflags, cargo profile)
    "default": ("--cfg %s" % GUARD, "verif"),
    "release": ("--cfg %s" % GUARD, "release"),
    "debug": ("--cfg %s" % GUARD, "dev"),
    "w32": ('--cfg %s --cfg force_bits="32"' % GUARD, "verif"),
    "w32release": ('--cfg %s --cfg force_bits="32"' % GUARD, "release"),
    "nostd": ("--cfg %s" % GUARD, "verif"),
}


def harness_build(binname, config="default", timeout=1500):
    d = harness_dir(config)
    flags, profile = CONFIGS[config]
    tdir = os.path.join(CACHE, "target", sha(REPO, config))
    env = {"RUSTFLAGS": flags + " -Awarnings", "CARGO_NET_OFFLINE": "true", "CARGO_TARGET_DIR": tdir, "DASHU_REPO": REPO}
    with Lock("cargo-" + sha(REPO, config)):
        rc, out = run(["cargo", "build", "--offline", "--profile", profile, "--bin", binname], cwd=d, timeout=timeout, env=env)
    if rc != 0:
        return None, out
    sub = {"dev": "debug"}.get(profile, profile)
    return os.path.join(tdir, sub, binname), out


# ------------------------------------------------------------------------------------------------
# step 5: running cases
# ------------------------------------------------------------------------------------------------
def run_lines(exe, lines, case_timeout, env=None, args=(), _retry=True):
    """feed numbered lines to exe, one answer line per case; survives hangs and crashes.
    returns dict id -> answer (str). lines: list of (id, text)."""
    answers = {}
    todo = list(lines)
    e = dict(os.environ)
    if env:
        e.update(env)
    while todo:
        p = subprocess.Popen([exe] + list(args), stdin=subprocess.PIPE, stdout=subprocess.PIPE, stderr=subprocess.DEVNULL, env=e, text=True, bufsize=1)
        # a writer thread avoids pipe deadlock
        import threading

        def feed(proc, items):
            try:
                for i, t in items:
                    proc.stdin.write("%d %s\n" % (i, t))
                proc.stdin.close()
            except (BrokenPipeError, ValueError, OSError):
                pass

        th = threading.Thread(target=feed, args=(p, todo), daemon=True)
        th.start()
        sel = selectors.DefaultSelector()
        sel.register(p.stdout, selectors.EVENT_READ)
        done_here = 0
        stuck = False
        buf = ""
        fd = p.stdout.fileno()
        os.set_blocking(fd, False)
        last = time.time()
        eof = False
        while not eof:
            ev = sel.select(timeout=1.0)
            if ev:
                try:
                    chunk = os.read(fd, 1 << 16)
                except BlockingIOError:
                    chunk = None
                if chunk is None:
                    continue
                if chunk == b"":
                    eof = True
                else:
                    buf += chunk.decode(errors="replace")
                    while "\n" in buf:
                        line, buf = buf.split("\n", 1)
                        sp = line.split(" ", 1)
                        if sp[0].isdigit():
                            answers[int(sp[0])] = sp[1] if len(sp) > 1 else ""
                            done_here += 1
                            last = time.time()
            if time.time() - last > case_timeout:
                stuck = True
                break
        sel.close()
        if stuck:
            p.kill()
            p.wait()
            # the first unanswered case seems to hang: before saying so, give it a second chance alone with three times
            # the budget (on a loaded machine a slow case must not be reported as a hang - that would be a false alarm)
            rest = [(i, t) for i, t in todo if i not in answers]
            if rest:
                i0, t0 = rest[0]
                if _retry:
                    again = run_lines(exe, [(i0, t0)], 3 * case_timeout, env=env, args=args, _retry=False)
                    answers[i0] = again.get(i0, "hang")
                else:
                    answers[i0] = "hang"
            todo = rest[1:]
        else:
            p.wait()
            rest = [(i, t) for i, t in todo if i not in answers]
            if rest and p.returncode != 0:
                # crashed (abort / stack overflow / OOM) on the first unanswered case
                answers[rest[0][0]] = "crash rc=%d" % p.returncode
                todo = rest[1:]
            elif rest:
                for i, t in rest:
                    answers[i] = "noanswer"
                todo = []
            else:
                todo = []
    return answers


def run_sharded(exe, lines, case_timeout=20, env=None, args=(), jobs=NCPU):
    if not lines:
        return {}
    n = min(jobs, max(1, len(lines) // 8))
    shards = [lines[i::n] for i in range(n)]
    out = {}
    with ThreadPoolExecutor(max_workers=n) as ex:
        for r in ex.map(lambda s: run_lines(exe, s, case_timeout, env, args), shards):
            out.update(r)
    return out


# ------------------------------------------------------------------------------------------------
# known findings
# ------------------------------------------------------------------------------------------------
def load_known(pid):
    """known findings of a property: findings/<pid>.json (KNOWN_FINDINGS.json is the generated union)"""
    p = os.path.join(ROOT, "findings", pid + ".json")
    if not os.path.exists(p):
        return []
    data = json.load(open(p))
    return [f for f in data.get("findings", []) if f.get("property") == pid]


def load_plugin(pid):
    p = os.path.join(ROOT, "props", pid + ".py")
    spec = importlib.util.spec_from_file_location("prop_" + pid, p)
    m = importlib.util.module_from_spec(spec)
    sys.modules["prop_" + pid] = m
    spec.loader.exec_module(m)
    return m
