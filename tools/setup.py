#!/usr/bin/env python3
"""setup: warm every cache (full Coq build, oracle binaries, harness binaries)"""
import os
import sys
import glob

sys.path.insert(0, os.path.dirname(os.path.abspath(__file__)))
import core

core.translate()
core.coq_makefile()
ok, out = core.coq_build(['-k'], timeout=5400)
print(out[-2000:])
if not ok:
    print("setup: Coq build failed (checks will report it per property)")
rc, out = core.run([sys.executable, os.path.join(core.ROOT, "tools", "fastz_selftest.py")], timeout=1800)
print(out.strip())
bins = set()
for p in sorted(glob.glob(os.path.join(core.ROOT, "props", "C*.py"))):
    m = core.load_plugin(os.path.basename(p)[:-3])
    if getattr(m, "NOT_APPLICABLE", None):
        continue
    try:
        core.oracle_build(m.ORACLE)
    except Exception as ex:
        print("setup: oracle %s: %s" % (m.ORACLE, str(ex)[-500:]))
    for cfg in getattr(m, "CONFIGS", ["default"]):
        exe, out = core.harness_build(m.HARNESS_BIN, cfg)
        if exe is None:
            print("setup: harness %s/%s failed: %s" % (m.HARNESS_BIN, cfg, out[-800:]))
print("setup done")
