#!/usr/bin/env python3
"""print the brief of a deepening-round builder: tools/deepprompt.py C12"""
import glob, json, os, sys
ROOT = os.path.dirname(os.path.dirname(os.path.abspath(__file__)))
pid = sys.argv[1]
rnd = sys.argv[2] if len(sys.argv) > 2 else "r3"
focus_file = {"r3": "deep_focus.json"}.get(rnd, "deep_focus_%s.json" % rnd)
prop = next(json.loads(l) for l in open(os.path.join(ROOT, "properties.jsonl")) if json.loads(l)["id"] == pid)
text = "\n".join("%s: %s" % (k, json.dumps(prop[k], ensure_ascii=False) if not isinstance(prop[k], str) else prop[k])
                 for k in ("id", "title", "statement", "quantifier", "why_tests_cant", "anchors") if k in prop)
focus = json.load(open(os.path.join(ROOT, "docs", focus_file)))[pid]
reports = ", ".join(sorted(glob.glob(os.path.join(ROOT, "docs", "reports", pid + "*.md")))) or "(none)"
t = open(os.path.join(ROOT, "docs", "deep_prompt.tmpl")).read()
print(t.format(pid=pid, low=pid.lower(), prop=text, focus=focus, reports=reports, rnd=rnd))
