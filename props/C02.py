"""C02 - integer division obeys the division identity with the documented conventions."""
import os
import sys
import core
from core import hx, gen_mag

# coq/gen/DivDispatch.v (scratch-memory formulas, kernel selection, allocation traces of karatsuba.rs / toom_3.rs, the
# match arms of div_ops.rs::repr, the primitive-operand macro rows) is regenerated when this plug-in is imported, i.e.
# before the proof phase of every run (tools/translate.py is shared and not ours to edit).  Unparseable source is not an
# alarm: the last good copy of that fragment stays (marked STALE), the status goes into the evidence via extra_phase.
sys.path.insert(0, os.path.join(core.ROOT, "tools"))
try:
    import translate_c02_r3
    R3_STATUS = translate_c02_r3.generate(core.REPO, os.path.join(core.COQ, "gen"))
except Exception as _ex:  # the generator itself broke: same fallback as an unparseable source
    R3_STATUS = {"DivDispatch": "unparsed generator-failed: %s" % str(_ex)[:200]}

# round 4: coq/gen/DivKernelsGen.v (the loop kernels of div/mod.rs, div/simple.rs, divide_conquer.rs as Gallina folds, through the
# loop translator of C01 used as a library), coq/gen/DivReprGen.v (helpers of div_ops.rs::repr) and coq/gen/DivAssertsGen.v (every
# debug_assert*! of div / div_const / div_ops / mul with a side-effect flag)
try:
    import translate_c02_r4
    R4_STATUS = translate_c02_r4.generate(core.REPO, os.path.join(core.COQ, "gen"))
    R4_DETAIL = {"functions": dict(translate_c02_r4.LAST_RESULTS), "asserts": dict(translate_c02_r4.LAST_ASSERTS)}
except Exception as _ex:
    R4_STATUS = {"DivKernels": "unparsed generator-failed: %s" % str(_ex)[:200]}
    R4_DETAIL = {}

# round 5: coq/gen/DivBodiesGen.v - the recursion of div/divide_conquer.rs (both mutually recursive bodies with the callee as a
# function parameter, the knot through fuel, the blocked loop) and the algorithm switch of div/mod.rs over it
try:
    import translate_c02_r5
    R5_STATUS = translate_c02_r5.generate(core.REPO, os.path.join(core.COQ, "gen"))
    R5_DETAIL = {"functions": dict(translate_c02_r5.LAST_RESULTS)}
except Exception as _ex:
    R5_STATUS = {"DivBodies": "unparsed generator-failed: %s" % str(_ex)[:200]}
    R5_DETAIL = {}


def _build_model_first():
    """the files the extraction imports are definitions only; they are built BEFORE the proof phase so that a proof broken by a
    changed generated fragment cannot keep the oracle from being built (make stops at the first error): the run then still finds
    the concrete failing input"""
    try:
        import re as _re
        txt = open(os.path.join(core.COQ, "extract", "Extract_c02.v")).read()
        targets = []
        for lib, names in _re.findall(r"From (Dashu|DashuGen) Require Import ([^.]*(?:\.[A-Za-z][^.]*)*)\.\s", txt):
            for n in names.split():
                targets.append(("theories/" + n.replace(".", "/") if lib == "Dashu" else "gen/" + n) + ".vo")
        if targets:
            core.coq_build(targets)
    except Exception:
        pass


if "--no-coq" not in sys.argv and "--replay" not in sys.argv and os.path.basename(sys.argv[0]).startswith("check"):
    _build_model_first()

# a run against a scratch checkout (VERIF_REPO) must not leave that checkout's fragment in a shared tree
if os.path.realpath(core.REPO) != os.path.realpath("/repo") and os.path.realpath(core.COQ) == os.path.realpath(os.path.join(core.ROOT, "coq")):
    import atexit

    def _restore_r3():
        try:
            translate_c02_r3.generate("/repo", os.path.join(core.COQ, "gen"))
        except Exception:
            pass
        try:
            translate_c02_r4.generate("/repo", os.path.join(core.COQ, "gen"))
        except Exception:
            pass
        try:
            translate_c02_r5.generate("/repo", os.path.join(core.COQ, "gen"))
        except Exception:
            pass

    atexit.register(_restore_r3)

R3_TIED_BY = {
    "DivMemReq": "C02_mem_div, C02_mem_mul, C02_mem_hook",
    "MulKernelSel": "C02_mem_mul_same_len, C02_mem_mul",
    "MulAllocEvents": "C02_mem_mul_same_len",
    "ReprArms": "C02_typed_div_rem, C02_typed_div, C02_typed_rem",
    "PrimRows": "C02_prim_rows",
}
R5_TIED_BY = {
    "DivOps": "C02_ops_ibig, C02_ops_ubig, C02_ops_ubig_ibig, C02_ops_ibig_ubig, C02_ops_mixed_only_plain, C02_ops_assign_forward",
    "DivBodies": "C02_gen_dc_small_quotient, C02_gen_dc_same_len, C02_gen_dc_div_rem, C02_gen_div_rem_in_place_full, C02_gen_full_kernel_correct, C02_gen_div_rem_large_dword, C02_gen_div_large_dword, C02_gen_rem_large_dword, C02_gen_const_rem, C02_gen_const_div_rem, C02_gen_const_unconditional",
}
R4_TIED_BY = {
    "DivKernels": "C02_gen_fast_div_by_word .. C02_gen_dc_tail (15 theorems: generated = hand model for every w), C02_gen_small_divisor_correct",
    "DivRepr": "C02_gen_div_rem_in_lhs, C02_gen_div_rem_large, C02_gen_div_large, C02_gen_rem_large, C02_gen_large_divisor_correct",
    "DivAsserts": "C02_debug_asserts_keep_side_effects",
}

# a replay of a failure found in the release or the 32-bit build must run that build (tools/check.py always asks for "default"):
# the recorded config is substituted, and the oracle is told the word size
if "--replay" in sys.argv:
    try:
        import json as _json
        _rp = _json.load(open(sys.argv[sys.argv.index("--replay") + 1]))
        _cfg = _rp.get("config")
        if _cfg in ("release", "w32"):
            _orig_build = core.harness_build
            core.harness_build = lambda b, c="default", **k: _orig_build(b, _cfg, **k)
            if _cfg == "w32":
                os.environ["C02_W"] = "32"
    except Exception:
        pass


EXTRA_CONFIGS = [("release", 64), ("w32", 32)]
if os.environ.get("C02_EXTRA_CONFIGS") is not None:       # sensitivity experiments: a subset ("" = none)
    EXTRA_CONFIGS = [(c, 32 if c.startswith("w32") else 64) for c in os.environ["C02_EXTRA_CONFIGS"].split(",") if c]


def _verdict(line):
    t = (line or "noverdict").split()
    return (t[0] if t else "noverdict"), dict(x.split("=", 1) for x in t[1:] if "=" in x)


def _other_build(cfg, wbits, cases, exes, oracle, hist, failures, nontrivial):
    """the reduced case list on another build of the library: release (debug assertions and overflow checks OFF - the profile
    users run) and force_bits="32" (Word = u32; the oracle runs every word-level model at w = 32)"""
    exe, out = core.harness_build(HARNESS_BIN, cfg)
    if exe is None:
        failures.append({"kind": "harness build failed", "config": cfg, "log": out[-1500:]})
        return 0
    answers = core.run_sharded(exe, cases, case_timeout=CASE_TIMEOUT["quick"])
    verdicts = core.run_sharded(oracle, [(i, "%s => %s" % (t, answers.get(i, "noanswer"))) for i, t in cases],
                                case_timeout=120, env={"C02_W": str(wbits)})
    base = core.run_sharded(exes["default"], cases, case_timeout=CASE_TIMEOUT["quick"]) if (wbits == 64 and "default" in exes) else None
    bad = {}
    for i, t in cases:
        v, kv = _verdict(verdicts.get(i))
        op = t.split(" ", 1)[0]
        hist["BUILD:%s:op:%s" % (cfg, op.split(".")[0])] = hist.get("BUILD:%s:op:%s" % (cfg, op.split(".")[0]), 0) + 1
        if "asis" in kv:
            hist["BUILD:%s:asis:%s" % (cfg, kv["asis"])] = hist.get("BUILD:%s:asis:%s" % (cfg, kv["asis"]), 0) + 1
        if kv.get("nt") == "1":
            nontrivial.append(cfg + " " + t)
        why = None
        if v != "pass":
            why = "oracle: " + (verdicts.get(i) or "noverdict")[:300]
        elif kv.get("asis") == "diff":
            why = "model fidelity: the as-is model (word size %d) differs from the %s build" % (wbits, cfg)
        elif base is not None and base.get(i) != answers.get(i):
            why = "the %s build answers differently from the verif build: %s" % (cfg, (base.get(i) or "")[:200])
        if why and op not in bad:
            bad[op] = {"kind": "other-build", "config": cfg, "case": t, "impl": (answers.get(i) or "noanswer")[:2000], "why": why,
                       "replay": "./check C02 --replay <this file>   (the plug-in substitutes the recorded config for the harness build)"}
        if why:
            hist["BUILD:%s:violations" % cfg] = hist.get("BUILD:%s:violations" % cfg, 0) + 1
    failures.extend(bad.values())
    return len(cases)


def extra_phase(tier, seed, exes, oracle):
    hist = {}
    for name, st in R3_STATUS.items():
        hist["TRANSLATOR_C02_R3:%s:%s" % (name, st.split(" ", 1)[0])] = 1
    for name, st in R4_STATUS.items():
        hist["TRANSLATOR_C02_R4:%s:%s" % (name, st.split(" ", 1)[0])] = 1
    for name, st in R5_STATUS.items():
        hist["TRANSLATOR_C02_R5:%s:%s" % (name, st.split(" ", 1)[0])] = 1
    ok5 = all(st == "ok" for st in R5_STATUS.values())
    sample5 = {"fragment": "coq/gen/DivBodiesGen.v (tools/translate_c02_r5.py over translate_c02_r4.py / translate_c01_r4.py, from "
                           "integer/src/div/divide_conquer.rs and div/mod.rs)",
               "status": dict(R5_STATUS), "detail": R5_DETAIL,
               "tied_by": R5_TIED_BY if ok5 else "functions reported `unparsed` keep their last good copy (marked STALE) and are tied by the correspondence run only"}
    allok = all(st == "ok" for st in R3_STATUS.values())
    sample = {"fragment": "coq/gen/DivDispatch.v (tools/translate_c02_r3.py from integer/src/div/*.rs, mul/*.rs, div_ops.rs, helper_macros.rs)",
              "status": dict(R3_STATUS),
              "tied_by": R3_TIED_BY if allok else "fragments not `ok` keep their last good copy (marked STALE) and are tied by the correspondence run only"}
    ok4 = all(st == "ok" for st in R4_STATUS.values())
    sample4 = {"fragment": "coq/gen/DivKernelsGen.v, DivReprGen.v, DivAssertsGen.v (tools/translate_c02_r4.py over tools/translate_c01_r4.py, from "
                           "integer/src/div/{mod,simple,divide_conquer}.rs, div_ops.rs, div_const.rs, mul/*.rs, helper_macros.rs)",
               "status": dict(R4_STATUS), "detail": R4_DETAIL,
               "tied_by": R4_TIED_BY if ok4 else "functions reported `unparsed` keep their last good copy (marked STALE) and are tied by the correspondence run only"}
    failures, nontrivial, evaluations = [], [], 0
    if oracle and exes:
        rng = core.Rng(seed * 7919 + 17)
        n = {"quick": 1500, "thorough": 12000}.get(tier, 1500)
        for cfg, wbits in EXTRA_CONFIGS:
            cases = list(enumerate(other_build_cases(rng.fork(cfg), tier, n, wbits)))
            evaluations += _other_build(cfg, wbits, cases, exes, oracle, hist, failures, nontrivial)
    return {"evaluations": evaluations, "hist": hist, "nontrivial": nontrivial, "samples": [sample5, sample4, sample], "failures": failures}

ID = "C02"
READY = True
ORACLE = "c02"
HARNESS_BIN = "c02"
NCASES = {"quick": 9000, "thorough": 200000}
CASE_TIMEOUT = {"quick": 30, "thorough": 120}

LEVEL_TEXT = ("Machine-checked Coq theorems for all inputs: (1) the sign fix-up tables of / % div_rem div_euclid rem_euclid "
              "div_rem_euclid is_multiple_of (regenerated from div_ops.rs on every run), the UBig/IBig mixed forms and the "
              "ConstDivisor forms equal Z.quot/Z.rem resp. the Euclidean quotient/remainder for every sign combination and "
              "magnitude, a zero divisor is the DivideBy0 panic, and these specifications satisfy a = q*b + r with the demanded "
              "sign/range of r (and are the unique such pair); (2) faithful word-list models (any word size w, any length) of "
              "div_by_word_in_place, rem_by_word, div_by_dword_in_place, rem_by_dword (incl. the power-of-two shortcuts; the "
              "index arithmetic `while i > 2 { i -= 2 } if i == 2` of fast_rem_by_normalized_word/dword is modelled with "
              "out-of-range / wrap-around as panics and proved panic-free and equal to the list recursions), the "
              "Knuth-D step div_rem_highest_word, the whole schoolbook division, the Burnikel-Ziegler recursion (fuel proved "
              "sufficient: at most 4 add-backs, depth < quotient length), the THRESHOLD_SIMPLE switch, normalisation + top-word "
              "quotient carry, div_rem_large, and the ConstDivisor paths of div_const.rs::repr return exactly the floor quotient "
              "and remainder - so ConstDivisor = plain division at word level; num-modular's reciprocal division and "
              "mul::add_signed_mul are transcribed too (unconditional theorems for w >= 8); (3) the 12 TypedRepr/TypedReprRef "
              "implementations of DivRem/Div/Rem with their ownership arms REGENERATED from div_ops.rs::repr (which helper, which "
              "operand in which position, the `len >=` test, the shorter-dividend arms incl. clone_from_slice into the divisor's "
              "buffer) over transcribed helpers (div_rem_in_lhs with push_resizing, div_large = erase_front only, rem_large = copy "
              "+ shift back only, *_large_dword, Repr::from_buffer with pop_zeros) return the CANONICAL Repr of a/b and a mod b for "
              "every ownership combination, or DivideBy0; (4) scratch memory: the exact peak of the recursion (allocation / "
              "recursive-call traces of karatsuba.rs and toom_3.rs, requirement formulas and kernel selection REGENERATED; chunk "
              "splitting and Burnikel-Ziegler transcribed on lengths) never exceeds div::memory_requirement_exact resp. "
              "mul::memory_requirement_exact, for every pair of lengths (induction; Toom-3 depth d with 32*3^d <= 2n-5 and "
              "3^20 > 2^31 give the 13*ceil_log2 term); (5) primitive-typed operands and is_multiple_of_const = truncating "
              "division resp. (r = 0) with the exact unwrap-panic class, the macro rows REGENERATED and checked against the model. "
              "(6) round 4 - the LOOP KERNELS THEMSELVES are regenerated from the source on every run (tools/translate_c02_r4.py over "
              "the loop translator of C01, coq/gen/DivKernelsGen.v): div_by_word_in_place, fast_div_by_word_in_place (reverse loop), "
              "rem_by_word, fast_rem_by_normalized_word (index loop), div_by_dword_in_place (power-of-two path with n1 | n2), "
              "fast_div_by_dword_in_place (split_last twice, rchunks_exact_mut(2) 4-by-2 chunks, odd tail), rem_by_dword, "
              "fast_rem_by_normalized_dword, normalize, simple::div_rem_highest_word, simple::div_rem_in_place (the shrinking-window "
              "loop), the THRESHOLD_SIMPLE switch, div_rem_unshifted_in_place and the part of the divide-and-conquer step after the "
              "recursive calls (add_signed_mul, q_overflow subtraction, the correction `while`): each generated function is proved EQUAL "
              "to the hand model for every word size and every instance of the primitives (premises: the operand ranges the Rust types "
              "give, and well-formed words where a bool carry is compared with an integer one); likewise the helpers of "
              "div_ops.rs::repr (div_rem_in_lhs, div_rem_large, div_large, rem_large; coq/gen/DivReprGen.v); entry points built only from "
              "generated code return (a / b, a mod b) for all operands, w >= 8; (7) ConstDivisor construction for Single / Double / Large "
              "with the stored fields: new / from_word / from_dword of 0 panic DivideBy0, shift = leading zeros, stored divisor = n << "
              "shift is normalised, the reciprocal is floor((B^2-1)/d) - B resp. floor((B^3-1)/d) - B (num-modular's invert_word / "
              "invert_double_word transcribed; no debug assertion of the constructors fires), value() = n, from_* = new; (8) every "
              "debug_assert*! of div / div_const / div_ops / mul whose argument has side effects is the crate's always-evaluating "
              "debug_assert_zero! (list regenerated, decided by computation). "
              "(9) round 5 - coq/gen/DivBodiesGen.v (tools/translate_c02_r5.py): the RECURSION of divide_conquer.rs is regenerated too - "
              "div_rem_in_place_small_quotient and div_rem_in_place_same_len are each translated with the other as a function parameter "
              "(slices `&mut lhs[n - m..]`, `&rhs[n - m..]`, `&mut lhs[..n + n_lo]` as firstn / skipn with write-back), the knot is tied "
              "through fuel, the blocked loop `while m >= 2 * n` of div_rem_in_place is a fuelled Fixpoint, the THRESHOLD_SIMPLE switch "
              "is regenerated over this kernel: each is proved equal to the hand model for every word size and every instance of the "
              "primitives meeting the 3-by-2 / multiply-subtract contracts (well-formed dividend, normalised divisor), and the function "
              "made of generated code only is proved to return remainder, quotient and carry with NO fuel premise "
              "(C02_gen_full_kernel_correct); the *_large_dword helpers of div_ops.rs::repr (zero test = DivideBy0 guard, shrink_dword) "
              "and the word / double-word ConstDivisor paths of div_const.rs (rem_word / rem_dword / rem_large of ConstSingleDivisor and "
              "ConstDoubleDivisor, div_rem_small_single / _double, the Single / Double arms of the Div / Rem / Rem-by-reference / DivRem "
              "impl blocks) are regenerated and proved equal to the transcriptions, unconditionally = a / d, a mod d, DivideBy0 for w >= 8; "
              "coq/gen/DivOpsGen.v: the operator layer of div_ops.rs (every forward_*_binop_to_repr! / impl_binop_assign_by_taking! "
              "invocation: which body macro or TypedRepr operation each public operator of UBig / IBig / mixed operands expands to, with "
              "which signs) is regenerated and the dispatch of the sign-layer model is proved to be that table - so from the public "
              "operator down to the word loops every level is generated. "
              "Models tied to the code by a correspondence run on every check (fidelity 100%), in three builds: verif profile, RELEASE "
              "profile (debug assertions and overflow checks off) and force_bits=\"32\" (word-level models run at w = 32).")
LEVEL_NOTE = ("Hand-transcribed (tied by the run, not regenerated): the kernels of OTHER files the division code calls (shift.rs, add.rs, "
              "mul/mod.rs sub_mul_word, cmp.rs, math.rs shr_word / shl_dword, primitive.rs - atoms k_* of Int/DivKernelsBase.v = the hand models "
              "of DivWordModel.v; C01 / C09 regenerate those files), the selection of the ConstDivisor arm by the operand variants and the "
              "Large-divisor arms of div_const.rs::repr (rem_large_large, the Large x Large DivRem / Div arms), the expansion of the "
              "forward_*_binop_to_repr! helper macros themselves (sign / magnitude split, helper_macros.rs), helpers::add_signed_mul_split_into_chunks "
              "(memory model), Buffer::{pop_zeros, push_resizing, erase_front, clone_from_slice}. ConstDivisor's stored fields are private: the "
              "run reads them off the derived Debug output. "
              "The memory theorems are about lengths; that the allocator hands out exactly the requested words (memory.rs, no padding "
              "for Word slices) is observed by the run: the smallest scratch size with which the real kernel completes (bisection through "
              "the hook div_kernel_scratch / mul_kernel_scratch) equals the model's peak in every case. The canonical Repr of a result is "
              "proved for the model; the run compares values (all call forms must agree). A proof break of a regenerated fragment "
              "without a failing input is reported as VIOLATION ... no-failing-input-found. Trusted: Coq kernel, translators, "
              "extraction + FastZ.v, zarith, harness.")
TECHNIQUE = ("Coq proof (sign tables, operator layer, ownership arms, memory formulas and allocation traces, primitive macro rows, the loop kernels of "
             "division AND the divide-and-conquer recursion, the *_large_dword helpers and the word / double-word ConstDivisor paths regenerated "
             "from source; word-level algorithm models) + extracted-model correspondence run in three builds "
             "(verif, release, 32-bit words)")
RULE = ("cases = call form (every operator / trait / ownership variant / Assign twin is evaluated inside one case and must agree) x "
        "type pairing {UBig, IBig, UBig-IBig, IBig-UBig, ConstDivisor, primitives, is_multiple_of(_const)} x 4 sign combinations x "
        "divisor length {1,2,3,4,5,8,16,31,32,33,34,40,64,65,66 words} x quotient length {dividend shorter, 0,1,2,3,31,32,33,34,"
        "40,66,70,100 words} x divisor pattern {1, 2^k word, word MAX, 2^64..2^127 powers of two, low word zero, top word "
        "1/2^63/MAX, low part all ones, random} x dividend construction {random, q*b + r with r in {0,1,b-1,random} and q all-ones / "
        "B^k / B^k-1 / random (drives the q-hat correction and the quotient carry)}; hook-level cases force the schoolbook and the "
        "divide-and-conquer kernels at lengths on both sides of THRESHOLD_SIMPLE; scratch-memory cases (km / mm) measure the smallest "
        "sufficient scratch of the division kernels and of mul::add_signed_mul at lengths around 32/33 (division) and 24/25, 48..51, "
        "96/97, 192/193, 386/387, 579 (multiplication inside). Division by zero in every form. Non-trivial = both operands non-zero "
        "and the oracle evaluated the Coq specification (memory cases: scratch actually used); distinct = distinct case texts. "
        "ConstDivisor construction (c.fields: stored shift / divisor / reciprocal for 0-, 1-, 2-, 3-, 5-, 33-word divisors) and multi-word "
        "ConstDivisors with leading zeros in the top word. A reduced list (1500 cases quick / 12000 thorough per build: every op and call "
        "form, corpus included) runs against the release build (must also answer exactly as the verif build) and against the "
        "force_bits=\"32\" build with sizes counted in 32-bit words (divisor / quotient 31..34 words, 2^32..2^63 power-of-two double words).")
EXPLANATION = ("Theorems in coq/props/C02.v (sign layer = spec for all signs; spec has the identity and is unique; word kernels, "
               "Knuth D, whole schoolbook division, divide-and-conquer (sound and total), algorithm switch, normalisation/top-word "
               "carry, div_rem_large, ConstDivisor paths = floor division, unconditional for the transcribed instance; round 3: the "
               "TypedRepr ownership arms build the canonical Repr of quotient and remainder, scratch memory is sufficient for all "
               "lengths, the index loops of fast_rem_* are panic-free, primitive macro rows). Tie: sign tables (tools/translate.py) and "
               "coq/gen/DivDispatch.v (tools/translate_c02_r3.py: memory formulas, kernel selection, allocation traces, match arms, macro "
               "rows) are regenerated from the sources each run; every other model is compared with the implementation "
               "(fidelity must be 100%), the memory model through bisection of the smallest sufficient scratch. Round 4: coq/gen/DivKernelsGen.v, "
               "DivReprGen.v (the loop kernels and the repr helpers as Gallina, regenerated by tools/translate_c02_r4.py; theorems C02_gen_*: "
               "generated = hand model for every w; a source edit changes the generated function and breaks the equality proof, an edit in a "
               "style the translator cannot read keeps the last good copy and is reported `unparsed`), DivAssertsGen.v (C02_debug_asserts_keep_"
               "side_effects), C02_const_new* (construction). The oracle evaluates the generated kernels on every case with a dividend of "
               "more than two words, and runs the release and the 32-bit build on a reduced list (extra phase; a failure there is replayed "
               "with ./check C02 --replay <file>, the plug-in substitutes the recorded build). Round 5: coq/gen/DivBodiesGen.v (recursion of "
               "divide_conquer.rs through fuel, switch over it, *_large_dword helpers, word / double-word ConstDivisor methods and arms) and "
               "DivOpsGen.v (operator layer) regenerated by tools/translate_c02_r5.py; theorems C02_gen_dc_*, C02_gen_div_rem_in_place_full, "
               "C02_gen_full_kernel_correct, C02_gen_*_large_dword, C02_gen_const_*, C02_ops_*; the oracle evaluates the generated recursion on every "
               "kernel-hook case (k.0 / k.2, block loop boundaries 2n-1 / 2n / 2n+1), the generated *_large_dword helpers on every Large / Small "
               "case and the generated ConstDivisor arms on every uc / ic case with a one- or two-word divisor.")
TRUSTED_BASE = [
    "Coq 8.16.1 kernel",
    "tools/translate.py renders impl_ibig_div/rem/divrem/div_euclid/rem_euclid/divrem_euclid and impl_ubig_ibig_* faithfully (magnitude `/`, `%`, div_rem -> Z./, Z.modulo on non-negative magnitudes; with_sign -> signed)",
    "tools/translate_c02_r3.py reads the memory_requirement functions (usize arithmetic, .min, ceil_log2, if/else), the allocate_slice_* / add_signed_mul_same_len sequence with its block structure, the match arms of the 12 TypedRepr impls and the primitive macro rows; the meaning of its atoms (Layout::array::<Word>(k) = k words, ceil_log2, EvAlloc/EvCall/EvOpen/EvClose, ArmDword/ArmLargeDword/ArmShort/ArmLargeLarge) is hand-written in Int/DivMemBase.v, DivMemModel.v, DivOwn.v",
    "num-modular 0.6 reciprocal division primitives: transcribed (Int/DivNumModular.v) and proved; the contract form remains for the general theorems",
    "extraction: ExtrOcamlBasic + ExtrOcamlZBigInt + coq/extract/FastZ.v; OCaml 4.13.1 + zarith; oracle/common.ml, oracle/driver_c02.ml",
    "Rust harness harness/src/bin/c02.rs (values moved through raw words), hooks dashu_int::verif_hooks::{div_kernel, div_kernel_scratch, div_scratch_words, mul_kernel_scratch, mul_scratch_words}",
    "shift kernels (shl_in_place / shr_in_place) and add/sub/sub_mul word kernels are re-modelled locally in Int/DivWordModel.v with their contracts proved there; mul::add_signed_mul is C01's model (contract proved for w >= 8)",
    "tools/translate_c02_r4.py + tools/translate_c01_r4.py (library): Rust loops -> Gallina folds (for / reverse for / rchunks / index while / window while / split_last), exact integer meaning of + - * << >> | & on words (range premises in the theorems), `debug_assert_zero!(e)` = evaluate e, other debug_assert*! dropped, FastDivideNormalized(2) values = the normalised divisor with the primitives as record fields; atoms in Int/DivKernelsBase.v (trailing_zeros x = log2 gcd(x, 2^log2 x), split_last, shr_word, k_* = hand models of other files' kernels)",
    "the side-effect classifier of the debug-assertion list (regex: `&mut`, *_in_place, add_signed_mul*, add_mul_* / sub_mul_*, buffer mutators) and the recognition of the macro body `let __check__ = $($arg)*; debug_assert_eq!(__check__ ..)` in helper_macros.rs",
    "tools/translate_c02_r5.py (over the r4 / C01 translators): open recursion (the recursive callee of each divide_conquer.rs body becomes a function parameter; the knot `Fixpoint .. fuel` is fixed text emitted only when both bodies were read), `let x: SignedWord = f(..).into()` = SignedWord::from, const_assert! dropped, the recursion fuel of div_rem_in_place's callees added to the source text as a first argument (lhs.len() + 1); `if rhs == 0 { panic_divide_by_0(); }` as first statement becomes the DivideBy0 guard of <fn>_chk_gen, `if let Some(word) = shrink_dword(rhs)` = `rhs < B` with word = rhs; `self.0.shift()` / `self.0.divider()` of ConstSingle/DoubleDivisor become the parameters (shift, normalised divisor), match arms of div_const.rs::repr are cut out by their patterns; the operator rows are read from the macro invocations by regular expressions, a body macro `impl_X` is the function X_gen of SignTables.v",
    "ConstDivisor fields are read from `{:?}` (derived Debug of ConstDivisor, PreMulInv2by1/3by2, Normalized2by1/3by2Divisor) by the harness",
    "core.CONFIGS release / w32 builds of the harness; the oracle takes the word size from the environment variable C02_W set by the plug-in",
]
ASSUMPTIONS = [
    "UBig::from_words / as_words / IBig::from_parts / as_sign_words transport values faithfully",
    "a result that is not representable in a primitive output type (e.g. IBig(-7) % 3u8, i8::MIN / IBig(-1)) must panic; the panic class is C16's concern",
    "is_multiple_of_const(0) may panic with the primitive's own message (const fn)",
    "running out of scratch memory shows as the allocator's panic `internal error: not enough memory allocated` (memory.rs), which is what the bisection of the km / mm cases observes",
]

W = 64
B = 1 << W
PRIMS_U = [("u8", 8), ("u16", 16), ("u32", 32), ("u64", 64), ("usize", 64), ("u128", 128)]
PRIMS_I = [("i8", 8), ("i16", 16), ("i32", 32), ("i64", 64), ("isize", 64), ("i128", 128)]


def divisor(rng, nb):
    """a divisor magnitude of exactly nb words, patterns chosen from the branch structure of div/mod.rs"""
    if nb == 0:
        return 0
    nbits = nb * W
    k = rng.below(14)
    if nb == 1:
        if k < 2:
            return rng.choice([1, 2, 3, B - 1, B - 2, 1 << (W - 1), (1 << (W - 1)) + 1, (1 << (W // 2)), (1 << (W // 2)) - 1, 10])
        if k < 5:
            return 1 << rng.below(W)
    if nb == 2:
        if k < 4:
            return 1 << rng.range(W, 2 * W - 1)  # power-of-two double word (shift shortcut)
        if k < 6:
            return rng.choice([B, B + 1, (B << (W - 1)), B * B - 1, (B - 1) << W, (1 << (2 * W - 1)) + 1, (1 << rng.range(W, 2 * W - 1)) + rng.choice([1, -1])])
    top = rng.choice([1, 1, 2, 3, 1 << (W - 1), (1 << (W - 1)) + 1, B - 1, B - 2, (1 << (W - 1)) - 1, rng.bits(W) | 1, rng.bits(rng.range(1, W)) | 1])
    if top >= B or top == 0:
        top = 1
    low_bits = nbits - W
    if low_bits == 0:
        return top
    r = rng.below(8)
    if r == 0:
        low = (1 << low_bits) - 1  # low part all ones: worst case for the top-words quotient estimate
    elif r == 1:
        low = 0
    elif r == 2:
        low = (1 << (low_bits - W)) - 1 if low_bits > W else 0  # second word zero, rest ones
    elif r == 3:
        low = ((B - 1) << (low_bits - W)) | rng.bits(low_bits - W) if low_bits > W else B - 1
    elif r == 4:
        low = 1
    else:
        low = rng.bits(low_bits)
    return (top << low_bits) | low


def quotient(rng, nq):
    if nq <= 0:
        return 0
    nbits = nq * W
    k = rng.below(8)
    if k == 0:
        return (1 << nbits) - 1
    if k == 1:
        return 1 << (nbits - W)  # B^(nq-1)
    if k == 2:
        return (1 << (nbits - W)) - 1 if nq > 1 else 1
    if k == 3:
        return 1 << (nbits - 1)
    if k == 4:
        # words that are 0 / MAX / MAX-1
        v = 0
        for i in range(nq):
            v |= rng.choice([0, B - 1, B - 2, 1]) << (i * W)
        return v | (1 << (nbits - W))
    return gen_mag(rng, nq, W)


NB_CLASSES = [1, 1, 2, 2, 2, 3, 3, 4, 5, 8, 16, 31, 32, 33, 34, 40, 64, 65, 66]
NQ_CLASSES = [-1, 0, 0, 1, 1, 2, 3, 4, 8, 31, 32, 33, 34, 40, 66, 70, 100]


def pair(rng, tier, nb=None, nq=None):
    """(dividend magnitude, divisor magnitude)"""
    free = nb is None and nq is None
    if nb is None:
        nb = rng.choice(NB_CLASSES)
    if nq is None:
        nq = rng.choice(NQ_CLASSES)
    if free and tier == "thorough" and rng.chance(1, 40):  # never override a size the caller fixed (mc needs a dword divisor)
        nb, nq = rng.choice([(200, 300), (129, 130), (500, 100), (100, 500), (1000, 1100)])
    b = divisor(rng, nb)
    if nq < 0:
        # dividend shorter than (or equal length but smaller than) the divisor
        a = gen_mag(rng, rng.range(0, nb), W) if rng.chance(2, 3) else max(0, b - rng.choice([1, 2, B]))
        return a, b
    k = rng.below(10)
    if k < 4:
        a = gen_mag(rng, nb + nq, W)
    else:
        q = quotient(rng, nq) if nq > 0 else rng.choice([0, 1, 1, 2])
        r = rng.choice([0, 0, 1, b - 1, b - 1, b - 2, rng.bits(max(1, b.bit_length() - 1)) % b, b >> 1, rng.bits(W) % b])
        a = q * b + r
        if k == 9:
            a += rng.choice([b, -1, 1]) if a > 0 else 0
    return max(a, 0), b


def const_pair(rng, tier):
    """ConstDivisor operands: one third are the Small x Single/Double arms of div_const.rs::repr"""
    if rng.chance(1, 3):
        b = divisor(rng, rng.choice([1, 1, 2]))
        if rng.chance(1, 2):
            b |= 1 << (rng.choice([W, 2 * W]) - 1) if b.bit_length() <= W else 1 << (2 * W - 1)  # stored shift = 0
            if b >= 1 << W and b.bit_length() != 2 * W:
                b |= 1 << (2 * W - 1)
        k = rng.below(6)
        if k == 0:
            a = (1 << (2 * W)) - 1
        elif k == 1:
            a = (rng.choice([b, b - 1, B - 1, b + 1]) % B) << W | rng.bits(W)  # high word around the divisor
        elif k == 2:
            a = b * rng.bits(rng.range(1, W)) + rng.choice([0, 1, b - 1])
        else:
            a = gen_mag(rng, rng.choice([0, 1, 2, 2]), W)
        return a & ((1 << (2 * W)) - 1), b
    if rng.chance(1, 4):
        # multi-word ConstDivisor whose top word has leading zeros (stored shift != 0): the un-normalising shift of the remainder
        nb = rng.choice([3, 3, 4, 5, 8, 33, 34])
        b = (rng.choice([1, 2, 3, 5, rng.bits(rng.range(1, W - 1)) | 1]) << ((nb - 1) * W)) | rng.bits((nb - 1) * W)
        a = b * quotient(rng, rng.choice([1, 2, 3, 34])) + rng.choice([1, b - 1, b >> 1, rng.bits(W) % b, 1 << ((nb - 1) * W)])
        return a, b
    return pair(rng, tier)


def signs(rng, a, b):
    return (a if rng.chance(1, 2) else -a), (b if rng.chance(1, 2) else -b)


def norm_divisor(rng, n):
    """normalised (top bit set) divisor of n words for the kernel hook"""
    b = divisor(rng, n)
    sh = n * W - b.bit_length()
    b <<= sh
    if rng.chance(1, 4):
        b |= rng.bits(sh) if sh else 0
    return b


def kernel_case(rng, tier):
    r = rng.below(10)
    if r < 5:
        which = 1
        n = rng.choice([2, 2, 3, 4, 5, 8, 31, 32, 33, 34, 40, 50])
        q = rng.choice([0, 0, 1, 1, 2, 3, 5, 31, 32, 33, 34, 40])
    elif r < 9:
        which = 2
        n = rng.choice([33, 33, 34, 35, 40, 47, 64, 65, 66, 67, 70])
        q = rng.choice([33, 33, 34, 35, 40, n - 1, n, n + 1, 2 * n - 1, 2 * n, 2 * n + 1, 2 * n + 34, 3 * n, 3 * n + 5])
        q = max(q, 33)
    else:
        which = 0
        n = rng.choice([2, 3, 32, 33, 34, 40])
        q = rng.choice([0, 1, 32, 33, 34, 40, 70])
    b = norm_divisor(rng, n)
    m = n + q
    k = rng.below(8)
    if k < 3:
        a = rng.bits(m * W)
    elif k == 3:
        a = (1 << (m * W)) - 1
    else:
        qq = quotient(rng, q) if q > 0 else rng.choice([0, 1])
        if rng.chance(1, 3):
            qq += 1 << (q * W)  # quotient carry
        a = qq * b + rng.choice([0, 1, b - 1, b - 2, rng.bits(n * W) % b])
        a = min(a, (1 << (m * W)) - 1)
    return "k.%d %s %s %x" % (which, hx(a), hx(b), m)


def prim_value(rng, bits, signed):
    if signed:
        lo, hi = -(1 << (bits - 1)), (1 << (bits - 1)) - 1
        c = [1, -1, 2, -2, 3, 7, -7, lo, hi, lo + 1, rng.bits(bits - 1), -rng.bits(bits - 1), 10, -10, 1 << (bits - 2)]
    else:
        hi = (1 << bits) - 1
        c = [1, 2, 3, 7, hi, hi - 1, 1 << (bits - 1), rng.bits(bits), 10, rng.bits(bits // 2) | 1]
    return rng.choice(c)


MEM_N = [33, 34, 35, 40, 47, 48, 49, 50, 51, 52, 64, 65, 66, 70, 96, 97, 98, 99, 100, 130]
MEM_MUL = [24, 25, 26, 47, 48, 49, 50, 51, 95, 96, 97, 98, 100, 150, 191, 192, 193, 194, 195, 200, 250, 300, 386, 387, 400]


def mem_case(rng, tier):
    """scratch-memory cases: lengths on both sides of the division threshold (32/33 quotient and divisor words) and of the
    multiplication thresholds reached inside (smaller factor 24/25, 48/49/50 = two Karatsuba levels, 96/97, 192/193 = Toom-3)"""
    if rng.chance(1, 3):
        la = rng.choice(MEM_MUL + ([579, 580, 600, 1200] if tier == "thorough" else [579]))
        r = rng.below(4)
        if r == 0:
            lb = la
        elif r == 1:
            lb = rng.choice(MEM_MUL)
        elif r == 2:
            lb = la * rng.choice([2, 3]) + rng.choice([0, 1, 23, 24, 25, 26, 30])  # chunks + a short / long rest
        else:
            lb = max(1, la + rng.choice([-1, 1, -25, 25, 7]))
        return "mm.0 %s %s %x %x" % (hx(rng.bits(la * W)), hx(rng.bits(lb * W)), la, lb)
    which = rng.choice([0, 0, 0, 2, 2, 1])
    n = rng.choice(MEM_N + ([200, 386, 400, 401] if rng.chance(1, 4) else []))
    if tier == "thorough" and rng.chance(1, 10):
        n = rng.choice([600, 777, 1000])
    q = rng.choice([33, 34, 40, 48, 49, 50, 51, 52, 66, n // 2, n // 2 + 1, n - 1, n, n + 1, 2 * n - 1, 2 * n, 2 * n + 1, 2 * n + 34, 3 * n + 5, 3 * n + 50])
    if which != 2 and rng.chance(1, 8):
        q = rng.choice([0, 1, 31, 32])
    q = max(q, 33) if which == 2 else q
    m = n + q
    return "km.%d %s %s %x" % (which, hx(rng.bits(m * W)), hx(norm_divisor(rng, n)), m)


SAME_FORMS = ["div", "rem", "div_rem", "div_euclid", "rem_euclid", "div_rem_euclid", "is_multiple_of"]
PLAIN = ["div", "rem", "div_rem"]


def gen_cases(rng, tier, n):
    out = []
    while len(out) < n:
        k = rng.below(100)
        if k < 30:
            a, b = pair(rng, tier)
            a, b = signs(rng, a, b)
            out.append("i.%s %s %s" % (rng.choice(SAME_FORMS), hx(a), hx(b)))
        elif k < 42:
            a, b = pair(rng, tier)
            out.append("u.%s %s %s" % (rng.choice(SAME_FORMS), hx(a), hx(b)))
        elif k < 48:
            a, b = pair(rng, tier)
            out.append("ui.%s %s %s" % (rng.choice(PLAIN), hx(a), hx(b if rng.chance(1, 2) else -b)))
        elif k < 54:
            a, b = pair(rng, tier)
            out.append("iu.%s %s %s" % (rng.choice(PLAIN), hx(a if rng.chance(1, 2) else -a), hx(b)))
        elif k < 64:
            a, b = const_pair(rng, tier)
            out.append("uc.%s %s %s" % (rng.choice(PLAIN), hx(a), hx(b)))
        elif k < 72:
            a, b = const_pair(rng, tier)
            out.append("ic.%s %s %s" % (rng.choice(PLAIN), hx(a if rng.chance(1, 2) else -a), hx(b)))
        elif k < 74:
            out.append("c.%s %s" % (rng.choice(["value", "fields", "fields"]), hx(divisor(rng, rng.choice([0, 1, 1, 2, 2, 3, 5, 33])))))
        elif k < 78:
            # division by zero, every family
            a = gen_mag(rng, rng.choice([0, 1, 2, 3, 5, 40]), W)
            r = rng.below(8)
            if r == 0:
                out.append("i.%s %s 0" % (rng.choice(SAME_FORMS), hx(a if rng.chance(1, 2) else -a)))
            elif r == 1:
                out.append("u.%s %s 0" % (rng.choice(SAME_FORMS), hx(a)))
            elif r == 2:
                out.append("ui.%s %s 0" % (rng.choice(PLAIN), hx(a)))
            elif r == 3:
                out.append("iu.%s %s 0" % (rng.choice(PLAIN), hx(-a)))
            elif r == 4:
                out.append("%s.%s %s 0" % (rng.choice(["uc", "ic"]), rng.choice(PLAIN), hx(a)))
            elif r == 5:
                ty = rng.choice(PRIMS_U)[0]
                out.append("%s.%s %s %s 0" % (rng.choice(["up", "ipu"]), rng.choice(PLAIN + ["pdiv"]), ty, hx(a)))
            elif r == 6:
                ty = rng.choice(PRIMS_I)[0]
                out.append("ipi.%s %s %s 0" % (rng.choice(PLAIN + ["pdiv"]), ty, hx(-a)))
            else:
                out.append("mc.%s %s 0" % (rng.choice(["u", "i"]), hx(a)))
        elif k < 86:
            # primitives
            r = rng.below(3)
            form = rng.choice(PLAIN + ["pdiv"])
            big = gen_mag(rng, rng.choice([0, 1, 1, 2, 2, 3, 4, 33]), W)
            if r == 0:
                ty, bits = rng.choice(PRIMS_U)
                p = prim_value(rng, bits, False)
                if rng.chance(1, 3):
                    big = p * rng.bits(70) + rng.choice([0, 1, p - 1])
                out.append("up.%s %s %s %s" % (form, ty, hx(big), hx(p)))
            elif r == 1:
                ty, bits = rng.choice(PRIMS_U)
                p = prim_value(rng, bits, False)
                out.append("ipu.%s %s %s %s" % (form, ty, hx(big if rng.chance(1, 2) else -big), hx(p)))
            else:
                ty, bits = rng.choice(PRIMS_I)
                p = prim_value(rng, bits, True)
                if rng.chance(1, 6):
                    big = rng.choice([1, -1, 2, -2])
                out.append("ipi.%s %s %s %s" % (form, ty, hx(big if rng.chance(1, 2) else -big), hx(p)))
        elif k < 89:
            a, b = pair(rng, tier, nb=rng.choice([1, 2]))
            if rng.chance(1, 2):
                a = b * quotient(rng, rng.choice([1, 2, 3, 5]))
            out.append("mc.%s %s %s" % ("u", hx(a), hx(b)) if rng.chance(1, 2) else "mc.i %s %s" % (hx(-a), hx(b)))
        elif k < 93:
            out.append(mem_case(rng, tier))
        else:
            out.append(kernel_case(rng, tier))
    return out


# 32-bit build: power-of-two double-word divisor 2^44 (shift = trailing_zeros - WORD_BITS), double word 2^44 + 1, a three-word
# ConstDivisor with 31 leading zeros, single / double / large construction
W32_FIXED = ["u.div_rem 10000000000000000000003039 100000000000", "u.rem 10000000000000000000003039 100000000001",
             "uc.div_rem 70000000000000026 10000000000000005", "c.fields a", "c.fields 1000000007", "c.fields 10000000000000005",
             "i.div_rem_euclid -10000000000000000000003039 100000000000"]


def other_build_cases(rng, tier, n, wbits):
    """the reduced list for the release and the 32-bit build: every division op and call form (u / i / ui / iu / uc / ic with every
    trait form, c.value, c.fields, mc, the kernel hook, a few scratch cases), sizes counted in words of THAT build (thresholds 32/33
    words of 32 bits), division by zero where the panic does not come from a debug assertion; primitives only in the release build"""
    global W, B
    saved = (W, B)
    W, B = wbits, 1 << wbits
    try:
        out = []
        if wbits == 64:
            cp = os.path.join(core.ROOT, "corpus", "C02.txt")
            out += [l.strip() for l in open(cp) if l.strip() and not l.startswith("#")]
        else:
            out += list(W32_FIXED)
        forms = list(SAME_FORMS)
        k = 0
        while len(out) < n:
            k += 1
            r = rng.below(100)
            if r < 22:
                a, b = signs(rng, *pair(rng, tier))
                out.append("i.%s %s %s" % (forms[k % len(forms)], hx(a), hx(b)))
            elif r < 34:
                a, b = pair(rng, tier)
                out.append("u.%s %s %s" % (forms[k % len(forms)], hx(a), hx(b)))
            elif r < 40:
                a, b = pair(rng, tier)
                out.append("ui.%s %s %s" % (PLAIN[k % 3], hx(a), hx(b if rng.chance(1, 2) else -b)))
            elif r < 46:
                a, b = pair(rng, tier)
                out.append("iu.%s %s %s" % (PLAIN[k % 3], hx(a if rng.chance(1, 2) else -a), hx(b)))
            elif r < 62:
                a, b = const_pair(rng, tier)
                out.append("uc.%s %s %s" % (PLAIN[k % 3], hx(a), hx(b)))
            elif r < 74:
                a, b = const_pair(rng, tier)
                out.append("ic.%s %s %s" % (PLAIN[k % 3], hx(a if rng.chance(1, 2) else -a), hx(b)))
            elif r < 78:
                out.append("c.%s %s" % (rng.choice(["value", "fields", "fields"]), hx(divisor(rng, rng.choice([0, 1, 1, 2, 2, 3, 5, 33])))))
            elif r < 81:
                a = gen_mag(rng, rng.choice([0, 1, 2, 3, 5, 40]), W)
                out.append(rng.choice(["i.%s %s 0" % (rng.choice(SAME_FORMS), hx(-a)), "u.%s %s 0" % (rng.choice(SAME_FORMS), hx(a)),
                                       "ui.%s %s 0" % (rng.choice(PLAIN), hx(a)), "iu.%s %s 0" % (rng.choice(PLAIN), hx(-a)),
                                       "%s.%s %s 0" % (rng.choice(["uc", "ic"]), rng.choice(PLAIN), hx(a))]))
            elif r < 85:
                a, b = pair(rng, tier, nb=rng.choice([1, 2]))
                if rng.chance(1, 2):
                    a = b * quotient(rng, rng.choice([1, 2, 3, 5]))
                out.append("mc.u %s %s" % (hx(a), hx(b)) if rng.chance(1, 2) else "mc.i %s %s" % (hx(-a), hx(b)))
            elif r < 88:
                out.append(mem_case(rng, "quick"))
            elif r < 96 or wbits != 64:
                out.append(kernel_case(rng, tier))
            else:
                form = rng.choice(PLAIN + ["pdiv"])
                big = gen_mag(rng, rng.choice([0, 1, 2, 3, 4, 33]), W)
                ty, bits = rng.choice(PRIMS_U)
                out.append("up.%s %s %s %s" % (form, ty, hx(big), hx(prim_value(rng, bits, False))))
        return out[:max(n, 0)] if wbits != 64 else out
    finally:
        W, B = saved
