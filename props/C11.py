"""C11 - exp, exp_m1, ln, ln_1p, powi, powf are accurate to less than one unit in the last place."""
import math
import os
import sys

import core
from core import hx

# The guard-digit / working-precision formulas of float/src/exp.rs and float/src/log.rs and the `type Reverse`
# table of float/src/round.rs are regenerated into coq/gen/ElemParams.v when this plug-in is imported, i.e.
# before the proof phase of every run (tools/check.py has no hook between plug-in load and the Coq build).
# The as-is models of Float/ElemAsis.v call the regenerated definitions, C11_params_* prove what the
# theorems need of them.  Unparseable source is not an alarm: the last good copy stays (marked STALE), the
# status is reported in the evidence, the correspondence run alone ties the model.
sys.path.insert(0, os.path.join(core.ROOT, "tools"))
try:
    import translate_c11_r3
    ELEM_PARAMS_STATUS = translate_c11_r3.generate(core.REPO, os.path.join(core.COQ, "gen"))
except Exception as _ex:  # the generator itself broke: same fallback as an unparseable source
    ELEM_PARAMS_STATUS = "unparsed generator-failed: %s" % str(_ex)[:200]

# a run against a scratch checkout (VERIF_REPO) must not leave its formulas in the tree for other builds
if os.path.realpath(core.REPO) != os.path.realpath("/repo"):
    import atexit

    def _restore_params():
        try:
            translate_c11_r3.generate("/repo", os.path.join(core.COQ, "gen"))
        except Exception:
            pass

    atexit.register(_restore_params)


def extra_phase(tier, seed, exes, oracle):
    word = ELEM_PARAMS_STATUS.split(" ", 1)[0]
    return {
        "evaluations": 0,
        "hist": {"translator_c11:ElemParams:" + word: 1},
        "nontrivial": [],
        "samples": [{"fragment": "coq/gen/ElemParams.v (tools/translate_c11_r3.py from float/src/{exp,log,round}.rs)",
                     "status": ELEM_PARAMS_STATUS,
                     "tied_by": "C11_params_* and every theorem over Float/ElemAsis.v" if word == "ok"
                     else "correspondence run only (source not parsed; last good copy marked STALE)"}],
        "failures": [],
    }

ID = "C11"
READY = True
ORACLE = "c11"
HARNESS_BIN = "c11"
NCASES = {"quick": 2400, "thorough": 30000}  # 60000 needed more than two hours of certified interval arithmetic
CASE_TIMEOUT = {"quick": 120, "thorough": 300}
MODES = ["Zero", "Away", "Up", "Down", "HalfEven", "HalfAway"]
BASES = [2, 2, 3, 10, 10, 16, 36]
# the checker relies on CoqInterval: exactly the four standard-library axioms of the classical reals
EXTRA_AXIOMS = ()

LEVEL_TEXT = ("Coq theorems (coq/props/C11.v, 108 pinned). (1) Soundness of the certified checkers check_exp / check_expm1 / check_ln / "
              "check_ln1p / check_powi / check_powf for ALL inputs and all working precisions, Newton schedules and exponent guesses: a "
              "verdict VAccept proves r = t or B^E <= |t| and |r - t| < B^(E-p+1) for the true real value t (exp x, exp x - 1, ln x, "
              "ln(1+x), x^n, x^y as real numbers) and r = t if the answer was flagged Exact; VReject proves |t| < B^(E+1) and "
              "|r - t| >= B^(E-p+1) (or an untruthful Exact); the two are exclusive (CoqInterval + stdlib exp/ln facts + exact integer "
              "decisions). (2) Value-level AS-IS MODELS of the whole computation (Float/ElemAsis.v: Context::powi incl. the inverse "
              "path, exp_internal with argument reduction, Maclaurin series, sub_ulp stop criterion and repeated powering, ln_internal "
              "with scaling, atanh series and recombination, iacoth / ln2 / ln10 / ln_base, exp_m1, ln_1p, powf; every intermediate "
              "operation is the C03 model of the float layer; the guard-digit and working-precision formulas and the Reverse mode table "
              "are REGENERATED from exp.rs / log.rs / round.rs on every run). (3) Context::powi, two nearest modes, as a THEOREM about "
              "the as-is model (C11_powi_asis_nearest_all): EVERY base >= 2, EVERY precision p >= 1, EVERY integer exponent, every "
              "operand of at most 2p digits, except base 2 at one bit with a negative exponent: within one ulp (in the binade of the "
              "true value) of x^n, flagged Exact only if exact. Round 4: the working value of the left-to-right powering is "
              "x^n (1 +- u)^(n-1) (one rounding per multiplication, n-1 multiplications; round 3 counted 2n-3), the guard condition "
              "(n-1)(2B^p+1) <= 2B^(wp-1) is proved for the regenerated formula bit_len n + bit_len p for every base at p >= 2 and "
              "base >= 3 at p = 1; base 2 at one bit by a separate argument (one-bit results are powers of two, both neighbours of a "
              "non-power are accepted, theta in (3/4, 4/3) suffices); negative exponents at one digit for every base >= 3 with sharper "
              "constants (33/14 w instead of 200/47 w); binade-crossing case of the last rounding, rounded inverse as in round 3. "
              "In EVERY mode a powi result flagged Exact is x^n "
"exactly unless the operand is longer than twice the working precision (open finding powi_overlong_operand, refuted "
              "by C11_powi_overlong_refuted, truthful outside the class: C11_powi_exact_flag_outside_overlong). (4) exp, scaled branch, "
              "layer by layer over the reals: (a) guard digits: the regenerated pow_guard_digits contain the n = 2^(bit_len p / 2) "
              "digits consumed by the final powering for EVERY p and B (C11_exp_pow_guard_covers_powering, "
              "C11_exp_scaled_work_precision_condition: wp >= p + n + series guard + magnitude digits; the formula before the repair "
              "of finding exp_pow_guard_sqrt is refuted from 2048 digits on); (b) series: every state reachable by a loop of the shape "
              "of the Maclaurin loop whose operations round with relative error <= u satisfies pow_k = rho^k (1+-u)^(k-1) and "
              "sum_k = T_k(rho) (1+-u)^(k+1) (C11_exp_series_partial_sum_error), T_k <= exp rho <= T_k + 2 rho^(k+1)/(k+1)! for "
              "0 <= rho <= 1/2 (C11_exp_series_tail, from the series definition of exp), together "
              "|sum_K - exp rho| (1 - (K+1)u) <= exp rho (K+1) u + 2 thr when the loop stops on the threshold thr "
              "(C11_exp_series_error); (c) the Z-level operations of the model are instances in the nearest modes: fb_mul and fb_div "
              "have relative error <= 1/(2B^(P-1)) for ANY operand lengths, FBig::from(k!) and r >> n are exact, div_rem_euclid gives "
              "x = q y + r0 EXACTLY with the remainder rounded once, one iteration of ElemAsis.exp_series_loop maps a trace state to a "
              "trace state given the contract of the addition (C11_fb_mul_rel, C11_fb_div_rel, C11_fb_div_rem_euclid_exact, "
              "C11_exp_series_step_is_trace_step); (d) argument reduction and recombination: exp x' = B^q exp r0 exp(q (L - ln B)) for "
              "the COMPUTED logarithm L, and the working value of the last powering equals exp x * B^-q * Theta with "
              "Theta = exp((x'-x) - q(L - ln B) + (r - r0)) ths^N thp as an identity (the power of B is exact); (e) final: "
              "C11_exp_nearest_1ulp_partial - if Theta is within d of 1 and 2 d B^p <= 1 the rounded, shifted result is within one ulp "
              "of exp x (nearest modes). Round 5 closes two of the three missing pieces and composes the layers into a theorem about "
              "ElemAsis.exp_internal itself: (i) EVERY addition of the series loops meets C03's contract - an effective addition "
              "(same-sign operands, ANY lengths) is outside C03's class add_short_class, where the model of the code equals the "
              "model of the repaired code (b8f1245), which is correct for all operands (C03_add_repaired_any_length): "
              "C11_add_contract_is_one_rounding, C11_fb_add_same_sign_any_length; every returning run of ElemAsis.exp_series_loop / "
              "iacoth_loop is a trace of the rounded loop of the analysis with the next increase below B^(sub_ulp_exp) "
              "(C11_exp_series_loop_is_trace, C11_iacoth_loop_is_trace, C11_exp_series_asis_error: no hypothesis about the "
              "additions left); (ii) ln_base: A_K(z) <= atanh z <= A_K(z) + t_(K+1)(z)/(1-z^2) by monotonicity (mean value theorem, "
              "closed-form derivative; C11_atanh_series_tail), ln 2 = 4 atanh(1/6) + 2 atanh(1/99), ln 10 = 3 ln 2 + 2 atanh(1/9) "
              "(C11_ln2_ln10_formulas), the rounded iacoth loop sum_K = A_K (1+-u)^(10K+16) (C11_atanh_series_error, "
              "C11_iacoth_asis_error), and with the contract of Repr::digits_lb (a lower bound of the digit count) the relative "
              "errors of ElemAsis.iacoth, ln2, ln10 and ln_base for B = 2, B = 10 and every power of two "
              "(C11_iacoth_asis_relative_error, C11_ln2_asis_relative_error, C11_ln_base_error_base2 / _base10 / _powers_of_two); "
              "(iii) C11_exp_internal_scaled_structure (exp_internal = series part; Context::powi with B^n; << q, by computation) and "
              "C11_exp_asis_nearest_1ulp_partial: ElemAsis.exp_internal fuel p m s e false = Ok a, nearest mode, any B >= 2, p >= 1, "
              "s <> 0, any f32 layer with non-negative `as usize` and digits_lb <= digits, ln_base within relative error eL, the "
              "series value not an over-long operand of the powering, and the explicit inequality 2 (a + B^n es) + dp <= d <= 1, "
              "2 d B^p <= 1 between |x|, eL, the fuel (bound of the number of series terms) and the regenerated working precisions "
              "=> a is flagged Inexact and within one ulp of exp x; C11_exp_asis_nearest_1ulp_base2_partial instantiates eL for "
              "B = 2; the example (exp 1 at 64 bits) discharges every hypothesis. (5) The as-is models refine the entry logic (unlimited precision panics - powi iff the "
              "exponent is negative -, domain panics, Exact shortcuts return the true value) and flag nothing Exact outside the "
              "shortcuts (exp / ln: never; powf: only 1^y = 1), for every f32 estimate layer. (6) Termination: FBig::sub_ulp is positive "
              "and at least |sum| B^-(2P+2) for every digit estimate; rounded series loops stop within series_fuel B P iterations. "
              "(7) Open finding in the directed modes: soundness of the as-is accuracy check (< 2 ulps) and four machine-checked "
              "refutations. Every implementation answer of the run is decided by the extracted checker AND compared bit for bit with "
              "the extracted as-is model.")
LEVEL_NOTE = ("PARTIAL. THEOREM REGION (about the as-is model, all inputs): powi - nearest modes HalfEven/HalfAway, every base >= 2, every "
              "precision p >= 1, every integer exponent, operands of at most 2p digits (every FBig operand), EXCEPT base 2 at p = 1 with "
              "a negative exponent; Exact flag of powi - every mode, operand at most twice the working precision. NOT a theorem: powi "
              "in base 2 at one bit with a negative exponent, operands longer than 2p digits, the directed modes (decided per "
"instance; longer than twice the working precision = open finding powi_overlong_operand, root cause C03 F08). For exp the "
              "layers (guard digits vs powering digits, series error, instances of multiplication / division / Euclidean division, "
              "reduction and recombination identities, last rounding) are theorems, but the unconditional one-ulp statement for "
              "ElemAsis.exp_internal is NOT proved. Round 5: pieces (i) the additions of the loops and (ii) the error of ln_base "
              "(B = 2, 10, powers of two) are theorems; THEOREM REGION of exp = (Context::exp / FBig::exp, modes HalfEven and "
              "HalfAway, every base B >= 2 given a bound eL of the relative error of ln_base - proved for B in {2, 10, 4, 8, 16, 32, ...}, "
              "instantiated in the final statement for B = 2 -, every precision p >= 1, every nonzero argument) UNDER the explicit "
              "side conditions of C11_exp_asis_nearest_1ulp_partial: digits_lb is a lower bound of the digit count (contract of "
              "the f32 layer), the model returns with fuel f, 2 (a + B^n es(f)) + dp <= d <= 1 and 2 d B^p <= 1 where "
              "es(f) = ((f+1) u + 2u)/(1 - (f+1) u - 2u), u = B^(1-wp)/2, a = u |x| + (|x|(1+u)/(ln B (1-eL)) + 1) eL ln B + "
              "u ln B (1+eL), dp = (B^n - 1) u'/(1 - (B^n - 1) u'), ln B (1+eL)(1+u) 2 <= B^n, and the series value has at most "
              "2 (p + bit_len B^n + bit_len p) digits (otherwise class of finding F07). What is left of piece (iii) is exactly: "
              "that the loops stop within a fuel f satisfying the inequality, i.e. a lower bound of the heuristic guard digits "
              "computed in f32 (abstract here) against the term count; with the real guard digits the inequality holds with room "
              "(example: p = 64, B = 2, fuel 80). exp in bases 3, 36 (ln_base through ln_internal), exp_m1 (unscaled branch, alternating series), ln, "
              "ln_1p, powf: modelled faithfully and compared bit for bit, accuracy decided per generated instance by the certified "
              "checker (every (function, mode, base, precision) outside the powi region above). Undecided instances (results exactly "
              "one ulp from an exactly representable x^y with fractional y) are counted and reported, never passed. In the directed "
              "modes errors between 1 and 2 ulps are the open finding directed_faithful. The f32 estimate layer (libm log2f, IEEE single "
              "arithmetic) is abstract in Coq (theorems hold for every instance) and instantiated in the OCaml driver (std feature "
              "variant; a wrong instance can only lower the fidelity statistic, never change a verdict). Trusted: Coq kernel, "
              "CoqInterval/Flocq/Coquelicot, extraction (+FastZ.v, + one stub for sig_forall_dec), zarith, harness.")
TECHNIQUE = ("Coq proof (certified interval checker on CoqInterval; value-level as-is models with regenerated guard-digit formulas; "
             "error analysis of powi for every base and precision >= 2; layered error analysis of exp: guard digits vs powering digits, "
             "rounded Maclaurin loop against the series definition of exp, exact reduction / recombination identities, last rounding; "
             "additions of the loops by C03's any-length contract; atanh series by the mean value theorem, rounded iacoth loop, ln 2 / ln 10 formulas; "
             "composition into a theorem about the as-is exp_internal with explicit numeric side conditions; "
             "termination of rounded series loops) + per-instance decision of every implementation answer + bit-for-bit "
             "correspondence of the as-is models")
RULE = ("cases = op {exp, exp_m1, ln, ln_1p, powi, powf; Context and FBig forms} x base {2,3,10,16,36} x six modes x precision "
        "{1,2,3,4,5,7,10,16,17,20,33,53,64,100,200,300 (1000, 3000 thorough); exp also 2048, 2049, 2100, 4095 in bases 2, 3 = the steps of "
        "the powering count n = 2^(bit_len p / 2), finding exp_pow_guard_sqrt (8192 in bases 10, 16: thorough)} x argument classes: zero, tiny (B^-1000 .. B^-(p+2)), "
        "next to 0 (|x| ~ B^-(p-1..p+1)), next to 1 (1 +- B^-j, j = 1..2p, for ln/powi/powf bases; -1 + B^-j for ln_1p), moderate, "
        "powers of two +- 1 (ln scaling), huge (B^1000, exponents to 10^6, exp arguments up to the exponent-overflow limit), "
        "significands of 1, p-1, p, 2p digits; integer exponents {0, 1, 2, 3, small, 2^k +- 1, 10^3..10^9} of both signs and "
        "exponents of 40..200 bits (random, 2^k, 2^k +- 1) on arguments 1 +- r B^-j (sparse and dense r) with |n ln x| in 2^-12..2^38; "
        "powi operands of 2 wp - 1, 2 wp, 2 wp + 1, 2 wp + 3 digits (wp = working precision of the powering; class powi_overlong_operand); "
        "powf exponents {0, 1, integers, 1/2-like, negative, tiny, large}; outside the domain: ln x<=0, ln_1p x<=-1, negative powf "
        "base, precision 0, infinite operands. non-trivial = the series/powering code ran (entry model says ECompute) or the operand "
        "was rounded; counted by the oracle over distinct case texts. asis = the extracted as-is model returned the same significand, "
        "exponent and flag (evaluated under a 2 s budget per case, precision < 1500).")
EXPLANATION = ("Verdict per case: the extracted Coq checker (ElemEncl.check_*) encloses the true value t with CoqInterval at a working "
               "precision chosen by the driver and accepts only if it proves B^E <= |t| and |r - t| < B^(E-p+1) (and r = t for a "
               "result flagged Exact); it rejects only if it proves |t| < B^(E+1) and |r - t| >= B^(E-p+1). Anything else is "
               "retried at higher precision and finally reported as undecided. Panics and Exact shortcuts are predicted by the "
               "entry-logic model ElemEntry.*_entry; every computed answer is also compared with the extracted value-level as-is model "
               "ElemAsis.{powi_asis, exp_internal, ln_internal, powf_asis} (model fidelity, must be 100 %). A rejected answer is "
               "reported as a known finding only in two listed classes: directed modes with the as-is accuracy (< 2 ulps) certified "
               "by the loose checker, and powi with an operand longer than twice the working precision (ElemAsis.powi_overlong) "
               "when the answer equals the prediction of the as-is model bit for bit.")
TRUSTED_BASE = [
    "Coq 8.16.1 kernel; axioms: the four standard-library axioms of the classical real numbers (ClassicalDedekindReals.sig_forall_dec, sig_not_dec, functional_extensionality_dep, Classical_Prop.classic) as used by CoqInterval/Coquelicot/Flocq",
    "libraries: Coq stdlib Reals, Flocq, Coquelicot, CoqInterval (Float.Specific_stdz, Interval.Float_full: I.exp_correct, I.ln_correct, I.power_int_correct, I.mul/div/add/sub_correct)",
    "extraction: ExtrOcamlBasic + ExtrOcamlZBigInt + coq/extract/FastZ.v directives + `Extract Constant ClassicalDedekindReals.sig_forall_dec => (fun _ -> assert false)` in coq/extract/Extract_c11.v (never called by the Z-only enclosure code); zarith 1.12",
    "oracle/driver_c11.ml chooses working precisions and Newton schedules only, and instantiates the abstract f32 operations of Float/ElemF32.v with IEEE single arithmetic (double operations rounded to single; log2 = double log2 rounded to single, which differs from libm's log2f by one ulp on about 1300 of the 2^24 integer arguments): used by the fidelity comparison only; harness/src/bin/c11.rs and hlib (values moved through raw words)",
    "tools/translate_c11_r3.py: reads the guard-digit / working-precision formulas of float/src/exp.rs, float/src/log.rs and the `type Reverse` table of float/src/round.rs into coq/gen/ElemParams.v at plug-in import (typed expression grammar: + - * / << as, .log2_est() .bit_len() .max(); reading of `x as usize` as f_to_usize, `.log2_est()` of an unsigned primitive as f32::log2 of the converted value; the `n` in pow_guard_digits is inlined as the regenerated exp_n_gen)",
    "round 5 theorems about exp / ln_base take two properties of the f32 estimate layer as hypotheses (`as usize` is non-negative; Repr::digits_lb is a lower bound of the digit count) - they are not proved of IEEE single arithmetic / libm log2f here",
    "IBig arithmetic below the float layer behaves as Z (C01, C02); the float layer as modelled for C03 (repr_round, mul, sqr, repr_div, the four addition bodies); comparisons of floats as order of values (C05)",
]
ASSUMPTIONS = [
    "ulp_p(t) = B^(floor(log_B |t|) - p + 1) for the TRUE value t; 'within 1 ulp' is the strict inequality |r - t| < ulp_p(t)",
    "0^y for y < 0 and negative bases of powf are outside the mathematical domain of the property (any documented panic accepted)",
    "arguments whose result exponent exceeds the isize range (beyond the overflow limit) are not generated",
    "the as-is estimate layer follows the `std` feature variant of dashu-base (what the harness builds) on 64-bit words",
]


def gen_sig(rng, b, d):
    """a significand with exactly d base-b digits"""
    if d <= 0:
        return 0
    lo, hi = b ** (d - 1), b ** d - 1
    k = rng.below(8)
    if k == 0:
        return hi
    if k == 1:
        return lo
    if k == 2:
        return min(hi, lo + 1)
    if k == 3:
        return max(lo, hi - 1)
    if k == 4:
        return min(hi, rng.range(1, b - 1) * lo + rng.below(b))
    return rng.range(lo, hi)


def precisions(rng, tier):
    c = [1, 1, 2, 2, 3, 3, 4, 5, 5, 7, 7, 10, 10, 16, 17, 20, 20, 33, 53, 64, 100]
    if rng.chance(1, 12):
        c = [200, 300]
    if tier == "thorough" and rng.chance(1, 100):
        c = [1000, 1000, 1000, 3000]
    return rng.choice(c)


def digits_choice(rng, p):
    return max(1, rng.choice([1, 1, 2, max(1, p - 1), p, p, p, p + 1, 2 * p]))


def near_one(rng, b, p):
    """1 +- k * B^-j as (sig, exp)"""
    j = rng.choice([1, 2, max(1, p - 1), p, p + 1, 2 * p, rng.range(1, 2 * p + 2)])
    k = rng.choice([1, 1, 1, b - 1, rng.range(1, b * b)])
    sg = rng.choice([1, -1])
    return b ** j + sg * k, -j


def gen_x_generic(rng, tier, b, p):
    """a finite float of any magnitude class"""
    d = digits_choice(rng, p)
    s = gen_sig(rng, b, d)
    cls = rng.below(10)
    if cls == 0:
        e = -rng.choice([1000, 1000, 999, 1001, 500, 5000]) - d
    elif cls == 1:
        e = -(p + rng.choice([-1, 0, 1, 2, 3])) - d + 1
    elif cls <= 5:
        e = -d + rng.choice([-3, -2, -1, 0, 0, 1, 1, 2, 3])
    elif cls == 6:
        e = rng.choice([5, 17, 40])
    elif cls == 7:
        e = rng.choice([1000, 999, 300])
    elif cls == 8:
        e = rng.choice([100000, 1000000]) if tier == "thorough" or rng.chance(1, 3) else 2000
    else:
        e = rng.range(-30, 30)
    return s, e


def gen_exp(rng, tier, b, p):
    op = rng.choice(["exp", "exp", "exp_m1", "exp_m1", "fexp", "fexp_m1"])
    if rng.chance(1, 140):
        # finding F06: the n = 2^(bit_len(p)/2) digits of the final powering against the guard digits: precisions at
        # the steps of n (bit_len 12: 2048; bases 10/16 need 8192 digits - thorough tier only, the checker takes minutes)
        b, p = rng.choice([(2, 2048), (2, 2049), (2, 2100), (3, 2048), (2, 4095)])
        if tier == "thorough" and rng.chance(1, 6):
            b, p = rng.choice([(10, 8192), (16, 8192), (2, 8192), (3, 8192)])
        d = rng.choice([1, 2, 5, 20])
        s = gen_sig(rng, b, d)
        e = -d + rng.choice([-2, -1, 0, 1, 2])
        return "%s %x %s %x %s %s" % (op, b, rng.choice(MODES), p, hx(rng.choice([1, -1]) * s), hx(e))
    s, e = gen_x_generic(rng, tier, b, p)
    # keep the result exponent within isize: |x| < 2^61 * ln B; quick tier mostly far below
    lim = 60 if rng.chance(1, 30) else (18 if rng.chance(1, 4) else 9)
    while s and (math.log2(abs(s)) + e * math.log2(b)) > lim:
        e -= max(1, int((math.log2(abs(s)) + e * math.log2(b) - lim) / math.log2(b)))
    if rng.chance(1, 40):
        s = 0
    return "%s %x %s %x %s %s" % (op, b, rng.choice(MODES), p, hx(rng.choice([1, -1]) * s), hx(e))


def gen_ln(rng, tier, b, p):
    op = rng.choice(["ln", "ln", "ln", "fln"])
    k = rng.below(12)
    if k <= 2:
        s, e = near_one(rng, b, p)
    elif k == 3:
        # powers of two and neighbours (the scaling step)
        t = rng.choice([1, 2, 3, 10, 63, 64, 65, 200])
        s, e = 2 ** t + rng.choice([0, 0, 1, -1]), 0
        if rng.chance(1, 2):
            # 2^-t as a base-B float when B is even: (B/2)^t * B^-t
            if b % 2 == 0:
                s, e = (b // 2) ** t + rng.choice([0, 0, 1, -1]), -t
    elif k == 4:
        s, e = 1, 0
    else:
        s, e = gen_x_generic(rng, tier, b, p)
    if s == 0:
        s = 1
    # scaling by 2^floor(log2 x) is quadratic in the exponent unless B = 2 (a 10^6 exponent takes minutes:
    # termination is C16's subject); keep the huge exponents for base 2
    if b != 2:
        e = max(-5200, min(5200, e))
    sg = 1
    if rng.chance(1, 60):
        sg = -1
    if rng.chance(1, 80):
        s = 0
    return "%s %x %s %x %s %s" % (op, b, rng.choice(MODES), p, hx(sg * s), hx(e))


def gen_ln1p(rng, tier, b, p):
    op = rng.choice(["ln_1p", "ln_1p", "ln_1p", "fln_1p"])
    k = rng.below(10)
    if k <= 1:
        # next to -1: x = -1 + k B^-j
        j = rng.choice([1, 2, max(1, p - 1), p, p + 1, 2 * p])
        s, e = -(b ** j) + rng.choice([1, 1, b - 1, rng.range(1, b * b)]), -j
    elif k == 2:
        s, e = near_one(rng, b, p)
        s -= b ** (-e)          # next to 0 with few digits
        if s == 0:
            s = 1
    elif k == 3:
        s, e = rng.choice([-1, -1, -2, -3]), 0   # domain boundary and beyond
    else:
        s, e = gen_x_generic(rng, tier, b, p)
        if s and rng.chance(1, 2) and math.log2(s) + e * math.log2(b) < -0.001:
            s = -s  # negative only when |x| < 1 (x > -1)
    # 1 + x aligns |e| digits (and the scaling is quadratic in the exponent unless B = 2)
    # (quick tier: 2^100000 costs the checker 9 s at normal load and ran into the case timeout when the machine was shared)
    e = max(-5200, min((100000 if tier == "thorough" else 30000) if b == 2 else 5200, e))
    if rng.chance(1, 50):
        s = 0
    return "%s %x %s %x %s %s" % (op, b, rng.choice(MODES), p, hx(s), hx(e))


def gen_powi_big(rng, tier, b, p):
    """integer exponents of 40..200 bits applied to arguments next to 1: x = 1 +- r * B^-j with j chosen so
    that |n ln x| stays between about 2^-12 and 2^40 (the guard digits of powi grow with the BIT length of the
    exponent; an under-count shows only here)"""
    op = rng.choice(["powi", "powi", "powi", "fpowi"])
    nb = rng.choice([40, 48, 63, 64, 65, 90, 100, 127, 128, 129, 190, 200, rng.range(40, 200)])
    k = rng.below(4)
    if k == 0:
        n = 2 ** nb
    elif k == 1:
        n = 2 ** nb + rng.choice([1, -1])
    else:
        n = rng.range(2 ** (nb - 1), 2 ** nb - 1)
    # |n ln x| ~ 2^t
    t = rng.choice([-12, -3, 0, 1, 5, 12, 20, 30, 38, rng.range(-12, 38)])
    lb = math.log2(b)
    dense = rng.chance(1, 3)
    if dense:
        # 1.00...0ddd..d with dr dense digits after the zeros
        dr = rng.choice([1, 2, max(1, p - 1), p, p + 1, 2 * p])
    else:
        dr = 1
    r = gen_sig(rng, b, dr)
    # r * B^-j * n ~ 2^t  =>  j ~ (log2 n + log2 r - t) / log2 B
    j = max(dr, int(round((math.log2(n) + math.log2(r) - t) / lb)))
    sg = rng.choice([1, -1])
    s, e = b ** j + sg * r, -j
    if rng.chance(1, 3):
        n = -n
    return "%s %x %s %x %s %s %s" % (op, b, rng.choice(MODES), p, hx(s), hx(e), hx(n))


def gen_powi(rng, tier, b, p):
    if rng.chance(1, 5):
        return gen_powi_big(rng, tier, b, min(p, 100))
    op = rng.choice(["powi", "powi", "powi", "fpowi"])
    k = rng.below(10)
    if k <= 2:
        s, e = near_one(rng, b, p)
    elif k <= 4:
        s, e = rng.choice([2, 3, 5, 7, 10, 11, b, b + 1, b - 1, 255, 12345]), rng.choice([0, 0, -1, 1, -5])
    else:
        d = digits_choice(rng, p)
        s = gen_sig(rng, b, d)
        e = -d + rng.choice([-20, -3, -1, 0, 0, 1, 1, 2, 30])
    if rng.chance(1, 2):
        s = -s
    if rng.chance(1, 12):
        # open finding F07 (powi_overlong_operand): operands around twice the working precision p + bit_len n + bit_len p
        # (-1 / 0 / +1 / +3 digits), trailing digits that make the pre-rounding of Context::sqr / mul inexact, or zeros
        n = rng.choice([2, 2, 3, 4, 5, 8, 17, 100])
        p2 = min(p, 20)
        wp = p2 + n.bit_length() + p2.bit_length()
        if rng.chance(1, 4):
            n, wp = -n, (p2 + 2 * p2.bit_length()) + n.bit_length() + (p2 + 2 * p2.bit_length()).bit_length()
        d = 2 * wp + rng.choice([-1, 0, 1, 1, 1, 3])
        lead = rng.choice([1, 1, b - 1, rng.range(1, b - 1)])
        s = lead * b ** (d - 1) + rng.choice([1, 1, b // 2, rng.below(b ** min(d - 1, 3))])
        return "powi %x %s %x %s %s %s" % (b, rng.choice(MODES), p2, hx(rng.choice([1, -1]) * s), hx(-rng.choice([0, d - 1, d])), hx(n))
    n = rng.choice([0, 1, 2, 2, 3, 3, 4, 5, 7, 8, 15, 16, 17, 31, 33, 63, 64, 65, 100, 127, 1000, 1023, 1025,
                    rng.range(2, 300), 10 ** 4 + rng.below(100), 10 ** 6 + 1, 2 ** 20 - 1, 10 ** 9 + 7, 2 ** 31 + 1])
    if rng.chance(1, 3):
        n = -n
    # keep the result exponent within range: |n| * |log2 x| < 2^55
    if s:
        l2 = abs(math.log2(abs(s)) + e * math.log2(b))
        while abs(n) > 3 and abs(n) * max(l2, 2.0 ** -60) > 2.0 ** 55:
            n = int(n / 1000) or 3
    if rng.chance(1, 60):
        s = 0
    return "%s %x %s %x %s %s %s" % (op, b, rng.choice(MODES), p, hx(s), hx(e), hx(n))


def gen_powf(rng, tier, b, p):
    op = rng.choice(["powf", "powf", "powf", "fpowf"])
    k = rng.below(10)
    if k <= 2:
        s, e = near_one(rng, b, p)
    elif k <= 4:
        s, e = rng.choice([2, 3, 4, 5, 9, 10, 16, b, b * b, 255]), rng.choice([0, 0, -1, 1])
    else:
        d = digits_choice(rng, p)
        s = gen_sig(rng, b, d)
        e = -d + rng.choice([-300, -20, -3, -1, 0, 0, 1, 1, 2, 30, 300])
    ky = rng.below(10)
    if ky == 0:
        ys, ye = rng.choice([0, 1, 1, 2, 3, -1, -2, 10]), 0
    elif ky == 1:
        ys, ye = rng.choice([b // 2 if b % 2 == 0 else 1, 1, -1]), -1   # 1/2, 1/B
    elif ky == 2:
        ys, ye = gen_sig(rng, b, rng.choice([1, p])), -(p + rng.choice([0, 5, 100]))  # tiny exponent
    else:
        d = digits_choice(rng, p)
        ys = gen_sig(rng, b, d)
        ye = -d + rng.choice([-2, -1, 0, 0, 1, 1, 2, 3])
    if rng.chance(1, 2):
        ys = -ys
    # keep |y ln x| moderate (quick) / below the overflow limit
    if s > 0 and ys:
        lx = abs(math.log2(s) + e * math.log2(b))
        llx = math.log2(lx) if lx > 0.0 else -(4.0 * p + 8)
        lim = 24 if tier == "quick" else 40
        while math.log2(abs(ys)) + ye * math.log2(b) + llx > lim:
            ye -= 3
    if rng.chance(1, 40):
        s = -s
    if rng.chance(1, 50):
        s = 0
    return "%s %x %s %x %s %s %s %s" % (op, b, rng.choice(MODES), p, hx(s), hx(e), hx(ys), hx(ye))


def ndigits(v, b):
    v = abs(v)
    while v and v % b == 0:
        v //= b
    d = 0
    while v:
        v //= b
        d += 1
    return d


def fit_fbig(c):
    """FBig::from_repr requires the significand to fit the context precision: FBig call forms are only
    used with operands that fit, other operands go through the Context forms"""
    t = c.split()
    if not t[0].startswith("f"):
        return c
    b, p = int(t[1], 16), int(t[3], 16)
    sigs = [t[4]] + ([t[6]] if t[0] == "fpowf" else [])
    if p and any(x not in ("inf", "-inf") and ndigits(core.unhx(x), b) > p for x in sigs):
        t[0] = t[0][1:]
    return " ".join(t)


def gen_cases(rng, tier, n):
    return [fit_fbig(c) for c in gen_cases_raw(rng, tier, n)]


def gen_cases_raw(rng, tier, n):
    out = []
    while len(out) < n:
        b = rng.choice(BASES)
        p = precisions(rng, tier)
        k = rng.below(100)
        if k < 28:
            c = gen_exp(rng, tier, b, p)
        elif k < 46:
            c = gen_ln(rng, tier, b, p)
        elif k < 62:
            c = gen_ln1p(rng, tier, b, p)
        elif k < 80:
            c = gen_powi(rng, tier, b, p)
        elif k < 98:
            # the general route of powf needs I.ln-free but deep enclosures: cap the precision
            if p > 100 and tier == "quick":
                p = rng.choice([53, 64, 100])
            c = gen_powf(rng, tier, b, p)
        else:
            # unlimited precision must be refused (or answered exactly by powi)
            op = rng.choice(["exp", "exp_m1", "ln", "ln_1p", "fexp", "fln", "powf", "powi", "powi", "fpowi"])
            x = rng.choice([2, 3, 15, -3])
            if op in ("ln", "fln", "ln_1p"):
                x = abs(x)
            if op.endswith("powi"):
                c = "%s %x %s 0 %s %s %s" % (op, b, rng.choice(MODES), hx(x), hx(rng.choice([0, -1])), hx(rng.choice([0, 1, 2, 5, 17, -1, -3])))
            elif op == "powf":
                c = "%s %x %s 0 %s 0 %s %s" % (op, b, rng.choice(MODES), hx(abs(x)), hx(rng.choice([0, 1, 2, 5])), hx(rng.choice([0, -1])))
            else:
                c = "%s %x %s 0 %s %s" % (op, b, rng.choice(MODES), hx(x), hx(rng.choice([0, -1, 2])))
        out.append(c)
    return out
