"""C01 - integer ring arithmetic is exact for every operand size and sign."""
import os
import sys
import core
from core import hx, gen_mag

# coq/gen/MulMemory.v (math::ceil_log2, the scratch-memory formulas memory_requirement_up_to / _exact of mul/mod.rs,
# karatsuba.rs, toom_3.rs, sqr/mod.rs, and the Buffer::allocate / MemoryAllocation::new amounts of pow.rs) is regenerated from
# the Rust sources when this plug-in is imported, i.e. before the proof phase of every run (tools/translate.py is shared and
# not ours to edit).  Int/RingScratchProofs.v proves `consumed <= reserved` over the generated definitions, Int/RingPowWProofs.v
# that pow.rs stays inside the generated capacities: an edited constant breaks a proof obligation.  Unparseable source is not
# an alarm: the previous copy stays (marked STALE), the status goes into the evidence and the correspondence run (op kmem) ties
# the formulas alone.
sys.path.insert(0, os.path.join(core.ROOT, "tools"))
try:
    import translate_c01_r3
    MUL_MEMORY_STATUS = translate_c01_r3.generate(core.REPO, os.path.join(core.COQ, "gen"))
except Exception as _ex:  # the generator itself broke: same fallback as an unparseable source
    MUL_MEMORY_STATUS = "unparsed generator-failed: %s" % str(_ex)[:200]
# coq/gen/WordKernelsGen.v (round 4): the LOOP KERNELS of integer/src/add.rs, mul/mod.rs, mul/simple.rs and the word multipliers
# of math.rs, translated loop by loop into Gallina folds over word lists by tools/translate_c01_r4.py on every run;
# Int/WordKernelsGenProofs.v proves each generated function equal to the hand-written model, so an edited loop body breaks a
# proof obligation.  A function the translator cannot read keeps its last good copy (marked STALE) and is named in the evidence.
try:
    import translate_c01_r4
    WORD_KERNELS_STATUS = translate_c01_r4.generate(core.REPO, os.path.join(core.COQ, "gen"))
    WORD_KERNELS_DETAIL = list(translate_c01_r4.LAST_RESULTS)
except Exception as _ex:
    WORD_KERNELS_STATUS = "unparsed generator-failed: %s" % str(_ex)[:200]
    WORD_KERNELS_DETAIL = []
# coq/gen/MulBodiesGen.v (round 5): the BODIES of the multiplication stack above the loop kernels (helpers chunk loop, simple /
# karatsuba / toom_3 wrappers, the Karatsuba step, the dispatch of mul/mod.rs, multiply, sqr::sqr, the four size constants and
# a generated fuel knot), translated by tools/translate_c01_r5.py on every run; Int/MulBodiesGenProofs.v + Int/MulBodiesKnot.v
# prove them equal to the hand models.  What the translator cannot read (today: toom_3::add_signed_mul_same_len) is reported
# `unparsed`, keeps its last good copy / stays a parameter, and is never an alarm.
MUL_BODIES_EXPECTED_UNPARSED = {"toom_3_add_signed_mul_same_len"}
try:
    import translate_c01_r5
    MUL_BODIES_STATUS = translate_c01_r5.generate(core.REPO, os.path.join(core.COQ, "gen"))
    MUL_BODIES_DETAIL = list(translate_c01_r5.LAST_RESULTS)
except Exception as _ex:
    MUL_BODIES_STATUS = "unparsed generator-failed: %s" % str(_ex)[:200]
    MUL_BODIES_DETAIL = []


def extra_phase(tier, seed, exes, oracle):
    word = MUL_MEMORY_STATUS.split(" ", 1)[0]
    wk = WORD_KERNELS_STATUS.split(" ", 1)[0]
    bad = [n for n, st in WORD_KERNELS_DETAIL if st != "ok"]
    hist = {"translator_c01_r3:MulMemory:" + word: 1, "FRAGMENT:WordKernelsGen:" + wk: 1,
            "FRAGMENT:WordKernelsGen:functions_ok": len([1 for _, st in WORD_KERNELS_DETAIL if st == "ok"])}
    for n in bad:
        hist["FRAGMENT:WordKernelsGen:unparsed:" + n] = 1
    mb = MUL_BODIES_STATUS.split(" ", 1)[0]
    mb_bad = [n for n, st in MUL_BODIES_DETAIL if st != "ok"]
    hist["FRAGMENT:MulBodiesGen:" + mb] = 1
    hist["FRAGMENT:MulBodiesGen:functions_ok"] = len([1 for _, st in MUL_BODIES_DETAIL if st == "ok"])
    for n in mb_bad:
        hist["FRAGMENT:MulBodiesGen:unparsed:" + n] = 1
    mb_clean = mb == "ok" and set(mb_bad) <= MUL_BODIES_EXPECTED_UNPARSED
    return {
        "evaluations": 0,
        "hist": hist,
        "nontrivial": [],
        "samples": [{"fragment": "coq/gen/MulBodiesGen.v (tools/translate_c01_r5.py from integer/src/mul/helpers.rs, simple.rs, karatsuba.rs, "
                                 "toom_3.rs, mod.rs, sqr/mod.rs)",
                     "status": MUL_BODIES_STATUS,
                     "functions": ", ".join("%s:%s" % (n, st.split(" ", 1)[0]) for n, st in MUL_BODIES_DETAIL)[:1500],
                     "tied_by": "C01_gen_karatsuba_step, C01_gen_chunk_loop, C01_gen_*_dispatch_level, C01_gen_stack* (generated = hand model) "
                                "+ ops kmul / kmul32 / kmul64 / ksqr of the run evaluate the generated stack (answer gen-bodies-differ on a mismatch)"
                                if mb_clean else "unparsed functions keep their last good copy (STALE); correspondence run only for them"},
                    {"fragment": "coq/gen/WordKernelsGen.v (tools/translate_c01_r4.py from integer/src/math.rs, add.rs, mul/mod.rs, mul/simple.rs)",
                     "status": WORD_KERNELS_STATUS,
                     "functions": ", ".join("%s:%s" % (n, st.split(" ", 1)[0]) for n, st in WORD_KERNELS_DETAIL)[:1500],
                     "tied_by": "C01_gen_* (generated = hand model, all inputs, all w) + ops wk / kmul of the run at w = 64 and w = 32"
                                if not bad and wk == "ok" else "unparsed functions keep their last good copy (STALE); correspondence run only for them"},
                    {"fragment": "coq/gen/MulMemory.v (tools/translate_c01_r3.py from integer/src/math.rs, mul/mod.rs, mul/karatsuba.rs, "
                                 "mul/toom_3.rs, sqr/mod.rs, pow.rs)",
                     "status": MUL_MEMORY_STATUS,
                     "tied_by": "C01_scratch_mul, C01_scratch_sqr, C01_scratch_kernels, C01_scratch_sqr_formula_monotone, "
                                "C01_pow_word_base_word_level, C01_pow_dword_base_word_level + op kmem of the run" if word == "ok"
                                else "correspondence run only (op kmem; source not parsed, previous copy marked STALE)"}],
        "failures": [],
    }

# every case runs against the 64-bit build and the force_bits="32" build; the answers carry the word size (token W40 / W20) and
# the oracle runs the extracted word-level models at that word size.  Answers marked NATIVE are per build (kernel cases stated
# in words of one build, scratch sizes, the params line) and are not compared between the builds.
CONFIGS = ["default", "w32"]


def canon_answer(ans):
    t = ans.split()
    if "NATIVE" in t:
        return "NATIVE"
    return " ".join(x for x in t if not (x.startswith("W") and len(x) == 3))


ID = "C01"
READY = True
ORACLE = "c01"
HARNESS_BIN = "c01"
NCASES = {"quick": 8000, "thorough": 90000}
CASE_TIMEOUT = {"quick": 30, "thorough": 120}

LEVEL_TEXT = ("Machine-checked Coq theorems (99 pinned in coq/props/C01.v, no axioms) over word lists of an arbitrary word size "
              "w >= 8 and for ALL operand lengths. (a) Word-level, proved = Z arithmetic: the carry/borrow kernels of add.rs, the "
              "word/double-word multipliers, the schoolbook rows (carry_plus_max trick), helpers::add_signed_mul_split_into_chunks, "
              "Karatsuba with its deferred carries, Toom-3 ENTIRELY at word level (slices of c, scratch buffers t1/t2, evaluation at "
              "0, 1, -1, 2, inf, the five deferred carries, and its calls div_by_word_in_place(t1, 6) / shr_in_place(t2, 1) through "
              "the word-level models of C02), the size dispatch of mul/mod.rs over these kernels for every admissible threshold triple "
              "and every length pair (thresholds regenerated from the source and proved admissible; fuel proved sufficient; carry in "
              "{-1,0,1}), sqr::simple::square + the sqr dispatch, the three kernel entry points the hook drives; word-level dispatch = "
              "value-level dispatch. (a') ROUND 4 - THE LOOP KERNELS ARE REGENERATED: tools/translate_c01_r4.py translates, on every "
              "run, the Rust bodies of 27 functions (math.rs mul_add_carry / _2carry / _carry_dword; add.rs add_one / sub_one / "
              "add_word / add_dword / sub_word / sub_dword / add_same_len / sub_same_len / add_in_place / sub_in_place / "
              "sub_same_len_in_place_swap / sub_in_place_with_sign (three while loops, fuel = counter + 1) / add_signed_word / "
              "add_signed_same_len / add_signed_in_place; mul/mod.rs mul_word_in_place(_with_carry) / mul_dword_in_place "
              "(chunks_exact_mut(2) + remainder) / add_mul_word_same_len / sub_mul_word_same_len; mul/simple.rs add_mul_chunk / "
              "sub_mul_chunk / add_signed_mul_chunk; shift.rs shl_in_place) loop by loop into Gallina folds over word lists "
              "(coq/gen/WordKernelsGen.v), and each generated function is PROVED EQUAL to the hand-written model for every w and "
              "every input (the schoolbook rows, which index into c, whenever they stay inside c): all contracts transfer to the "
              "generated code (restated: add/sub_in_place, sub_in_place_with_sign, mul_word/dword_in_place, the schoolbook kernel), "
              "and the 20 kernels the run drives meet the integer specification the oracle judges with (result = r mod B^n, carry = "
              "r div B^n) inside their contract boundary. An edited loop body breaks a proof obligation. (a'') ROUND 5 - THE BODIES ABOVE "
              "THE KERNELS ARE REGENERATED TOO: tools/translate_c01_r5.py translates helpers::add_signed_mul_split_into_chunks (the "
              "while loop that re-slices a and c, the code after it, the tail swap), simple / karatsuba / toom_3 ::add_signed_mul, "
              "karatsuba::add_signed_mul_same_len (three products, deferred carries), the dispatch mul::add_signed_mul(_same_len) "
              "(operand swap, thresholds), mul::multiply, sqr::sqr and the four size constants into coq/gen/MulBodiesGen.v (result "
              "monad, recursion through function parameters, a generated fuel knot). Proved: Karatsuba step and same-length "
              "dispatch = hand model for every w and EVERY word list; chunk loop, general dispatch, the four hook entry points, "
              "multiply, sqr = hand model inside the length contract len c = len a + len b the code debug_asserts (needs: the "
              "schoolbook chunk, the Karatsuba step and the Toom-3 step keep the length of c - proved for arbitrary word lists); "
              "the hand dispatchers satisfy the generated recursion equations level by level and the generated knot equals them. "
              "toom_3::add_signed_mul_same_len is NOT regenerated (uninitialised `let`, calls outside the kernel table: reported "
              "unparsed) and stays the hand model. (b) Scratch memory: consumed "
              "<= the regenerated memory_requirement formulas for every length and threshold pair. (c) Operators: Small/Large arms "
              "of + - * sqr cubic over the word-level kernels return exactly a+b, a-b (Panic NegativeUBig exactly when a<b), a*b, "
              "a^2, a^3, canonical - round 4: mul_large_dword's power-of-two shortcut through the WORD-LEVEL shl_in_place of C09 "
              "(regenerated from shift.rs too; proved equal to the by-value shift), the `x*x` square shortcut through C05's "
              "cmp_in_place (Equal iff the word lists are equal); pow.rs with its storage bookkeeping (capacities exp+1 / 2 exp "
              "regenerated, push_zeros room, scratch), factor-2 removal and 2^k bases through the word-level shr / shl / "
              "trailing_zeros / set_bit models of C09 - round 4: the shift count exp * shift in usize arithmetic (finding F01, "
              "fixed): checked, and the panic is proved justified (the result has more than usize::MAX bits). (d) Primitive-operand "
              "forms: conversion + operation = Z operation or Panic NegativeUBig - round 4: Repr::from_unsigned at word level "
              "(wider than a double word: little-endian bytes, from_le_bytes_large chunk by chunk = C07's model of from_le_bytes, "
              "canonical forms are unique, so it IS the by-value conversion the theorems use). IBig sign tables regenerated and proved.")
LEVEL_NOTE = ("Trusted: Coq kernel, translators (thresholds, sign tables, memory formulas / pow capacities; the loop-to-fold translator "
              "tools/translate_c01_r4.py and the body translator tools/translate_c01_r5.py: what they render wrongly shows up as a "
              "failed equality with the hand model or as asis=diff in the run, unless the hand model makes the same mistake AND "
              "the run misses it; conventions of r5: `&mut x[a..b]` passed down = slice / splice, `x = &mut x[k..]` freezes the "
              "prefix, memory arguments dropped, allocate_slice_fill = repeat 0, debug_assert_zero! = assert_zero), extraction + FastZ.v, zarith, "
              "harness. Atoms of the generated code: overflowing/wrapping ops, split_dword / double_word / extend_word as their "
              "mathematical definitions; + - * << on Word / DoubleWord as exact integer operations (an overflow would be a panic in "
              "the checked build); arch::add::add_with_carry / sub_with_borrow = the models tied by C19. Assumed with C02: "
              "num-modular's div_rem_2by1 contract (Toom-3's division by 6). Not proved: that the hand-written models of the "
              "Toom-3 step, of the operator arms (add_ops.rs / mul_ops.rs control flow) and of pow.rs transcribe the Rust (measured per case at w = 64 AND at "
              "w = 32 against the force_bits=\"32\" build: public operators, multipliers through verif_hooks::mul_kernel with the "
              "32-bit thresholds in words of 32 bits, every add.rs / mul/mod.rs kernel through verif_hooks::word_kernel, scratch "
              "consumption against the measured minimum). By value only: Buffer capacity growth policy and the unsafe Repr "
              "transmute (C17); pow of a double-word base with exp >= 2^63 (`2 * exp` capacity: the allocation panics long "
              "before).")
TECHNIQUE = "Coq proof of as-is word-level models = Z specification; loop kernels AND the multiplication bodies above them (chunk loop, Karatsuba, dispatch, sqr) regenerated from the Rust source and proved equal to the models; extracted-model correspondence run on a 64-bit and a 32-bit build incl. kernel, word-kernel and scratch hooks"
RULE = ("every case runs on the 64-bit and on the force_bits=32 build (the oracle runs the word-level models at the word size of the "
        "answer); size classes are counted in words of 64 or 32 bits (chosen per case). cases = operation x call form "
        "{vv,vr,rv,rr,av,ar} x operand word counts from {0,1,2,3,4,5} u {T-1,T,T+1 for T in 24 (schoolbook), 30 (squaring), 192 "
        "(Karatsuba)} u multiples/unbalanced lengths (k*n+r, 1025+ for the chunked schoolbook) x bit patterns {all-ones, 2^k, "
        "2^k+-1, low words zero, top word 1/MAX, sparse, 0/MAX words, random} x related operands {equal, +-1, equal high part, "
        "carry chains across the 2->3 word boundary, borrow chains} x both signs; pow: base classes {0,1,2,2^k, word below/above "
        "the lifting shortcuts, double word, >=3 words, even bases} x exponents {0..5, around wexp and 2*wexp, up to results of "
        "thousands of words} + corpus: shift counts that do not fit in usize; kernels: each multiplier forced through "
        "verif_hooks::mul_kernel at lengths around its minimum and the thresholds (kmul: lengths in 64-bit words, run with twice "
        "the words on the 32-bit build; kmul32 / ksqr32: lengths in 32-bit words at 23..26, 191..196, 570..579; kmul64: forced "
        "Karatsuba / schoolbook cases whose doubled form would leave the hook's contract), sqr_kernel at 2..3*30; wk: each of the "
        "20 kernels of add.rs / mul/mod.rs through verif_hooks::word_kernel at w = 64 and w = 32 with lengths 0..6 and 7..40, "
        "leading zero words, all-ones / zero runs (carry and borrow to the top), equal / off-by-one / equal-high-part operands, "
        "every signed word incl. MIN, double words incl. powers of two; kmem: scratch reserved vs least scratch that runs; "
        "primitives of every width on both sides (u128 beyond a double word on the 32-bit build = from_le_bytes_large). "
        "Answers marked NATIVE are per build; all others must agree between the builds. non-trivial = the oracle evaluated the "
        "Coq specification and the operands are not both zero; distinct = distinct case texts.")
EXPLANATION = ("Theorems (coq/props/C01.v): every kernel of add.rs/mul/*.rs/sqr modelled over word lists satisfies its value contract "
               "c' + carry*B^n = c + sign*a*b for all inputs, all lengths and all word sizes; the loop kernels are RE-TRANSLATED from "
               "the Rust source on every run and proved equal to those models (an edited loop body breaks a proof obligation; a "
               "function the translator cannot read keeps its last good copy and is reported, never an alarm); round 5: so are the "
               "bodies above them - chunk loop, Karatsuba step, size dispatch, multiply, sqr - with a generated fuel knot (only the "
               "Toom-3 step stays hand-written); scratch memory "
               "consumed <= reserved; the Small/Large operator arms of + - * sqr cubic pow (with buffer capacities and the checked "
               "shift count) and the primitive forms equal Z arithmetic; the regenerated sign tables equal Z.add/Z.sub/Z.mul. Tie to "
               "the code: thresholds, tables, memory formulas, pow capacities and loop kernels re-translated from the source on every "
               "run; public operators, hook-driven multipliers and every word kernel compared with the extracted specification (GMP "
               "integers) and with the extracted as-is models (regenerated kernels included) on a 64-bit and a 32-bit build of the "
               "library (fidelity statistic; cross-build agreement of every value answer).")
TRUSTED_BASE = [
    "Coq 8.16.1 kernel (coqc, full .vo build)",
    "tools/translate.py renders THRESHOLD_SIMPLE/THRESHOLD_KARATSUBA/MIN_LEN/CHUNK_LEN/MAX_LEN_SIMPLE and impl_ibig_add/sub/mul faithfully (add->Z.add, sub_signed->Z.sub, with_sign->signed)",
    "tools/translate_c01_r3.py renders math::ceil_log2, memory_requirement_up_to/_exact (mul, karatsuba, toom_3, sqr) and the Buffer::allocate / MemoryAllocation::new amounts of pow.rs into coq/gen/MulMemory.v, counting layouts in words; bit_len is a hand-written atom (Z.log2 + 1)",
    "tools/translate_c01_r4.py renders the loop kernels (for over iter_mut / zip / enumerate / chunks_exact_mut(2), while with fuel, early return, split_first_mut / split_at_mut views, `&mut x[a..b]` arguments) into coq/gen/WordKernelsGen.v; its atoms (Int/WordPrims.v: overflowing_add/sub, wrapping ops, split_dword, double_word, to_sign_magnitude, is_empty; + - * << | on words as exact integer operations; `.unwrap()` of an empty slice = unreachable default) are hand-written",
    "tools/translate_c01_r5.py renders the bodies of mul/helpers.rs, simple.rs, karatsuba.rs, toom_3.rs (wrapper only), mul/mod.rs (dispatch, multiply) and sqr/mod.rs into coq/gen/MulBodiesGen.v; conventions: a `&mut x[a..b]` argument is read as slice a (b-a) x and written back with splice, `x = &mut x[k..]` in the loop freezes firstn k x, `memory` arguments are dropped, allocate_slice_fill(n, 0) = repeat 0 n, allocate_slice_copy(x) = x, debug_assert_zero!(e) = assert_zero e, other debug_assert!s dropped; initial fuel of the while loop = length of the slice in its condition; the fuel knot at the end is a fixed template",
    "arch::add::add_with_carry / sub_with_borrow are atoms of the generated kernels (Int/RingAdd.v; tied to arch/generic/add.rs by C19_arch_add_with_carry / _sub_with_borrow; the x86_64 build uses the intrinsics version, tied by the run)",
    "num-modular Normalized2by1Divisor::div_rem_2by1 meets its contract (hypothesis shared with C02; used by Toom-3's division by 6)",
    "extraction: ExtrOcamlBasic + ExtrOcamlZBigInt + coq/extract/FastZ.v; Z in the oracle is zarith/GMP (the independent big-integer implementation the property asks for)",
    "OCaml 4.13.1 + zarith 1.12, oracle/common.ml, oracle/driver_c01.ml; Rust harness harness/src/bin/c01.rs (both builds)",
    "hooks dashu_int::verif_hooks::{mul_kernel, mul_kernel_scratch, mul_scratch_words, sqr_kernel, word_kernel, MUL_PARAMS, WORD_BITS, repr_layout_*} (cfg(dashu_verif), add-only) call the internal kernels unchanged",
    "the hand-written word-level models of the Toom-3 step (toom_3::add_signed_mul_same_len), of sqr::simple::square, of the operator arms and of pow.rs in coq/theories/Int/Ring*.v (and the C02/C05/C07/C09 models they call: DivWordModel.div_by_word/shr_in_place, ReprOrdModel.cmp_in_place, IoSpec.le_value/le_bytes_n, BitsKernels.shl_in_place/repr_shl/shr_ref/set_bit/trailing_zeros) transcribe the Rust; fidelity is measured by the correspondence run on both builds, not proved",
]
ASSUMPTIONS = [
    "UBig::from_words / as_words / IBig::from_parts / as_sign_words transport values faithfully (used by the harness instead of any parser)",
    "usize is 64 bits wide in both builds (force_bits changes Word only); lengths stay far below usize::MAX and allocation succeeds, except where the theorems say otherwise (the checked shift count of pow)",
    "primitive word operations of core (overflowing_add, widening multiplication through u128 / u64) behave as their mathematical definitions mod 2^w / 2^2w",
]

W = 64            # word size the size classes of the current case are counted in (switched per case: 64 or 32)
MASK = (1 << W) - 1


def set_word(bits):
    global W, MASK
    W = bits
    MASK = (1 << W) - 1


def gm(rng, n):
    return gen_mag(rng, n, W)

FORMS6 = ["vv", "vr", "rv", "rr", "av", "ar"]
FORMS4 = ["vv", "vr", "rv", "rr"]
SMALL = [0, 1, 1, 2, 2, 3, 3, 4, 5, 8]
MULT = [23, 24, 25, 26, 29, 30, 31, 32, 47, 48, 49, 50, 51, 96, 191, 192, 193, 194]
BIGQ = [385, 386, 387, 576, 577, 579, 1024, 1025, 1049]
BIGT = [2049, 3000, 5000, 20000]


def size(rng, tier, big=True):
    k = rng.below(10)
    if k < 4:
        return rng.choice(SMALL)
    if k < 8:
        return rng.choice(MULT)
    if k < 9 or not big:
        return rng.range(6, 200)
    if tier == "thorough" and rng.chance(1, 6):
        return rng.choice(BIGT)
    return rng.choice(BIGQ)


def sgn(rng, v):
    return -v if rng.chance(1, 2) else v


def addsub_pair(rng, tier):
    a, b = _addsub_pair(rng, tier)
    return max(0, a), max(0, b)


def _addsub_pair(rng, tier):
    """operand pairs that stress carries, borrows and the 2<->3 word boundary"""
    k = rng.below(14)
    n = size(rng, tier, big=rng.chance(1, 8))
    a = gm(rng, n)
    if k == 0:
        return a, gm(rng, size(rng, tier, big=False))
    if k == 1:
        return a, gm(rng, n)
    if k == 2:
        return a, a + rng.choice([-1, 0, 1, 2])
    if k == 3:
        # equal high part, different low part (top-down comparison arm of sub_in_place_with_sign)
        if n == 0:
            return 0, rng.bits(64)
        cut = rng.range(0, n * W - 1)
        return a, ((a >> cut) << cut) | rng.bits(cut)
    if k == 4:
        # carry chain through all-ones words
        m = rng.range(0, n)
        return (1 << (n * W)) - 1, rng.choice([1, 2, (1 << (m * W)) - 1, (1 << (m * W)), rng.bits(W) | 1])
    if k == 5:
        # borrow chain from a power of the base
        m = rng.range(0, n)
        return 1 << (n * W), rng.choice([1, (1 << (m * W)) - 1, 1 << (m * W), rng.bits(max(1, m * W)) | 1, (1 << (n * W)) - 1])
    if k == 6:
        # results around the inline/heap boundary (2 <-> 3 words)
        x = rng.choice([(1 << 128) - 1, 1 << 128, (1 << 128) + 1, (1 << 128) - rng.bits(63), (1 << 128) + rng.bits(130), (1 << 192) - 1, 1 << 127, (1 << 64) - 1, 1 << 64])
        y = rng.choice([0, 1, 2, rng.bits(64), rng.bits(128), (1 << 64) - 1, (1 << 128) - 1, x, x - 1, x + 1, x >> 1])
        return x, max(0, y)
    if k == 7:
        # middle words all ones / zero so that a carry or borrow runs through the longer operand's tail
        m = rng.range(0, n)
        lo = rng.bits(m * W)
        hi = rng.bits(W) | 1
        mid = rng.range(1, 4)
        x = lo | (((1 << (mid * W)) - 1) << (m * W)) | (hi << ((m + mid) * W))
        y = (rng.bits(m * W) | (1 << max(0, m * W - 1))) if m else 1
        z = lo | (hi << ((m + mid) * W))
        return (x, y) if rng.chance(1, 2) else (z, y)
    if k == 8:
        return a, a >> rng.choice([1, 63, 64, 65, 128])
    if k == 9:
        # b longer than a
        return a, gm(rng, n + rng.range(1, 3))
    if k == 10:
        # a - b where only the lowest word differs / result is one word
        return a, a ^ rng.bits(rng.choice([1, 64]))
    if k == 11:
        # same length, b just above a in the top word
        if n == 0:
            return 0, 1
        return a, a + (1 << ((n - 1) * W)) * rng.choice([1, -1]) if a >> ((n - 1) * W) > 1 else a + 1
    if k == 12:
        b = gm(rng, rng.range(max(0, n - 1), n + 1))
        return a, b
    return a, gm(rng, rng.choice([0, 1, 2]))


def mul_pair(rng, tier):
    a, b = _mul_pair(rng, tier)
    return max(0, a), max(0, b)


def _mul_pair(rng, tier):
    k = rng.below(13)
    if k == 12:
        k = 6
    if k == 0:
        return gm(rng, size(rng, tier)), gm(rng, size(rng, tier, big=False))
    if k == 1:
        n = size(rng, tier)
        return gm(rng, n), gm(rng, n)
    if k == 2:
        a = gm(rng, size(rng, tier))
        return a, a  # square shortcut of mul_large
    if k == 3:
        a = gm(rng, size(rng, tier))
        return a, a + rng.choice([1, -1]) if a else 1
    if k == 4:
        # unbalanced: la = q * lb + r drives add_signed_mul_split_into_chunks
        lb = rng.choice([3, 4, 24, 25, 26, 48, 49, 192, 193, 194, 200]) if rng.chance(2, 3) else rng.range(25, 210)
        q = rng.range(1, 4)
        r = rng.choice([0, 0, 1, 2, 3, 16, 24, 25, lb - 1, lb // 2, rng.below(lb)]) % lb
        return gm(rng, q * lb + r), gm(rng, lb)
    if k == 5:
        # schoolbook with a chunked long operand (CHUNK_LEN = 1024)
        la = rng.choice([1023, 1024, 1025, 1026, 1030, 1047, 1048, 1049, 2047, 2048, 2049, 2050, 2072])
        lb = rng.choice([1, 2, 3, 5, 23, 24])
        if tier != "thorough" and la > 1100 and rng.chance(1, 2):
            la = 1025
        return gm(rng, la), gm(rng, lb)
    if k == 6:
        # double-word right operand: power of two, one word, full double word
        a = gm(rng, rng.choice([3, 4, 5, 6, 7, 8, 25, 31]))
        # every power of two below a word takes the shl_in_place shortcut of mul_large_dword with its own shift count
        d = rng.choice([0, 1, 2, 1 << rng.below(2 * W), 1 << rng.below(W), 1 << rng.below(W), 1 << rng.below(8), 1 << rng.below(8), 1 << (W - 1),
                        rng.bits(W) | 1, MASK, MASK + 1, MASK + 2, rng.bits(2 * W) | (1 << (2 * W - 1)) | 1, (1 << (2 * W)) - 1, (1 << W) | 1])
        return a, d
    if k == 7:
        # both at most two words: mul_dword and its spilled variant
        x = rng.choice([0, 1, MASK, MASK + 1, rng.bits(64), rng.bits(128), (1 << 128) - 1, rng.bits(65) | (1 << 64), 1 << 127])
        y = rng.choice([0, 1, MASK, MASK + 1, rng.bits(64), rng.bits(128), (1 << 128) - 1, rng.bits(65) | (1 << 64), 1 << 127])
        return x, y
    if k == 8:
        # all-ones x all-ones and friends: maximal carries in every column
        la, lb = size(rng, tier), size(rng, tier, big=False)
        return (1 << (la * W)) - 1, rng.choice([(1 << (lb * W)) - 1, (1 << (lb * W)) - 2, 1 << max(0, lb * W - 1)])
    if k == 9:
        # halves equal / ordered so that the Karatsuba differences vanish or change sign
        n = rng.choice([25, 26, 31, 48, 49, 50, 97, 192, 193, 200, 386])
        mid = (n + 1) // 2
        lo = rng.bits(mid * W)
        hi = rng.choice([lo & ((1 << ((n - mid) * W)) - 1), lo >> W, rng.bits((n - mid) * W), 0, 1])
        a = lo | (max(hi, 1) << (mid * W))
        lo2 = rng.choice([lo, rng.bits(mid * W), 0, (1 << (mid * W)) - 1])
        b = lo2 | (max(rng.choice([hi, lo2 >> W, 1, rng.bits((n - mid) * W)]), 1) << (mid * W))
        return a, b
    if k == 10:
        # thirds patterned for Toom-3 (zero / maximal / short top third)
        n = rng.choice([193, 194, 195, 200, 300, 386, 577, 579]) if rng.chance(3, 4) else rng.range(193, 420)
        n3 = (n + 2) // 3
        def third(l):
            return rng.choice([0, 1, (1 << (l * W)) - 1, rng.bits(l * W), rng.bits(W)])
        def mk():
            t0, t1, t2 = third(n3), third(n3), third(n - 2 * n3)
            return t0 | (t1 << (n3 * W)) | ((t2 | (1 << ((n - 2 * n3) * W - 1))) << (2 * n3 * W))
        return mk(), mk()
    return gm(rng, rng.choice(MULT)), gm(rng, rng.choice(MULT))


def pow_case(rng, tier):
    k = rng.below(12)
    lim = 60000 if tier == "quick" else 400000  # result bits
    if k == 0:
        b = rng.choice([0, 1, 2, 3, 4, 5, 7, 10, 255, 256, 1 << 31, 1 << 32, 1 << 63])
        e = rng.choice([0, 1, 2, 3, 4, 5, 6, 7, 8, 16, 31, 32, 33, 63, 64, 65, 100, 127, 128, 129, 1000])
    elif k == 1:
        # small odd bases around the lifting shortcuts: wexp = max k with b^k < 2^64
        b = rng.choice([3, 5, 6, 7, 9, 10, 11, 12, 13, 15, 17, 100, 255, 257, 1000, 65535, 65537, 2642245, 2642246, 2642247, 4294967295, 4294967296 + 1])
        wexp = 1
        while b ** (wexp + 1) < (1 << 64):
            wexp += 1
        e = rng.choice([wexp - 1, wexp, wexp + 1, 2 * wexp - 1, 2 * wexp, 2 * wexp + 1, 3 * wexp, 3 * wexp + 1, 4 * wexp - 1, 5 * wexp + 2, 7 * wexp + rng.below(wexp), rng.range(2, 12 * wexp)])
    elif k == 2:
        b = rng.bits(64) | (1 << 63) | 1  # full word, wexp = 1
        e = rng.range(0, 40)
    elif k == 3:
        b = rng.bits(rng.range(33, 64)) | 1
        e = rng.range(0, 60)
    elif k == 4:
        b = rng.choice([MASK + 1, MASK + 2, rng.bits(128) | (1 << 127) | 1, (1 << 128) - 1, rng.bits(65) | (1 << 64) | 1, (1 << 127) + 1])
        e = rng.range(0, 40)
    elif k == 5:
        b = gm(rng, rng.choice([3, 3, 4, 5, 8, 12, 15, 16, 31, 50]))
        e = rng.choice([0, 1, 2, 3, 3, 4, 5, 6, 7, 8, 9, 12, 13, 15, 16, 17])
    elif k == 6:
        # even bases: factor-2 removal, odd part one word / two words / large
        odd = rng.choice([1, 3, 5, rng.bits(64) | 1, rng.bits(128) | 1 | (1 << 127), gm(rng, 3) | 1, gm(rng, 5) | 1])
        b = odd << rng.choice([1, 2, 63, 64, 65, 127, 128, 129, 200])
        e = rng.range(0, 24)
    elif k == 7:
        b = rng.range(3, 70000)
        e = rng.range(0, 3000)
    elif k == 8:
        b = rng.bits(rng.range(2, 200)) | 1
        e = rng.range(0, 70)
    elif k == 9:
        b = (1 << rng.range(1, 300)) + rng.choice([-1, 1])
        e = rng.range(0, 50)
    elif k == 10:
        b = gm(rng, rng.choice([1, 2, 3, 4]))
        e = rng.choice([3, 4, 5, 6, 7, 8, 15, 16, 17, 31, 32, 33, 63, 64, 65, 100])
    else:
        b = rng.bits(rng.range(1, 64))
        e = rng.range(0, 300)
    while b > 1 and b.bit_length() * e > lim:
        e //= 2
    return b, e


def kernel_case(rng, tier):
    which = rng.choice([0, 0, 1, 1, 2, 2, 2, 3, 3, 3])
    if which == 1:
        lb = rng.choice([0, 1, 2, 3, 5, 8, 23, 24, 25, 40])
        la = lb + rng.choice([0, 0, 1, 2, 7, 30, 100]) if rng.chance(7, 8) else rng.choice([1023, 1024, 1025, 1030, 2048, 2049])
        la = max(la, lb)
    elif which == 2:
        lb = rng.choice([3, 3, 4, 4, 5, 5, 6, 7, 8, 9, 11, 13, 16, 17, 23, 24, 25, 26, 27, 33, 48, 49, 50, 51, 64, 65, 97, 100, 192, 193])
        la = rng.choice([lb, lb, lb, lb + 1, lb + 2, 2 * lb - 1, 2 * lb, 2 * lb + 1, 3 * lb + 2, lb + rng.below(3 * lb)])
    elif which == 3:
        lb = rng.choice([16, 16, 17, 18, 19, 20, 21, 22, 23, 24, 25, 26, 27, 28, 29, 31, 32, 34, 40, 47, 48, 49, 50, 64, 70, 71, 72, 73, 74, 75, 100, 193, 194, 195, 200,
                         573, 576, 577])
        la = rng.choice([lb, lb, lb, lb, lb + 1, lb + 15, lb + 16, lb + 17, 2 * lb - 1, 2 * lb, 2 * lb + 1, 2 * lb + 16, 3 * lb + 2, lb + rng.below(3 * lb)])
    elif rng.chance(1, 2):
        # the size dispatch at every threshold -1/0/+1 (24/25 schoolbook|Karatsuba, 192/193 Karatsuba|Toom-3), balanced and
        # unbalanced (chunks of len b + a tail that re-enters the dispatch in another class, possibly with swapped operands),
        # and Toom-3 whose five recursive products (n3 + 1 words) fall on either side of 192/193 (n = 570..579)
        lb = rng.choice([23, 24, 25, 26, 191, 192, 193, 194, 195, 196, 207, 208]) if rng.chance(3, 4) else rng.choice([570, 573, 574, 575, 576, 577, 578, 579])
        la = rng.choice([lb, lb, lb + 1, lb + 2, lb + 23, lb + 24, lb + 25, lb + 26, 2 * lb - 1, 2 * lb, 2 * lb + 1, 2 * lb + 24, 2 * lb + 25,
                         3 * lb, 3 * lb + 1, 576, 577, lb + 191, lb + 192, lb + 193, lb + rng.below(2 * lb)])
        la = max(la, lb)
        if lb > 500:
            la = rng.choice([lb, lb, lb + 1, lb + 30])
        if rng.chance(1, 3):
            la, lb = lb, la  # which=0 swaps internally
    else:
        lb = size(rng, tier, big=False)
        la = size(rng, tier)
        if la < lb and rng.chance(1, 2):
            la, lb = lb, la  # which=0 accepts both orders; keep some swapped
    n = la + lb
    def operand(l):
        if l == 0:
            return 0
        r = rng.below(6)
        if r == 0:
            return (1 << (l * W)) - 1
        if r == 1:
            return rng.bits(l * W) & ~(((1 << ((l // 2) * W)) - 1) << ((l // 4) * W))  # a zero run inside
        if r == 2:
            return rng.bits(rng.range(1, l * W))  # leading zero words
        return gm(rng, l)
    a, b = operand(la), operand(lb)
    if rng.chance(1, 8) and la == lb:
        b = a
    r = rng.below(6)
    if r == 0:
        c = 0
    elif r == 1:
        c = (1 << (n * W)) - 1
    elif r == 2:
        c = rng.bits(n * W)
    elif r == 3:
        c = a * b % (1 << (n * W)) + rng.choice([-1, 0, 1])  # just around the product: borrow/no borrow when subtracting
        c = max(0, c)
    elif r == 4:
        c = (1 << (n * W)) - 1 - a * b + rng.choice([-1, 0, 1, 2])  # just around overflow when adding
        c = min(max(0, c), (1 << (n * W)) - 1)
    else:
        c = rng.bits(n * W) | (((1 << (W * (n // 2))) - 1) << (W * (n // 4)))
        c &= (1 << (n * W)) - 1
    c = min(max(0, c), (1 << (n * W)) - 1)
    # a case in 64-bit words also runs on the 32-bit build with twice the words - except forced Karatsuba above 96 words: doubled,
    # its recursion / tail would reach Toom-3 sizes, whose scratch demand the Karatsuba reservation of the hook does not cover
    # (the real dispatch never sends more than 192 words to Karatsuba): those run on the 64-bit build only (kmul64)
    # likewise the forced schoolbook kernel: a long operand (> CHUNK_LEN words) is cut into chunks and the tail re-enters the size
    # dispatch, which must stay in the schoolbook class (no scratch memory is reserved for it): doubled, lb > 12 with la > 512 would not
    name = "kmul32" if W == 32 else ("kmul64" if (which == 2 and lb > 96) or (which == 1 and lb > 12 and la > 512) else "kmul")
    return "%s %x %d %x %x %s %s %s" % (name, which, rng.below(2), la, lb, hx(c), hx(a), hx(b))


def mem_case(rng, tier):
    """scratch memory of mul::add_signed_mul: lengths around the thresholds, the Toom-3 recursion classes, unbalanced pairs"""
    k = rng.below(6)
    if k == 0:
        lb = rng.choice([1, 2, 3, 23, 24, 25, 26, 27, 48, 49, 50, 51, 95, 96, 97, 127, 128, 129, 191, 192])
    elif k == 1:
        lb = rng.choice([193, 194, 195, 196, 197, 198, 255, 256, 257, 383, 384, 385, 511, 512, 513, 570, 573, 574, 575, 576, 577, 578, 600])
    elif k == 2:
        lb = rng.range(25, 700)
    elif k == 3:
        lb = rng.choice([1023, 1024, 1025, 1700, 1720, 1727, 1728, 1729, 2047, 2048, 2049]) if tier == "thorough" else rng.choice([729, 730, 731, 1023, 1024, 1025])
    elif k == 4:
        lb = rng.choice([24, 25, 192, 193, 200, 300])
    else:
        lb = rng.range(1, 260)
    la = lb
    if k >= 4 or rng.chance(1, 4):
        la = rng.choice([lb + 1, lb + 24, lb + 25, lb + 192, lb + 193, 2 * lb, 2 * lb + 25, 2 * lb + 193, 3 * lb + 30, lb + rng.below(2 * lb + 1)])
        if la * lb > 600000:
            la = lb + 25
    if rng.chance(1, 4):
        la, lb = lb, la
    return "kmem %x %x" % (la, lb)


def wk_list(rng, n):
    """the value of an n-word slice, leading zero words allowed"""
    if n == 0:
        return 0
    k = rng.below(8)
    if k == 0:
        return (1 << (n * W)) - 1
    if k == 1:
        return 0
    if k == 2:
        return rng.bits(rng.range(1, n * W))            # leading zero bits / words
    if k == 3:
        v = 0
        for i in range(n):
            v |= rng.choice([0, MASK, MASK, 1, rng.bits(W)]) << (i * W)
        return v
    if k == 4:
        return 1 << rng.below(n * W)
    return gm(rng, n) if rng.chance(2, 3) else rng.bits(n * W)


def wk_case(rng, tier):
    """one word kernel of add.rs / mul/mod.rs through verif_hooks::word_kernel, stated in words of W bits"""
    which = rng.below(20)
    short = rng.chance(4, 5)
    ll = rng.choice([0, 1, 1, 2, 2, 3, 3, 4, 5, 6]) if short else rng.range(7, 40)
    rl = ll
    x = rng.choice([0, 1, 2, MASK, MASK + 1, MASK + 2, (1 << (2 * W)) - 1, rng.bits(W), rng.bits(2 * W), rng.bits(2 * W) | (1 << (2 * W - 1)), 1 << rng.below(2 * W)])
    sx = rng.choice([0, 1, -1, (1 << (W - 1)) - 1, -(1 << (W - 1)), rng.bits(W - 1), -rng.bits(W - 1), 2, -2])
    if which in (2, 3, 15, 16):
        ll = max(ll, 1) if which in (2, 3) else ll
        if which in (15, 16) and x & MASK == 0:
            x |= rng.choice([1, MASK, rng.bits(W) | 1])
    if which in (4, 5):
        ll = max(ll, 2)
    if which == 17 and x <= MASK:
        x |= rng.choice([1, MASK, rng.bits(W) | 1]) << W
    if which in (8, 9, 11, 14):
        rl = rng.range(0, ll)
    if which in (0, 1, 2, 3, 4, 5, 12, 15, 16, 17):
        rl = 0
    lhs = wk_list(rng, ll)
    rhs = wk_list(rng, rl)
    if which in (7, 9, 10, 11, 13, 14, 19) and rl and rng.chance(1, 2):
        # related operands: equal, off by one, equal high part (the top-down comparison of sub_in_place_with_sign)
        m = (1 << (rl * W)) - 1
        k = rng.below(5)
        if k == 0:
            rhs = lhs & m
        elif k == 1:
            rhs = ((lhs & m) + rng.choice([1, -1])) & m
        elif k == 2:
            cut = rng.range(0, rl * W - 1)
            rhs = (((lhs & m) >> cut) << cut) | rng.bits(cut)
        elif k == 3:
            lhs = rhs
        else:
            lhs = (rhs + rng.choice([1, -1, 1 << rng.below(rl * W)])) & ((1 << (ll * W)) - 1)
    if which in (0, 2, 4, 6, 8) and rng.chance(1, 3):
        lhs = (1 << (ll * W)) - 1 - rng.choice([0, 0, 1, rng.bits(W)]) if ll else 0   # carry runs to the top
        lhs = max(lhs, 0)
    if which in (1, 3, 5, 7, 9) and rng.chance(1, 3):
        lhs = rng.choice([0, 1, 1 << ((ll - 1) * W) if ll else 0, rng.bits(W)]) & ((1 << (ll * W)) - 1) if ll else 0  # borrow runs to the top
    return "wk %x %x %x %x %s %s %s %s" % (W, which, ll, rl, hx(lhs), hx(rhs), hx(x), hx(sx))


def gen_cases(rng, tier, n):
    out = ["params"]
    utys = ["u8", "u16", "u32", "u64", "u128", "usize"]
    itys = ["i8", "i16", "i32", "i64", "i128", "isize"]
    bits = {"u8": 8, "u16": 16, "u32": 32, "u64": 64, "usize": 64, "u128": 128, "i8": 8, "i16": 16, "i32": 32, "i64": 64, "isize": 64, "i128": 128}
    while len(out) < n:
        # size classes counted in 64-bit words or in 32-bit words (every case runs on both builds)
        set_word(64 if rng.chance(3, 5) else 32)
        k = rng.below(114)
        if k >= 100:
            out.append(wk_case(rng, tier))
        elif k < 12:
            a, b = addsub_pair(rng, tier)
            if rng.chance(1, 2):
                a, b = b, a
            out.append("uadd %s %s %s" % (rng.choice(FORMS6), hx(a), hx(b)))
        elif k < 24:
            a, b = addsub_pair(rng, tier)
            if rng.chance(1, 5):
                a, b = b, a
            elif a < b and rng.chance(4, 5):
                a, b = b, a
            out.append("usub %s %s %s" % (rng.choice(FORMS6), hx(a), hx(b)))
        elif k < 36:
            a, b = addsub_pair(rng, tier)
            if rng.chance(1, 2):
                a, b = b, a
            out.append("%s %s %s %s" % (rng.choice(["iadd", "isub"]), rng.choice(FORMS6), hx(sgn(rng, a)), hx(sgn(rng, b))))
        elif k < 42:
            a, b = addsub_pair(rng, tier)
            if rng.chance(1, 2):
                a, b = b, a
            op = rng.choice(["add_ui", "sub_ui", "add_iu", "sub_iu"])
            if op.endswith("_ui"):
                out.append("%s %s %s %s" % (op, rng.choice(FORMS4), hx(a), hx(sgn(rng, b))))
            else:
                out.append("%s %s %s %s" % (op, rng.choice(FORMS6), hx(sgn(rng, a)), hx(b)))
        elif k < 56:
            a, b = mul_pair(rng, tier)
            if rng.chance(1, 2):
                a, b = b, a
            out.append("umul %s %s %s" % (rng.choice(FORMS6), hx(a), hx(b)))
        elif k < 62:
            a, b = mul_pair(rng, tier)
            if rng.chance(1, 2):
                a, b = b, a
            out.append("imul %s %s %s" % (rng.choice(FORMS6), hx(sgn(rng, a)), hx(sgn(rng, b))))
        elif k < 65:
            a, b = mul_pair(rng, tier)
            if rng.chance(1, 2):
                out.append("mul_ui %s %s %s" % (rng.choice(FORMS4), hx(a), hx(sgn(rng, b))))
            else:
                out.append("mul_iu %s %s %s" % (rng.choice(FORMS6), hx(sgn(rng, a)), hx(b)))
        elif k < 71:
            nw = rng.choice([0, 1, 1, 2, 2, 3, 4, 5, 15, 16, 29, 30, 31, 32, 33, 60, 61, 191, 192, 193, 194]) if rng.chance(4, 5) else size(rng, tier)
            a = gm(rng, nw)
            if nw and rng.chance(1, 6):
                a = (1 << (nw * W)) - 1
            out.append(rng.choice(["usqr %s" % hx(a), "isqr %s" % hx(sgn(rng, a))]))
        elif k < 74:
            a = gm(rng, size(rng, tier, big=False))
            out.append(rng.choice(["ucubic %s" % hx(a), "icubic %s" % hx(sgn(rng, a))]))
        elif k < 84:
            b, e = pow_case(rng, tier)
            if rng.chance(1, 2):
                out.append("upow %s %x" % (hx(b), e))
            else:
                out.append("ipow %s %x" % (hx(sgn(rng, b)), e))
        elif k < 88:
            # primitives
            side = rng.choice(["l", "r", "lr", "rr", "a"])
            o = rng.choice(["add", "sub", "mul"])
            x, _ = addsub_pair(rng, tier)
            if x.bit_length() > 64 * 40:
                x >>= x.bit_length() - 64 * 3
            r = rng.below(3)
            if r == 0:
                ty = rng.choice(utys)
                p = rng.choice([0, 1, (1 << bits[ty]) - 1, rng.bits(bits[ty])])
                if o == "sub" and rng.chance(2, 3):
                    if side in ("r", "rr"):
                        x = min(x, p) if rng.chance(1, 2) else rng.bits(bits[ty]) % (p + 1)
                    else:
                        x = max(x, p)
                out.append("uprim %s %s %s %s %s" % (ty, side, o, hx(x), hx(p)))
            elif r == 1:
                ty = rng.choice(utys)
                p = rng.choice([0, 1, (1 << bits[ty]) - 1, rng.bits(bits[ty])])
                out.append("iprim_u %s %s %s %s %s" % (ty, side, o, hx(sgn(rng, x)), hx(p)))
            else:
                ty = rng.choice(itys)
                bb = bits[ty]
                p = rng.choice([0, 1, -1, (1 << (bb - 1)) - 1, -(1 << (bb - 1)), sgn(rng, rng.bits(bb - 1))])
                out.append("iprim_i %s %s %s %s %s" % (ty, side, o, hx(sgn(rng, x)), hx(p)))
        elif k < 96:
            out.append(kernel_case(rng, tier))
        elif k < 97:
            out.append(mem_case(rng, tier))
        else:
            la = rng.choice([2, 2, 3, 4, 5, 8, 16, 29, 30, 31, 32, 33, 48, 49, 60, 61, 90, 192, 193])
            a = rng.choice([(1 << (la * W)) - 1, gm(rng, la), rng.bits(la * W), rng.bits(rng.range(1, la * W))])
            out.append("%s %x %s" % ("ksqr" if W == 64 else "ksqr32", la, hx(a)))
    set_word(64)
    return out
