"""C12 - gcd, integer roots and integer logarithms satisfy their defining inequalities; log2_bounds encloses; remove()."""
import os
import sys
import core
from core import hx, gen_int, gen_mag, gen_words_len

# coq/gen/RootTabs.v (RSQRT_TAB / RCBRT_TAB and the guard constants of base/src/ring/root.rs, MIN_DWORD_GUESS_LEN of
# integer/src/gcd/lehmer.rs) is regenerated from the Rust sources when this plug-in is imported, i.e. before the proof
# phase of every run (tools/translate.py is shared; it regenerates Log2Tab.v).  C12_root_tabs_are_source proves the
# copies used by the models equal to it.  Unparseable source is not an alarm: the previous copy stays (marked STALE),
# the status goes into the evidence and the correspondence run alone ties the models.
sys.path.insert(0, os.path.join(core.ROOT, "tools"))
try:
    import translate_c12_r3
    ROOT_TABS_STATUS = translate_c12_r3.generate(core.REPO, os.path.join(core.COQ, "gen"))
except Exception as _ex:  # the generator itself broke: same fallback as an unparseable source
    ROOT_TABS_STATUS = "unparsed generator-failed: %s" % str(_ex)[:200]
# coq/gen/LehmerFrag.v (round 4): the loop bodies of lehmer_guess / lehmer_guess_dword, the linear forms of lehmer_step and
# lehmer_ext_step and COEFF_LIMIT, regenerated from integer/src/gcd/lehmer.rs; Int/GrlLehmerGenTie.v proves the models equal to it
try:
    import translate_c12_r4
    LEHMER_FRAG_STATUS = translate_c12_r4.generate(core.REPO, os.path.join(core.COQ, "gen"))
except Exception as _ex:
    LEHMER_FRAG_STATUS = "unparsed generator-failed: %s" % str(_ex)[:200]
# coq/gen/RootNewtonSrc.v (round 5): the token text of fix_sqrt_error! / fix_cbrt_error! / impl_rootrem_using_normalized! and of
# normalized_sqrt_rem / normalized_cbrt_rem for u16..u128 of base/src/ring/root.rs; Int/GrlRootSrcTie.v proves the text the models
# were transcribed from equal to it (change detector for the bodies the class-certificate theorems are about)
try:
    import translate_c12_r5
    NEWTON_SRC_STATUS = translate_c12_r5.generate(core.REPO, os.path.join(core.COQ, "gen"))
except Exception as _ex:
    NEWTON_SRC_STATUS = "unparsed generator-failed: %s" % str(_ex)[:200]
# coq/gen/GrlDispatchGen.v (round 5): the size-dispatch tables of integer/src/gcd_ops.rs (Gcd, 4 x ExtendedGcd), log.rs
# (TypedReprRef::log) and root_ops.rs (nth_root's match on n); Int/GrlDispatch.v proves the hand-written dispatch = the tables
try:
    DISPATCH_STATUS = translate_c12_r5.generate_dispatch(core.REPO, os.path.join(core.COQ, "gen"))
except Exception as _ex:
    DISPATCH_STATUS = "unparsed generator-failed: %s" % str(_ex)[:200]


def extra_phase(tier, seed, exes, oracle):
    word = ROOT_TABS_STATUS.split(" ", 1)[0]
    word4 = LEHMER_FRAG_STATUS.split(" ", 1)[0]
    word5 = NEWTON_SRC_STATUS.split(" ", 1)[0]
    word6 = DISPATCH_STATUS.split(" ", 1)[0]
    res = {
        "evaluations": 0,
        "hist": {"translator_c12:RootTabs:" + word: 1, "translator_c12:LehmerFrag:" + word4: 1,
                 "translator_c12:RootNewtonSrc:" + word5: 1, "translator_c12:GrlDispatchGen:" + word6: 1},
        "nontrivial": [],
        "samples": [{"fragment": "coq/gen/RootTabs.v (tools/translate_c12_r3.py from base/src/ring/root.rs, integer/src/gcd/lehmer.rs)",
                     "status": ROOT_TABS_STATUS,
                     "tied_by": "C12_root_tabs_are_source, C12_prim_sqrt_rem_u16_total, C12_prim_cbrt_rem_u16_total" if word == "ok"
                                else "correspondence run only (source not parsed; previous copy marked STALE)"},
                    {"fragment": "coq/gen/LehmerFrag.v (tools/translate_c12_r4.py from integer/src/gcd/lehmer.rs)",
                     "status": LEHMER_FRAG_STATUS,
                     "tied_by": "C12_lehmer_guess_loop_is_source, C12_sd_lin_is_source, C12_ud_lin_is_source, C12_lstep_top_is_source, C12_gen_coeff_limit_is_model" if word4 == "ok"
                                else "correspondence run only (source not parsed; previous copy marked STALE)"},
                    {"fragment": "coq/gen/RootNewtonSrc.v (tools/translate_c12_r5.py from base/src/ring/root.rs: token text of the correction macros, the normalising wrapper and the u16..u128 normalized_sqrt_rem / normalized_cbrt_rem bodies)",
                     "status": NEWTON_SRC_STATUS,
                     "tied_by": "C12_root_newton_src_pinned (change detector; the semantic tie is asis=same of psqrt*/pcbrt*/psweep32/psweep64)" if word5 == "ok"
                                else "correspondence run only (source not parsed; previous copy marked STALE)"},
                    {"fragment": "coq/gen/GrlDispatchGen.v (tools/translate_c12_r5.py from integer/src/gcd_ops.rs, log.rs, root_ops.rs: which kernel for which operand sizes, operand order, cofactor swap, nth_root's match on n)",
                     "status": DISPATCH_STATUS,
                     "tied_by": "C12_gcd_dispatch_is_source, C12_gcd_ext_dispatch_is_source (4 ownership forms), C12_log_dispatch_is_source, C12_nth_dispatch_is_source, C12_nth_root_asis_is_table; Int/GrlDispatchC19.v instantiates them with C19's wr_gcd / wr_gcdext / wr_ilog / wr_nthroot" if word6 == "ok"
                                else "correspondence run only (source not parsed; previous copy marked STALE)"}],
        "failures": [],
    }
    # the word-level models at w = 32 against the force_bits="32" build: Karatsuba square root kernel, sqrt_rem_large,
    # Lehmer guess / leading bits / step / cofactor step / one iteration, gcd and gcd_ext of multi-word operands.
    # The harness marks its answers with `w32`, the oracle then evaluates the same extracted models with w = 32.
    try:
        exe, out = core.harness_build(HARNESS_BIN, "w32")
    except Exception as ex:
        exe, out = None, str(ex)
    if exe is None:
        res["failures"].append({"kind": "w32-harness-build-failed", "detail": out[-800:]})
        return res
    rng = core.Rng((seed or 0) ^ 0x32323232)
    n = 700 if tier == "quick" else 20000
    cases = list(enumerate(W32_CORPUS + w32_cases(rng, tier, n)))
    timeout = CASE_TIMEOUT.get(tier, 30)
    answers = core.run_sharded(exe, cases, case_timeout=timeout)
    # panics carry no word-size mark (the shared line protocol writes them): this run knows its build
    def marked(ans):
        return ans if "w32" in ans.split() else ans + " w32"
    verdicts = core.run_sharded(oracle, [(i, "%s => %s" % (t, marked(answers.get(i, "noanswer")))) for i, t in cases], case_timeout=max(timeout, 60))
    res["evaluations"] = len(cases)
    hist = res["hist"]
    for i, t in cases:
        v = verdicts.get(i, "noverdict")
        toks = v.split()
        verdict = toks[0] if toks else "noverdict"
        kv = dict(x.split("=", 1) for x in toks[1:] if "=" in x)
        op = t.split(" ", 1)[0]
        hist["W32:op:" + op] = hist.get("W32:op:" + op, 0) + 1
        if "asis" in kv:
            hist["W32:asis:" + kv["asis"]] = hist.get("W32:asis:" + kv["asis"], 0) + 1
        if kv.get("nt") == "1":
            res["nontrivial"].append("w32 " + t)
        tagged = "w32" in answers.get(i, "").split()
        wordlevel = op in ("ksqrt", "lguess", "lguessd", "ltop", "ltopd", "liter", "lstep", "lext", "ugcd", "ugcd_ext", "usqrt_rem")
        bad = None
        if verdict not in ("pass", "skip"):
            bad = "verdict " + v[:200]
        elif kv.get("asis") == "diff":
            bad = "model (w = 32) differs from the implementation"
        elif wordlevel and answers.get(i, "").startswith("ok") and not tagged:
            bad = "answer not marked w32: the harness was not built with 32-bit words"
        if bad and len(res["failures"]) < 5:
            res["failures"].append({"kind": "w32", "config": "w32", "case": t[:2000], "impl": answers.get(i, "noanswer")[:2000], "oracle": v[:300], "why": bad})
    res["samples"].append({"w32_cases": len(cases), "asis_same": hist.get("W32:asis:same", 0), "asis_diff": hist.get("W32:asis:diff", 0)})
    return res


# corpus of the 32-bit run: q == B / odd split of the Karatsuba kernel, lehmer_step with a longer x, a failed guess
W32_CORPUS = [
    "ksqrt 2 ffffffffffffffffffffffffffffffff",
    "ksqrt 3 ffffffffffffffffffffffff000000000000000000000000",
    "ksqrt 5 40000000000000000000000000000000000000000000000000000000000000000000000000000001",
    "lguess ffffffff 1",
    "lguess 9de8d6d3 619237e5",
    "liter 100000000000000000000 ffffffffffffffffffff",
    "liter c0000000000000000000000001 7fffffffffffffff00000003",
    "lstep 3 100000000ffffffff 2 ffffffffffffffff 1 1 0 1",
    "lext 2 3 ffffffffffffffffffffffff 2 ffffffffffffffff 7fffffff 7fffffff 7fffffff 7fffffff",
    "ugcd_ext rr 3b9aca0000000000000000000000000000000007 2540be400000000000000000000000000b",
    "usqrt_rem ffffffffffffffffffffffffffffffffffffffff",
]


ID = "C12"
READY = True
ORACLE = "c12"
HARNESS_BIN = "c12"
NCASES = {"quick": 7000, "thorough": 120000}
CASE_TIMEOUT = {"quick": 30, "thorough": 120}
# every case runs against dashu-base with and without the std feature (the log2 estimator differs)
CONFIGS = ["default", "nostd"]


def canon_answer(ans):
    """answers must agree between the builds, except the f32 bounds (marked ~) of the two estimators"""
    toks = ans.split()
    if any(t.startswith("~") for t in toks):
        return "ok log2-bounds"
    if len(toks) == 2 and toks[0] == "panic" and "nan" in toks[1].lower():
        return "panic nan"  # log2_bounds(NaN): both builds panic, with different messages
    return ans

LEVEL_TEXT = ("Machine-checked Coq theorems (150 pinned in coq/props/C12.v, all inputs unless a finite domain is stated): complete "
              "certificates (a checked gcd/Bezout, root, root-with-remainder, integer-logarithm or remove answer IS the gcd / truncated "
              "root / floor logarithm / full power); as-is models proved against them: the Karatsuba square root kernel of "
              "integer/src/root.rs (sqrt_rem / sqrt_rem_42: recursive split, division by s1 with the r1 carry trick, q == B overflow, odd "
              "quotient fix, correction s -= 1, all carry/borrow words) = (isqrt, remainder) for EVERY normalised input, every length "
              "and every word size >= 2, and sqrt_rem_large around it; the Lehmer gcd / extended gcd: value-level loops (cosequence matrix "
              "unimodular, every Lehmer / Euclid step keeps the gcd and the Bezout congruences, termination, sign line, exact division) "
              "=> gcd_large returns the gcd and gcd_ext_large (g, s, t) with g = gcd = s*x + t*y; ROUND 4: the guessed step is NEVER "
              "negative - proved from the tests lehmer_guess applies (b <= xbar, c <= ybar after every half step) for the aligned leading "
              "bits of any x >= y, the new x is below y and the operand lengths differ by at most one word; highest_word_normalized / "
              "highest_dword_normalized = (x >> k, y >> k) in all length cases; no Word / DoubleWord operation of lehmer_guess / "
              "lehmer_guess_dword overflows (incl. the subtraction xbar - c of the second half); one iteration of the main loops always "
              "succeeds and gcd_in_place's loop never panics; WORD-LEVEL models of lehmer_step (signed double-word forms, signed carries, "
              "extra step for the top word of a longer x, both debug_asserts) and lehmer_ext_step proved equal to the value-level linear "
              "updates for every word size >= 2, every length, all words, and the word-level iteration refines the value-level one; the loop "
              "bodies of both guesses, the linear forms of both steps and COEFF_LIMIT are REGENERATED from lehmer.rs on every run and proved "
              "equal to the models; the Newton n-th root iteration of UBig/IBig::nth_root and cbrt; the three estimate-then-correct "
              "logarithm loops for ANY estimate, the shortcuts of ilog; remove(); the primitive binary gcd and Euclidean gcd_ext for every "
              "type width; primitive roots of base/src/ring/root.rs: correction loops exact from any underestimate, every answer of the "
              "u8..u64 table+Newton routines, of the u128 Karatsuba-step square root and (round 4) of the u128 cube root (division step "
              "never below the root, i128 remainder exact, adjustment loop) is the exact root and remainder, u8/u16 total (finite), tables / "
              "guards regenerated; the no_std log2 estimator an enclosure for EVERY u8/u16 value and every wider unsigned value below "
              "2^65000; the std (libm) estimator of primitives, UBig/IBig (log2_bounds_large with both ADJUST products) and RBig an enclosure "
              "for every input under the explicit contract 'f32::log2 is within one ulp' (satisfiable: correctly rounded log2), without the "
              "interval tactic; FBig / RBig / IBig log2_bounds on IEEE binary32 operations (Flocq) cited from C14; the bracket decision "
              "procedure that judges log2_bounds answers proved sound. Every implementation answer (std and no_std build) is decided per "
              "instance; the word-level models also run at w = 32 against the force_bits=32 build."
              " ROUND 5: NO OVERSHOOT of the table + Newton estimates of base/src/ring/root.rs: for EVERY u32 value sqrt_rem / cbrt_rem as "
              "written answer the specified pair and never panic, with at most 2 / 3 corrections (C12_prim_sqrt_rem_u32_total, "
              "C12_prim_cbrt_rem_u32_total; class x monotonicity: the estimate is a step function whose stages are monotone once the earlier "
              "stages are fixed, all 49152 / 57344 classes of the high half checked by computation through a proved interval cover); u64: the "
              "same for every n of a class X = n >> 32 under a decidable class certificate (C12_nsqrt64_class_total, C12_ncbrt64_class_total), "
              "evaluated in Coq on 2 x 4096 classes spread over the range plus the classes on both sides of every lookup-table index change, and by the run on swept windows; the size dispatch of gcd_ops.rs / "
              "log.rs / root_ops.rs = tables regenerated from the source, for any kernels (C12_*_dispatch_is_source; one table shared with "
              "C19); the cofactor BUFFER update t0 += q*t1 of the Euclidean step of gcd_ext_in_place (lengths t0_len, t1_len, q_lo.len(), the "
              "carry into the upper words: the lines repaired by 1be8c4c) = t0 + q*t1 with the exact new length for EVERY relation of the "
              "lengths, and it answers whenever the sum fits the buffer and the carry a word (C12_ebuf_step_correct / _total); the source "
              "text of the Newton routines is pinned token by token (C12_root_newton_src_pinned).")
LEVEL_NOTE = ("Partial where said: the Karatsuba kernel takes div_rem_in_place, sqr and DoubleWord::sqrt_rem through their contracts "
              "(C02 / C01 / primitive roots) and models slices as values with lengths; in gcd_ext_in_place the buffer bookkeeping of the "
              "cofactors (t0_len / t1_len, the carry of t0 += q*t1 in the Euclidean step) is modelled at value level with capacity checks "
              "(round 4) and as a buffer with lengths (round 5) - finding F09 (a cofactor word overwritten by that carry, wrong Bezout coefficients) was in exactly this part, found by "
              "the correspondence run and repaired in /repo 1be8c4c; its pre-fix arithmetic is modelled and refuted; the buffer model ebuf_step of round 5 is a transcription "
              "without its own hook (tied through gcd_ext answers and the F09 witness only), its no-panic side conditions (sum fits, carry "
              "fits a word when the quotient has a top word) are stated, not derived from the cofactor bounds; for u64 primitive roots the "
              "no-overshoot is proved per class under a certificate that Coq evaluates on a sample (2 x 4096 classes) - all 3 * 2^30 classes "
              "are not enumerated in Coq (a native sweep of the real code over every class end and every perfect square +-{0,1,2} found no "
              "failure; the run sweeps windows), no analytic error bound; u128 roots: soundness only. The std log2 estimator depends on libm's f32::log2 "
              "through the stated one-ulp contract (observed, not proved, for the libm in use); the floating-point estimate inside ilog is "
              "checked per instance (the ilog loops are proved for every estimate).")
TECHNIQUE = "Coq proof (certificate completeness + as-is algorithm models at value and word level, loop invariants, refinement, class x monotonicity interval covers decided by computation, fragments and dispatch tables regenerated from the source) + extracted-checker correspondence run on two word sizes"
RULE = ("cases = operation x call form x operands from: word-count classes {0,1,2,3,4,5,8,T-1,T,T+1,300+-1} x bit patterns (all-ones, 2^k, "
        "2^k+-1, trailing zero words, top word 1/MAX, sparse) x signs; gcd pairs incl. zero/equal/multiple/shared factor/Fibonacci/huge "
        "quotient; radicands 0,1,r^n,r^n+-1 for n in {1,2,3,4,5,7,bits-1,bits,bits+1,bits/3+1,huge}; the Karatsuba kernel through its "
        "hook on normalised radicands of 2n words, n in 2..65 (257 thorough): s^2+r with r in {0,1,2s,2s-1,2^(64n)+-1}, high part t^2-1 at "
        "any recursion level (q == B), 2^(128n)-small, minimum normalised, all top-level branch combinations counted (path=ksqrt-*); "
        "(x,base) with x = base^e,+-1 for bases 2,2^k,3,10,word,dword,multi-word; log2_bounds of integers, every primitive type (EVERY "
        "u8/u16 value exhaustively; for u32/u64/u128/usize every shift with top bits 0x8000/0x8001/0xffff/around sqrt 2), f32/f64 "
        "patterns (plus an arithmetic progression through all 2^32 f32 patterns: stride 1048583 quick, 8191 thorough), FBig in bases "
        "2..36, rationals; primitive roots of every width incl. every 5th u16 value (all in thorough); remove with planted exponents "
        "0..70; every case in the std and the no_std build of dashu-base, answers must agree except the f32 bounds. Non-trivial = a "
        "certificate / bracket decision was evaluated on a non-degenerate input. asis=same|diff: the implementation answer equals the "
        "extracted as-is model (Karatsuba kernel and sqrt_rem_large, Lehmer gcd / gcd_ext incl. cofactors, primitive sqrt/cbrt of "
        "every width, nth_root, cbrt, remove, primitive gcd/gcd_ext, ilog shortcuts, no_std table and wide bounds). Round 4: hook-level "
        "ops lguess / lguessd (cosequence guess from one / two leading words: quotients around COEFF_LIMIT, golden-ratio chains, equal / "
        "zero / unordered words), ltop / ltopd (aligned leading bits: length differences 0..3, every shift), liter (guess + lehmer_step "
        "on trimmed slices, word and double-word guess, 299..301 words), lstep (raw slices incl. leading zero words, x one word longer, "
        "coefficients from exact Euclidean prefixes, outside-contract inputs), lext (carries with all-ones words and COEFF_LIMIT "
        "coefficients): for these a difference to the extracted model is a FAILURE; gcd pairs sparse-vs-all-ones (finding F09); extra "
        "phase: 700 (quick) / 20000 cases of all word-level ops, gcd, gcd_ext, sqrt_rem against the force_bits=32 build with the models "
        "at w = 32. Round 5: class sweeps psweep32 (EVERY value of 64 / 1024 consecutive classes of the high half of u32) and psweep64 "
        "(the real u64 routines at both ends of 2048 / 32768 consecutive classes and at the perfect squares / cubes inside, +-1) over the "
        "first / last classes, the lookup-table index changes, the adjust boundary and random windows; the oracle evaluates the extracted "
        "class certificates on the same classes (asis = certificate agrees with the real code).")
EXPLANATION = ("Theorems in coq/props/C12.v; the oracle evaluates the extracted certificates/specs on every implementation answer "
               "(harness/src/bin/c12.rs calls every API of observe_at in all call forms, the sqrt_rem_kernel hook and the Lehmer kernel "
               "hooks) and the extracted as-is models (value level and word level, at the word size of the build) for the fidelity "
               "statistic; for the hook-level Lehmer ops a model difference is a failure.")
TRUSTED_BASE = [
    "Coq 8.16.1 kernel (coqc; vm_compute used only for the finite theorems - no_std log2 table and primitive roots, domains 0..65535 / 0..2^32-1 (through 49152 + 57344 classes) / 2 x 4096 sampled u64 classes stated - and closed examples)",
    "extraction: ExtrOcamlBasic + ExtrOcamlZBigInt + coq/extract/FastZ.v directives (Z.gcd/Z.sqrt/Z.pow/Z.log2/shifts -> zarith)",
    "OCaml 4.13.1 + zarith 1.12, oracle/common.ml, oracle/driver_c12.ml (decoding of answers, choice of bracket precision); Rust harness harness/src/bin/c12.rs; hooks dashu_int::verif_hooks::{sqrt_rem_kernel, lehmer_guess, lehmer_guess_dword, lehmer_top_word, lehmer_top_dword, lehmer_step, lehmer_ext_step} (cfg(dashu_verif), add-only wrappers of the private functions)",
    "contracts used by the Karatsuba model: div::div_rem_in_place (C02), sqr::sqr (C01), DoubleWord::sqrt_rem (primitive roots); value-level reading of word slices (C01/C02/C09 prove the word layer)",
    "Lehmer gcd_ext: the cofactor buffers (t0_len / t1_len, carries of the multi-word updates) are modelled as values with capacity checks; the round-5 buffer model of the Euclidean step has no hook of its own; the no-overshoot of the u64 Newton estimates is proved per class under a certificate evaluated on samples (Coq) and swept windows (run)",
    "std log2 estimator: the contract 'f32::log2 of a positive binary32 is within one ulp' is assumed of libm (theorems C12_std_log2_*), its behaviour is observed per instance; C14's lg_contract likewise",
    "tools/translate.py (LOG2_TAB), tools/translate_c12_r3.py (RSQRT_TAB, RCBRT_TAB, guard constants, MIN_DWORD_GUESS_LEN) and tools/translate_c12_r5.py (token text of the Newton routines; dispatch tables of gcd_ops.rs / log.rs / root_ops.rs), tools/translate_c12_r4.py (loop bodies of lehmer_guess / lehmer_guess_dword, linear forms of lehmer_step / lehmer_ext_step, COEFF_LIMIT): small readers of the Rust sources; the harness constant MIN_DWORD_GUESS_LEN = 300 of the op liter",
]
ASSUMPTIONS = [
    "UBig::from_words / as_words / IBig::from_parts / as_sign_words transport values faithfully",
    "f32::to_bits of the returned bounds is the IEEE-754 binary32 encoding",
    "the no_std build is the harness built with default-features = false for all four crates (core.CONFIGS nostd); it is recognised at run time by 3u8.log2_bounds()",
]

W = 64
PRIMS_U = [("u8", 8), ("u16", 16), ("u32", 32), ("u64", 64), ("u128", 128), ("usize", 64)]
PRIMS_I = [("i8", 8), ("i16", 16), ("i32", 32), ("i64", 64), ("i128", 128), ("isize", 64)]
FORMS = ["vv", "vr", "rv", "rr"]
FBASES = [2, 3, 5, 7, 8, 10, 16, 36]


def iroot(x, n):
    if x < 2:
        return x
    lo, hi = 1, 1 << (x.bit_length() // n + 1)
    while lo < hi:
        mid = (lo + hi + 1) // 2
        if mid ** n <= x:
            lo = mid
        else:
            hi = mid - 1
    return lo


def mag(rng, tier, big=False):
    return gen_mag(rng, gen_words_len(rng, tier, big))


def small_words(rng):
    return rng.choice([0, 1, 1, 2, 2, 3, 3, 4, 4, 5, 6, 7, 8, 9, 12, 16, 17, 24, 31, 32, 33, 40, 64, 65])


def gcd_pair(rng, tier):
    k = rng.below(16)
    if k == 0:
        return rng.choice([(0, 0), (0, mag(rng, tier)), (mag(rng, tier), 0), (1, mag(rng, tier)), (mag(rng, tier), 1)])
    if k == 1:
        a = mag(rng, tier)
        return (a, a)
    if k == 2:  # one a multiple of the other
        a = gen_mag(rng, small_words(rng))
        b = a * gen_mag(rng, rng.choice([0, 1, 2, 3, 5]))
        return (a, b) if rng.chance(1, 2) else (b, a)
    if k == 3:  # planted common factor
        g = gen_mag(rng, rng.choice([1, 1, 2, 3, 4, 8]))
        return (g * gen_mag(rng, small_words(rng)), g * gen_mag(rng, small_words(rng)))
    if k == 4:  # consecutive Fibonacci-like numbers: quotients all 1
        a, b = rng.range(1, 5), rng.range(1, 5)
        for _ in range(rng.choice([40, 90, 93, 94, 180, 186, 187, 300, 1000])):
            a, b = a + b, a
        return (a, b)
    if k == 5:  # huge quotients (Lehmer guess fails / quotient overflows the coefficient limit)
        b = gen_mag(rng, rng.choice([2, 3, 3, 4, 5, 8]))
        q = rng.choice([(1 << 63) - 1, 1 << 63, (1 << 63) + 1, (1 << 64) - 1, 1 << 64, rng.bits(64) | (1 << 63), rng.bits(128)])
        a = b * q + rng.below(b)
        c = a * rng.choice([1, (1 << 63) + rng.below(9), (1 << 64) - 1]) + b
        return rng.choice([(a, b), (b, a), (c, a)])
    if k == 6:  # trailing zero words
        za, zb = rng.choice([1, 2, 3, 4, 5]), rng.choice([0, 1, 2, 3, 4])
        a = gen_mag(rng, rng.choice([1, 1, 2, 3])) << (W * za)
        b = gen_mag(rng, rng.choice([1, 1, 2, 3])) << (W * zb)
        if rng.chance(1, 3):
            a, b = 1 << rng.choice([128, 192, 256, 320, 384]), 1 << rng.choice([64, 128, 129, 192, 256])
        return (a, b) if rng.chance(1, 2) else (b, a)
    if k == 7:  # word / dword / multi-word mixes
        return (gen_mag(rng, rng.choice([1, 2, 3, 4, 5])), gen_mag(rng, rng.choice([1, 2, 3, 4, 5])))
    if k == 8:  # around the double-word guessing threshold (300 words)
        n = rng.choice([299, 300, 301, 302])
        a = gen_mag(rng, n)
        b = gen_mag(rng, rng.choice([n, n - 1, n - 2, 150, 3]))
        return (a, b)
    if k == 9:  # close operands
        a = mag(rng, tier)
        return (a, max(0, a + rng.choice([-1, 1, -2, 2, -(1 << 64), 1 << 64])))
    if k == 10:  # powers of two and neighbours
        return ((1 << rng.range(0, 400)) + rng.choice([0, 0, 1, -1]), (1 << rng.range(0, 400)) + rng.choice([0, 0, 1, -1]))
    if k == 11:  # sparse against all-ones operands: Lehmer steps ending with x <= y, then equal leading words (finding F09)
        n = rng.choice([3, 4, 6, 8, 12, 12, 16, 24, 40])
        bx = W * n - rng.below(W)
        def sparse(bits):
            v = 1 << (max(bits, 2) - 1)
            for _ in range(rng.below(5)):
                v |= 1 << rng.below(max(bits, 2))
            return v
        r = rng.below(3)
        if r == 0:
            return (sparse(bx), (1 << max(2, W * (n - rng.choice([0, 1, 2])) - rng.below(W))) - 1)
        if r == 1:
            return ((1 << bx) - 1, sparse(bx - rng.range(1, 130)))
        return (sparse(bx), sparse(bx - rng.below(130)))
    return (mag(rng, tier), mag(rng, tier))


def radicand(rng, tier, n):
    k = rng.below(10)
    if k == 0:
        return rng.choice([0, 0, 1, 1, 2, 3, 7, 8, 9])
    if k <= 4:  # perfect power and neighbours
        rbits = rng.choice([1, 2, 8, 31, 32, 33, 63, 64, 65, 96, 127, 128, 129, 192, 200, 256, 320, 500])
        rbits = max(1, min(rbits, 6000 // max(1, n)))
        r = rng.bits(rbits) | (1 << (rbits - 1))
        if rng.chance(1, 4):
            r = (1 << rbits) - 1
        if rng.chance(1, 6):
            r = 1 << (rbits - 1)
        return max(0, r ** n + rng.choice([0, 0, 1, -1, -1, 2, -2]))
    if k == 5:
        return (1 << rng.range(0, 700)) + rng.choice([0, 1, -1])
    if k == 6:  # odd word counts with the top word close to full (square-root normalisation shift = one word)
        nw = rng.choice([3, 3, 5, 7, 9, 11, 33])
        top = rng.choice([1 << 63, 1 << 62, (1 << 64) - 1, (1 << 63) | rng.bits(63), (1 << 62) | rng.bits(62), rng.bits(64) | 1])
        return (top << (W * (nw - 1))) | rng.bits(W * (nw - 1))
    if k == 7:
        nw = rng.choice([1, 2, 2, 3, 4, 4, 5, 6, 7, 8, 9, 10, 16, 17, 31, 32, 33, 64, 65])
        lz = rng.choice([0, 1, 2, 3, 31, 32, 33, 62, 63])
        v = rng.bits(W * nw - lz) | (1 << (W * nw - lz - 1))
        return v
    return mag(rng, tier)


def root_degree(rng, x):
    nb = max(1, x.bit_length())
    return max(0, rng.choice([0, 1, 2, 2, 3, 3, 3, 4, 5, 6, 7, 8, 9, 10, 16, 17, 63, 64, 65, nb - 1, nb, nb + 1, nb // 2, nb // 3 + 1, 2 * nb, 1 << 20, (1 << 62) + 1]))


def log_pair(rng, tier):
    k = rng.below(14)
    if k == 0:
        b = rng.choice([0, 1, 2, 3, 10])
        x = rng.choice([0, 0, 1, 2, 5, mag(rng, tier)])
        if rng.chance(1, 3):
            x, b = 0, rng.choice([2, 4, 1 << 64, 3, 10, (1 << 64) + 1, (1 << 128) + 5, 1 << 130])
        return (x, b)
    # base classes
    bk = rng.below(10)
    if bk == 0:
        base = 2
    elif bk == 1:
        base = 1 << rng.choice([2, 3, 4, 5, 8, 16, 31, 32, 33, 63, 64, 65, 100, 127])
    elif bk == 2:
        base = 10
    elif bk == 3:
        base = rng.choice([3, 5, 6, 7, 9, 11, 12, 36, 255, 256 + 1, 1000])
    elif bk == 4:  # around sqrt(word): max_exp_in_word shortcut
        base = rng.choice([(1 << 32) - 1, (1 << 32) + 1, (1 << 32) + 15, 3037000499, 3037000500, 2642245, 2642246, 65535, 65537])
    elif bk == 5:
        base = rng.bits(64) | (1 << 63) | 1
    elif bk == 6:
        base = rng.choice([(1 << 64) + 1, (1 << 64) + rng.bits(64), rng.bits(128) | (1 << 127) | 1, (1 << 128) - 1])
    elif bk == 7:
        base = gen_mag(rng, rng.choice([3, 3, 4, 5, 8])) | 1
    else:
        base = rng.range(3, 70000)
    if base < 2:
        base = 3
    e = rng.choice([0, 1, 1, 2, 3, 4, 5, 7, 8, 16, 19, 20, 21, 38, 39, 40, 41, 64, 100, 200])
    e = min(e, max(1, 20000 // base.bit_length()))
    kk = rng.below(6)
    if kk <= 2:
        x = base ** e + rng.choice([0, 0, 1, -1, -1, 2])
    elif kk == 3:
        x = base ** e * rng.range(1, max(1, min(base - 1, 1 << 64)))
    elif kk == 4:
        x = mag(rng, tier)
    else:
        x = rng.bits(rng.range(1, max(2, base.bit_length() * (e + 1))))
    return (max(0, x), base)


def prim_value(rng, bits):
    k = rng.below(8)
    if k == 0:
        return rng.choice([0, 1, 2, 3, (1 << bits) - 1, (1 << bits) - 2, 1 << (bits - 1), (1 << (bits - 1)) - 1, (1 << (bits - 1)) + 1])
    if k == 1:
        return (1 << rng.range(0, bits - 1)) + rng.choice([0, 0, 1, -1]) if bits > 1 else 1
    if k == 2:  # perfect squares / cubes and neighbours
        n = rng.choice([2, 3])
        r = rng.bits(max(1, bits // n)) or 1
        v = r ** n + rng.choice([0, 0, -1, 1])
        return max(0, min(v, (1 << bits) - 1))
    if k == 3:
        return rng.bits(rng.range(1, bits))
    if k == 4:  # top bits set: every normalisation shift
        lz = rng.choice([0, 1, 2, 3, 4, 5])
        return (rng.bits(bits) | (1 << (bits - 1))) >> min(lz, bits - 1)
    return rng.bits(bits)


def f32_bits(rng):
    k = rng.below(10)
    if k == 0:
        return rng.choice([0, 0x80000000, 1, 0x7f7fffff, 0x7f800000, 0xff800000, 0x7fc00000, 0x00800000, 0x007fffff, 0x3f800000, 0x3f800001, 0x3f7fffff, 0xbf800000, 0x40000000, 0x40490fdb])
    if k == 1:  # near 1
        return 0x3f800000 + rng.range(-40, 40)
    if k == 2:  # subnormals
        return rng.bits(23) | (rng.below(2) << 31)
    if k == 3:  # integers as floats
        import struct
        return struct.unpack("<I", struct.pack("<f", float(rng.range(1, 1 << 24))))[0]
    return rng.bits(32)


def f64_bits(rng):
    k = rng.below(8)
    if k == 0:
        return rng.choice([0, 1 << 63, 1, 0x7fefffffffffffff, 0x7ff0000000000000, 0xfff0000000000000, 0x7ff8000000000000, 0x3ff0000000000000, 0x3ff0000000000001, 0x3fefffffffffffff, 0x0010000000000000, 0x000fffffffffffff])
    if k == 1:
        return 0x3ff0000000000000 + rng.range(-40, 40)
    if k == 2:
        return rng.bits(52)
    if k == 3:  # moderate exponents
        return (rng.range(1023 - 80, 1023 + 80) << 52) | rng.bits(52) | (rng.below(2) << 63)
    return rng.bits(64)


def isqrt(x):
    import math
    return math.isqrt(x)


def ksqrt_root(rng, bits, W=64):
    """a root of exactly [bits] bits, patterns that reach the carry / overflow paths of the kernel"""
    k = rng.below(7)
    if k == 0:
        return (1 << bits) - 1 - rng.choice([0, 0, 1, 2, rng.bits(8)])
    if k == 1:
        return (1 << (bits - 1)) + rng.choice([0, 0, 1, 2, rng.bits(8)])
    if k == 2:  # low half zero / ones
        h = bits // 2
        return ((rng.bits(bits - h) | (1 << (bits - h - 1))) << h) | rng.choice([0, 1, (1 << h) - 1, (1 << h) - 2])
    if k == 3:  # top word(s) full
        j = rng.choice([W, 2 * W, bits // 2])
        j = min(j, bits - 1)
        return (((1 << j) - 1) << (bits - j)) | rng.bits(bits - j)
    return rng.bits(bits) | (1 << (bits - 1))


def ksqrt_case(rng, tier, W=64):
    """hook level: the Karatsuba square root kernel on a normalised radicand of 2n words (W bits each)"""
    n = rng.choice([2, 2, 3, 3, 4, 4, 5, 5, 6, 7, 8, 9, 10, 11, 12, 13, 15, 16, 17, 23, 24, 31, 32, 33, 47, 64, 65])
    if tier == "thorough" and rng.chance(1, 20):
        n = rng.choice([100, 129, 200, 257])
    top = 1 << (2 * W * n)
    k = rng.below(12)
    if k <= 3:  # root^2 + remainder, remainder at the boundaries (0, 1, 2s, carry word)
        s = ksqrt_root(rng, W * n, W)
        r = rng.choice([0, 0, 1, 2 * s, 2 * s, 2 * s - 1, s, s + 1, rng.below(2 * s + 1), (1 << (W * n)) - 1, 1 << (W * n), (1 << (W * n)) + 1])
        a = s * s + min(r, 2 * s)
    elif k <= 6:  # the high part (at some level of the recursion) is t^2 - 1 - small: r1 = 2*s1, so q == B
        lvl_n = n
        path = []
        while lvl_n > 2 and rng.chance(2, 3):
            sp = lvl_n // 2
            path.append(sp)
            lvl_n -= sp
        t = ksqrt_root(rng, W * lvl_n, W)
        a = t * t + 2 * t - rng.choice([0, 0, 0, 1, 2, rng.bits(16)])
        a = max(a, 1 << (2 * W * lvl_n - 2))
        for sp in reversed(path):
            lowk = rng.below(5)
            low = [0, (1 << (2 * W * sp)) - 1, rng.bits(2 * W * sp), rng.bits(W * sp), rng.bits(W * sp) << (W * sp)][lowk]
            a = (a << (2 * W * sp)) | low
    elif k == 7:
        a = top - 1 - rng.choice([0, 1, 2, rng.bits(10), rng.bits(W), rng.bits(W * n)])
    elif k == 8:
        a = (top >> 2) + rng.choice([0, 1, 2, rng.bits(10), rng.bits(W), rng.bits(W * n)])
    elif k == 9:  # perfect square minus a little
        s = ksqrt_root(rng, W * n, W)
        a = max(top >> 2, s * s - rng.choice([1, 1, 2, 3, rng.bits(W)]))
    else:
        a = rng.bits(2 * W * n) | (rng.choice([1, 2, 3]) << (2 * W * n - 2))
    a = min(max(a, top >> 2), top - 1)
    return "ksqrt %x %s" % (n, hx(a))



# ---------------------------------------------------------------------------------------------- Lehmer kernels (hooks)
def nwords(v, WB):
    return (v.bit_length() + WB - 1) // WB


def lehmer_pair(rng, WB, allow_dword=True):
    """x >= y > 0, x of at least two words: the operand shapes the Lehmer loops see"""
    k = rng.below(14)
    n = rng.choice([2, 2, 3, 3, 4, 5, 8, 17])
    if allow_dword and rng.chance(1, 25):
        n = rng.choice([299, 300, 301])
    top = rng.choice([1, 2, 3, (1 << (WB - 1)) - 1, 1 << (WB - 1), (1 << WB) - 1, rng.bits(WB) | 1, rng.bits(rng.range(1, WB)) | 1])
    x = (top << (WB * (n - 1))) | rng.bits(WB * (n - 1))
    if k == 0:      # same length, random
        y = rng.bits(WB * n)
    elif k == 1:    # one word shorter
        y = rng.bits(WB * (n - 1))
    elif k == 2:    # two or more words shorter (the guess fails)
        y = rng.bits(WB * max(1, n - rng.choice([2, 2, 3])))
    elif k == 3:    # close operands: quotients 1
        y = x - rng.choice([0, 1, 2, rng.bits(WB), rng.bits(WB * (n - 1))])
    elif k == 4:    # consecutive Fibonacci-like numbers
        a, b = rng.range(1, 9), rng.range(1, 9)
        while a.bit_length() <= WB * (n - 1) + rng.below(WB):
            a, b = a + b, a
        x, y = a, b
    elif k == 5:    # first quotient around COEFF_LIMIT
        q = rng.choice([(1 << (WB - 1)) - 2, (1 << (WB - 1)) - 1, 1 << (WB - 1), (1 << (WB - 1)) + 1, rng.bits(WB - 2) | 1])
        y = max(1, x // q + rng.choice([0, 1, -1, rng.bits(WB)]))
    elif k == 6:    # shared leading bits, different tails
        sh = rng.range(1, WB * (n - 1))
        y = ((x >> sh) << sh) - rng.choice([1, 1 << (sh // 2), rng.bits(sh) + 1])
    elif k == 7:    # y a small multiple below x / small quotient chain
        q = rng.range(2, 40)
        y = x // q + rng.choice([0, 1, rng.bits(WB // 2)])
    elif k == 8:    # y with leading bits of x shifted by less than a word (length difference 1, non-zero aligned word)
        y = x >> rng.range(1, WB)
    elif k == 9:    # all-ones patterns
        x = (1 << (WB * n)) - 1 - rng.choice([0, 0, 1, rng.bits(WB)])
        y = (1 << (WB * n - rng.choice([0, 1, 2, WB - 1, WB, WB + 1]))) - 1 - rng.choice([0, 1, rng.bits(WB)])
    elif k == 10:   # powers of two and neighbours
        x = (1 << (WB * n - rng.below(WB) - 1)) + rng.choice([0, 1, -1, rng.bits(WB)])
        y = (1 << rng.range(WB * (n - 2) + 1, WB * n - 1)) + rng.choice([0, 1, -1])
    else:
        y = rng.bits(rng.range(WB * (n - 1) - 8, WB * n))
    y = max(1, y)
    if y > x:
        x, y = y, x
    if nwords(x, WB) < 2:
        x |= 1 << WB
    return x, y


def cf_matrix(rng, x, y, WB, maxhalf):
    """cosequence matrix after some exact Euclidean half-steps of (x, y) with entries <= COEFF_LIMIT:
    a*x - b*y and d*y - c*x are consecutive remainders, hence non-negative, and the first is below y"""
    L = (1 << (WB - 1)) - 1
    a, b, c, d = 1, 0, 0, 1
    xx, yy = x, y
    for i in range(rng.range(1, maxhalf)):
        if i % 2 == 0:
            if yy == 0:
                break
            q = xx // yy
            if a + q * c > L or b + q * d > L:
                break
            a, b, xx = a + q * c, b + q * d, xx - q * yy
        else:
            if xx == 0:
                break
            q = yy // xx
            if d + q * b > L or c + q * a > L:
                break
            d, c, yy = d + q * b, c + q * a, yy - q * xx
    return a, b, c, d


def word_case(rng, tier, WB=64):
    """one case of the word-level Lehmer ops (lguess, lguessd, ltop, ltopd, liter, lstep, lext)"""
    L = (1 << (WB - 1)) - 1
    k = rng.below(20)
    if k < 3:       # guess from one leading word
        x, y = lehmer_pair(rng, WB, False)
        sh = x.bit_length() - WB
        xb, yb = x >> sh, y >> sh
        r = rng.below(10)
        if r == 0:
            xb, yb = rng.bits(WB), rng.bits(WB)
            xb, yb = max(xb, yb), min(xb, yb)
        elif r == 1:
            xb, yb = rng.choice([((1 << WB) - 1, (1 << WB) - 1), ((1 << WB) - 1, 1), ((1 << WB) - 1, 2), (1 << (WB - 1), 0), (1 << (WB - 1), (1 << (WB - 1)) - 1),
                                 ((1 << WB) - 1, (1 << (WB - 1)) + 1), (5, 9), (0, 0), (1, 1), ((1 << WB) - 1, 3), ((1 << WB) - 2, (1 << WB) - 1)])
        elif r == 2:   # golden ratio: the longest cosequence
            a, b = 1, 1
            while (a + b).bit_length() <= WB:
                a, b = a + b, a
            xb, yb = a, b - rng.choice([0, 0, 1])
        return "lguess %x %x" % (xb, yb)
    if k < 5:       # guess from two leading words
        x, y = lehmer_pair(rng, WB, False)
        if nwords(x, WB) < 3:
            x, y = x << WB, y << WB
        sh = x.bit_length() - 2 * WB
        xb, yb = x >> sh, y >> sh
        r = rng.below(8)
        if r == 0:
            xb, yb = rng.bits(2 * WB), rng.bits(2 * WB)
            xb, yb = max(xb, yb), min(xb, yb)
        elif r == 1:
            xb, yb = rng.choice([((1 << 2 * WB) - 1, (1 << 2 * WB) - 1), ((1 << 2 * WB) - 1, 1), ((1 << 2 * WB) - 1, (1 << WB) + 1), ((1 << 2 * WB) - 1, 1 << (WB + 1)),
                                 (1 << (2 * WB - 1), (1 << WB) - 1), ((1 << 2 * WB) - 1, (1 << (2 * WB - 1)) + 1), (7, 9)])
        elif r == 2:
            a, b = 1, 1
            while (a + b).bit_length() <= 2 * WB:
                a, b = a + b, a
            xb, yb = a, b - rng.choice([0, 0, 1])
        return "lguessd %x %x" % (xb, yb)
    if k < 7:
        x, y = lehmer_pair(rng, WB, False)
        if rng.chance(1, 2) and nwords(x, WB) >= 3:
            return "ltopd %x %x" % (x, y)
        return "ltop %x %x" % (x, y)
    if k < 12:      # the Lehmer branch of one iteration
        x, y = lehmer_pair(rng, WB)
        return "liter %x %x" % (x, y)
    if k < 16:      # lehmer_step on raw slices
        x, y = lehmer_pair(rng, WB, False)
        a, b, c, d = cf_matrix(rng, x, y, WB, 40)
        xlen, ylen = nwords(x, WB), nwords(y, WB)
        r = rng.below(12)
        if r == 0:      # outside the contract: a coefficient above COEFF_LIMIT / wrong lengths / negative result
            a, b, c, d = rng.choice([(L + 1, b, c, d), (a, b, c, 1 << (WB - 1)), (a, b + 1, c, d), (a, b, c + 1, d), (rng.bits(WB - 1), rng.bits(WB - 1), rng.bits(WB - 1), rng.bits(WB - 1))])
        elif r == 1:
            ylen = max(1, xlen - 2)
            y &= (1 << (WB * ylen)) - 1
        elif r == 2:
            x, y, xlen, ylen = y, x, ylen, xlen
        else:
            # slices may carry leading zero words: x one word longer than y with a zero top word, both padded, ...
            ylen = max(ylen, xlen - 1)
            xlen = max(xlen, rng.choice([ylen, ylen, ylen + 1]))
            if xlen > ylen + 1:
                ylen = xlen - 1
            if b == 0:
                a, b, c, d = 1, max(1, min(L, x // max(1, y))), 0, 1
                if x - b * y < 0 or (x - b * y).bit_length() > WB * ylen:
                    b = 0
        return "lstep %x %x %x %x %x %x %x %x" % (xlen, x, ylen, y, a, b, c, d)
    # lehmer_ext_step
    xlen, ylen = rng.choice([1, 2, 3, 4, 5, 9]), rng.choice([1, 2, 3, 4, 5, 9])
    ln = rng.range(0, min(xlen, ylen))
    pat = rng.below(4)
    x = [(1 << (WB * xlen)) - 1, rng.bits(WB * xlen), rng.bits(WB * xlen) | ((1 << (WB * ln)) - 1), rng.bits(WB * max(1, xlen - 1))][pat]
    y = [(1 << (WB * ylen)) - 1, rng.bits(WB * ylen), rng.bits(WB * ylen), (1 << (WB * ylen)) - 1][pat]
    cf = lambda: rng.choice([0, 1, L, L, L - 1, rng.bits(WB - 1), rng.bits(WB // 2)])
    a, b, c, d = cf(), cf(), cf(), cf()
    r = rng.below(15)
    if r == 0:
        a = L + 1 + rng.below(3)
    elif r == 1:
        ln = min(xlen, ylen) + 1
    return "lext %x %x %x %x %x %x %x %x %x" % (ln, xlen, x, ylen, y, a, b, c, d)


def w32_cases(rng, tier, n):
    """cases for the force_bits="32" build (extra phase): the word-level kernels with 32-bit words"""
    out = []
    while len(out) < n:
        k = rng.below(10)
        if k < 5:
            out.append(word_case(rng, tier, 32))
        elif k < 7:
            out.append(ksqrt_case(rng, tier, 32))
        elif k < 9:
            x, y = lehmer_pair(rng, 32, False)
            g = rng.choice([1, 1, 3, (1 << 31) | rng.bits(31) | 1, rng.bits(64) | 1])
            a, b = rng.choice([(x, y), (y, x), (g * x, g * y)])
            out.append("%s %s %x %x" % (rng.choice(["ugcd", "ugcd_ext", "ugcd_ext"]), rng.choice(FORMS), a, b))
        else:
            nw = rng.choice([3, 4, 5, 6, 7, 9, 16, 17])
            lz = rng.choice([0, 1, 2, 3, 15, 16, 17, 30, 31])
            out.append("usqrt_rem %x" % (rng.bits(32 * nw - lz) | (1 << (32 * nw - lz - 1))))
    return out


def sweep_cases(tier):
    """finite domains of the quantifier, exhaustively: log2_bounds of every u8 / u16 value (both builds);
    in the thorough tier also square / cube roots with remainder of every u8 / u16 value"""
    out = ["plog2b u8 %x" % v for v in range(256)] + ["plog2b u16 %x" % v for v in range(65536)]
    out += ["plog2b i8 %s" % hx(-v) for v in range(1, 129)] + ["plog2b i16 %s" % hx(-v) for v in range(1, 32769, 7)]
    # all f32 bit patterns cannot be enumerated in a run: an arithmetic progression through the whole pattern space
    # (every exponent, both signs, subnormals, infinities, NaNs), finer in the thorough tier
    stride = 8191 if tier == "thorough" else 1048583
    out += ["f32log2b %x" % b for b in range(0, 1 << 32, stride)]
    # the no_std estimator of the wider types: every shift, top 16 bits at the special values (0x8000: power-of-two
    # special case of the upper bound, 0xffff, around sqrt 2), low bits empty / full / mixed
    for ty, bits in (("u32", 32), ("u64", 64), ("u128", 128), ("usize", 64)):
        for k in range(1, bits - 15):
            for hi in (0x8000, 0x8001, 0xffff, 0xb504, 0xb505, 0xc000 + 37 * k):
                for low in (0, (1 << k) - 1, (0x5555555555555555555555555555 >> 3) & ((1 << k) - 1)):
                    out.append("plog2b %s %x" % (ty, (hi << k) | low))
    # square / cube roots with remainder of the 16-bit values: every 5th value in the quick tier, all in the thorough tier
    if tier != "thorough":
        for op in ("psqrt_rem", "pcbrt_rem"):
            out += ["%s u16 %x" % (op, v) for v in range(0, 65536, 5)]
        # the inputs that need a third correction step after the table estimate
        out += ["psqrt_rem u16 %x" % v for v in (4225, 4226, 4227, 16900, 16901, 16908)]
        out += ["pcbrt_rem u16 %x" % v for v in (512, 515, 4096, 4127, 32768, 33021)]
    if tier == "thorough":
        for op in ("psqrt_rem", "pcbrt_rem"):
            out += ["%s u8 %x" % (op, v) for v in range(256)] + ["%s u16 %x" % (op, v) for v in range(65536)]
    return out


def root_sweep_cases(rng, tier):
    """round 5: class sweeps of the primitive u32 / u64 roots (harness ops psweep32 / psweep64): windows of classes of the
    high half - the first and last classes of the normalised range, the places where the lookup-table index changes
    (i << 25 for u64, i << 9 for u32), the `adjust` boundary of the cube root, and random windows"""
    out = []
    w64 = 0x800 if tier != "thorough" else 0x8000
    w32 = 0x40 if tier != "thorough" else 0x400
    nrand = 10 if tier != "thorough" else 400
    for kind, lo64, lo32 in (("sqrt", 1 << 30, 1 << 14), ("cbrt", 1 << 29, 1 << 13)):
        starts64 = [lo64, (1 << 32) - w64, (1 << 31) - w64 // 2, (1 << 30) - w64 // 2 if kind == "cbrt" else (3 << 30) - w64 // 2]
        starts64 += [((i << 25) - w64 // 2) for i in rng.choice([[33, 47, 64, 96, 127], [40, 65, 90, 111, 126]])]
        starts64 += [rng.range(lo64, (1 << 32) - w64) for _ in range(nrand)]
        out += ["psweep64 %s %x %x" % (kind, max(lo64, x), w64) for x in starts64]
        starts32 = [lo32, (1 << 16) - w32, (1 << 15) - w32 // 2] + [rng.range(lo32, (1 << 16) - w32) for _ in range(nrand // 2)]
        out += ["psweep32 %s %x %x" % (kind, x, w32) for x in starts32]
    return out


def gen_cases(rng, tier, n):
    out = sweep_cases(tier) if n >= 5000 else []
    if n >= 5000:
        out += root_sweep_cases(rng.fork("rootsweep"), tier)
    n += len(out)
    while len(out) < n:
        k = rng.below(109)
        if k >= 100:
            out.append(word_case(rng, tier))
        elif k < 10:
            a, b = gcd_pair(rng, tier)
            op = rng.choice(["gcd", "gcd", "ugcd", "gcd_ui", "gcd_iu"])
            sa = -1 if (op in ("gcd", "gcd_iu") and rng.chance(1, 2)) else 1
            sb = -1 if (op in ("gcd", "gcd_ui") and rng.chance(1, 2)) else 1
            out.append("%s %s %s %s" % (op, rng.choice(FORMS), hx(sa * a), hx(sb * b)))
        elif k < 24:
            a, b = gcd_pair(rng, tier)
            op = rng.choice(["gcd_ext", "gcd_ext", "ugcd_ext", "ugcd_ext", "gcd_ext_ui", "gcd_ext_iu"])
            sa = -1 if (op in ("gcd_ext", "gcd_ext_iu") and rng.chance(1, 2)) else 1
            sb = -1 if (op in ("gcd_ext", "gcd_ext_ui") and rng.chance(1, 2)) else 1
            out.append("%s %s %s %s" % (op, rng.choice(FORMS), hx(sa * a), hx(sb * b)))
        elif k < 30:
            ty, bits = rng.choice(PRIMS_U)
            a, b = prim_value(rng, bits), prim_value(rng, bits)
            r = rng.below(8)
            if r == 0:
                b = a
            elif r == 1:
                a = rng.choice([0, 0, 1, (1 << bits) - 1])
            elif r == 2:
                b = rng.choice([0, 0, 1, (1 << bits) - 1])
            elif r == 3:  # very different sizes (division shortcut of the binary gcd)
                b = prim_value(rng, max(1, bits // 4))
            elif r == 4:
                g = prim_value(rng, max(1, bits // 3)) or 1
                a, b = (g * rng.bits(bits // 3)) & ((1 << bits) - 1), (g * rng.bits(bits // 3)) & ((1 << bits) - 1)
            out.append("%s %s %s %s" % (rng.choice(["pgcd", "pgcd_ext", "pgcd_ext"]), ty, hx(a), hx(b)))
        elif k < 34:
            out.append(ksqrt_case(rng, tier))
        elif k < 38:
            x = radicand(rng, tier, 2)
            out.append("%s %s" % (rng.choice(["usqrt", "usqrt_rem", "usqrt_rem"]), hx(x)))
        elif k < 43:
            x = radicand(rng, tier, 3)
            out.append("%s %s" % (rng.choice(["ucbrt", "ucbrt_rem"]), hx(x)))
        elif k < 51:
            x0 = rng.choice([0, 1, 2, mag(rng, tier)])
            d = root_degree(rng, x0)
            x = radicand(rng, tier, d) if 0 < d <= 70 else x0
            if rng.chance(1, 2):
                out.append("unth %s %x" % (hx(x), d))
            else:
                out.append("inth %s %x" % (hx(x if rng.chance(1, 2) else -x), d))
        elif k < 54:
            x = radicand(rng, tier, rng.choice([2, 3]))
            out.append("%s %s" % (rng.choice(["isqrt", "icbrt", "icbrt"]), hx(x if rng.chance(2, 3) else -x)))
        elif k < 60:
            ty, bits = rng.choice(PRIMS_U[:5])
            out.append("%s %s %s" % (rng.choice(["psqrt", "psqrt_rem", "pcbrt", "pcbrt_rem"]), ty, hx(prim_value(rng, bits))))
        elif k < 72:
            x, b = log_pair(rng, tier)
            if rng.chance(2, 3):
                out.append("uilog %s %s" % (hx(x), hx(b)))
            else:
                out.append("iilog %s %s" % (hx(x if rng.chance(1, 2) else -x), hx(b)))
        elif k < 77:
            x = rng.choice([0, 1, 2, 3, mag(rng, tier, True), (1 << rng.range(0, 5000)) + rng.choice([0, 1, -1]), gen_mag(rng, rng.choice([1, 2, 3, 4]))])
            if rng.chance(1, 2):
                out.append("ulog2b %s" % hx(max(0, x)))
            else:
                out.append("ilog2b %s" % hx(x if rng.chance(1, 2) else -x))
        elif k < 82:
            if rng.chance(2, 3):
                ty, bits = rng.choice(PRIMS_U)
                out.append("plog2b %s %s" % (ty, hx(prim_value(rng, bits))))
            else:
                ty, bits = rng.choice(PRIMS_I)
                v = prim_value(rng, bits - 1)
                v = rng.choice([v, -v, -(1 << (bits - 1))])
                out.append("plog2b %s %s" % (ty, hx(v)))
        elif k < 85:
            out.append("f32log2b %x" % f32_bits(rng) if rng.chance(1, 2) else "f64log2b %x" % f64_bits(rng))
        elif k < 89:
            base = rng.choice(FBASES)
            r = rng.below(5)
            if r == 0:  # cancellation: significand ~ base^j, exponent -j
                j = rng.range(1, 600)
                sig = base ** j + rng.choice([0, 1, -1, rng.bits(8)])
                exp = -j + rng.choice([0, 0, 1, -1])
            elif r == 1:
                sig, exp = rng.choice([0, 1, -1, base, base - 1]), rng.range(-50, 50)
            else:
                sig = gen_mag(rng, rng.choice([1, 1, 2, 3, 4, 8])) >> rng.below(64)
                exp = rng.choice([0, 1, -1, rng.range(-40, 40), rng.range(-1500, 1500)])
            sig = sig if rng.chance(2, 3) else -sig
            out.append("flog2b %x %s %s%s" % (base, hx(sig), hx(exp), " f" if rng.chance(1, 3) else ""))
        elif k < 92:
            r = rng.below(4)
            if r == 0:
                d = gen_mag(rng, rng.choice([1, 2, 3])) or 1
                nmr = d + rng.choice([1, -1, 0, 2])
            elif r == 1:
                nmr, d = rng.choice([0, 1, 1 << 64, 3]), rng.choice([1, 2, 3, 1 << 64, (1 << 64) + 1])
            else:
                nmr, d = gen_mag(rng, rng.choice([1, 1, 2, 3, 5, 8])), gen_mag(rng, rng.choice([1, 1, 2, 3, 5, 8]))
            d = max(d, 1)
            nmr = nmr if rng.chance(2, 3) else -nmr
            out.append("%s %s %s" % (rng.choice(["rlog2b", "relog2b"]), hx(nmr), hx(d)))
        else:
            r = rng.below(10)
            if r == 0:
                x, f = rng.choice([(0, 3), (5, 0), (5, 1), (0, 0), (0, 1), (1, 2), (1, 3), (7, 7), (6, 7)])
            else:
                fk = rng.below(7)
                if fk == 0:
                    f = 2
                elif fk == 1:
                    f = 1 << rng.choice([2, 3, 7, 32, 63, 64, 65, 128])
                elif fk == 2:
                    f = rng.choice([3, 5, 6, 7, 10, 12, 100])
                elif fk == 3:
                    f = rng.bits(64) | 1 | (1 << 63)
                elif fk == 4:
                    f = rng.bits(128) | 1 | (1 << 127)
                elif fk == 5:
                    f = gen_mag(rng, rng.choice([3, 4, 5]))
                else:
                    f = rng.range(2, 1000)
                e = rng.choice([0, 0, 1, 2, 3, 4, 5, 6, 7, 8, 9, 10, 11, 14, 15, 16, 17, 30, 31, 32, 33, 62, 63, 64, 65, 70])
                e = min(e, max(3, 12000 // f.bit_length()))
                rest = rng.choice([1, 1, gen_mag(rng, rng.choice([1, 1, 2, 3])), f - 1, f + 1])
                if rest % f == 0:
                    rest += 1
                x = rest * f ** e
            out.append("remove %s %s" % (hx(x), hx(f)))
    return out
