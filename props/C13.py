"""C13 - reduced-ring (modular) arithmetic is the homomorphic image of integer arithmetic."""
import core
from core import hx, gen_mag

ID = "C13"
READY = True
ORACLE = "c13"
HARNESS_BIN = "c13"
NCASES = {"quick": 9000, "thorough": 200000}
CASE_TIMEOUT = {"quick": 30, "thorough": 120}

LEVEL_TEXT = ("Machine-checked Coq theorems over a value-level model of dashu's modular arithmetic with the representation invariant "
              "raw = (x mod m) * 2^shift: construction of the ring, reduce for every size class and sign, + - * neg dbl sqr, the two "
              "exponentiation algorithms (binary method word by word; sliding window with a table of odd powers - proved generically "
              "for any carrier with a multiplication, for every window length), inverse and division, ring identity, and the "
              "num_modular::Reducer implementation. Every call into num-modular is shown to meet that function's precondition. "
              "The model is tied to the code by a correspondence run against the OCaml extraction of specification and model.")
LEVEL_NOTE = ("Trusted: Coq kernel, extraction (FastZ.v directives), zarith, harness. Multi-word kernels called by the modular code "
              "(mul::multiply, sqr::sqr, div::div_rem_in_place, fast_rem_by_normalized_*, gcd_ext_*) and num-modular's div_rem_2by1 / "
              "div_rem_3by2 / invm enter by contract (value-level meaning); word-list layout is not modelled (values only).")
TECHNIQUE = "Coq proof of a value-level as-is model (representation invariant, generic windowed exponentiation) + extracted-spec correspondence run"
RULE = ("cases = operation (every call form: by value / by reference / assigning, ConstDivisor::new / from_word / from_dword, UBig / IBig / "
        "every primitive type, Reducer trait) x modulus from {1, 2, 2^k, 2^k+-1 at k = 63, 64, 65, 127, 128, 129, word-aligned and "
        "unaligned single / double / multi-word (3..33 words), even multi-word, low words zero} x operands of both signs from "
        "{0, +-1, m-1, m, m+1, multiples of m, a + b = m, a = b, 0..2n+2 words in the usual bit patterns} x exponents "
        "{0, 1, 2, 3, one word, 2^64-1, 2^64, two words, 3..5 words; all-ones / single bit / sparse / random}. "
        "A case is non-trivial when the oracle evaluated the Coq specification on it; distinct = distinct case texts.")
EXPLANATION = ("Theorems (coq/props/C13.v, 33 pinned): for every word size >= 2 and every modulus m >= 1 the as-is model of "
               "ConstDivisor::new/reduce/residue, + - * neg dbl sqr ==, pow, inv, div and of the Reducer impl returns the residue the "
               "mathematics demands (representation invariant raw = (x mod m) << shift preserved by every operation, residues in [0, m), "
               "inverse exactly for units, division = div_spec, different rings panic, no debug assertion of dashu or num-modular "
               "precondition can fire) given the value-level contracts of the external kernels (externals_ok); binary and sliding-window "
               "exponentiation are proved for any carrier closed under a power relation; the extracted 64-bit model the oracle runs is "
               "proved equal to the specification for all inputs (C13_run_*); the pre-repair models of F01-F03 stay refuted. "
               "Tie to the code: every operation of the harness is compared with the extracted specification (verdict) and with "
               "the extracted as-is model (fidelity statistic) on generated inputs.")
TRUSTED_BASE = [
    "Coq 8.16.1 kernel (coqc; vm_compute only in closed Examples)",
    "extraction: ExtrOcamlBasic + ExtrOcamlZBigInt + the Extract Constant directives of coq/extract/FastZ.v",
    "OCaml 4.13.1 + zarith 1.12, oracle/common.ml, oracle/driver_c13.ml; Rust harness harness/src/bin/c13.rs",
    "contracts (section variables / value-level definitions) for num-modular div_rem_2by1, div_rem_3by2, invm and for dashu's multi-word "
    "kernels mul::multiply, sqr::sqr, div::div_rem_in_place, div::fast_rem_by_normalized_word/dword, gcd::gcd_ext_* (subjects of C01/C02/C12)",
    "the model is at value level: word-list layout, buffer capacities and the memory allocator are not modelled",
]
ASSUMPTIONS = [
    "UBig::from_words / as_words / IBig::from_parts transport values faithfully (used by the harness instead of any parser)",
    "64-bit words in the correspondence run (the Coq model is parametric in the word size)",
    "pointer identity of ConstDivisor instances is modelled by an integer identity",
]

W = 64


def gen_modulus(rng, tier):
    k = rng.below(30)
    if k == 0:
        return 1
    if k == 1:
        return rng.choice([2, 3, 4, 5, 7, 8, 10, 12, 100, 255, 256])
    if k == 2:
        return 1 << rng.choice([1, 2, 31, 32, 62, 63, 64, 65, 126, 127, 128, 129, 191, 192, 193, 255, 256, 320])
    if k == 3:
        e = rng.choice([63, 64, 65, 127, 128, 129, 191, 192, 193, 256])
        return max(1, (1 << e) + rng.choice([-1, 1, -3, 3, -59, 13]))
    if k < 9:
        # single word: any bit length (shift = 64 - bits), incl. top bit set (shift 0)
        bits = rng.choice([1, 2, 3, 8, 16, 31, 32, 33, 62, 63, 64, 64, 64, rng.range(1, 64)])
        return rng.bits(bits) | (1 << (bits - 1)) | (rng.below(2))
    if k < 14:
        # double word
        bits = rng.choice([65, 66, 96, 100, 127, 128, 128, 128, rng.range(65, 128)])
        v = rng.bits(bits) | (1 << (bits - 1))
        if rng.chance(1, 5):
            v &= ~((1 << 64) - 1)  # low word zero
            v |= 1 << (bits - 1)
        return v
    # multi-word
    n = rng.choice([3, 3, 3, 4, 4, 5, 6, 8, 15, 16, 17, 24, 25, 32, 33] + ([48, 64, 100, 193] if tier == "thorough" else []))
    r = rng.below(6)
    if r == 0:
        v = gen_mag(rng, n)
    else:
        top = rng.choice([1, 2, 3, 62, 63, 64, 64, rng.range(1, 64)])  # bits in the top word; 64 = no shift
        bits = (n - 1) * W + top
        v = rng.bits(bits) | (1 << (bits - 1))
        if r == 1:
            v &= ~1  # even
        if r == 2:
            v &= ~((1 << (W * rng.range(1, n - 1))) - 1)  # low words zero
            v |= 1 << (bits - 1)
        if r == 3:
            v |= ((1 << W) - 1) << (W * rng.range(0, n - 2))  # a word of ones
    return max(v, 1)


def gen_operand(rng, m, tier, other=None):
    k = rng.below(20)
    nb = m.bit_length()
    nw = (nb + W - 1) // W
    if k == 0:
        v = rng.choice([0, 1, -1, 2, -2])
    elif k == 1:
        v = m + rng.choice([-1, 0, 1])
    elif k == 2:
        v = m * rng.choice([2, 3, -1, -2, (1 << 64), (1 << 64) - 1]) + rng.choice([-1, 0, 1])
    elif k == 3 and other is not None:
        v = rng.choice([other, -other, m - other, other + m, m - other - 1, m - other + 1, other + 1])
    elif k == 4:
        v = rng.bits(rng.range(0, max(1, nb)))  # below the modulus, any length
    elif k == 5:
        v = (1 << rng.range(0, 2 * nb + 70)) + rng.choice([-1, 0, 1])
    elif k == 6:
        # exactly at the word-count boundaries of the modulus
        v = gen_mag(rng, rng.choice([max(0, nw - 1), nw, nw + 1, 2 * nw - 1, 2 * nw, 2 * nw + 1]))
    elif k == 7:
        # two-word values with a large high word (the 2by1 division precondition)
        v = (rng.choice([(1 << 64) - 1, 1 << 63, m & ((1 << 64) - 1), (m + 1) & ((1 << 64) - 1), rng.bits(64)]) << 64) | rng.bits(64)
    elif k == 8:
        v = rng.bits(rng.choice([8, 32, 63, 64, 65, 127, 128, 129, 192]))
    elif k == 9:
        # a multiple of a factor of an even / power-of-two modulus: non-invertible elements
        tz = (m & -m).bit_length() - 1
        v = rng.bits(nb) << rng.range(0, tz + 1)
    else:
        v = gen_mag(rng, rng.choice([0, 1, 1, 2, 2, 3, 4, nw, nw + 1, nw + 2, 2 * nw + 2]))
    if rng.chance(1, 3):
        v = -v
    return v


def gen_exp(rng, tier):
    k = rng.below(16)
    if k < 3:
        return rng.choice([0, 1, 2, 3, 4, 5, 7, 8, 15, 16, 17])
    if k == 3:
        return rng.choice([(1 << 63) - 1, 1 << 63, (1 << 64) - 1, 1 << 64, (1 << 64) + 1, (1 << 64) + (1 << 63), (1 << 127), (1 << 128) - 1, 1 << 128, (1 << 128) + 1,
                           (1 << 192) - 1, 1 << 192])
    if k == 4:
        return rng.bits(rng.range(1, 64))
    if k == 5:
        return rng.bits(64) | (1 << 63)
    if k < 8:
        return rng.bits(rng.range(65, 128)) | (1 << 64)
    if k == 8:
        # sparse multi-word
        bits = rng.range(129, 330)
        v = 1 << (bits - 1)
        for _ in range(rng.range(0, 4)):
            v |= 1 << rng.below(bits)
        return v
    if k == 9:
        return (1 << rng.range(129, 330)) - 1  # all ones
    if k == 10:
        # long runs of zeros and ones around word boundaries (window logic)
        v = 1
        while v.bit_length() < rng.choice([130, 200, 260]):
            run = rng.choice([1, 2, 3, 5, 8, 13, 63, 64, 65])
            v = (v << run) | (((1 << run) - 1) if rng.chance(1, 2) else 0)
        return v
    bits = rng.choice([129, 160, 192, 193, 256, 320] + ([640, 1300] if tier == "thorough" else []))
    return rng.bits(bits) | (1 << (bits - 1))


def ctor_for(rng, m):
    c = ["n", "n"]
    if m < (1 << 64):
        c.append("w")
    if m < (1 << 128):
        c.append("d")
    return rng.choice(c)


PRIMS = {"bool": (0, 1), "u8": (0, 255), "u16": (0, 65535), "u32": (0, (1 << 32) - 1), "u64": (0, (1 << 64) - 1),
         "u128": (0, (1 << 128) - 1), "usize": (0, (1 << 64) - 1), "i8": (-128, 127), "i16": (-32768, 32767),
         "i32": (-(1 << 31), (1 << 31) - 1), "i64": (-(1 << 63), (1 << 63) - 1), "i128": (-(1 << 127), (1 << 127) - 1),
         "isize": (-(1 << 63), (1 << 63) - 1)}


def shift_of(m):
    nb = m.bit_length()
    if nb <= 64:
        return 64 - nb
    if nb <= 128:
        return 128 - nb
    return (-nb) % 64


def gen_cases(rng, tier, n):
    out = []
    forms = ["vv", "vr", "rv", "rr", "av", "ar"]
    while len(out) < n:
        m = gen_modulus(rng, tier)
        k = rng.below(100)
        c = ctor_for(rng, m)
        a = gen_operand(rng, m, tier)
        b = gen_operand(rng, m, tier, other=a)
        if k < 10:
            if rng.chance(1, 3):
                ty = rng.choice(sorted(PRIMS))
                lo, hi = PRIMS[ty]
                v = rng.choice([lo, hi, 0, 1, max(lo, min(hi, a)), max(lo, min(hi, m)), max(lo, min(hi, m - 1)), max(lo, -1), rng.range(lo, hi)])
                out.append("reduce %s %s %s %s" % (ty, c, hx(m), hx(v)))
            elif a < 0 or rng.chance(1, 2):
                out.append("reduce i %s %s %s" % (c, hx(m), hx(a)))
            else:
                out.append("reduce u %s %s %s" % (c, hx(m), hx(a)))
        elif k < 22:
            out.append("add %s %s %s %s %s" % (rng.choice(forms), c, hx(m), hx(a), hx(b)))
        elif k < 32:
            out.append("sub %s %s %s %s %s" % (rng.choice(forms), c, hx(m), hx(a), hx(b)))
        elif k < 44:
            out.append("mul %s %s %s %s %s" % (rng.choice(forms), c, hx(m), hx(a), hx(b)))
        elif k < 52:
            out.append("div %s %s %s %s %s" % (rng.choice(forms), c, hx(m), hx(a), hx(b)))
        elif k < 56:
            out.append("neg %s %s %s %s" % (rng.choice(["v", "r"]), c, hx(m), hx(a)))
        elif k < 59:
            out.append("dbl %s %s %s" % (c, hx(m), hx(a)))
        elif k < 63:
            out.append("sqr %s %s %s" % (c, hx(m), hx(a)))
        elif k < 75:
            out.append("pow %s %s %s %s" % (c, hx(m), hx(a), hx(gen_exp(rng, tier))))
        elif k < 81:
            out.append("inv %s %s %s" % (c, hx(m), hx(a)))
        elif k < 83:
            out.append("eq %s %s %s %s" % (c, hx(m), hx(a), hx(rng.choice([a, a + m, a - m, b, a + 1]))))
        elif k < 84:
            out.append("cl %s %s %s %s" % (c, hx(m), hx(a), hx(b)))
        elif k < 87:
            m2 = m if rng.chance(1, 2) else gen_modulus(rng, tier)
            what = rng.choice(["add", "sub", "mul", "div", "eq", "add_ar", "sub_rv", "mul_ar", "div_ar"])
            out.append("mix %s %s %s %s %s" % (what, hx(m), hx(m2), hx(a), hx(b)))
        else:
            ua, ub = abs(a), abs(b)
            r = rng.below(13)
            if r == 0:
                out.append("r_transform %s %s" % (hx(m), hx(ua)))
            elif r == 1:
                s = shift_of(m)
                t = rng.choice([0, (m - 1) << s, m << s, (m + 1) << s, ((m - 1) << s) + 1, (ua % m) << s, ((ua % m) << s) | 1, ua, (m << s) - 1, 1 << s,
                                ((m - 1) << s) | ((1 << s) >> 1)])
                out.append("r_check %s %s" % (hx(m), hx(t)))
            elif r == 2:
                out.append("r_is_zero %s %s" % (hx(m), hx(rng.choice([0, m, ua, 2 * m]))))
            elif r == 3:
                out.append("r_modulus %s" % hx(m))
            elif r == 4:
                # sums that hit the modulus exactly / by one
                ub = rng.choice([ub, (m - ua % m) % m, (m - ua % m + 1) % m, (m - ua % m - 1) % m])
                out.append("r_add %s %s %s" % (hx(m), hx(ua), hx(ub)))
            elif r == 5:
                out.append("r_sub %s %s %s" % (hx(m), hx(ua), hx(ub)))
            elif r == 6:
                out.append("r_mul %s %s %s" % (hx(m), hx(ua), hx(ub)))
            elif r == 7:
                ua = rng.choice([ua, m // 2, (m + 1) // 2, m // 2 + 1, m - 1])
                out.append("r_dbl %s %s" % (hx(m), hx(ua)))
            elif r == 8:
                out.append("r_neg %s %s" % (hx(m), hx(ua)))
            elif r == 9:
                out.append("r_sqr %s %s" % (hx(m), hx(ua)))
            elif r == 10:
                out.append("r_pow %s %s %s" % (hx(m), hx(ua), hx(gen_exp(rng, tier))))
            else:
                out.append("r_inv %s %s" % (hx(m), hx(ua)))
    return out
