"""C13 - reduced-ring (modular) arithmetic is the homomorphic image of integer arithmetic."""
import os
import sys
import core
from core import hx, gen_mag

# Fragments of modular/{pow,add,mul,repr,reducer,convert}.rs (window-length selection, comparison methods, product-length
# switches, IntoRing impls of the primitive types, the units) are regenerated into coq/gen/ModRingGen.v when this plug-in
# is imported, i.e. before the proof phase of every run; theorems C13_gen_* are proved over the generated definitions.
# Unparseable source is not an alarm: the committed copy stays (marked STALE), the status is reported in the evidence.
sys.path.insert(0, os.path.join(core.ROOT, "tools"))
try:
    import translate_c13_r3
    GEN_STATUS = translate_c13_r3.generate(core.REPO, os.path.join(core.COQ, "gen"))
    GEN_PRIMS = translate_c13_r3.prim_types(os.path.join(core.COQ, "gen"))
    GEN_WINDOW_RUNS = translate_c13_r3.window_runs(os.path.join(core.COQ, "gen"))
except Exception as _ex:  # the generator itself broke: same fallback as an unparseable source
    GEN_STATUS = "unparsed generator-failed: %s" % str(_ex)[:200]
    GEN_PRIMS, GEN_WINDOW_RUNS = [], []
# round 5: the BODIES of modular/{add,repr,reducer,div,pow}.rs (in-place kernels of the multi-word ring, is_valid, Clone, Reducer helpers,
# tail of inv_large, window read of large::pow) -> coq/gen/ModRingBodiesGen.v, proved equal to the hand models (C13_gen_bodies, C13_gen_clone,
# C13_gen_reducer, C13_gen_inv_tail, C13_gen_pow_window); same fallback rules
try:
    import translate_c13_r5
    GEN5_STATUS = translate_c13_r5.generate(core.REPO, os.path.join(core.COQ, "gen"))
except Exception as _ex:
    GEN5_STATUS = "unparsed generator-failed: %s" % str(_ex)[:200]

# A run against a scratch checkout (VERIF_REPO) with the shared Coq tree must not leave the fragment of that checkout
# behind for other builds: regenerate from /repo when the process ends.
if os.path.realpath(core.REPO) != os.path.realpath("/repo") and "VERIF_COQ" not in os.environ:
    import atexit

    def _restore_gen():
        try:
            translate_c13_r3.generate("/repo", os.path.join(core.COQ, "gen"))
        except Exception:
            pass
        try:
            translate_c13_r5.generate("/repo", os.path.join(core.COQ, "gen"))
        except Exception:
            pass

    atexit.register(_restore_gen)


def _verdict(line):
    t = (line or "noverdict").split()
    return (t[0] if t else "noverdict"), dict(x.split("=", 1) for x in t[1:] if "=" in x)


W32_CASES = {"quick": 2600, "thorough": 40000}


def gen_cases_w(rng, tier, n, wbits):
    """the generators of this plug-in with every size counted in words of `wbits` bits (rings of one / two / three and more
    32-bit words, normalisation shifts 0..31, operands at the 32-bit word-count boundaries)"""
    global W
    old = W
    W = wbits
    try:
        out = gen_cases(rng, tier, n)
    finally:
        W = old
    # the 300-word moduli around MIN_DWORD_GUESS_LEN cost 4x more on 32-bit word lists: keep a few
    return out


def _w32_phase(tier, seed, exes, oracle, hist, failures, nontrivial):
    """round 5: the force_bits="32" build (Word = u32) against the SAME models evaluated at w = 32 (the oracle takes the word
    size from the wb= token of the answer, C13_W for panics)"""
    exe, out = core.harness_build(HARNESS_BIN, "w32")
    if exe is None:
        failures.append({"kind": "harness build failed", "config": "w32", "log": out[-1500:]})
        return 0
    rng = core.Rng(seed * 7919 + 13)
    corpus = []
    cp = os.path.join(core.ROOT, "corpus", "C13.txt")
    if os.path.exists(cp):
        corpus = [l.strip() for l in open(cp) if l.strip() and not l.startswith("#")]
    # from_word / from_dword take the Word / DoubleWord of the build: corpus cases built for 64-bit words go through `new`
    def fit(t):
        f = t.split()
        for k in (1, 2):
            if len(f) > k + 1 and f[k] in ("w", "d") and f[0] not in ("new0",):
                try:
                    m = int(f[k + 1], 16)
                except ValueError:
                    continue
                if (f[k] == "w" and m >= (1 << 32)) or (f[k] == "d" and m >= (1 << 64)):
                    f[k] = "n"
        return " ".join(f)
    n = int(os.environ.get("C13_W32_CASES", W32_CASES.get(tier, 2600)))
    texts = [fit(t) for t in corpus] + gen_cases_w(rng, tier, n, 32)
    cases = list(enumerate(texts))
    answers = core.run_sharded(exe, cases, case_timeout=CASE_TIMEOUT.get(tier, 30))
    verdicts = core.run_sharded(oracle, [(i, "%s => %s" % (t, answers.get(i, "noanswer"))) for i, t in cases],
                                case_timeout=120, env={"C13_W": "32"})
    bad = {}
    for i, t in cases:
        v, kv = _verdict(verdicts.get(i))
        op = t.split(" ", 1)[0]
        a = answers.get(i) or "noanswer"
        hist["BUILD:w32:op:" + op] = hist.get("BUILD:w32:op:" + op, 0) + 1
        for key in ("asis", "cls", "path"):
            if key in kv:
                k2 = "BUILD:w32:%s:%s" % (key, kv[key])
                hist[k2] = hist.get(k2, 0) + 1
        if kv.get("nt") == "1":
            nontrivial.append("w32 " + t)
        why = None
        if a.startswith("ok") and not a.endswith(" wb=32"):
            why = "the w32 build does not report 32-bit words: " + a[-40:]
        elif v != "pass":
            why = "oracle: " + (verdicts.get(i) or "noverdict")[:300]
        elif kv.get("asis") == "diff":
            why = "model fidelity: an as-is model evaluated at w = 32 differs from the force_bits=32 build"
        if why:
            hist["BUILD:w32:violations"] = hist.get("BUILD:w32:violations", 0) + 1
            if op not in bad:
                bad[op] = {"kind": "other-build", "config": "w32", "case": t, "impl": a[:2000], "oracle": (verdicts.get(i) or "")[:300], "why": why,
                           "replay": "build the harness with --cfg force_bits=\"32\" (core.CONFIGS w32), feed the case, judge with C13_W=32"}
    failures.extend(bad.values())
    return len(cases)


def extra_phase(tier, seed, exes, oracle):
    word = GEN_STATUS.split(" ", 1)[0]
    prims_match = sorted(t for t, _ in GEN_PRIMS) == sorted(PRIMS) and all((PRIMS[t][0] < 0) == sg for t, sg in GEN_PRIMS)
    word5 = GEN5_STATUS.split(" ", 1)[0] + ("-partly" if "unparsed=" in GEN5_STATUS else "")
    hist = {"translator_c13_r3:ModRingGen:" + word: 1, "translator_c13_r5:ModRingBodiesGen:" + word5: 1, "into_ring_prims_generated=%d_match_generators=%s" % (len(GEN_PRIMS), prims_match): 1}
    failures, nontrivial, evaluations = [], [], 0
    if oracle and exes and os.environ.get("C13_NO_W32") is None:
        evaluations = _w32_phase(tier, seed, exes, oracle, hist, failures, nontrivial)
    return {
        "evaluations": evaluations,
        "hist": hist,
        "nontrivial": nontrivial,
        "samples": [{"fragment": "coq/gen/ModRingGen.v (tools/translate_c13_r3.py from integer/src/modular/{pow,add,mul,repr,reducer,convert}.rs)",
                     "status": GEN_STATUS,
                     "tied_by": "C13_gen_window_len, C13_gen_pow_params, C13_gen_window_table, C13_gen_comparisons, C13_gen_units, C13_gen_into_ring_prims"
                                if word == "ok" else "correspondence run only (source not parsed; committed copy marked STALE)",
                     "window_runs_64bit_first": [list(r) for r in GEN_WINDOW_RUNS[:12]]},
                    {"fragment": "coq/gen/ModRingBodiesGen.v (tools/translate_c13_r5.py over the parser of tools/translate_c01_r4.py, from "
                                 "integer/src/modular/{add,repr,reducer,div,pow}.rs: negate / add / dbl / sub / sub_swap in place, ReducedLarge::is_valid, Clone for ReducedRepr, "
                                 "reduce_once / reduce_negate / Reducer add dbl sub neg, tail of inv_large, window read of large::pow)",
                     "status": GEN5_STATUS,
                     "tied_by": "C13_gen_bodies, C13_gen_clone, C13_gen_reducer, C13_gen_inv_tail, C13_gen_pow_window" if GEN5_STATUS == "ok"
                                else "functions reported unparsed keep their last good copy (marked STALE) and are tied by the correspondence run only"}],
        "failures": failures,
    }


ID = "C13"
READY = True
ORACLE = "c13"
HARNESS_BIN = "c13"
NCASES = {"quick": 12000, "thorough": 200000}
CASE_TIMEOUT = {"quick": 30, "thorough": 120}

LEVEL_TEXT = ("Machine-checked Coq theorems (113 pinned) at three levels. (1) Value level, every word size >= 2, every modulus >= 1, all "
              "integers: construction of the ring, reduce for every size class and sign, + - * neg dbl sqr ==, the two exponentiation "
              "algorithms (binary method word by word; sliding window with a table of odd powers - proved generically for any carrier, "
              "every window length; exponent 0 and modulus 1 included), inverse, division, ring identity and the num_modular::Reducer "
              "implementation preserve the representation invariant raw = (x mod m) << shift and return the residue the mathematics "
              "demands; num-modular's div_rem_1by1 / 2by1 / 2by2 / 3by2 / 4by2 and invm are transcriptions proved exact (C13_nm_*). "
              "(2) Word level for the multi-word ring (ReducedLarge = word list of the modulus' length), every word size >= 8, NO contract "
              "of any kernel left: ConstLargeDivisor::new, rem_large, rem_repr, from_ubig, IntoRing for UBig / IBig, residue, modulus, "
              "Reducer::transform, is_valid, add / sub / dbl / neg with their carry and borrow flags and debug assertions, mul_normalized / "
              "sqr_normalized / mul_in_place / the sliding-window pow with C01's as-is multiply / sqr, C02's as-is div_rem_in_place, "
              "num-modular's div_rem_3by2 and C01's add_signed_mul (C13_words_*_src); inv_large on word lists returns Some(inverse) exactly "
              "when gcd = 1; round 4: the EXTENDED GCD behind inv has no contract left either - gcd_ext_word / gcd_ext_dword transcribed "
              "(now with a proved logarithmic fuel, so the oracle runs them) and gcd::lehmer::gcd_ext_in_place = C12's as-is model "
              "(lehmer_guess / lehmer_guess_dword on the aligned leading words, Lehmer and Euclidean steps, the single-word ending with "
              "the primitive extended gcd and the sign line), for which C12 proves partial correctness (g = gcd, lhs | g - b rhs IF it "
              "returns) and this check proves TOTALITY for every word size and every 0 < rhs < lhs: no checked word operation of the "
              "guess overflows, no guessed step goes negative, the cofactors keep t1 x + t0 y = lhs so they fit the lhs_len + 1 word "
              "buffers, the final `t0 += q t1` fits its x.len() + t1_len words and cuts nothing off although the source's second-half "
              "test (it subtracts c where Jebelean's condition has b) lets a step come out in the order x' <= y' with the cofactors "
              "swapped into t0 > t1, |b| < lhs, fuel logarithmic in lhs * rhs (C13_lehmer_guess_total, C13_lehmer_ext_loop_total, "
              "C13_gcd_ext_in_place_total, C13_lehmer_ending_fits, C13_gcd_ext_src); hence Reduced::inv, division and every expression "
              "tree hold with NO premise (C13_words_inv_src, C13_externals_src, C13_inv_div_src, C13_expr_src). Reducer's reduce_once / "
              "reduce_negate of the multi-word ring run on word lists (sub_large, sub_large_dword, sub_large_ref_val with C01's borrow "
              "kernels) and equal the value-level model (C13_words_reducer_once / _negate). (3) The extracted 64-bit models the oracle runs "
              "- value level (C13_run_*), word lists with the real kernels (C13_hrun_*), inverse / division with the gcd code of the source "
              "(C13_hrun_inv_src, C13_hrun_div_src, C13_hrun_gcd_probe) and the Reducer helpers on words (C13_hrun_rd_lin) - are proved equal "
              "to the specification for all inputs. Regenerated from the Rust sources on every run and proved over the generated "
              "definitions (C13_gen_*): window-length selection of large::pow, table size and first bit, comparison methods, long-product "
              "switches, units, the list of primitive IntoRing impls. Round 5: (4) every run of the oracle is the instance with the WORD SIZE AS A "
              "PARAMETER (ModRingWInst.v: value level, word lists + real kernels, inverse / division with the gcd code of the source, Reducer "
              "helpers on words, clone_from) and is proved equal to the specification for EVERY word size w >= 8, every modulus and operand "
              "(C13_wrun_value / _mixed / _reducer / _clone_from, C13_whrun_ring / _gcd_src / _rd_lin; at w = 64 they are the instances of "
              "rounds 1-4 by computation, C13_wruns_at_64); the correspondence run evaluates them at the word size each build reports: 64, and "
              "32 against the force_bits=\"32\" build (Word = u32: rings of one / two / three and more 32-bit words, normalisation shifts "
              "0..31). (5) BODIES regenerated from the source on every run (tools/translate_c13_r5.py over the parser of "
              "tools/translate_c01_r4.py -> coq/gen/ModRingBodiesGen.v) and proved EQUAL to the hand models for every word size, ring and "
              "operand: negate / add / dbl / sub / sub_swap in place of modular/add.rs with their debug assertions, the zero guard and the "
              "conditional correction steps, ReducedLarge::is_valid, Clone for ReducedRepr (clone_from sets ring AND content), "
              "reduce_once / reduce_negate and Reducer::add / dbl / sub / neg of modular/reducer.rs, everything of div.rs::inv_large after the "
              "extended gcd (the None exit, the shift back, the validity assertion, the sign line), the window read of "
              "pow.rs::large::pow_nontrivial (C13_gen_bodies, C13_gen_clone, C13_gen_reducer, C13_gen_inv_tail, C13_gen_pow_window).")
LEVEL_NOTE = ("Trusted: Coq kernel, extraction (FastZ.v directives), zarith, harness. No external function is left by contract. Modelled at "
              "value level only (not on word lists): the inside of gcd_ext_in_place - the word loops lehmer_step / lehmer_ext_step, the "
              "re-slicing of the cofactor buffers in the Euclidean step (C12 round 4 models and proves lehmer_step / the aligned leading "
              "words; it found and repaired in /repo 1be8c4c a defect of exactly that re-slicing, reachable through Reduced::inv, after "
              "this check's totality proof had shown that the cofactor order t0 > t1 does occur - the value-level model used here says "
              "what the repaired code does), UBig + - << inside the Reducer helpers (C01); clone / clone_from at value level (the destination becomes the source: C13_clone_from). Round 5: the word-level "
              "models ARE run against the force_bits=32 build (extra phase: 2600 cases generated with every size counted in 32-bit words + the "
              "corpus, judged with the models at w = 32; the word size comes from the wb= token of each answer). Still hand-transcribed (tied by "
              "the run only, not regenerated): mul_normalized / sqr_normalized / mul_in_place (buffer allocation, early return, the "
              "product-length switch is regenerated as a fragment), the gcd dispatch of inv_large (its tail is regenerated), the window loop of "
              "large::pow around the regenerated window read and window-length selection, rem_large / from_ubig, residue, "
              "one; the Single / Double arms call num-modular (transcribed). Montgomery form: not used by "
              "dashu (plain division by the normalised divisor with a precomputed reciprocal) - nothing to model; Reduced::pow takes an "
              "unsigned exponent (no negative exponents), exponent 0 and modulus 1 are covered by C13_asis_pow / C13_run_pow. Primitive "
              "machine arithmetic (u128 widening multiplication, %, shifts) is taken at its mathematical meaning. Compared only (not "
              "proved): that the Rust code is what the models transcribe - 12000 generated + corpus cases per run against the "
              "specification and against ALL as-is instances (asis=same needs every one; path= says which ran, +gcd-word / gcd-dword / "
              "gcd-lehmer which extended-gcd branch); fragments the translator cannot parse fall back to this comparison alone.")
TECHNIQUE = "Coq proof of value-level and word-level as-is models (representation invariant, refinement, generic windowed exponentiation, num-modular / C01 / C02 kernels transcribed, C12's Lehmer extended gcd proved total with bounded cofactors, fragments regenerated from the source) + runs proved for every word size and executed at 64 and 32 bits + bodies of add.rs / repr.rs / reducer.rs regenerated and proved equal to the hand models + extracted-spec correspondence run against three as-is instances on two builds"
RULE = ("cases = operation (every call form: by value / by reference / assigning, ConstDivisor::new / from_word / from_dword incl. a zero "
        "modulus, UBig / IBig / every primitive type, Reducer trait) x modulus from {1, 2, 2^k, 2^k+-1 at k = 63, 64, 65, 127, 128, 129, "
        "word-aligned and unaligned single / double / multi-word (3..33 words), even multi-word, low words zero} x operands of both signs "
        "from {0, +-1, m-1, m, m+1, multiples of m, a + b = m, a = b, 0..2n+2 words in the usual bit patterns, shifted operands that fill "
        "n-2 / n-1 / n / n+1 words with and without a carry word (the buffer-length switch of rem_large)} x exponents {0, 1, 2, 3, one "
        "word, 2^64-1, 2^64, two words, 3..5 words; all-ones / single bit / sparse / random; bit lengths where the regenerated "
        "window-length function changes its answer, -1/0/+1}; plus (40 % of the cases) "
        "the boundary classes built from the structure of the modulus, for each of the six ring classes (one / two / 3..33 words, with "
        "and without normalisation shift): m = p*q with the lengths of p and q adding up to the length of m (whole-word and arbitrary "
        "splits) and operands p*j, q*k (raw product exactly m, 2m, ...; off by one factor), m = p^2 with operand p (sqr, x*x, pow), "
        "a + b = m + d, a - b = d, 2a = m + d for d in {-1, 0, 1}, k*m + d for multipliers of every size and both signs, powers of "
        "m-1 / 0 / 1, and m = g*q, a = g*r for common factors g of every shape (small, one word, 2^64k+1, x*2^64+1, x*2^128+1, other "
        "low words, all ones, low words zero, random multi-word) with the residue 1, 2, 3+ words long (the three extended-gcd branches) - "
        "each through Reduced and through the Reducer trait, each operand also as a negative / larger representative of its residue; "
        "clone / clone_from histories (2.5 %): the destination previously in the same ring (another instance), in another ring of the same "
        "representation and word count with the same / another normalisation shift (2^255-19 vs 2^256-189 ...), of another word count, "
        "of another representation - then modulus(), residue(), == and a follow-up addition. "
        "Round 5: the same generators with every size counted in 32-bit words (one / two / 3..33 words of 32 bits, top word of 1..32 bits "
        "= normalisation shifts 0..31, operands at the 32-bit word-count boundaries) + the corpus run against the force_bits=32 build (2600 "
        "cases in the quick tier), judged with the models at w = 32. "
        "A case is non-trivial when the oracle evaluated the Coq specification on it; distinct = distinct case texts.")
EXPLANATION = ("Theorems (coq/props/C13.v, 113 pinned): for every word size >= 2 and every modulus m >= 1 the as-is model of "
               "ConstDivisor::new/reduce/residue, + - * neg dbl sqr ==, pow, inv, div and of the Reducer impl returns the residue the "
               "mathematics demands (representation invariant raw = (x mod m) << shift preserved by every operation, residues in [0, m), "
               "inverse exactly for units, division = div_spec, different rings panic, a zero modulus is the DivideBy0 panic, no debug "
               "assertion of dashu or num-modular precondition can fire) - stated over abstract external functions with their contracts "
               "(externals_ok) and with num-modular transcribed and proved (C13_nm_*); the word-level layer (C13_words_*) proves "
               "ConstLargeDivisor::new, rem_large / rem_repr / from_ubig / IntoRing, is_valid, the carry / borrow kernels, mul_normalized / "
               "sqr_normalized, the sliding-window pow and inv_large's buffer handling on word lists against the value-level model, with "
               "C01's multiplication and C02's division models plugged in; the multi-word extended gcd is C12's as-is Lehmer model, proved "
               "total here with cofactors that fit their buffers (round 4), so no contract is left anywhere; "
               "binary and sliding-window exponentiation are proved for any carrier closed under a power relation; both extracted 64-bit "
               "models the oracle runs are proved equal to the specification for all inputs (C13_run_*, C13_hrun_*); fragments of the "
               "source (window-length selection, comparison methods, product-length switches, units, IntoRing impls) are regenerated on "
               "every run and the theorems C13_gen_* are proved over the generated definitions; the pre-repair models of F01-F03 stay "
               "refuted (F03 also at word level). Tie to the code: every operation of the harness is compared with the extracted "
               "specification (verdict) and with all extracted as-is models (fidelity statistic) on generated inputs, on the 64-bit build and "
               "(round 5) on the force_bits=32 build with the models evaluated at w = 32 (proved for every w >= 8: C13_wrun_*, C13_whrun_*); "
               "the bodies of the in-place kernels of add.rs, of is_valid / Clone of repr.rs and of reduce_once / reduce_negate / add / dbl / "
               "sub / neg of reducer.rs, the tail of inv_large and the window read of large::pow are regenerated on every run and proved equal to "
               "the hand models (C13_gen_bodies, C13_gen_clone, C13_gen_reducer, C13_gen_inv_tail, C13_gen_pow_window).")
TRUSTED_BASE = [
    "Coq 8.16.1 kernel (coqc; vm_compute only in closed Examples and in the stated finite domain of C13_gen_window_table: bit lengths 2..4096)",
    "extraction: ExtrOcamlBasic + ExtrOcamlZBigInt + the Extract Constant directives of coq/extract/FastZ.v",
    "OCaml 4.13.1 + zarith 1.12, oracle/common.ml, oracle/driver_c13.ml; Rust harness harness/src/bin/c13.rs",
    "C12's value-level as-is model of gcd_ext_in_place (GrlLehmer.v; partial correctness GrlLehmerProof.v, aligned leading words "
    "GrlLehmerTopProof.v) - imported, its totality and cofactor bounds are proved here (ModRingLehmerGuess.v, ModRingLehmerProofs.v); the "
    "word loops inside gcd_ext_in_place (lehmer_step, lehmer_ext_step, cofactor buffer slices) are C12's subject, not modelled here",
    "that the Gallina transcriptions (ModRingModel.v, ModRingWords.v, ModRingConv.v, ModRingNumModularDefs.v, ModRingGcdSmall.v, ModRingReducerWords.v, GrlLehmer.v; C01's RingMul.v, C02's DivWordModel.v / "
    "DivNumModular.v) say what the Rust sources say - checked by the correspondence run, and for the regenerated fragments by "
    "tools/translate_c13_r5.py (statement compiler over the parser of tools/translate_c01_r4.py for modular/{add,repr,reducer,div,pow}.rs: the kernels of "
    "add.rs / shift.rs / cmp.rs called there are atoms = the hand models of DivWordModel.v, ring.normalized_divisor / ring.shift / x.0 are read "
    "as the word list / shift / word list, carry flags as 0 / 1, UBig as its value, `x.0.iter().all(|w| *w == 0)` as all_zero) and "
    "tools/translate_c13_r3.py (regex / tiny expression grammar over modular/{pow,add,mul,repr,reducer,convert}.rs; the reading of `<<` as a "
    "multiplication by a power of two, of usize arithmetic as exact, of WORD_BITS.min(usize::BIT_SIZE) as the word size are hand-written semantics); "
    "primitive machine arithmetic at its mathematical meaning",
    "buffer capacities and the memory allocator are not modelled; a UBig operand is its value with the canonical word list (C17's invariant)",
]
ASSUMPTIONS = [
    "UBig::from_words / as_words / IBig::from_parts transport values faithfully (used by the harness instead of any parser)",
    "64-bit and 32-bit words in the correspondence run (default build and force_bits=\"32\"; the Coq models are parametric in the word size and proved for every w >= 8)",
    "pointer identity of ConstDivisor instances is modelled by an integer identity",
]

W = 64


def gen_modulus(rng, tier):
    k = rng.below(30)
    if k == 0:
        return 1
    if k == 1:
        return rng.choice([2, 3, 4, 5, 7, 8, 10, 12, 100, 255, 256])
    if k == 2:
        return 1 << rng.choice([1, 2, 31, 32, 62, 63, 64, 65, 126, 127, 128, 129, 191, 192, 193, 255, 256, 320])
    if k == 3:
        e = rng.choice([63, 64, 65, 127, 128, 129, 191, 192, 193, 256])
        return max(1, (1 << e) + rng.choice([-1, 1, -3, 3, -59, 13]))
    if k < 9:
        # single word: any bit length (shift = 64 - bits), incl. top bit set (shift 0)
        bits = rng.choice([1, 2, 3, 8, 16, 31, 32, 33, 62, 63, 64, 64, 64, rng.range(1, 64)]) if W == 64 else rng.choice([1, 2, 3, 8, 16, W - 2, W - 1, W, W, W, rng.range(1, W), rng.range(1, W), rng.range(1, W), rng.range(1, W)])
        return rng.bits(bits) | (1 << (bits - 1)) | (rng.below(2))
    if k < 14:
        # double word
        bits = rng.choice([65, 66, 96, 100, 127, 128, 128, 128, rng.range(65, 128)]) if W == 64 else rng.choice([W + 1, W + 2, 2 * W - 1, 2 * W, 2 * W, rng.range(W + 1, 2 * W), rng.range(W + 1, 2 * W), rng.range(W + 1, 2 * W)])
        v = rng.bits(bits) | (1 << (bits - 1))
        if rng.chance(1, 5):
            v &= ~((1 << W) - 1)  # low word zero
            v |= 1 << (bits - 1)
        return v
    # multi-word
    n = rng.choice([3, 3, 3, 4, 4, 5, 6, 8, 15, 16, 17, 24, 25, 32, 33] + ([48, 64, 100, 193] if tier == "thorough" else []))
    r = rng.below(6)
    if r == 0:
        v = gen_mag(rng, n)
    else:
        top = rng.choice([1, 2, 3, W - 2, W - 1, W, W, rng.range(1, W)])  # bits in the top word; W = no shift
        bits = (n - 1) * W + top
        v = rng.bits(bits) | (1 << (bits - 1))
        if r == 1:
            v &= ~1  # even
        if r == 2:
            v &= ~((1 << (W * rng.range(1, n - 1))) - 1)  # low words zero
            v |= 1 << (bits - 1)
        if r == 3:
            v |= ((1 << W) - 1) << (W * rng.range(0, n - 2))  # a word of ones
    return max(v, 1)


def gen_operand(rng, m, tier, other=None):
    k = rng.below(20)
    nb = m.bit_length()
    nw = (nb + W - 1) // W
    if k == 0:
        v = rng.choice([0, 1, -1, 2, -2])
    elif k == 1:
        v = m + rng.choice([-1, 0, 1])
    elif k == 2:
        v = m * rng.choice([2, 3, -1, -2, (1 << 64), (1 << 64) - 1]) + rng.choice([-1, 0, 1])
    elif k == 3 and other is not None:
        v = rng.choice([other, -other, m - other, other + m, m - other - 1, m - other + 1, other + 1])
    elif k == 4:
        v = rng.bits(rng.range(0, max(1, nb)))  # below the modulus, any length
    elif k == 5:
        v = (1 << rng.range(0, 2 * nb + 70)) + rng.choice([-1, 0, 1])
    elif k == 6:
        # exactly at the word-count boundaries of the modulus
        v = gen_mag(rng, rng.choice([max(0, nw - 1), nw, nw + 1, 2 * nw - 1, 2 * nw, 2 * nw + 1]))
    elif k == 7:
        # two-word values with a large high word (the 2by1 division precondition)
        v = (rng.choice([(1 << W) - 1, 1 << (W - 1), m & ((1 << W) - 1), (m + 1) & ((1 << W) - 1), rng.bits(W)]) << W) | rng.bits(W)
    elif k == 8:
        v = rng.bits(rng.choice([8, 32, 63, 64, 65, 127, 128, 129, 192]))
    elif k == 10 and nw >= 3:
        # ConstLargeDivisor::rem_large: the shifted operand fills nw-2 / nw-1 / nw words, with and without a carry word
        sh = shift_of(m)
        words = rng.choice([nw - 2, nw - 1, nw - 1, nw - 1, nw, nw + 1])
        t = rng.below(4)
        if t == 0:
            v = rng.bits(max(1, words * W - sh)) | (1 << max(0, words * W - sh - 1))      # shifted top bit lands exactly in the top word
        elif t == 1:
            v = rng.bits(words * W) | (1 << (words * W - 1))                               # carry word (when shift > 0)
        elif t == 2:
            v = (1 << max(0, words * W - sh)) + rng.choice([-1, 0, 1])                      # around the carry boundary
        else:
            v = ((m << sh) >> (W * rng.range(0, 1))) + rng.choice([-1, 0, 1])              # around the normalised divisor
        v = max(v, 0)
    elif k == 9:
        # a multiple of a factor of an even / power-of-two modulus: non-invertible elements
        tz = (m & -m).bit_length() - 1
        v = rng.bits(nb) << rng.range(0, tz + 1)
    else:
        v = gen_mag(rng, rng.choice([0, 1, 1, 2, 2, 3, 4, nw, nw + 1, nw + 2, 2 * nw + 2]))
    if rng.chance(1, 3):
        v = -v
    return v


def gen_exp(rng, tier):
    k = rng.below(16)
    if k < 3:
        return rng.choice([0, 1, 2, 3, 4, 5, 7, 8, 15, 16, 17])
    if k == 3:
        return rng.choice([(1 << 63) - 1, 1 << 63, (1 << 64) - 1, 1 << 64, (1 << 64) + 1, (1 << 64) + (1 << 63), (1 << 127), (1 << 128) - 1, 1 << 128, (1 << 128) + 1,
                           (1 << 192) - 1, 1 << 192])
    if k == 4:
        return rng.bits(rng.range(1, 64))
    if k == 5:
        return rng.bits(64) | (1 << 63)
    if k < 8:
        return rng.bits(rng.range(65, 128)) | (1 << 64)
    if k == 8:
        # sparse multi-word
        bits = rng.range(129, 330)
        v = 1 << (bits - 1)
        for _ in range(rng.range(0, 4)):
            v |= 1 << rng.below(bits)
        return v
    if k == 9:
        return (1 << rng.range(129, 330)) - 1  # all ones
    if k == 10:
        # long runs of zeros and ones around word boundaries (window logic)
        v = 1
        while v.bit_length() < rng.choice([130, 200, 260]):
            run = rng.choice([1, 2, 3, 5, 8, 13, 63, 64, 65])
            v = (v << run) | (((1 << run) - 1) if rng.chance(1, 2) else 0)
        return v
    if k == 11 and GEN_WINDOW_RUNS:
        # bit lengths where the regenerated window-length function changes its answer (+-0/1)
        lim = 1400 if tier == "thorough" else 420
        runs = [r for r in GEN_WINDOW_RUNS if r[0] <= lim]
        lo, hi, _ = rng.choice(runs)
        bits = max(2, rng.choice([lo - 1, lo, hi, hi + 1]))
        v = rng.bits(bits) | (1 << (bits - 1))
        if rng.chance(1, 3):
            v = (1 << bits) - 1
        return v
    bits = rng.choice([129, 160, 192, 193, 256, 320] + ([640, 1300] if tier == "thorough" else []))
    return rng.bits(bits) | (1 << (bits - 1))


def gcd_shape_operand(rng, m):
    """operands that steer the Lehmer extended gcd of inv_large (modulus = lhs, residue = rhs) through its branches: equal
    leading words (the guess fails: Euclidean step with a one-word quotient), quotients that are all 1 (golden ratio), a
    first quotient of exactly / about one word, residues a few words shorter than the modulus, residues of exactly 3 words"""
    nb = m.bit_length()
    k = rng.below(9)
    if k == 0:
        v = m - rng.bits(rng.range(1, max(2, nb - 1))) - 1                 # same leading words
    elif k == 1:
        v = (m * 0x9E3779B97F4A7C15F39CC0605CEDC834) >> 128                # m / phi: every quotient is 1
        v += rng.choice([0, 1, -1, rng.bits(64)])
    elif k == 2:
        q = rng.choice([2, 3, (1 << 63) - 1, 1 << 63, (1 << 63) + 1, (1 << 64) - 1, 1 << 64, (1 << 64) + 1, rng.bits(64) | 1])
        v = m // q + rng.choice([0, 1, -1, rng.bits(32)])                  # first quotient q
    elif k == 3:
        v = rng.bits(max(2 * W + 2, nb - W * rng.range(1, 3)))                   # one to three words shorter
    elif k == 4:
        v = rng.bits(rng.range(2 * W + 1, 3 * W)) | (1 << (2 * W))                     # exactly three words: the Lehmer loop ends soon
    elif k == 5:
        v = (m >> 1) + rng.choice([0, 1, -1, rng.bits(W), -rng.bits(W)])   # quotient 2, remainder small
    elif k == 6:
        top = m >> max(0, nb - W)                                          # equal top word, everything below random
        v = (top << max(0, nb - W)) | rng.bits(max(1, nb - W))
    elif k == 7:
        v = m - (m >> rng.range(1, W + 2))                                 # m (1 - 2^-j)
    else:
        v = rng.bits(nb)
    v %= m
    return v if v > 0 else 1


def ctor_for(rng, m):
    c = ["n", "n"]
    if m < (1 << W):
        c.append("w")
    if m < (1 << (2 * W)):
        c.append("d")
    return rng.choice(c)


PRIMS = {"bool": (0, 1), "u8": (0, 255), "u16": (0, 65535), "u32": (0, (1 << 32) - 1), "u64": (0, (1 << 64) - 1),
         "u128": (0, (1 << 128) - 1), "usize": (0, (1 << 64) - 1), "i8": (-128, 127), "i16": (-32768, 32767),
         "i32": (-(1 << 31), (1 << 31) - 1), "i64": (-(1 << 63), (1 << 63) - 1), "i128": (-(1 << 127), (1 << 127) - 1),
         "isize": (-(1 << 63), (1 << 63) - 1)}


def shift_of(m):
    nb = m.bit_length()
    if nb <= W:
        return W - nb
    if nb <= 2 * W:
        return 2 * W - nb
    return (-nb) % W


# ---------------------------------------------------------------------------------------------
# Boundary classes (results that land exactly on a comparison of the code): built from the
# STRUCTURE of the modulus, for every ring kind (one word / two words / 3..33 words) with and
# without a normalisation shift.
#   * m = p * q with the bit lengths of p and q adding up to the bit length of m (word-aligned
#     splits and arbitrary ones), so that raw products are exactly m, 2m, ... (the short-product
#     path of mul_normalized / sqr_normalized: conditional subtraction without a division);
#   * m = p * p (squaring / pow / the lhs == rhs shortcut of mul_in_place);
#   * sums a + b = m + d, differences a - b = d, doubles 2a = m + d (d = -1, 0, 1);
#   * values k*m + d with k of every size;
#   * m = g * q and a = g * r for common factors g of every shape: small, one word, multi-word,
#     low word 1 (2^64k + 1, x*2^64 + 1), low words 0, all ones - at every operand length
#     (1 word, 2 words, 3+ words: the three extended-gcd branches of inv_large).
# ---------------------------------------------------------------------------------------------
RING_CLASSES = ["single-aligned", "single-shifted", "double-aligned", "double-shifted", "large-aligned", "large-aligned", "large-shifted", "large-shifted"]


def top2(rng, bits):
    """random value of exactly `bits` bits whose two top bits are set (so products keep the full length)"""
    if bits <= 0:
        return 1
    if bits == 1:
        return 1
    v = rng.bits(bits) | (3 << (bits - 2))
    k = rng.below(6)
    if k == 0:
        v = (1 << bits) - 1                     # all ones
    elif k == 1:
        v = max((1 << bits) - 1 - rng.below(200), 3 << (bits - 2))    # just below a power of two
    elif k == 2:
        v = 3 << (bits - 2)                     # sparse
    return v


def class_bits(rng, cls, tier):
    """bit length of a modulus of the ring class"""
    if W != 64:
        if cls == "single-aligned":
            return W
        if cls == "single-shifted":
            return rng.choice([2, 3, 8, W - 2, W - 1, rng.range(2, W - 1), rng.range(2, W - 1)])
        if cls == "double-aligned":
            return 2 * W
        if cls == "double-shifted":
            return rng.choice([W + 1, W + 2, 2 * W - 2, 2 * W - 1, rng.range(W + 1, 2 * W - 1), rng.range(W + 1, 2 * W - 1)])
    if cls == "single-aligned":
        return 64
    if cls == "single-shifted":
        return rng.choice([2, 3, 8, 31, 32, 33, 62, 63, rng.range(2, 63)])
    if cls == "double-aligned":
        return 128
    if cls == "double-shifted":
        return rng.choice([65, 66, 96, 126, 127, rng.range(65, 127)])
    n = rng.choice([3, 3, 3, 4, 4, 5, 6, 7, 8, 9, 16, 17, 32, 33] + ([48, 64, 100] if tier == "thorough" else []))
    if cls == "large-aligned":
        return n * W
    return (n - 1) * W + (rng.choice([1, 2, 3, 32, 62, 63, rng.range(1, 63)]) if W == 64 else rng.choice([1, 2, 3, W // 2, W - 2, W - 1, rng.range(1, W - 1), rng.range(1, W - 1)]))


def split_bits(rng, nb):
    """(bits of p, bits of q) with sum nb: whole-word splits first, then anything"""
    k = rng.below(4)
    words = [i * W for i in range(1, (nb - 1) // W + 1)]
    if k < 2 and words:
        bp = rng.choice(words)          # p fills whole words
        if k == 1 and nb - bp >= 2:
            return nb - bp, bp
        return bp, nb - bp
    if k == 2 and nb >= 4:
        bp = rng.range(2, nb - 2)
        return bp, nb - bp
    return nb // 2, nb - nb // 2


def factored_modulus(rng, cls, tier, square=False):
    """(m, p, q) with m = p * q of exactly the bit length of the class"""
    nb = class_bits(rng, cls, tier)
    if square:
        if nb % 2:
            nb += 1 if nb % W else -1   # stay in the class
        if nb % 2:
            nb -= 1
        p = top2(rng, nb // 2)
        return p * p, p, p
    bp, bq = split_bits(rng, nb)
    p, q = top2(rng, bp), top2(rng, bq)
    if bp >= 2 and bq >= 2:
        return p * q, p, q
    # a factor of one bit is 1: take any modulus of the class
    m = top2(rng, nb)
    return m, 1, m


def common_factor(rng, limit_bits):
    """a common factor g >= 2 of at most limit_bits bits, from every shape class"""
    for _ in range(20):
        k = rng.choice([0, 1, 2, 3, 3, 4, 4, 5, 6, 7, 8, 9, 10, 11, 12, 12, 13])
        if k == 0:
            g = rng.choice([2, 3, 4, 5, 6, 7, 9, 15, 255, 256, 641])
        elif k == 1:
            g = rng.bits(rng.range(2, 64)) | 1
        elif k == 2:
            g = rng.choice([(1 << 64) - 1, (1 << 63), (1 << 63) + 1, (1 << 32) + 1, (1 << 64) - 59])
        elif k == 3:
            g = (1 << (W * rng.range(1, 5))) + 1                      # 2^64k + 1: low word 1, one high bit
        elif k == 4:
            g = (rng.bits(rng.range(1, 130)) << W) | 1                # x * 2^64 + 1
        elif k == 5:
            g = (rng.bits(rng.range(1, 70)) << (2 * W)) | 1           # x * 2^128 + 1: low two words = 1
        elif k == 6:
            g = ((rng.bits(rng.range(1, 130)) | 1) << W) | rng.choice([2, 3, 0xffffffffffffffff, 1 << 63])  # multi-word, other low words
        elif k == 7:
            g = gen_mag(rng, rng.choice([2, 2, 3, 4, 5])) | 1          # random multi-word odd
        elif k == 8:
            g = (1 << (W * rng.range(1, 4))) - 1                      # B^k - 1
        elif k == 9:
            g = rng.choice([1, 3, 5, rng.bits(40) | 1]) << (W * rng.range(1, 3))   # low words zero
        elif k == 10:
            g = (1 << rng.range(1, 200)) + rng.choice([0, 1, -1])
        elif k == 11:
            g = ((1 << W) + 1) * (rng.bits(rng.range(1, 64)) | 1)     # (2^64 + 1) * odd
        elif k == 12:
            g = (1 << W) + rng.choice([1, 1, 2, 3, (1 << 63), (1 << 64) - 1])
        else:
            g = rng.bits(rng.range(65, 260)) | 1
        if g >= 2 and g.bit_length() <= limit_bits:
            return g
    return 3


def shared_factor_case(rng, cls, tier):
    """(m, a, g): m = g * q in the ring class (bit length exact up to one), a = g * r"""
    nb = class_bits(rng, cls, tier)
    g = common_factor(rng, nb - 1)
    bq = nb - g.bit_length() + rng.choice([0, 0, 1])
    q = top2(rng, max(1, bq))
    if q == 1 and bq >= 1:
        q = rng.choice([1, 3, 5])
    m = g * q
    nw = (m.bit_length() + W - 1) // W
    # a = g * r with the residue one word / two words / three and more words long, up to the length of m and beyond
    k = rng.below(8)
    if k == 0:
        r = 1
    elif k == 1:
        r = rng.choice([2, 3, 5, 7, q - 1, q + 1, max(1, q // 2)])
    elif k == 2:
        r = rng.bits(max(1, W - g.bit_length() % W))          # fills the current top word
    elif k == 3:
        want = rng.choice([1, 2, 3, nw - 1, nw]) * W          # a of exactly that many words (if g allows)
        r = rng.bits(max(1, want - g.bit_length())) | 1
    elif k == 4:
        r = rng.bits(max(1, q.bit_length() - 1)) | 1          # a just below m
    elif k == 5:
        r = q + rng.bits(max(1, q.bit_length())) + 1          # a above m
    elif k == 6:
        r = top2(rng, rng.range(1, max(2, q.bit_length())))
    else:
        r = rng.bits(rng.range(1, q.bit_length() + 70)) | 1
    return m, g * max(r, 1), g


def disguise(rng, v, m):
    """another representative of the same residue: negative, beyond m, far beyond m"""
    k = rng.below(8)
    if k == 0:
        return v - m
    if k == 1:
        return v + m
    if k == 2:
        return v - m * rng.choice([2, 3, (1 << 64), (1 << 64) + 1, (1 << 130) - 1])
    if k == 3:
        return v + m * (rng.bits(rng.range(1, 140)) + 1)
    return v


def gen_boundary(rng, tier):
    cls = rng.choice(RING_CLASSES)
    forms = ["vv", "vr", "rv", "rr", "av", "ar"]
    k = rng.below(100)
    red = rng.chance(1, 4)          # through the Reducer trait instead of Reduced
    if k < 22:
        # products that are exact multiples of the modulus (or miss one by a factor)
        m, p, q = factored_modulus(rng, cls, tier)
        c = ctor_for(rng, m)
        j1, j2 = rng.choice([1, 1, 1, 1, 2, 3]), rng.choice([1, 1, 1, 1, 2, 5])
        a, b = p * j1, q * j2
        t = rng.below(8)
        if t == 0:
            b = q + rng.choice([-1, 1])
        elif t == 1:
            a = p + rng.choice([-1, 1])
        elif t == 2:
            a, b = b, a
        if red:
            return "r_mul %s %s %s" % (hx(m), hx(abs(a)), hx(abs(b)))
        a, b = disguise(rng, a, m), disguise(rng, b, m)
        w = rng.below(10)
        if w < 8:
            return "mul %s %s %s %s %s" % (rng.choice(forms), c, hx(m), hx(a), hx(b))
        # (x / b) with x * b^-1 ... the quotient route: a / u where u is a unit and a * u^-1 hits p*q
        return "div %s %s %s %s %s" % (rng.choice(forms), c, hx(m), hx(a), hx(b))
    if k < 32:
        # squares: m = p^2 (and p^2 * small), operand p: sqr, x * x, pow 2, pow e
        m, p, _ = factored_modulus(rng, cls, tier, square=True)
        c = ctor_for(rng, m)
        a = p * rng.choice([1, 1, 1, 1, 2, 3]) + rng.choice([0, 0, 0, 0, 0, 0, 1, -1])
        t = rng.below(6)
        if red:
            return rng.choice(["r_sqr %s %s" % (hx(m), hx(abs(a))), "r_mul %s %s %s" % (hx(m), hx(abs(a)), hx(abs(a))),
                               "r_pow %s %s %s" % (hx(m), hx(abs(a)), hx(rng.choice([2, 3, 4, gen_exp(rng, tier)])))])
        a2 = disguise(rng, a, m)
        if t == 0:
            return "sqr %s %s %s" % (c, hx(m), hx(a2))
        if t == 1:
            return "mul %s %s %s %s %s" % (rng.choice(forms), c, hx(m), hx(a2), hx(disguise(rng, a, m)))
        if t == 2:
            return "pow %s %s %s %s" % (c, hx(m), hx(a2), hx(rng.choice([2, 2, 3, 4, 5, 6, 8])))
        if t == 3:
            return "pow %s %s %s %s" % (c, hx(m), hx(a2), hx(gen_exp(rng, tier)))
        if t == 4:
            return "mul %s %s %s %s %s" % (rng.choice(forms), c, hx(m), hx(a2), hx(-a))
        return "sqr %s %s %s" % (c, hx(m), hx(-a2))
    # the remaining classes take any modulus of the ring class (factored or not)
    if rng.chance(1, 2):
        m, p, q = factored_modulus(rng, cls, tier)
    else:
        m = top2(rng, class_bits(rng, cls, tier))
        if rng.chance(1, 3):
            m &= ~1
        if rng.chance(1, 8) and m.bit_length() > 2 * W:
            m &= ~((1 << W) - 1)
        p, q = 1, m
    m = max(m, 1)
    c = ctor_for(rng, m)
    x = rng.choice([0, 1, 2, m - 1, m - 2, m // 2, (m + 1) // 2, p % m, q % m, rng.bits(m.bit_length()) % m, rng.bits(m.bit_length()) % m,
                    rng.bits(rng.range(1, m.bit_length())) % m, (1 << (W * rng.range(0, m.bit_length() // W))) % m])
    x %= m
    d = rng.choice([-1, 0, 0, 0, 1])
    if k < 47:
        # a + b = m + d
        y = (m - x + d) % m if m > 1 else 0
        if red:
            return "r_add %s %s %s" % (hx(m), hx(x), hx(y))
        if rng.chance(1, 2):
            x, y = y, x
        return "add %s %s %s %s %s" % (rng.choice(forms), c, hx(m), hx(disguise(rng, x, m)), hx(disguise(rng, y, m)))
    if k < 59:
        # a - b = d  (0, 1, -1 = m - 1), and 0 - b, a - (m-1)
        y = (x - d) % m
        if red:
            return "r_sub %s %s %s" % (hx(m), hx(x), hx(y))
        return "sub %s %s %s %s %s" % (rng.choice(forms), c, hx(m), hx(disguise(rng, x, m)), hx(disguise(rng, y, m)))
    if k < 66:
        # 2a = m + d
        x = rng.choice([(m + d) // 2, (m + d + 1) // 2, m // 2, m - 1, (m + 1) // 2, x]) % m
        if red:
            return "r_dbl %s %s" % (hx(m), hx(x))
        if rng.chance(1, 4):
            return "cl %s %s %s %s" % (c, hx(m), hx(disguise(rng, x, m)), hx(rng.bits(70)))
        return "dbl %s %s %s" % (c, hx(m), hx(disguise(rng, x, m)))
    if k < 70:
        if red:
            return "r_neg %s %s" % (hx(m), hx(x))
        return "neg %s %s %s %s" % (rng.choice(["v", "r"]), c, hx(m), hx(disguise(rng, x, m)))
    if k < 78:
        # k*m + d for multipliers of every size and both signs
        mult = rng.choice([1, 2, 3, (1 << 63), (1 << 64) - 1, 1 << 64, (1 << 64) + 1, (1 << 128) - 1, 1 << 128, rng.bits(rng.range(1, 64)) + 1,
                           rng.bits(rng.range(64, 200)) + 1, gen_mag(rng, rng.choice([1, 2, 3, 5])) + 1, m, m - 1, m + 1])
        v = mult * m + rng.choice([-1, 0, 0, 1, m - 1, -(m - 1), x])
        if rng.chance(1, 2):
            v = -v
        if red:
            return rng.choice(["r_transform %s %s", "r_is_zero %s %s"]) % (hx(m), hx(abs(v)))
        if rng.chance(1, 4):
            return "eq %s %s %s %s" % (c, hx(m), hx(v), hx(rng.choice([v % m, v % m - m, 0, v + m, v + 1])))
        return "reduce %s %s %s %s" % ("i" if v < 0 or rng.chance(1, 2) else "u", c, hx(m), hx(v))
    if k < 82:
        # powers of m-1 (= +-1), of 0 and 1, with every exponent shape
        b = rng.choice([m - 1, m - 1, -1, 0, 1, m, m + 1, p, q])
        e = gen_exp(rng, tier)
        if red:
            return "r_pow %s %s %s" % (hx(m), hx(abs(b)), hx(e))
        return "pow %s %s %s %s" % (c, hx(m), hx(b), hx(e))
    # common factors: inverse and division
    m, a, g = shared_factor_case(rng, cls, tier)
    c = ctor_for(rng, m)
    t = rng.below(10)
    if t == 0:
        a = a // g * rng.choice([1, 1, 3]) + rng.choice([0, 1])     # usually a unit of the same shape
        a = max(a, 1)
    if red:
        return "r_inv %s %s" % (hx(m), hx(a))
    a = disguise(rng, a, m)
    if t < 6:
        return "inv %s %s %s" % (c, hx(m), hx(a))
    if t < 9:
        return "div %s %s %s %s %s" % (rng.choice(forms), c, hx(m), hx(rng.choice([1, 5, g, m - 1, rng.bits(m.bit_length())])), hx(a))
    m2 = m if rng.chance(1, 2) else gen_modulus(rng, tier)
    return "mix %s %s %s %s %s" % (rng.choice(["div", "div_ar"]), hx(m), hx(m2), hx(5), hx(a))


def gen_clone(rng, tier):
    """clone / clone_from histories: the destination was in the same ring (another instance), in another ring of the same
    representation and word count (with the same and with a different normalisation shift), of another word count, or of
    another representation (one / two / many words)"""
    m1 = gen_modulus(rng, tier)
    nb = m1.bit_length()
    nw = (nb + W - 1) // W
    k = rng.below(8)
    if k == 0:
        m2 = m1                                                            # same modulus, another instance
    elif k == 1:
        m2 = rng.bits(nb) | (1 << (nb - 1))                                # same bit length: same word count, same shift
    elif k == 2:
        top = rng.range(1, W)                                              # same word count, another shift
        b2 = (nw - 1) * W + top
        m2 = rng.bits(b2) | (1 << (b2 - 1))
    elif k == 3:
        b2 = nw * W                                                        # same word count, no shift
        m2 = rng.bits(b2) | (1 << (b2 - 1))
    elif k == 4:
        n2 = max(1, nw + rng.choice([-2, -1, 1, 2, 5]))                    # another word count
        m2 = rng.bits(n2 * W - rng.below(W)) | (1 << ((n2 - 1) * W))
    elif k == 5:
        m1, m2 = rng.choice([((1 << 255) - 19, (1 << 256) - 189), ((1 << 256) - 189, (1 << 255) - 19),
                             ((1 << 192) - 237, (1 << 190) + 7), ((1 << 130) + 12, (1 << 191) - 19)])
    else:
        m2 = gen_modulus(rng, tier)                                        # anything, incl. one / two words vs many
    m2 = max(m2, 1)
    a = gen_operand(rng, m1, tier)
    b = gen_operand(rng, m2, tier)
    c = gen_operand(rng, m1, tier, other=a)
    return "clx %s %s %s %s %s %s" % (rng.choice(["f", "f", "f", "c"]), hx(m1), hx(m2), hx(a), hx(b), hx(c))


def gen_cases(rng, tier, n):
    out = []
    forms = ["vv", "vr", "rv", "rr", "av", "ar"]
    while len(out) < n:
        if rng.chance(2, 5):
            out.append(gen_boundary(rng, tier))
            continue
        m = gen_modulus(rng, tier)
        k = rng.below(100)
        c = ctor_for(rng, m)
        a = gen_operand(rng, m, tier)
        b = gen_operand(rng, m, tier, other=a)
        if rng.chance(1, 400):
            out.append("new0 %s" % rng.choice(["n", "w", "d", "r"]))
            continue
        if rng.chance(1, 40):
            out.append(gen_clone(rng, tier))
            continue
        if rng.chance(1, 150):
            # moduli around MIN_DWORD_GUESS_LEN = 300 words: lehmer_guess_dword / highest_dword_normalized run from 300 words on
            nwh = rng.choice([298, 299, 300, 300, 301, 302, 305])
            mh = rng.bits(W * (nwh - 1) + rng.choice([1, 33, 64, 64])) | (1 << (W * (nwh - 1))) | rng.below(2)
            ah = gcd_shape_operand(rng, mh)
            if rng.chance(1, 4):
                ah *= rng.choice([3, 5, 1 << 64, (1 << 64) + 1])
                mh *= 3
            out.append(rng.choice(["inv n %s %s" % (hx(mh), hx(ah)), "r_inv %s %s" % (hx(mh), hx(ah % mh)),
                                   "div %s n %s %s %s" % (rng.choice(forms), hx(mh), hx(rng.bits(200)), hx(ah))]))
            continue
        if k < 10:
            if rng.chance(1, 3):
                ty = rng.choice(sorted(PRIMS))
                lo, hi = PRIMS[ty]
                v = rng.choice([lo, hi, 0, 1, max(lo, min(hi, a)), max(lo, min(hi, m)), max(lo, min(hi, m - 1)), max(lo, -1), rng.range(lo, hi)])
                out.append("reduce %s %s %s %s" % (ty, c, hx(m), hx(v)))
            elif a < 0 or rng.chance(1, 2):
                out.append("reduce i %s %s %s" % (c, hx(m), hx(a)))
            else:
                out.append("reduce u %s %s %s" % (c, hx(m), hx(a)))
        elif k < 22:
            out.append("add %s %s %s %s %s" % (rng.choice(forms), c, hx(m), hx(a), hx(b)))
        elif k < 32:
            out.append("sub %s %s %s %s %s" % (rng.choice(forms), c, hx(m), hx(a), hx(b)))
        elif k < 44:
            out.append("mul %s %s %s %s %s" % (rng.choice(forms), c, hx(m), hx(a), hx(b)))
        elif k < 52:
            if m.bit_length() > 2 * W and rng.chance(1, 3):
                b = gcd_shape_operand(rng, m)
            out.append("div %s %s %s %s %s" % (rng.choice(forms), c, hx(m), hx(a), hx(b)))
        elif k < 56:
            out.append("neg %s %s %s %s" % (rng.choice(["v", "r"]), c, hx(m), hx(a)))
        elif k < 59:
            out.append("dbl %s %s %s" % (c, hx(m), hx(a)))
        elif k < 63:
            out.append("sqr %s %s %s" % (c, hx(m), hx(a)))
        elif k < 75:
            out.append("pow %s %s %s %s" % (c, hx(m), hx(a), hx(gen_exp(rng, tier))))
        elif k < 81:
            if m.bit_length() > 2 * W and rng.chance(1, 2):
                a = gcd_shape_operand(rng, m)
            out.append("inv %s %s %s" % (c, hx(m), hx(a)))
        elif k < 83:
            out.append("eq %s %s %s %s" % (c, hx(m), hx(a), hx(rng.choice([a, a + m, a - m, b, a + 1]))))
        elif k < 84:
            out.append("cl %s %s %s %s" % (c, hx(m), hx(a), hx(b)))
        elif k < 87:
            m2 = m if rng.chance(1, 2) else gen_modulus(rng, tier)
            what = rng.choice(["add", "sub", "mul", "div", "eq", "add_ar", "sub_rv", "mul_ar", "div_ar"])
            out.append("mix %s %s %s %s %s" % (what, hx(m), hx(m2), hx(a), hx(b)))
        else:
            ua, ub = abs(a), abs(b)
            r = rng.below(13)
            if r == 0:
                out.append("r_transform %s %s" % (hx(m), hx(ua)))
            elif r == 1:
                s = shift_of(m)
                t = rng.choice([0, (m - 1) << s, m << s, (m + 1) << s, ((m - 1) << s) + 1, (ua % m) << s, ((ua % m) << s) | 1, ua, (m << s) - 1, 1 << s,
                                ((m - 1) << s) | ((1 << s) >> 1)])
                out.append("r_check %s %s" % (hx(m), hx(t)))
            elif r == 2:
                out.append("r_is_zero %s %s" % (hx(m), hx(rng.choice([0, m, ua, 2 * m]))))
            elif r == 3:
                out.append("r_modulus %s" % hx(m))
            elif r == 4:
                # sums that hit the modulus exactly / by one
                ub = rng.choice([ub, (m - ua % m) % m, (m - ua % m + 1) % m, (m - ua % m - 1) % m])
                out.append("r_add %s %s %s" % (hx(m), hx(ua), hx(ub)))
            elif r == 5:
                out.append("r_sub %s %s %s" % (hx(m), hx(ua), hx(ub)))
            elif r == 6:
                out.append("r_mul %s %s %s" % (hx(m), hx(ua), hx(ub)))
            elif r == 7:
                ua = rng.choice([ua, m // 2, (m + 1) // 2, m // 2 + 1, m - 1])
                out.append("r_dbl %s %s" % (hx(m), hx(ua)))
            elif r == 8:
                out.append("r_neg %s %s" % (hx(m), hx(ua)))
            elif r == 9:
                out.append("r_sqr %s %s" % (hx(m), hx(ua)))
            elif r == 10:
                out.append("r_pow %s %s %s" % (hx(m), hx(ua), hx(gen_exp(rng, tier))))
            else:
                out.append("r_inv %s %s" % (hx(m), hx(ua)))
    return out
