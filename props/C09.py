"""C09 - bit operations follow infinite two's-complement semantics."""
import os
import sys
import core
from core import hx, gen_int, gen_mag, gen_words_len

# coq/gen/BitsFormsGen.v (Small/Large dispatch of the 16 TypedRepr bit-operator impls, the Big x primitive instance
# table, the operand handling of the operator-form macros, the buffer requests of the bit kernels) is regenerated from
# integer/src/{bits.rs,shift_ops.rs,helper_macros.rs} when this plug-in is imported, i.e. before the proof phase of every
# run (tools/translate.py is shared; it regenerates SignTables.v).  coq/theories/Int/BitsFormsGenProof.v proves the
# hand-written models equal to / sound for it.  Unparseable source is not an alarm: the previous copy stays (marked
# STALE), the status goes into the evidence and the correspondence run alone ties the models.
sys.path.insert(0, os.path.join(core.ROOT, "tools"))
try:
    import translate_c09_r3
    FORMS_GEN_STATUS = translate_c09_r3.generate(core.REPO, os.path.join(core.COQ, "gen"))
except Exception as _ex:  # the generator itself broke: same fallback as an unparseable source
    FORMS_GEN_STATUS = "unparsed generator-failed: %s" % str(_ex)[:200]
# round 4: coq/gen/BitsKernelsGen.v - the LOOP kernels of shift.rs / bits.rs / math.rs (shl_in_place, shr_in_place_with_carry,
# the zip loops of bitand/bitor/bitxor/and_not_large, the trailing_zeros / trailing_ones / shifted-by-one scans, the count_ones
# fold, are_slice_low_bits_nonzero, ones_word, shr_word) as Gallina folds, by the loop-to-fold translator of
# tools/translate_c01_r4.py (used as a library); Int/BitsKernelsGenProof.v proves each equal to the hand-written kernel.
try:
    import translate_c09_r4
    KERNELS_GEN_STATUS = translate_c09_r4.generate(core.REPO, os.path.join(core.COQ, "gen"))
    KERNELS_GEN_DETAIL = ["%s:%s" % (n, st.split(" ", 1)[0]) for n, st in translate_c09_r4.LAST_RESULTS]
except Exception as _ex:
    KERNELS_GEN_STATUS = "unparsed generator-failed: %s" % str(_ex)[:200]
    KERNELS_GEN_DETAIL = []

# round 5: coq/gen/BitsBodiesGen.v - the STRAIGHT-LINE bodies of shift_ops.rs (shl_one_spilled, shl_dword_spilled, shl_dword, shl_large_ref,
# shl_large, shr_dword, shr_large, shr_large_ref), bits.rs (with_bit_dword_spilled, with_bit_large, clear_high_bits_large,
# next_power_of_two_large, TypedRepr::{next_power_of_two, set_bit, clear_bit, clear_high_bits, split_bits}) and repr.rs (Repr::ones) by the typed
# symbolic executor of tools/translate_c09_r5.py: casts as explicit truncations, machine shifts with their width;
# Int/BitsBodiesGenProof.v proves each equal to the hand-written model, Int/BitsBodiesGenSpec.v composes with the specification.
try:
    import translate_c09_r5
    BODIES_GEN_STATUS = translate_c09_r5.generate(core.REPO, os.path.join(core.COQ, "gen"))
    BODIES_GEN_DETAIL = ["%s:%s" % (n, st.split(" ", 1)[0]) for n, st in translate_c09_r5.LAST_RESULTS]
except Exception as _ex:
    BODIES_GEN_STATUS = "unparsed generator-failed: %s" % str(_ex)[:200]
    BODIES_GEN_DETAIL = []


def extra_phase(tier, seed, exes, oracle):
    word = FORMS_GEN_STATUS.split(" ", 1)[0]
    kword = KERNELS_GEN_STATUS.split(" ", 1)[0]
    hist = {"translator_c09:BitsFormsGen:" + word: 1, "translator_c09:BitsKernelsGen:" + kword: 1}
    for d in KERNELS_GEN_DETAIL:
        hist["FRAGMENT:BitsKernelsGen:" + d] = 1
    bword = BODIES_GEN_STATUS.split(" ", 1)[0]
    hist["translator_c09:BitsBodiesGen:" + bword] = 1
    for d in BODIES_GEN_DETAIL:
        hist["FRAGMENT:BitsBodiesGen:" + d] = 1
    return {
        "evaluations": 0,
        "hist": hist,
        "nontrivial": [],
        "samples": [{"fragment": "coq/gen/BitsBodiesGen.v (tools/translate_c09_r5.py, typed symbolic executor over the parser of tools/translate_c01_r4.py, "
                                 "from integer/src/shift_ops.rs, bits.rs, repr.rs; casts as cast_u32 / cast_usize, machine shifts with their width)",
                     "status": BODIES_GEN_STATUS,
                     "tied_by": "C09_gen_shl_bodies, C09_gen_shr_bodies, C09_gen_bit_bodies, C09_gen_npt_ones_bodies, C09_gen_ref_bodies, C09_gen_ref_bodies2 (generated = hand-written models), "
                                "C09_gen_shift_bodies_spec, C09_gen_bit_bodies_spec (generated meets the specification); every << >> set_bit clear_bit "
                                "clear_high_bits split_bits next_power_of_two ones bit bit_len trailing_zeros trailing_ones count_ones count_zeros is_power_of_two case also runs through the generated bodies"
                                if BODIES_GEN_STATUS == "ok" else "correspondence run only for the functions listed unparsed (last good copy kept, marked STALE)"},
                    {"fragment": "coq/gen/BitsKernelsGen.v (tools/translate_c09_r4.py over the loop-to-fold translator tools/translate_c01_r4.py, "
                                 "from integer/src/math.rs, shift.rs, bits.rs)",
                     "status": KERNELS_GEN_STATUS,
                     "tied_by": "C09_gen_shift_kernels, C09_gen_logic_kernels, C09_gen_scan_kernels, C09_gen_count_lowbits_kernels "
                                "(generated = hand-written kernels); every heap-operand case also runs through the generated kernels"
                                if kword == "ok" else "correspondence run only for the functions listed unparsed (last good copy kept, marked STALE)"},
                    {"fragment": "coq/gen/BitsFormsGen.v (tools/translate_c09_r3.py from integer/src/bits.rs, shift_ops.rs, helper_macros.rs)",
                     "status": FORMS_GEN_STATUS,
                     "tied_by": "C09_gen_bitand/bitor/bitxor/and_not_is_model, C09_gen_dispatch_correct, C09_gen_prim_table_ok, "
                                "C09_prim_forms_table_correct, C09_gen_form_arms_ok, C09_gen_shift_arms_ok, C09_bit_kernel_requests_exact, "
                                "C09_shl_large_in_place_test" if word == "ok"
                                else "correspondence run only (source not parsed; previous copy marked STALE)"}],
        "failures": [],
    }


# every case runs against the 64-bit build and the force_bits="32" build; `lay.` cases report the word size and the
# layout of the result, so the oracle runs the word-level models at the word size of each build
CONFIGS = ["default", "w32"]


def canon_answer(ans):
    """the value part of an answer must agree between the builds; the layout tokens (L<bits>:...) are per build"""
    return " ".join(t for t in ans.split() if not t.startswith("L"))


ID = "C09"
READY = True
ORACLE = "c09"
HARNESS_BIN = "c09"
NCASES = {"quick": 6000, "thorough": 150000}
CASE_TIMEOUT = {"quick": 20, "thorough": 60}

LEVEL_TEXT = ("Machine-checked Coq theorems (119 pinned, all closed under the global context), for every word size w > 0 (w >= 8 where "
              "C01's word-level add/sub theorems are cited), every operand "
              "length, sign, bit position and shift count: (1) the sign-case tables of & | ^ ! >> regenerated from the Rust source on "
              "every run equal Coq's infinite two's-complement operations on Z; (2) word-level as-is models (little-endian word lists, "
              "inline double word / heap buffer dispatch, Repr::from_buffer normalisation) of bitand_large / bitor_large / bitxor_large "
              "/ and_not_large on unequal lengths (kept buffer, truncation, tail push), their *_large_dword forms and the "
              "BitAnd/BitOr/BitXor/AndNot dispatch for all four ownership combinations compute Z.land / Z.lor / Z.lxor / Z.ldiff and "
              "return a normalised value; (3) shl_in_place / shr_in_place (carry between words), shl_dword with both spill paths, "
              "shl_large (in place or copied: same result), shr_dword / shr_large / shr_large_ref compute Z.shiftl / Z.shiftr; "
              "are_dword_low_bits_nonzero / are_slice_low_bits_nonzero equal the predicate of the regenerated Shr table, so the as-is "
              "IBig >> equals that table and is floor division by 2^n; impl_ibig_bitand/bitor/bitxor run over the word kernels equal "
              "the regenerated tables; (4) bit (UBig and the two's-complement bit of a negative IBig), set_bit / clear_bit incl. spill "
              "to a longer buffer, clear_high_bits, split_bits, bit_len, count_ones, count_zeros, is_power_of_two, next_power_of_two "
              "(incl. overflow into a new word), UBig::ones, trailing_zeros, trailing_ones (incl. trailing_ones_neg and the "
              "shifted-by-one scan) each equal their specification, which is characterised on Z.testbit. "
              "Round 3: (5) the typed view of a magnitude is CANONICAL (same value + representation invariant => the same Repr word for "
              "word), hence every ownership arm (val/ref x val/ref) of & | ^, both Assign forms, x << n / &x << n / x << &n / x <<= n "
              "(shifted in place or copied), the >> forms, set_bit / clear_bit / clear_high_bits / ones / next_power_of_two build "
              "exactly to_brepr of the two's-complement result; (6) the primitive-operand forms (big OP prim, &big OP prim, prim OP big, "
              "prim OP &big, &prim variants, OP= prim) as generated by impl_binop_with_primitive / impl_commutative_binop_with_primitive / "
              "impl_binop_assign_with_primitive: <Big>::from(prim), the big operation with the ownership the macro arm passes, "
              ".try_into().unwrap() return Z.land / Z.lor / Z.lxor of the operand values for EVERY primitive width, and the instances "
              "that declare `-> $t` (table regenerated from bits.rs) are exactly `&` with an unsigned primitive, whose result always "
              "fits - so no primitive form can panic; (7) the Small/Large dispatch of the 16 TypedRepr/TypedReprRef bit-operator impls, "
              "regenerated from bits.rs on every run as Gallina functions, computes the two's-complement operation as a canonical Repr "
              "for all four ownership combinations (proved directly over the generated definitions, tolerant of semantics-preserving "
              "rewrites) and agrees with the hand-written dispatch; (8) capacities: the buffers the allocating kernels hand to "
              "from_buffer (shl_one_spilled, shl_dword_spilled, shl_large_ref, with_bit_dword_spilled, with_bit_large) never exceed the "
              "requests regenerated from the source (hence the capacity Buffer::allocate reserves), zero counts do not underflow, the "
              "in-place test of shl_large is sufficient for push + push_zeros_front, and whenever C17's storage machine (proved never "
              "to trip a capacity assertion) returns a Repr for << or set_bit, that Repr is word for word the C09 kernel's result. "
              "Every case of the correspondence run is evaluated by the extracted word-level models at word sizes 16, 32 and 64 (value) "
              "and, for the cases that report a layout, at the word size of the build under test - the default 64-bit build AND the "
              "force_bits=\"32\" build - comparing inline/heap, length and capacity bounds of the real Repr (model fidelity "
              "asis=same|diff, must be 100 %). "
              "Round 4: (9) the LOOP kernels themselves are regenerated from shift.rs / bits.rs / math.rs on every run by a loop-to-fold "
              "translator (coq/gen/BitsKernelsGen.v: shl_in_place, shr_in_place_with_carry incl. the reversed iteration, shr_word, ones_word, "
              "the zip loops of bitand_large / bitor_large / bitxor_large / and_not_large with truncate / push_slice, the while scans of "
              "trailing_zeros_large / trailing_ones_large / trailing_zeros_large_shifted_by_one with fuel, the count_ones fold, "
              "are_slice_low_bits_nonzero) and each generated function is PROVED equal to the hand-written kernel for all inputs, so all "
              "earlier theorems are theorems about the translated code and an edit of a loop body breaks an obligation; (10) the tie to "
              "C17's storage machine now also covers >> (all forms), clear_bit, | and ^ (double word into a buffer, kept buffer + pushed "
              "tail, every ownership arm) and & (lowest double word, truncate): whatever Repr the capacity-checked machine returns is "
              "word for word the kernel's; (11) the IBig tables are closed at word level by citing C01: sub_one / add_one "
              "(add::sub_one_in_place / add_one_in_place, add_dword), Not for IBig, Repr::neg and the IBig subtraction inside Shr for "
              "IBig are the word-level models of C01, and the complete & | ^ ! >> on (sign, words) equal Z.land / Z.lor / Z.lxor / "
              "Z.lnot / Z.shiftr with a normalised result; (12) shift counts and positions beyond the operand (2^32 + k, 2^48 + k, "
              "2^63 + k, usize::MAX - k) have constant specifications (theorems), the word-level models never form 2^n, and the run "
              "generates such counts for every >> form, bit, clear_bit, clear_high_bits, split_bits and << of zero. Every case with heap "
              "operands is also run through the regenerated kernels and the word-level IBig tables. "
              "Round 5: (13) the STRAIGHT-LINE bodies around the loops are regenerated from the source on every run as well "
              "(coq/gen/BitsBodiesGen.v by the typed symbolic executor tools/translate_c09_r5.py: shl_one_spilled, shl_dword_spilled, "
              "shl_dword, shl_large_ref, shl_large with the capacity test, shr_dword, shr_large, shr_large_ref incl. the slice match, "
              "with_bit_dword_spilled, with_bit_large, clear_high_bits_large, next_power_of_two_large, TypedRepr::{next_power_of_two, "
              "set_bit, clear_bit, clear_high_bits, split_bits}, TypedReprRef::{bit, bit_len, are_low_bits_nonzero, is_power_of_two, trailing_zeros, trailing_ones, count_ones, count_zeros, trailing_ones_neg}, are_dword_low_bits_nonzero, Repr::ones), with every `as u32` / `as usize` cast as an explicit "
              "truncation (cast_u32 = mod 2^32, cast_usize = mod 2^uw) and every << >> on a Word / DoubleWord carrying its width "
              "(count modulo the width, result truncated); each generated body is PROVED equal to the hand-written model for every "
              "word size with 2w < 2^32 and 2w < 2^uw - which needs the count to be provably in range at each cast / shift (guards "
              "rhs < DWORD_BITS, rhs <= leading_zeros, % WORD_BITS) - and, composed with the earlier theorems, proved to compute "
              "Z.shiftl / Z.shiftr / set / clear / mask / split / next power of two / 2^n - 1 as a normalised Repr; the seeded "
              "truncation of round 4 (shr_dword's count cast to u32) is refuted as a definition (C09_shr_dword_trunc32_refuted). Every "
              "<< >> set_bit clear_bit clear_high_bits split_bits next_power_of_two ones case of the run also goes through the generated bodies.")
LEVEL_NOTE = ("Trusted: Coq kernel, translator dictionaries (tools/translate.py: bitand->Z.land ...; tools/translate_c09_r3.py: "
              "Repr::from_dword / lowest_dword / *_large(_dword) / len comparisons rendered as the kernels of Int/BitsKernels.v), "
              "extraction incl. FastZ.v directives, zarith, harness. Proved about hand-written models of the kernels, tied to the code "
              "by the run (value of every answer at three word sizes, layout at the word size of each of two builds; the kernels are "
              "transcribed by hand from bits.rs / shift.rs / shift_ops.rs / math.rs / repr.rs) and by the regenerated dispatch / "
              "primitive table / form-macro arms / buffer requests. Machine-integer primitives (& | ^ ! << >> "
              "on Word/DoubleWord, leading_zeros, count_ones, trailing_zeros, is_power_of_two, checked_next_power_of_two) are modelled "
              "by the Z function of the same meaning. Value level only (other properties' subject): <Big>::from(primitive) and TryFrom "
              "(C06), the exact capacity field of heap results (C17; the run checks len <= cap <= len + len/4 + 4). Round 4: the loop "
              "kernels are no longer only hand-transcribed (regenerated + proved equal); sub_one / add_one / Not / negation inside the "
              "IBig tables are C01's word-level models (cited theorems, w >= 8). Round 5: the straight-line bodies of shift_ops.rs "
              "(shl_dword .. shr_large_ref), set_bit / clear_bit / clear_high_bits / split_bits / next_power_of_two(_large) / Repr::ones "
              "are regenerated with explicit cast / shift widths and proved equal to the hand models. Still atoms of the translators "
              "(hand-transcribed, tied by the run only): shr_in_place_one_word (unsafe pointer copy), the skip_while iterator idiom of "
              "next_power_of_two_large and its checked_add(..).and_then(..) (recognised literally, rendered as `zero every word below "
              "the top, carry = one of them was non-zero`), math::shl_dword / ones_dword / ceil_div / split_dword / double_word, "
              "leading_zeros / checked_next_power_of_two, the final transmute of Repr::ones (rendered as the heap constructor), Buffer "
              "methods as list operations (capacity: C17); usize + - * / % are taken in Z without overflow (allocation sizes); and_not "
              "in C17's machine; math::bit_len (literal match of its one-line body), the iterator idioms iter().map(count_ones / count_zeros).sum() and iter().all(== 0) of the typed methods (literal match; round 4 regenerates the count_ones fold), trailing_zeros / trailing_ones / count_ones / is_power_of_two of machine integers (Z functions of the same meaning). "
              "A 16-bit build cannot be made (force_bits=\"16\" fails const evaluation in integer/src/mul/ntt.rs): w = 16 is tied by "
              "the theorems (C09_w16_instances) and by the value comparison at w = 16 only.")
TECHNIQUE = ("Coq proofs over source-regenerated sign tables, dispatch arms, primitive-instance table, buffer requests and LOOP KERNELS "
             "(loop-to-fold translation, generated = hand-written model proved for all inputs), and over hand-transcribed word-level as-is "
             "models; canonical-representation theorem; refinement to C17's storage machine (<<, >>, set/clear_bit, & | ^); IBig tables "
             "closed at word level by citing C01's theorems; straight-line bodies regenerated by a typed symbolic executor with explicit cast and "
             "shift widths (generated = hand model = specification); extracted-model correspondence run against a 64-bit and a 32-bit build")
RULE = ("cases = operation x operands drawn from word-count classes {0,1,2,3,4,5,8,T-1,T,T+1 for the size thresholds} of 64-bit words and "
        "{1..7} of 32-bit words x bit patterns {all-ones, 2^k, 2^k+-1, low words zero, top word 1/MAX, sparse, 0/MAX words, random} x "
        "both signs x all four by-value/by-reference operand combinations x both Assign forms; primitive operands of every type "
        "u8..u128/usize/i8..i128/isize in all ten forms (big OP prim, &big OP prim, big OP &prim, &big OP &prim, prim OP big, prim OP &big, "
        "&prim OP big, &prim OP &big, OP= prim, OP= &prim); shifts by value / reference / &usize count / Assign; "
        "bit positions / shift counts from {0, 1, multiples of 32 and 64 +-1, bit length +-1, up to length+130, the word index equal to "
        "the buffer capacity} and, for every >> form, bit, clear_bit, clear_high_bits, split_bits and << of zero, the usize counts "
        "2^32 + k, 2^33 + k, 2^48 + k, 2^63 + k, usize::MAX - k (k in 0..130) on inline and heap operands. Half of the big-valued cases also report the Repr layout. Every case runs against the default and the "
        "force_bits=32 build. A case is non-trivial when the oracle evaluated the Coq specification on it and at least one operand is "
        "non-zero; distinct = distinct case texts.")
EXPLANATION = ("Theorems (coq/props/C09.v): the sign-case tables regenerated from bits.rs/shift_ops.rs equal Z.land/Z.lor/Z.lxor/"
               "Z.lnot/Z.shiftr for all signs and magnitudes; word-level models of every magnitude kernel (Int/BitsKernels.v) equal "
               "the Z operation / the BitsSpec specification for every word size and return normalised representations; the "
               "representation is canonical, so all ownership arms, Assign forms and primitive-operand forms (Int/BitsForms.v) build "
               "the identical Repr / value; the dispatch arms, the primitive-instance table, the form-macro arms and the buffer requests "
               "are re-translated from the source on every run (coq/gen/SignTables.v, coq/gen/BitsFormsGen.v) and the theorems are "
               "proved over the generated definitions; the specifications are characterised on Z.testbit. Tie to the code: every case "
               "is also run through the extracted word-level models (hand-written and regenerated dispatch) at three word sizes and "
               "compared with the answers of a 64-bit and a 32-bit build, including the layout of the result. Round 4: the loop kernels "
               "are regenerated from the source (coq/gen/BitsKernelsGen.v) and proved equal to the hand-written ones; C17's storage machine "
               "is refined for >> / clear_bit / & | ^ as well; the IBig tables run on (sign, words) throughout using C01's word-level "
               "add_one / sub_one / neg / sub (cited theorems); counts beyond 2^32 are generated and judged by constant specifications. "
               "Round 5: the straight-line bodies of << >> set_bit clear_bit clear_high_bits split_bits next_power_of_two ones are "
               "regenerated too (coq/gen/BitsBodiesGen.v), casts and machine shifts with their width, proved equal to the hand models "
               "and to the specification; the run evaluates them on every such case.")
TRUSTED_BASE = [
    "Coq 8.16.1 kernel (coqc; vm_compute only in the non-vacuity Examples of the word-level theorems)",
    "tools/translate.py renders the macro bodies impl_ibig_bit*/Not/Shr faithfully; dictionary: bitand->Z.land, bitor->Z.lor, bitxor->Z.lxor, and_not->Z.ldiff, sub_one->Z.pred, add_one->Z.succ, >> on magnitudes -> Z.shiftr, are_low_bits_nonzero -> (m mod 2^n <> 0); the entries for bitand/bitor/bitxor/and_not/>>/are_low_bits_nonzero are justified by theorems about the word-level models (C09_repr_bitand ... C09_are_low_bits_nonzero), sub_one/add_one belong to C01",
    "tools/translate_c09_r3.py renders the 16 TypedRepr bit-operator impls, the impl_bit_ops_* instance lists, the operand handling of the helper_macros.rs form macros / impl_shifts and the Buffer::allocate / ensure_capacity arguments faithfully (tiny grammar; anything else is reported `unparsed`, the last good copy stays and the run alone ties the models)",
    "coq/theories/Int/BitsKernels.v is a faithful hand transcription of the kernels of integer/src/bits.rs, shift.rs, shift_ops.rs (mod repr), math.rs (ones_word, ones_dword, shl_dword, shr_word) and repr.rs (from_buffer, ones); coq/theories/Int/BitsForms.v of the operator-form macros; machine-integer primitives are modelled by the Z function of the same meaning; checked on every run by comparing the extracted models with the implementation on every case (asis=same|diff)",
    "extraction: ExtrOcamlBasic + ExtrOcamlZBigInt + the Extract Constant directives of coq/extract/FastZ.v (Z.land/lor/lxor/ldiff/lnot/testbit/log2/... -> zarith)",
    "OCaml 4.13.1 + zarith 1.12, oracle/common.ml, oracle/driver_c09.ml; Rust harness harness/src/bin/c09.rs; verif_hooks::repr_layout_ubig/ibig and WORD_BITS report the layout of a result",
    "the oracle runs the word-level models at w = 16, 32, 64 for the value of every answer and at the word size of the build (64 and 32) for the layout; a 16-bit build is not run (no such CONFIGS entry), w = 16 is covered by the theorems (universally quantified w) and by the value comparison",
    "C17's storage machine coq/theories/Int/StorageModel.v (definitions only) is used as the statement of the capacity discipline in C09_shl/shr/set_bit/clear_bit/orx/and_machine_is_kernel / C09_bit_kernel_requests_suffice",
    "tools/translate_c09_r4.py + the loop-to-fold translator tools/translate_c01_r4.py render the loop kernels of shift.rs / bits.rs / math.rs faithfully: for over iter_mut().zip(iter()) and over iter_mut().rev() as structural recursion, `while c { if d { break; } s }` as a fuelled loop on `c && !d`, `x OP= e` as `x = x OP e`, Buffer truncate / push_slice as firstn / ++, ensure_capacity dropped (C17), the idioms iter().map(f).sum() and iter().any(p) as explicit loops, Word/usize casts as Z.to_nat / Z.of_nat; atoms: split_dword, double_word, Word::trailing_zeros / trailing_ones / count_ones, `!` on a Word, Repr::from_buffer; anything else is reported unparsed (last good copy kept)",
    "tools/translate_c09_r5.py renders the straight-line bodies of shift_ops.rs / bits.rs / repr.rs faithfully: let / shadowing / tuple patterns, if / else-if on usize comparisons (same operator), early return, Buffer mutation threaded through if / match arms, match on Small/Large, on [] / &[w] / &[lo, hi] / _ and on Option; Buffer allocate (request dropped: C17) / push / push_zeros / push_slice / push_zeros_front / erase_front / truncate / push_repeat::<{Word::MAX}> / push_resizing as list operations, `buffer[i] OP= e` and last_mut() as upd; `as u32` -> mod 2^32, `as usize` -> mod 2^uw, `as _` from the callee's parameter type read from math.rs, << >> on Word/DoubleWord with the count modulo the width and the result truncated, checked_shr(n).unwrap_or(v); usize arithmetic in Z without overflow; atoms: shl_in_place / shr_in_place (round-4 kernels), math::shl_dword, ones_word, ones_dword, ceil_div, split_dword, double_word, leading_zeros, checked_next_power_of_two, from_word / from_dword / from_buffer, the skip_while / checked_add idioms of next_power_of_two_large (literal match) and the transmute of Repr::ones; anything else is reported unparsed per function (last good copy kept, STALE)",
    "C01's word-level models Int/RingAdd.v (add_one_in_place, sub_one_in_place) and Int/RingOps.v (add_dword, repr_add, ibig_sub_asis, neg) are used as the models of sub_one / add_one / Repr::neg / IBig subtraction inside the C09 tables; their fidelity to add.rs / add_ops.rs is C01's obligation (C01_gen_add_one_word_dword regenerates add_one_in_place / sub_one_in_place)",
    "for shift counts / positions above 2^24 the driver uses the constant specifications justified by C09_shr_beyond_len / C09_bitops_beyond_len / C09_testbit_beyond_len_neg instead of evaluating Z.shiftr / 2^n, and skips the value-level table (which forms m mod 2^n); the word-level models run unchanged",
]
ASSUMPTIONS = [
    "UBig::from_words / as_words / IBig::from_parts / as_sign_words transport values faithfully (used by the harness instead of any parser)",
    "left shifts and set_bit are generated with counts below 2^20 only (a larger non-zero result cannot be allocated); >> / bit / clear_bit / clear_high_bits / split_bits are generated over the whole usize range",
    "usize / isize are 64 bits wide on the machine that runs the harness (also for the force_bits=32 build); the theorems hold for any width",
]


def operand(rng, tier, signed=True):
    """an operand from the 64-bit word-count classes, or (1 in 4) from the 32-bit ones: 1, 2, 3 words of the w32 build"""
    if rng.chance(1, 4):
        v = gen_mag(rng, rng.choice([1, 2, 2, 3, 3, 4, 5, 6, 7]), 32)
        return -v if signed and rng.chance(1, 2) else v
    return gen_int(rng, tier) if signed else abs(gen_int(rng, tier))


def positions(rng, a):
    nb = abs(a).bit_length()
    c = [0, 1, 2, 31, 32, 33, 63, 64, 65, 95, 96, 97, 127, 128, 129, 191, 192, 193, nb - 1, nb, nb + 1, nb + 31, nb + 32, nb + 33,
         nb + 63, nb + 64, nb + 65, nb + 130, 2 * nb + 7]
    if nb > 64:
        c += [64 * rng.range(1, nb // 64), 64 * rng.range(1, nb // 64) + rng.choice([-1, 1]), rng.below(nb),
              32 * rng.range(1, nb // 32), 32 * rng.range(1, nb // 32) + rng.choice([-1, 1])]
    # the word index that equals the capacity Buffer::allocate gives a value of this length (set_bit beyond the buffer)
    for wb in (64, 32):
        nw = (nb + wb - 1) // wb
        c += [wb * (nw + nw // 8 + 2) + rng.below(wb), wb * (nw + nw // 8 + 2 + rng.choice([-1, 1]))]
    # position of the lowest set bit and its neighbours
    if a != 0:
        tz = (abs(a) & -abs(a)).bit_length() - 1
        c += [tz, tz + 1, max(0, tz - 1)]
    p = rng.choice(c)
    return max(0, p)


def huge_count(rng):
    """usize counts far beyond any operand: 2^32 + k, 2^33 + k, 2^48 + k, 2^63 + k, usize::MAX - k (k = 0..130): a count
    whose low 32 bits are a small number must not be taken for that small number"""
    k = rng.choice([0, 1, 2, 3, 31, 32, 33, 63, 64, 65, 96, 127, 128, 129, 130, rng.below(131)])
    r = rng.below(5)
    if r == 4:
        return (1 << 64) - 1 - k
    return (1 << [32, 33, 48, 63][r]) + k


def huge_operand(rng, tier, signed=True):
    """inline (1 or 2 words of either build) and heap operands alike"""
    r = rng.below(6)
    if r == 0:
        v = rng.choice([1, 5, (1 << 32) - 1, 1 << 63, (1 << 64) - 1])
    elif r == 1:
        v = rng.choice([1 << 64, (1 << 100), (1 << 127) + 1, (1 << 128) - 1, gen_mag(rng, 2)])
    elif r == 2:
        v = rng.choice([1 << 128, (1 << 192) + 1, (1 << 192) - 1, gen_mag(rng, 3)])
    else:
        v = abs(operand(rng, tier))
    return -v if signed and rng.chance(1, 2) else v


OWN = ["", "_vr", "_rv", "_rr"]
OWN_AS = OWN + ["_as", "_asr"]
PFORMS = ["bv", "rv", "bvr", "rvr", "pb", "pr", "rpb", "rpr", "as", "asr"]
SHIFT_FORMS = ["", "_r", "_pr", "_rpr", "_assign", "_assign_pr"]
UNSIGNED_T = {"u8": 8, "u16": 16, "u32": 32, "u64": 64, "usize": 64, "u128": 128}
SIGNED_T = {"i8": 8, "i16": 16, "i32": 32, "i64": 64, "isize": 64, "i128": 128}


def lay(rng, text):
    """half of the big-valued cases also ask for the layout of the result (Repr compared word for word)"""
    return "lay." + text if rng.chance(1, 2) else text


def gen_cases(rng, tier, n):
    out = []
    while len(out) < n:
        k = rng.below(100)
        if k < 20:
            a = operand(rng, tier)
            # second operand: often of a related length / related value
            r = rng.below(6)
            if r == 0:
                b = a + rng.choice([-1, 1, 0])
            elif r == 1:
                b = -a + rng.choice([-1, 1, 0])
            elif r == 2:
                b = gen_mag(rng, max(1, (abs(a).bit_length() + 63) // 64)) * rng.choice([1, -1])
            else:
                b = operand(rng, tier)
            out.append(lay(rng, "%s%s %s %s" % (rng.choice(["and", "or", "xor"]), rng.choice(OWN_AS), hx(a), hx(b))))
        elif k < 29:
            a, b = operand(rng, tier, False), operand(rng, tier, False)
            if rng.chance(1, 4):
                b = a ^ rng.choice([1, 1 << 64, (1 << 128) - 1, a >> 64 << 64])  # results that shrink to fewer words
            out.append(lay(rng, "%s%s %s %s" % (rng.choice(["uand", "uor", "uxor"]), rng.choice(OWN_AS), hx(a), hx(b))))
        elif k < 37:
            base = rng.choice(["and_ui", "and_iu", "or_ui", "or_iu", "xor_ui", "xor_iu"])
            sfx = rng.choice(OWN if base in ("or_ui", "xor_ui") else OWN_AS)
            u, i = operand(rng, tier, False), operand(rng, tier)
            out.append(lay(rng, "%s%s %s %s" % (base, sfx, hx(u), hx(i)) if base.endswith("_ui") else "%s%s %s %s" % (base, sfx, hx(i), hx(u))))
        elif k < 44:
            ty = rng.choice(sorted(UNSIGNED_T))
            bits = UNSIGNED_T[ty]
            p = rng.choice([0, 1, (1 << bits) - 1, 1 << (bits - 1), rng.bits(bits), rng.bits(bits)])
            f, form = rng.choice(["and", "or", "xor"]), rng.choice(PFORMS)
            if rng.chance(1, 2):
                out.append(lay(rng, "pu.%s.%s %s %s %s" % (f, form, ty, hx(operand(rng, tier, False)), hx(p))))
            else:
                out.append(lay(rng, "pi.%s.%s %s %s %s" % (f, form, ty, hx(operand(rng, tier)), hx(p))))
        elif k < 48:
            ty = rng.choice(sorted(SIGNED_T))
            bits = SIGNED_T[ty]
            p = rng.choice([0, 1, -1, (1 << (bits - 1)) - 1, -(1 << (bits - 1)), rng.bits(bits - 1), -rng.bits(bits - 1)])
            out.append(lay(rng, "ps.%s.%s %s %s %s" % (rng.choice(["and", "or", "xor"]), rng.choice(PFORMS), ty, hx(operand(rng, tier)), hx(p))))
        elif k < 52:
            out.append(lay(rng, "%s %s" % (rng.choice(["not", "not_r"]), hx(operand(rng, tier)))))
        elif k < 66:
            if rng.chance(1, 5):
                # counts at and beyond 2^32: >> gives 0 / -1 (floor); << only of zero (anything else cannot be allocated)
                r = rng.below(10)
                if r == 0:
                    out.append(lay(rng, "%s%s 0 %x" % (rng.choice(["shl", "ushl"]), rng.choice(SHIFT_FORMS), huge_count(rng))))
                elif r < 6:
                    out.append(lay(rng, "shr%s %s %x" % (rng.choice(SHIFT_FORMS), hx(huge_operand(rng, tier)), huge_count(rng))))
                elif r < 8:
                    out.append(lay(rng, "ushr%s %s %x" % (rng.choice(SHIFT_FORMS), hx(huge_operand(rng, tier, False)), huge_count(rng))))
                else:
                    a = huge_operand(rng, tier)
                    op = rng.choice(["bit", "ubit", "clear_bit", "clear_high_bits", "split_bits"])
                    out.append("%s %s %x" % (op, hx(a if op == "bit" else abs(a)), huge_count(rng)))
                continue
            a = operand(rng, tier)
            op = rng.choice(["shl", "shr", "shr"]) + rng.choice(SHIFT_FORMS)
            out.append(lay(rng, "%s %s %x" % (op, hx(a), positions(rng, a))))
        elif k < 72:
            a = operand(rng, tier, False)
            out.append(lay(rng, "%s%s %s %x" % (rng.choice(["ushl", "ushr"]), rng.choice(SHIFT_FORMS), hx(a), positions(rng, a))))
        elif k < 78:
            a = operand(rng, tier)
            if rng.chance(1, 2):
                out.append("bit %s %x" % (hx(a), positions(rng, a)))
            else:
                out.append("ubit %s %x" % (hx(abs(a)), positions(rng, a)))
        elif k < 81:
            a = operand(rng, tier)
            out.append(rng.choice(["bit_len %s" % hx(a), "ubit_len %s" % hx(abs(a))]))
        elif k < 86:
            a = operand(rng, tier, False)
            out.append(lay(rng, "%s %s %x" % (rng.choice(["set_bit", "clear_bit"]), hx(a), positions(rng, a))))
        elif k < 92:
            a = operand(rng, tier)
            r = rng.below(4)
            if r == 1:
                # low word exactly 1 (or 0/2/3) under zero words: the shifted-by-one scan of trailing_ones_neg restarts at word 1
                a = (abs(a) << rng.choice([32, 64, 96, 128, 192, 193, 255])) | rng.choice([1, 1, 1, 0, 2, 3])
                a = -a if rng.chance(2, 3) else a
            if r == 0:
                # low part all ones / zeros to stress the word scans
                low = rng.choice([32, 33, 64, 65, 96, 127, 128, 129, 192, 200])
                a = (abs(a) << low) | ((1 << low) - 1) if rng.chance(1, 2) else abs(a) << low
                a = a if rng.chance(1, 2) else -a
            op = rng.choice(["utz", "uto", "tz", "to", "count_ones", "count_zeros"])
            out.append("%s %s" % (op, hx(abs(a) if op[0] in "uc" else a)))
        elif k < 96:
            a = operand(rng, tier, False)
            out.append(lay(rng, "%s %s %x" % (rng.choice(["split_bits", "clear_high_bits"]), hx(a), positions(rng, a))))
        elif k < 98:
            a = operand(rng, tier, False)
            if rng.chance(1, 3) and a:
                a = 1 << (a.bit_length() - 1)
                a += rng.choice([0, 0, 1, -1])
            elif rng.chance(1, 3) and a.bit_length() > 64:
                # a power of two in the top word plus ONE bit in a single lower word (the word just below the top, word 0, or any):
                # the all-zero scan of is_power_of_two / the carry of next_power_of_two_large must look at every word below the top
                top = a.bit_length() - 1
                wsz = rng.choice([32, 64])
                nw = top // wsz
                j = rng.choice([nw - 1, nw - 1, 0, rng.below(nw)]) if nw > 0 else 0
                a = (1 << top) | (1 << (j * wsz + rng.below(wsz))) if nw > 0 else a
            op = rng.choice(["is_pow2", "next_pow2"])
            out.append("%s %s" % (op, hx(max(a, 0))) if op == "is_pow2" else lay(rng, "%s %s" % (op, hx(max(a, 0)))))
        else:
            out.append(lay(rng, "ones %x" % rng.choice([0, 1, 31, 32, 33, 63, 64, 65, 95, 96, 97, 127, 128, 129, 191, 192, 193, rng.below(1000)])))
    return out
