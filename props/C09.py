"""C09 - bit operations follow infinite two's-complement semantics."""
import core
from core import hx, gen_int, gen_mag, gen_words_len

ID = "C09"
READY = True
ORACLE = "c09"
HARNESS_BIN = "c09"
NCASES = {"quick": 6000, "thorough": 150000}
CASE_TIMEOUT = {"quick": 20, "thorough": 60}

LEVEL_TEXT = ("Machine-checked Coq theorems: the sign-case tables of & | ^ ! >> (regenerated from the Rust source on every run) equal "
              "Coq's infinite two's-complement operations on Z for all signs and magnitudes; the specifications of bit tests, "
              "trailing/counting functions, split/clear, power-of-two functions are characterised by theorems on Z.testbit. The "
              "word-level kernels under the tables are tied to these specifications by a correspondence run against the OCaml "
              "extraction of the same definitions.")
LEVEL_NOTE = ("Trusted: Coq kernel, translator dictionary (bitand->Z.land ...), extraction incl. FastZ.v directives, zarith, harness. "
              "Word-loop kernels (bitand_large, shl_in_place, ...) are modelled at value level, not proved; they are compared on every run.")
TECHNIQUE = "Coq proof over source-regenerated sign tables + extracted-spec correspondence run"
RULE = ("cases = operation x operands drawn from word-count classes {0,1,2,3,4,5,8,T-1,T,T+1 for the size thresholds} x "
        "bit patterns {all-ones, 2^k, 2^k+-1, low words zero, top word 1/MAX, sparse, 0/MAX words, random} x both signs; "
        "bit positions / shift counts from {0, 1, multiples of the word size +-1, bit length +-1, up to length+130}. "
        "A case is non-trivial when the oracle evaluated the Coq specification on it and at least one operand is non-zero; "
        "distinct = distinct case texts.")
EXPLANATION = ("Theorems (coq/props/C09.v): the sign-case tables regenerated from bits.rs/shift_ops.rs equal Z.land/Z.lor/Z.lxor/"
               "Z.lnot/Z.shiftr for all signs and magnitudes; the specifications of the counting/splitting functions are "
               "characterised on Z.testbit. Tie to the code: tables are re-translated from the source on every run; every "
               "other operation is compared with the extracted specification on generated inputs.")
TRUSTED_BASE = [
    "Coq 8.16.1 kernel (coqc; vm_compute not used in C09 proofs)",
    "tools/translate.py renders the macro bodies impl_ibig_bit*/Not/Shr faithfully; dictionary: bitand->Z.land, bitor->Z.lor, bitxor->Z.lxor, and_not->Z.ldiff, sub_one->Z.pred, add_one->Z.succ, >> on magnitudes -> Z.shiftr, are_low_bits_nonzero -> (m mod 2^n <> 0)",
    "extraction: ExtrOcamlBasic + ExtrOcamlZBigInt + the Extract Constant directives of coq/extract/FastZ.v (Z.land/lor/lxor/ldiff/lnot/testbit/log2/... -> zarith)",
    "OCaml 4.13.1 + zarith 1.12, oracle/common.ml, oracle/driver_c09.ml; Rust harness harness/src/bin/c09.rs",
    "magnitude-level kernels (word loops of bitand_large etc.) are modelled by their Z-level meaning and tied by the correspondence run only",
]
ASSUMPTIONS = [
    "UBig::from_words / as_words / IBig::from_parts / as_sign_words transport values faithfully (used by the harness instead of any parser)",
    "usize shift counts and bit indices stay below 2^32 in generated cases (memory)",
]


def positions(rng, a):
    nb = abs(a).bit_length()
    c = [0, 1, 2, 63, 64, 65, 127, 128, 129, 191, 192, 193, nb - 1, nb, nb + 1, nb + 63, nb + 64, nb + 65, nb + 130, 2 * nb + 7]
    if nb > 64:
        c += [64 * rng.range(1, nb // 64), 64 * rng.range(1, nb // 64) + rng.choice([-1, 1]), rng.below(nb)]
    # position of the lowest set bit and its neighbours
    if a != 0:
        tz = (abs(a) & -abs(a)).bit_length() - 1
        c += [tz, tz + 1, max(0, tz - 1)]
    p = rng.choice(c)
    return max(0, p)


def gen_cases(rng, tier, n):
    out = []
    binops = ["and", "or", "xor", "and_rr", "or_rr", "xor_rr"]
    ubin = ["uand", "uor", "uxor", "uand_rv", "uor_vr", "uxor_rr"]
    mixed = ["and_ui", "and_iu", "or_ui", "or_iu", "xor_ui", "xor_iu"]
    unsigned_t = ["u8", "u16", "u32", "u64", "u128", "usize"]
    signed_t = ["i8", "i16", "i32", "i64", "i128", "isize"]
    while len(out) < n:
        k = rng.below(100)
        if k < 22:
            a = gen_int(rng, tier)
            # second operand: often of a related length / related value
            r = rng.below(6)
            if r == 0:
                b = a + rng.choice([-1, 1, 0])
            elif r == 1:
                b = -a + rng.choice([-1, 1, 0])
            elif r == 2:
                b = gen_mag(rng, max(1, (abs(a).bit_length() + 63) // 64)) * rng.choice([1, -1])
            else:
                b = gen_int(rng, tier)
            out.append("%s %s %s" % (rng.choice(binops), hx(a), hx(b)))
        elif k < 30:
            a, b = abs(gen_int(rng, tier)), abs(gen_int(rng, tier))
            out.append("%s %s %s" % (rng.choice(ubin), hx(a), hx(b)))
        elif k < 38:
            op = rng.choice(mixed)
            u, i = abs(gen_int(rng, tier)), gen_int(rng, tier)
            out.append("%s %s %s" % (op, hx(u), hx(i)) if op.endswith("_ui") else "%s %s %s" % (op, hx(i), hx(u)))
        elif k < 44:
            ty = rng.choice(unsigned_t)
            bits = {"u8": 8, "u16": 16, "u32": 32, "u64": 64, "usize": 64, "u128": 128}[ty]
            p = rng.choice([0, 1, (1 << bits) - 1, 1 << (bits - 1), rng.bits(bits)])
            if rng.chance(1, 2):
                out.append("%s %s %s %s" % (rng.choice(["uand_p", "uor_p", "uxor_p"]), ty, hx(abs(gen_int(rng, tier))), hx(p)))
            else:
                out.append("%s %s %s %s" % (rng.choice(["iand_pu", "ior_pu", "ixor_pu"]), ty, hx(gen_int(rng, tier)), hx(p)))
        elif k < 48:
            ty = rng.choice(signed_t)
            bits = {"i8": 8, "i16": 16, "i32": 32, "i64": 64, "isize": 64, "i128": 128}[ty]
            p = rng.choice([0, 1, -1, (1 << (bits - 1)) - 1, -(1 << (bits - 1)), rng.bits(bits - 1), -rng.bits(bits - 1)])
            out.append("%s %s %s %s" % (rng.choice(["iand_pi", "ior_pi", "ixor_pi"]), ty, hx(gen_int(rng, tier)), hx(p)))
        elif k < 52:
            out.append("%s %s" % (rng.choice(["not", "not_r"]), hx(gen_int(rng, tier))))
        elif k < 66:
            a = gen_int(rng, tier)
            op = rng.choice(["shl", "shr", "shr", "shr_r", "shl_r", "shr_assign"])
            out.append("%s %s %x" % (op, hx(a), positions(rng, a)))
        elif k < 72:
            a = abs(gen_int(rng, tier))
            out.append("%s %s %x" % (rng.choice(["ushl", "ushr", "ushl_r", "ushr_r", "ushl_assign"]), hx(a), positions(rng, a)))
        elif k < 78:
            a = gen_int(rng, tier)
            if rng.chance(1, 2):
                out.append("bit %s %x" % (hx(a), positions(rng, a)))
            else:
                out.append("ubit %s %x" % (hx(abs(a)), positions(rng, a)))
        elif k < 81:
            a = gen_int(rng, tier)
            out.append(rng.choice(["bit_len %s" % hx(a), "ubit_len %s" % hx(abs(a))]))
        elif k < 86:
            a = abs(gen_int(rng, tier))
            out.append("%s %s %x" % (rng.choice(["set_bit", "clear_bit"]), hx(a), positions(rng, a)))
        elif k < 92:
            a = gen_int(rng, tier)
            r = rng.below(4)
            if r == 0:
                # low part all ones / zeros to stress the word scans
                low = rng.choice([64, 65, 127, 128, 129, 192, 200])
                a = (abs(a) << low) | ((1 << low) - 1) if rng.chance(1, 2) else abs(a) << low
                a = a if rng.chance(1, 2) else -a
            op = rng.choice(["utz", "uto", "tz", "to", "count_ones", "count_zeros"])
            out.append("%s %s" % (op, hx(abs(a) if op[0] in "uc" else a)))
        elif k < 96:
            a = abs(gen_int(rng, tier))
            out.append("%s %s %x" % (rng.choice(["split_bits", "clear_high_bits"]), hx(a), positions(rng, a)))
        elif k < 98:
            a = abs(gen_int(rng, tier))
            if rng.chance(1, 3) and a:
                a = 1 << (a.bit_length() - 1)
                a += rng.choice([0, 0, 1, -1])
            out.append("%s %s" % (rng.choice(["is_pow2", "next_pow2"]), hx(max(a, 0))))
        else:
            out.append("ones %x" % rng.choice([0, 1, 63, 64, 65, 127, 128, 129, 191, 192, 193, rng.below(1000)]))
    return out
