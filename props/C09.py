"""C09 - bit operations follow infinite two's-complement semantics."""
import core
from core import hx, gen_int, gen_mag, gen_words_len

ID = "C09"
READY = True
ORACLE = "c09"
HARNESS_BIN = "c09"
NCASES = {"quick": 6000, "thorough": 150000}
CASE_TIMEOUT = {"quick": 20, "thorough": 60}

LEVEL_TEXT = ("Machine-checked Coq theorems (59 pinned, all closed under the global context), for every word size w > 0, every operand "
              "length, sign, bit position and shift count: (1) the sign-case tables of & | ^ ! >> regenerated from the Rust source on "
              "every run equal Coq's infinite two's-complement operations on Z; (2) word-level as-is models (little-endian word lists, "
              "inline double word / heap buffer dispatch, Repr::from_buffer normalisation) of bitand_large / bitor_large / bitxor_large "
              "/ and_not_large on unequal lengths (kept buffer, truncation, tail push), their *_large_dword forms and the "
              "BitAnd/BitOr/BitXor/AndNot dispatch for all four ownership combinations compute Z.land / Z.lor / Z.lxor / Z.ldiff and "
              "return a normalised value; (3) shl_in_place / shr_in_place (carry between words), shl_dword with both spill paths, "
              "shl_large (in place or copied: same result), shr_dword / shr_large / shr_large_ref compute Z.shiftl / Z.shiftr; "
              "are_dword_low_bits_nonzero / are_slice_low_bits_nonzero equal the predicate of the regenerated Shr table, so the as-is "
              "IBig >> equals that table and is floor division by 2^n; impl_ibig_bitand/bitor/bitxor run over the word kernels equal "
              "the regenerated tables; (4) bit (UBig and the two's-complement bit of a negative IBig), set_bit / clear_bit incl. spill "
              "to a longer buffer, clear_high_bits, split_bits, bit_len, count_ones, count_zeros, is_power_of_two, next_power_of_two "
              "(incl. overflow into a new word), UBig::ones, trailing_zeros, trailing_ones (incl. trailing_ones_neg and the "
              "shifted-by-one scan) each equal their specification, which is characterised on Z.testbit. Every case of the "
              "correspondence run is evaluated by the extracted word-level models at the 64-bit word size and compared with the "
              "implementation's answer (model fidelity asis=same|diff, must be 100 %).")
LEVEL_NOTE = ("Trusted: Coq kernel, translator dictionary (bitand->Z.land ...), extraction incl. FastZ.v directives, zarith, harness. "
              "Proved about hand-written models of the kernels, tied to the code by the run (value of every answer; the models are "
              "transcribed by hand from bits.rs / shift.rs / shift_ops.rs / math.rs / repr.rs). Machine-integer primitives (& | ^ ! << >> "
              "on Word/DoubleWord, leading_zeros, count_ones, trailing_zeros, is_power_of_two, checked_next_power_of_two) are modelled "
              "by the Z function of the same meaning. Only compared, not modelled: the primitive-operand forms (UBig/IBig op u8..i128; proved only: `& unsigned primitive` always fits the primitive type), "
              "the *Assign forms other than >>= / <<=, sub_one / add_one / Not / negation inside the IBig tables (value level; C01), "
              "buffer capacities and which allocation is reused (not observable through values).")
TECHNIQUE = "Coq proofs over source-regenerated sign tables and hand-transcribed word-level as-is models + extracted-model correspondence run"
RULE = ("cases = operation x operands drawn from word-count classes {0,1,2,3,4,5,8,T-1,T,T+1 for the size thresholds} x "
        "bit patterns {all-ones, 2^k, 2^k+-1, low words zero, top word 1/MAX, sparse, 0/MAX words, random} x both signs x "
        "all four by-value/by-reference operand combinations; "
        "bit positions / shift counts from {0, 1, multiples of the word size +-1, bit length +-1, up to length+130}. "
        "A case is non-trivial when the oracle evaluated the Coq specification on it and at least one operand is non-zero; "
        "distinct = distinct case texts.")
EXPLANATION = ("Theorems (coq/props/C09.v): the sign-case tables regenerated from bits.rs/shift_ops.rs equal Z.land/Z.lor/Z.lxor/"
               "Z.lnot/Z.shiftr for all signs and magnitudes; word-level models of every magnitude kernel (Int/BitsKernels.v) equal "
               "the Z operation / the BitsSpec specification for every word size and return normalised representations; the "
               "specifications are characterised on Z.testbit. Tie to the code: tables are re-translated from the source on every "
               "run; every case is also run through the extracted word-level models and compared with the implementation.")
TRUSTED_BASE = [
    "Coq 8.16.1 kernel (coqc; vm_compute only in the non-vacuity Example of the word-level theorems)",
    "tools/translate.py renders the macro bodies impl_ibig_bit*/Not/Shr faithfully; dictionary: bitand->Z.land, bitor->Z.lor, bitxor->Z.lxor, and_not->Z.ldiff, sub_one->Z.pred, add_one->Z.succ, >> on magnitudes -> Z.shiftr, are_low_bits_nonzero -> (m mod 2^n <> 0); the entries for bitand/bitor/bitxor/and_not/>>/are_low_bits_nonzero are now justified by theorems about the word-level models (C09_repr_bitand ... C09_are_low_bits_nonzero), sub_one/add_one belong to C01",
    "coq/theories/Int/BitsKernels.v is a faithful hand transcription of the kernels of integer/src/bits.rs, shift.rs, shift_ops.rs (mod repr), math.rs (ones_word, ones_dword, shl_dword, shr_word) and repr.rs (from_buffer, ones); machine-integer primitives are modelled by the Z function of the same meaning; checked on every run by comparing the extracted models with the implementation on every case (asis=same|diff)",
    "extraction: ExtrOcamlBasic + ExtrOcamlZBigInt + the Extract Constant directives of coq/extract/FastZ.v (Z.land/lor/lxor/ldiff/lnot/testbit/log2/... -> zarith)",
    "OCaml 4.13.1 + zarith 1.12, oracle/common.ml, oracle/driver_c09.ml; Rust harness harness/src/bin/c09.rs",
    "the oracle runs the word-level models at w = 64 only (the harness build's word size); other word sizes are covered by the theorems (universally quantified w) and by C19's builds",
]
ASSUMPTIONS = [
    "UBig::from_words / as_words / IBig::from_parts / as_sign_words transport values faithfully (used by the harness instead of any parser)",
    "usize shift counts and bit indices stay below 2^32 in generated cases (memory)",
]


def positions(rng, a):
    nb = abs(a).bit_length()
    c = [0, 1, 2, 63, 64, 65, 127, 128, 129, 191, 192, 193, nb - 1, nb, nb + 1, nb + 63, nb + 64, nb + 65, nb + 130, 2 * nb + 7]
    if nb > 64:
        c += [64 * rng.range(1, nb // 64), 64 * rng.range(1, nb // 64) + rng.choice([-1, 1]), rng.below(nb)]
    # position of the lowest set bit and its neighbours
    if a != 0:
        tz = (abs(a) & -abs(a)).bit_length() - 1
        c += [tz, tz + 1, max(0, tz - 1)]
    p = rng.choice(c)
    return max(0, p)


def gen_cases(rng, tier, n):
    out = []
    binops = ["and", "or", "xor", "and_rr", "or_rr", "xor_rr", "and_vr", "or_vr", "xor_vr", "and_rv", "or_rv", "xor_rv"]
    ubin = ["uand", "uor", "uxor", "uand_rv", "uor_vr", "uxor_rr", "uand_vr", "uand_rr", "uor_rv", "uor_rr", "uxor_vr", "uxor_rv"]
    mixed = ["and_ui", "and_iu", "or_ui", "or_iu", "xor_ui", "xor_iu"]
    unsigned_t = ["u8", "u16", "u32", "u64", "u128", "usize"]
    signed_t = ["i8", "i16", "i32", "i64", "i128", "isize"]
    while len(out) < n:
        k = rng.below(100)
        if k < 22:
            a = gen_int(rng, tier)
            # second operand: often of a related length / related value
            r = rng.below(6)
            if r == 0:
                b = a + rng.choice([-1, 1, 0])
            elif r == 1:
                b = -a + rng.choice([-1, 1, 0])
            elif r == 2:
                b = gen_mag(rng, max(1, (abs(a).bit_length() + 63) // 64)) * rng.choice([1, -1])
            else:
                b = gen_int(rng, tier)
            out.append("%s %s %s" % (rng.choice(binops), hx(a), hx(b)))
        elif k < 30:
            a, b = abs(gen_int(rng, tier)), abs(gen_int(rng, tier))
            out.append("%s %s %s" % (rng.choice(ubin), hx(a), hx(b)))
        elif k < 38:
            op = rng.choice(mixed)
            u, i = abs(gen_int(rng, tier)), gen_int(rng, tier)
            out.append("%s %s %s" % (op, hx(u), hx(i)) if op.endswith("_ui") else "%s %s %s" % (op, hx(i), hx(u)))
        elif k < 44:
            ty = rng.choice(unsigned_t)
            bits = {"u8": 8, "u16": 16, "u32": 32, "u64": 64, "usize": 64, "u128": 128}[ty]
            p = rng.choice([0, 1, (1 << bits) - 1, 1 << (bits - 1), rng.bits(bits)])
            if rng.chance(1, 2):
                out.append("%s %s %s %s" % (rng.choice(["uand_p", "uor_p", "uxor_p"]), ty, hx(abs(gen_int(rng, tier))), hx(p)))
            else:
                out.append("%s %s %s %s" % (rng.choice(["iand_pu", "ior_pu", "ixor_pu"]), ty, hx(gen_int(rng, tier)), hx(p)))
        elif k < 48:
            ty = rng.choice(signed_t)
            bits = {"i8": 8, "i16": 16, "i32": 32, "i64": 64, "isize": 64, "i128": 128}[ty]
            p = rng.choice([0, 1, -1, (1 << (bits - 1)) - 1, -(1 << (bits - 1)), rng.bits(bits - 1), -rng.bits(bits - 1)])
            out.append("%s %s %s %s" % (rng.choice(["iand_pi", "ior_pi", "ixor_pi"]), ty, hx(gen_int(rng, tier)), hx(p)))
        elif k < 52:
            out.append("%s %s" % (rng.choice(["not", "not_r"]), hx(gen_int(rng, tier))))
        elif k < 66:
            a = gen_int(rng, tier)
            op = rng.choice(["shl", "shr", "shr", "shr_r", "shl_r", "shr_assign"])
            out.append("%s %s %x" % (op, hx(a), positions(rng, a)))
        elif k < 72:
            a = abs(gen_int(rng, tier))
            out.append("%s %s %x" % (rng.choice(["ushl", "ushr", "ushl_r", "ushr_r", "ushl_assign"]), hx(a), positions(rng, a)))
        elif k < 78:
            a = gen_int(rng, tier)
            if rng.chance(1, 2):
                out.append("bit %s %x" % (hx(a), positions(rng, a)))
            else:
                out.append("ubit %s %x" % (hx(abs(a)), positions(rng, a)))
        elif k < 81:
            a = gen_int(rng, tier)
            out.append(rng.choice(["bit_len %s" % hx(a), "ubit_len %s" % hx(abs(a))]))
        elif k < 86:
            a = abs(gen_int(rng, tier))
            out.append("%s %s %x" % (rng.choice(["set_bit", "clear_bit"]), hx(a), positions(rng, a)))
        elif k < 92:
            a = gen_int(rng, tier)
            r = rng.below(4)
            if r == 1:
                # low word exactly 1 (or 0/2/3) under zero words: the shifted-by-one scan of trailing_ones_neg restarts at word 1
                a = (abs(a) << rng.choice([64, 128, 192, 193, 255])) | rng.choice([1, 1, 1, 0, 2, 3])
                a = -a if rng.chance(2, 3) else a
            if r == 0:
                # low part all ones / zeros to stress the word scans
                low = rng.choice([64, 65, 127, 128, 129, 192, 200])
                a = (abs(a) << low) | ((1 << low) - 1) if rng.chance(1, 2) else abs(a) << low
                a = a if rng.chance(1, 2) else -a
            op = rng.choice(["utz", "uto", "tz", "to", "count_ones", "count_zeros"])
            out.append("%s %s" % (op, hx(abs(a) if op[0] in "uc" else a)))
        elif k < 96:
            a = abs(gen_int(rng, tier))
            out.append("%s %s %x" % (rng.choice(["split_bits", "clear_high_bits"]), hx(a), positions(rng, a)))
        elif k < 98:
            a = abs(gen_int(rng, tier))
            if rng.chance(1, 3) and a:
                a = 1 << (a.bit_length() - 1)
                a += rng.choice([0, 0, 1, -1])
            out.append("%s %s" % (rng.choice(["is_pow2", "next_pow2"]), hx(max(a, 0))))
        else:
            out.append("ones %x" % rng.choice([0, 1, 63, 64, 65, 127, 128, 129, 191, 192, 193, rng.below(1000)]))
    return out
