"""C06 - conversions are lossless or refused; lossy ones are correctly rounded and say so."""
import os
import sys
import core
from core import hx, gen_int

# coq/gen/ConvParams2.v (literals of to_f32_fast/to_f64_fast, the impl_conversion_to_float! windows and body shape, the
# rounding precisions of FBig/Repr::to_f32/to_f64, MAX_BIT_LEN of TryFrom<UBig/IBig> for floats) is regenerated from the
# Rust sources when this plug-in is imported, i.e. before the proof phase of every run.  Conv/ConvParams2Proof.v proves
# the models at these numbers.  Unparseable source is not an alarm: the previous copy stays (marked STALE), the status
# goes into the evidence (extra_phase) and the correspondence run alone ties those models.
sys.path.insert(0, os.path.join(core.ROOT, "tools"))
try:
    import translate_c06_r3
    CONV_PARAMS2_STATUS = translate_c06_r3.generate(core.REPO, os.path.join(core.COQ, "gen"))
except Exception as _ex:  # the generator itself broke: same fallback as an unparseable source
    CONV_PARAMS2_STATUS = "unparsed generator-failed: %s" % str(_ex)[:200]


# coq/gen/ConvParams4.v (fourth round): thresholds of Repr::binary_to_f32 / binary_to_f64, the two literals of round_to_subnormal and the
# shape of the repaired division route of Context::convert_base; Conv/ConvParams4Proof.v ties them to the models.  Same fallback.
try:
    import translate_c06_r4
    CONV_PARAMS4_STATUS = translate_c06_r4.generate(core.REPO, os.path.join(core.COQ, "gen"))
except Exception as _ex:
    CONV_PARAMS4_STATUS = "unparsed generator-failed: %s" % str(_ex)[:200]


def extra_phase(tier, seed, exes, oracle):
    word = CONV_PARAMS2_STATUS.split(" ", 1)[0]
    word4 = CONV_PARAMS4_STATUS.split(" ", 1)[0]
    return {
        "evaluations": 0,
        "hist": {"translator_c06_r3:ConvParams2:" + word: 1, "translator_c06_r4:ConvParams4:" + word4: 1},
        "nontrivial": [],
        "samples": [{"fragment": "coq/gen/ConvParams2.v (tools/translate_c06_r3.py from rational/src/convert.rs, float/src/convert.rs, "
                                 "integer/src/convert.rs)",
                     "status": CONV_PARAMS2_STATUS,
                     "tied_by": "C06_fast_f32_gen_tie, C06_fast_f64_gen_tie, C06_rat_try_f32_gen, C06_rat_try_f64_gen, C06_source_literals_tie_r3"
                                if word == "ok" else "correspondence run only (source not parsed; previous copy marked STALE)"},
                    {"fragment": "coq/gen/ConvParams4.v (tools/translate_c06_r4.py from float/src/convert.rs: binary_to_f32/f64, round_to_subnormal, "
                                 "division route of convert_base)",
                     "status": CONV_PARAMS4_STATUS,
                     "tied_by": "C06_source_literals_tie_r4" if word4 == "ok" else "correspondence run only (source not parsed; previous copy marked STALE)"}],
        "failures": [],
    }


ID = "C06"
READY = True
ORACLE = "c06"
HARNESS_BIN = "c06"
NCASES = {"quick": 20000, "thorough": 400000}
CASE_TIMEOUT = {"quick": 30, "thorough": 120}

LEVEL_TEXT = ("Coq theorems for all inputs (coq/props/C06.v, 110 statements incl. refutations of the findings on their witnesses; the refutations of the classes repaired in round 4 are kept over the models of the old code). Rounds 1-2: the as-is model of "
              "FloatEncoding::encode (one text, the f32 and f64 constants) returns the round-to-nearest-even bit pattern and the true error sign of mantissa*2^exponent for every "
              "i32/i64 mantissa and every exponent (overflow, normal, subnormal, underflow branches); decode is its inverse on every "
              "finite pattern; UBig/IBig::to_f32/to_f64 are correct for EVERY integer (multi-word route: top 31/63 bits + sticky bit, then encode; double-word route: native cast, "
              "error sign recovered by casting back, saturation of the all-ones double word) for any double-word size; "
              "RBig/Relaxed::to_f32/to_f64 as a whole return the correctly rounded value of N/D with the true error sign for every numerator and positive denominator; "
              "FBig<R,2>::to_f32/to_f64 return the value rounded under the mode with the truthful flag for every mode, significand and exponent whose result is "
              "not below the smallest normal number, and for significands of at most 24/53 bits over the whole range; the rounding specification is proved equal to "
              "Flocq's binary_normalize (mode_NE) + bits_of_b32/b64 with the error sign as Rcompare, for every dyadic m*2^e; TryFrom<f32/f64> for UBig/IBig succeeds exactly on the "
              "integers; TryFrom<FBig/Repr> for IBig, UBig and the primitive types (for every sound log2 estimate), From<UBig/IBig> for FBig and back, "
              "TryFrom<RBig> for UBig/IBig and TryFrom<FBig> for RBig are exact or refused; the primitive <-> UBig/IBig range checks accept exactly the range of the type for any word "
              "size and round-trip. Round 3: RBig/Relaxed::to_float as a whole (digit counts, shift, quotient cut to exactly p digits, one rounding by round_ratio, convert_int, exponent "
              "fix-up) is the correctly rounded p-digit float of N/D in normal form with the truthful flag for EVERY base, precision, mode, numerator and positive denominator, and its "
              "convert_int step never rounds a second time; TryFrom<RBig/Relaxed> for f32/f64 (power-of-two test, top-bit window, trailing-zero stripping, MANTISSA_DIGITS test, encode) "
              "returns Ok(pattern) exactly when the reduced fraction is a value of the format; TryFrom<FBig<R,2>/Repr<2>> for f32/f64 likewise for every mode over the WHOLE exponent range "
              "(the open subnormal class never affects Exact-ness); TryFrom<f32/f64> for RBig/Relaxed (decode + reduce2: reduced fraction of the decoded value) and for Repr<2>/FBig<R,2> "
              "(normal form, precision = bits of the mantissa); TryFrom<RBig> for the primitive integers; RBig::to_int; FBig::to_int (mode of the number) and Repr::to_int "
              "(C10's as-is models meet C06's to_int statement: rounded value, Exact only if nothing lost, flag = true side of the error); FBig<R,2>::to_f32/to_f64 over the WHOLE range as "
              "the code stands (round to 24/53 bits under the mode, then encode rounds to nearest even; flag of the first step unless encode was inexact, then NoOp) - the exact content "
              "of the open class fbig_to_float_subnormal; FBig<R,B>::to_f32/to_f64 for B = 2^n (any n > 1, normal range) and for a base that is not a power of two with exponent "
              "0..THRESHOLD_SMALL_EXP (no range condition; the debug assertion of into_f32/f64_internal cannot fire); to_f32_fast/to_f64_fast on the main branch return the correctly "
              "rounded pattern of the approximate quotient, and that quotient is within (-1, +4.5) units of its own last place of the exact |N|/D for every input (a proved bound for "
              "the 'bounded error' half of the contract). The literals of all these functions are re-read from the repository on every run (coq/gen/ConvParams.v, ConvParams2.v) and "
              "the theorems on TryFrom<RBig> for f32/f64, to_f32_fast/to_f64_fast and the small-exponent route are stated over the regenerated numbers. Every implementation answer of "
              "every conversion named by the property is judged by the extracted specification on generated inputs; every modelled op also reports model fidelity (asis=same). "
              "Round 4: (1) the division route of Context::convert_base (small negative exponent, bases that are not powers of one another) was REPAIRED (pad the dividend, divide exactly, "
              "cut to the precision, one rounding; repr_div with its p+1-digit quotient is no longer called) and its as-is model div_round_once is proved for EVERY target base, precision, mode, "
              "non-zero dividend and positive divisor to return the correctly rounded p-digit quotient with the truthful flag and never more than p digits; FBig<R,B>/Repr<B>::to_f32/to_f64 on "
              "that route (exponent -38..-1, regenerated) are proved correctly rounded with the truthful flag from the smallest normal number on, overflow included, the debug assertion "
              "of into_f32/f64_internal cannot fire; (2) FBig<R,2>/Repr<2>::to_f32/to_f64 were REPAIRED below the smallest normal number (one rounding in the mode of the number at the "
              "smallest subnormal; sign of a zero result kept) and the repaired code is proved over the WHOLE range - normal, subnormal, underflow, overflow - for every mode: the IEEE rounding "
              "of the exact value with the truthful flag; TryFrom<FBig<R,2>/Repr<2>> for f32/f64 re-proved over it; (3) the two models of Rust's `as` casts used by the conversions are proved "
              "equal to the Rust Reference's numeric casts stated over Flocq (integer -> float = binary_normalize mode_NE; float -> integer = Btrunc clamped to the type, NaN -> 0) and the "
              "reference functions are compared with the compiler's casts on every run for all 12 integer types x both formats on edge patterns (every f32 exponent field, every bit "
              "position, ties at every length); (4) for a base that is not a power of two and |exponent| > 38 the conversion is proved to be the base-2 conversion of the approximant of "
              "convert_base's ln/exp route (C08's as-is model over C11's ln/exp, any estimate layer): one rounding to 24/53 bits + exact encoding, no assertion, correctly rounded with the "
              "truthful flag relative to that approximant; the model runs in the oracle (fidelity 100 %). The thresholds of binary_to_f32/f64, the literals of round_to_subnormal and the shape "
              "of the repaired division route are regenerated on every run (coq/gen/ConvParams4.v, C06_source_literals_tie_r4). (5) TryFrom<Relaxed> for UBig/IBig/primitive integers was REPAIRED "
              "(canonicalise before the denominator test; 6/3 converts) and is proved exact-or-refused for every stored pair.")
LEVEL_NOTE = ("Trusted: Coq kernel, extraction + FastZ.v, zarith, harness, f32/f64::MANTISSA_DIGITS = 24/53 (a constant of core, not of the repository). Rust's `as` casts "
              "between integers and floats are no longer an unproved contract: cast_uint / cast_back are proved equal to the Rust Reference's wording over Flocq (binary_normalize mode_NE; Btrunc "
              "clamped, NaN -> 0) and that wording is compared with the compiler's casts on every run (what remains trusted is that the compiler behaves on all values as on the ~100 000 edge "
              "patterns compared). The in-house "
              "specification ieee_rne is not trusted for dyadic sources (proved = Flocq); for a rational source N/D that is not dyadic, and for the directed modes of "
              "FBig::to_f32, ieee_round (round_rat_at / spec_round on Z, pattern monotone in the value) is the definition of 'correctly rounded'; rat_to_fbig_spec (round_rat_at at the exponent "
              "rat_exp - p + 1) is the definition of 'correctly rounded p-digit float'. Compared on every run but NOT proved: "
              "FBig::to_f32/to_f64 for a base OTHER THAN 2 below the smallest normal number (open class "
              "fbig_to_float_subnormal, narrowed in round 4; as-is behaviour proved, specification not met), the accuracy of the ln/exp route of convert_base for |exponent| > 38 (open class "
              "fbig_to_float_large_route = C08's F05 seen from to_f32/to_f64; proved: everything after the approximant; the as-is model needs an f32 estimate layer, instantiated in the oracle with "
              "OCaml single-precision arithmetic as in C08/C11, evaluated under a time budget), the distance in PATTERNS of to_f32_fast/to_f64_fast from the correctly rounded value (contract +-1, observed "
              "+-2: open class; proved: the quotient handed to encode is less than 4.5 of its units off), TryFrom<UBig/IBig> for f32/f64 (as-is model compared; open class int_to_float_refuses_representable pinned by the repository's tests). trailing_zeros + shift is modelled as normalize 2 (odd part, count); is_power_of_two as 'odd part = 1'. "
              "The kind of refusal (OutOfBounds / LossOfPrecision) of TryFrom<FBig> for primitive integers with a negative exponent depends on the f32 log2 estimate (C12): fidelity there is "
              "counted on 'both refuse'. IBig arithmetic under the conversions is taken as Z (C01/C02/C09); IBig >> is floor (C09) - the model of to_f32_fast was corrected in round 3 "
              "to shift a negative numerator before taking its magnitude. The models are hand transcriptions tied to the code by the regenerated literals "
              "(theorems C06_source_literals_tie, C06_source_literals_tie_r3, C06_*_gen*) and by the correspondence run (asis=same on every case), whose generators reach every branch "
              "threshold at -1/0/+1.")
TECHNIQUE = "Coq proof (as-is models of encode/decode/to_f32/to_f64/to_float/to_int/TryFrom glue/range checks/convert_base division route = Z-level IEEE and rounding specifications = Flocq binary_normalize / Btrunc; Rust casts = Flocq; models at literals regenerated from the sources) + extracted specification and as-is models (incl. C08's ln/exp route) on a correspondence run; two defects repaired in the repository this round"
RULE = ("cases = conversion x source values: every primitive type at MIN/MAX and one beyond on both sides; integers 2^k+-{0,1,2} for k at "
        "8,16,24,25,32,53,54,64,65,128,129,1024 and the f32/f64 overflow thresholds (2^128-2^104, 2^128-2^103, 2^1024-2^971, 2^1024-2^970) "
        "+-1; integers made of a 24/53-bit head, a tie / near-tie / quarter pattern below it and up to 200 further bits; integers cut 30..32 / 62..64 bits (the truncation "
        "of the multi-word route, one more, one less) and 24..26 / 53..55 bits below the top bit with every guard pattern above the cut and a discarded "
        "part holding exactly one set bit 0..3 places below the cut, at a word boundary, at bit 0 or anywhere (also none, two, all), for "
        "discarded lengths 1..1000; every class of "
        "IEEE pattern (+-0, smallest/largest subnormal, smallest normal, MAX, +-inf, NaN, integers, halves); encode over the whole "
        "i32/i64 x exponent range around overflow, the normal/subnormal border and underflow; rationals whose quotient has 24..27 / "
        "53..56 bits with exact ties and near-ties, scaled to every exponent class including subnormal and overflow; floats of base 2, "
        "3, 8, 10, 16, 36 with 1..60-digit significands; reduced fractions man*2^e with 1..MANTISSA_DIGITS+2-bit odd mantissas whose top bit sits at the "
        "TryFrom<RBig> window ends -1/0/+1 (also times 3, 5, 7 in the denominator); numerators longer than the 48/106 bits to_f32_fast/to_f64_fast keep, negative "
        "ones with a dropped part of zero / one bit / all ones (the floor shift rounds them away from zero); non-binary floats on the division route of convert_base (ties t*odd^k +-1, +-2, "
        "dividends at the padding threshold -1/0/+1, short dividends, exactly representable quotients, the f32 overflow threshold) and beyond exponent 38 (random, thresholds, exactly "
        "representable values); binary exponents far outside every window (+-2^15, +-2^16 +- the window of the format, +-2^17 for rationals, up to +-2^62 for floats); Rust's own casts: "
        "a fixed sweep of 1347 lines (every integer type x every f32 exponent field / the relevant f64 fields x 6 mantissas x sign; 2^k+-{0,1,2}, tie heads at every length) plus random ones. non-trivial = the oracle evaluated the Coq specification on the case (all "
        "cases); the histogram cls= separates exact / rounded-up / rounded-down / refused answers.")
EXPLANATION = ("Verdicts come from ConvSpec.v: ieee_round (N/D rounded at the exponent of the last place the format offers, pattern "
               "monotone in the value, overflow to infinity, error sign by exact comparison), decode_spec, to_prim_spec, "
               "float_to_int_spec, rat_to_int_spec, exact_to_float (a lossless conversion exists iff rounding is exact), "
               "rat_to_fbig_spec, int_round_spec. A refusal may carry either error kind. The as-is models (ConvModel.v, ConvModel2.v, ConvTryProofs.v, Float/RoundOpsModel.v) "
               "only give the fidelity column and decide whether a wrong answer inside an open class is the predicted one. The casts cast_i2f / cast_f2i are judged by the Flocq reference "
               "functions of Conv/ConvCastModel.v. Base-2 floats with exponents beyond +-6000 are judged at the clamped exponent (same rounding result).")
TRUSTED_BASE = [
    "Coq 8.16.1 kernel",
    "extraction: ExtrOcamlBasic + ExtrOcamlZBigInt + coq/extract/FastZ.v directives; zarith 1.12; oracle/driver_c06.ml (fractions of the case operands, reduction by gcd)",
    "harness/src/bin/c06.rs and hlib: integers move through raw words, floats through to_bits/from_bits",
    "Rust's primitive casts: the Rust Reference's numeric-cast semantics stated over Flocq (Conv/ConvCastModel.v) is proved equal to the models cast_uint / cast_back and compared with the compiler's casts on every run (ops cast_i2f / cast_f2i, all 12 integer types, edge patterns); trusted only beyond the compared patterns",
    "Flocq 's IEEE754.Binary / Bits (binary_normalize, bits_of_b32/b64) as the reference meaning of the rounding specification; the standard library's real-number axioms (ClassicalDedekindReals.sig_not_dec, sig_forall_dec, functional_extensionality_dep, Classical_Prop.classic) enter through it",
    "IBig shifts, division and bit_len under the conversions behave as on Z (C01, C02, C09); round tables of float/src/round.rs regenerated by tools/translate.py",
    "tools/translate_c06_r3.py (regular expressions over rational/src/convert.rs, float/src/convert.rs, integer/src/convert.rs -> coq/gen/ConvParams2.v at plug-in import; reports unparsed and keeps the last good copy when the source is rewritten); tools/translate_c06_r4.py likewise (float/src/convert.rs -> coq/gen/ConvParams4.v)",
    "the as-is model of the ln/exp route of convert_base is C08's (Float/LargeExpAsis.v) over C11's as-is ln/exp (Float/ElemAsis.v), imported read-only; its f32 estimate layer is instantiated in oracle/driver_c06.ml with OCaml floats rounded to single precision (as oracle/driver_c08.ml does)",
    "the as-is models and proofs of FBig::to_int / Repr::to_int are C10's (Float/RoundOpsModel.v, RoundOpsProof.v); C06 proves their specification equal to its own to_int statement",
    "f32::MANTISSA_DIGITS = 24, f64::MANTISSA_DIGITS = 53 (core)",
]
ASSUMPTIONS = [
    "64-bit words (DoubleWord = u128) in the harness build; the word size is a parameter of the models",
    "FBig -> f32/f64 for a base that is not a power of two with |exponent| > 38 (ln/exp route of convert_base): the as-is model is C08's (Float/LargeExpAsis.v over C11's Float/ElemAsis.v), evaluated with OCaml single-precision arithmetic for the f32 estimate layer and under a time budget of 2 s per case / 120 s per run",
    "f32/f64 values are identified with their bit patterns; NaN payloads are not distinguished by the library (any NaN is refused)",
]

UNS = ["u8", "u16", "u32", "u64", "u128", "usize"]
SGN = ["i8", "i16", "i32", "i64", "i128", "isize"]
MODES = ["Zero", "Away", "Up", "Down", "HalfEven", "HalfAway"]
FMT = {"f32": (24, -149, 8), "f64": (53, -1074, 11)}


def width(t):
    return 64 if t.endswith("size") else int(t[1:])


def prim_range(t):
    w = width(t)
    return (-(1 << (w - 1)), (1 << (w - 1)) - 1) if t[0] == "i" else (0, (1 << w) - 1)


def around(rng, centre):
    return centre + rng.choice([0, 0, 1, -1, 2, -2])


def edge_int(rng):
    ks = [0, 1, 7, 8, 15, 16, 23, 24, 25, 26, 31, 32, 33, 52, 53, 54, 55, 63, 64, 65, 127, 128, 129, 192, 1023, 1024, 1025]
    k = rng.below(10)
    if k < 5:
        return around(rng, 1 << rng.choice(ks))
    if k == 5:
        return around(rng, rng.choice([(1 << 128) - (1 << 104), (1 << 128) - (1 << 103), (1 << 1024) - (1 << 971), (1 << 1024) - (1 << 970),
                                       (1 << 128) - (1 << 74), (1 << 128) - (1 << 75), (1 << 64) - (1 << 10), (1 << 64) - (1 << 39)]))
    if k == 6:
        return (1 << rng.choice(ks)) - 1
    if k == 7:
        # exactly n bits, n at the size / overflow thresholds
        n = rng.choice([24, 25, 53, 54, 64, 65, 127, 128, 129, 1023, 1024, 1025])
        return rng.bits(n) | (1 << (n - 1))
    return abs(gen_int(rng, "quick", False))


def head_tail(rng, prec, extra=None):
    """an integer with a prec-bit head and an engineered tail of k bits: ties, near ties, the quarter bit"""
    m = rng.choice([(1 << prec) - 1, 1 << (prec - 1), (1 << (prec - 1)) + 1, rng.bits(prec) | (1 << (prec - 1)), rng.bits(prec) | (1 << (prec - 1)) | 1,
                    (rng.bits(prec) | (1 << (prec - 1))) & ~1])
    k = extra if extra is not None else rng.choice([1, 2, 3, 4, 7, 8, 9, 10, 11, 12, 39, 40, 41, 63, 64, 75, 76, 100, 130, 200, 900])
    half = 1 << (k - 1)
    quarter = half >> 1
    tails = [0, half, half + 1, half - 1, half + quarter, quarter, 1, (1 << k) - 1, half + (1 if k > 1 else 0) * rng.bits(max(1, k - 1)) % half if half > 1 else half]
    if k > 3:
        tails += [half + (1 << rng.below(k - 1)), half - (1 << rng.below(k - 1)), quarter + 1, half + quarter - 1]
    t = rng.choice(tails) % (1 << k)
    return (m << k) + t


CUTS = {"f32": [31, 31, 31, 32, 30, 24, 25, 26], "f64": [63, 63, 63, 64, 62, 53, 54, 55]}
LENS = [1, 2, 3, 4, 8, 11, 12, 33, 40, 41, 63, 64, 65, 66, 75, 76, 100, 127, 128, 129, 130, 160, 191, 192, 193, 200, 256, 257, 512, 937, 960, 961, 970, 971]


def sticky_int(rng, f):
    """an integer cut at T bits below its top bit (T = the 31/63 bits the multi-word route hands to encode, one more/less, and the
    24/53-bit precision with its guard bits): a p-bit head, every kind of guard pattern between the rounding position and the cut,
    and a discarded part with exactly ONE set bit at a chosen distance below the cut (0, 1, 2, 3 bits below it, at a word boundary,
    at bit 0, anywhere), none, two, or all - for every length class up to the overflow threshold.  The single bit right below the
    cut is the bit a sticky computation over one bit too few loses; the bit right above it is the one a cut one bit too high loses."""
    p = FMT[f][0]
    T = rng.choice(CUTS[f])
    low = rng.choice(LENS + [rng.range(1, 1000)])          # number of discarded bits
    if f == "f32" and rng.chance(2, 3):
        low = min(low, 128 - T - rng.below(2))
    head = rng.choice([(1 << p) - 1, 1 << (p - 1), (1 << (p - 1)) + 1, rng.bits(p) | (1 << (p - 1)), rng.bits(p) | (1 << (p - 1)) | 1,
                       (rng.bits(p) | (1 << (p - 1))) & ~1])
    g = T - p
    if g > 0:
        half = 1 << (g - 1)
        guard = rng.choice([0, 0, 0, half, half, half, half - 1, (1 << g) - 1, (half + 1) % (1 << g), rng.bits(g), 1 % (1 << g)])
        top = (head << g) | guard
    else:
        top = head
    k = rng.below(12)
    if k < 4:
        tail = 1 << max(0, low - 1 - k)                  # one bit: 0..3 positions below the cut
    elif k == 4:
        tail = 1                                         # one bit at the very bottom
    elif k == 5:
        tail = 1 << rng.below(low)                       # one bit anywhere
    elif k == 6:
        tail = 1 << min(low - 1, rng.choice([63, 64, 127, 128, 191, 192]))   # one bit at a word boundary
    elif k == 7:
        tail = 0
    elif k == 8:
        tail = (1 << low) - 1
    elif k == 9:
        tail = (1 << (low - 1)) | 1
    elif k == 10:
        tail = (1 << rng.below(low)) | (1 << rng.below(low))
    else:
        tail = rng.bits(low)
    return (top << low) | tail


def gen_bigint(rng, signed):
    k = rng.below(7)
    if k == 6:
        v = sticky_int(rng, rng.choice(["f32", "f64"]))
    elif k == 0:
        v = edge_int(rng)
    elif k == 1:
        v = head_tail(rng, 24)
    elif k == 2:
        v = head_tail(rng, 53)
    elif k == 3:
        v = head_tail(rng, rng.choice([24, 53])) << rng.choice([0, 1, 50, 80, 104, 900, 971])
    else:
        v = abs(gen_int(rng, "quick", False))
    v = abs(v)
    if signed and rng.chance(1, 2):
        v = -v
    return v


def gen_bits(rng, f):
    p, emin, eb = FMT[f]
    mb = p - 1
    sign = rng.below(2) << (mb + eb)
    emax_field = (1 << eb) - 1
    k = rng.below(12)
    if k == 0:
        body = rng.choice([0, 1, 2, (1 << mb) - 1, 1 << mb, (1 << mb) + 1, (emax_field << mb) - 1, emax_field << mb,
                           (emax_field << mb) + 1, (emax_field << mb) | (1 << (mb - 1)), ((emax_field + 1) << mb) - 1])
    elif k <= 3:
        # an integer-valued or half-integer-valued float: exponent field around bias .. bias + p + 5
        bias = (1 << (eb - 1)) - 1
        e = bias + rng.range(-3, p + 70)
        man = rng.choice([0, 1 << (mb - 1), 1 << rng.below(mb), rng.bits(mb), rng.bits(mb) & ~((1 << rng.below(mb)) - 1)])
        body = (min(e, emax_field - 1) << mb) | man
    elif k == 4:
        body = rng.bits(mb)  # subnormal
    elif k == 5:
        # exponent -1, -2 or 0 after the mantissa shift: halves, quarters and integers next to them
        bias = (1 << (eb - 1)) - 1
        body = ((bias + mb - rng.choice([1, 1, 2, 0])) << mb) | rng.bits(mb) | rng.below(2)
    else:
        body = (rng.below(emax_field) << mb) | rng.choice([0, rng.bits(mb), (1 << mb) - 1, 1])
    return sign | body


def gen_enc(rng, f):
    p, emin, eb = FMT[f]
    w = 32 if f == "f32" else 64
    L = rng.choice([1, 2, 3, p - 1, p, p + 1, p + 2, p + 3, w - 2, w - 1, w - 1, rng.range(1, w - 1)])
    k = rng.below(8)
    if k == 0:
        man = rng.choice([1 << (w - 1), (1 << (w - 1)) - 1, 1, 3, 5])
        if man == 1 << (w - 1):
            man = -man
    elif L > p and k < 5:
        man = head_tail(rng, p, L - p)
    else:
        man = rng.bits(L) | (1 << (L - 1))
    if man > 0 and rng.chance(1, 2) and man < (1 << (w - 1)):
        man = -man
    L = abs(man).bit_length()
    emax = emin + p - 1 + (1 << eb) - 2  # 128 / 1024
    tops = [emax + 1, emax, emax - 1, emax + 2, emin + p, emin + p - 1, emin + p - 2, emin + 1, emin, emin - 1, emin - 2, emin + 2, emin + 3,
            0, 1, p, rng.range(emin - 3, emax + 2), rng.range(emin - 3, emin + p + 2)]
    e = rng.choice(tops) - L
    e = max(-32768, min(32767, e))
    return man, e


def gen_rat_tie(rng, f):
    """N/D whose quotient sits at / next to a rounding boundary of the format, at a chosen binade"""
    p, emin, eb = FMT[f]
    emax = emin + p - 1 + (1 << eb) - 2
    d = rng.choice([1, 3, 5, 7, 10, 100, 1000, (1 << 61) - 1, rng.bits(20) | 1, rng.bits(70) | 1, rng.bits(200) | 1, 1 << rng.below(80), 6, 12])
    qbits = rng.choice([p, p + 1, p + 1, p + 2, p + 3])
    if qbits == p:
        q = rng.bits(p) | (1 << (p - 1))
    else:
        q = head_tail(rng, p, qbits - p)
    n = q * d + rng.choice([0, 0, 1, -1, d // 2, d - 1, 1, -1]) if d > 1 else q
    if n <= 0:
        n = q * d
    # place the value: top binade target
    top = rng.choice([emax, emax - 1, emax + 1, emin + p - 1, emin + p, emin + p - 2, emin + 3, emin + 1, emin, emin - 1, emin - 2, 0, 1, -1, 60, -60,
                      rng.range(emin - 2, emax + 1), rng.range(emin - 2, emin + p + 1)])
    sh = top - (n.bit_length() - d.bit_length())
    if sh >= 0:
        n <<= sh
    else:
        d <<= -sh
    if rng.chance(1, 2):
        n = -n
    return n, d


def gen_float_sig(rng, b, maxdig):
    dgt = rng.choice([1, 1, 2, 3, maxdig // 2, maxdig - 1, maxdig, rng.range(1, maxdig)])
    dgt = max(1, min(dgt, maxdig))
    lo, hi = b ** (dgt - 1), b ** dgt - 1
    s = rng.choice([lo, hi, lo + 1, rng.range(lo, hi), rng.range(lo, hi)])
    return -s if rng.chance(1, 2) else s


def gen_fbig2(rng, f):
    """base-2 float: significand with p..p+3 bits (ties) or short, exponent over the whole range"""
    p, emin, eb = FMT[f]
    emax = emin + p - 1 + (1 << eb) - 2
    k = rng.below(6)
    if k == 0:
        s = rng.bits(rng.range(1, p)) | 1
    elif k == 1:
        s = (1 << p) - 1
    else:
        s = head_tail(rng, p, rng.choice([1, 2, 3, 4, 10, 40, 70]))
    L = s.bit_length()
    top = rng.choice([emax, emax + 1, emax - 1, emin + p - 1, emin + p, emin + p - 2, emin + 2, emin + 1, emin, emin - 1, emin - 2, 0, 1, 30,
                      rng.range(emin - 3, emax + 2), rng.range(emin - 3, emin + p + 1)])
    e = top - L
    if rng.chance(1, 2):
        s = -s
    return s, e


def wide_exp(rng, f, big):
    """a binary exponent far outside every float window: around +-2^15, +-2^16 (+- the whole window of the format: an exponent
    that an `as i16` cast wraps back INTO the range), +-3*2^15, +-2^17 and - for sources with an exponent field (big) -
    +-2^31, +-2^32 (+- window), +-2^62: the i16 / i32 / isize casts of the conversion code"""
    p, emin, eb = FMT[f]
    emax = emin + p - 1 + (1 << eb) - 2
    bases = [1 << 15, 1 << 15, 1 << 16, 1 << 16, 1 << 16, 3 << 15, 1 << 17, (1 << 17) + (1 << 16)]
    if big:
        bases += [1 << 31, 1 << 31, 1 << 32, 1 << 32, (1 << 32) + (1 << 16), 1 << 62, (1 << 63) - (1 << 20)]
    off = rng.choice([-1, 0, 1, 2, -2, rng.range(-150, 150), rng.range(emin - 5, emax + 5), rng.range(emin - 5, emax + 5), emin, emax, emin - 1, emax + 1, 0, 10, -10])
    return rng.choice([1, -1]) * rng.choice(bases) + off


def gen_large_route(rng, f, b):
    """non-binary float with |exponent| > 38: the ln/exp route of convert_base.  Random significands over the range of the format,
    values next to the overflow and underflow thresholds, and - for negative exponents - significands t * odd(b)^k, i.e. values
    t * 2^j that ARE floats of the format (the route cannot return them exactly: open class fbig_to_float_large_route)"""
    p, emin, eb = FMT[f]
    emax = emin + p - 1 + (1 << eb) - 2
    import math
    lg = math.log2(b)
    kmax = int((emax + 10) / lg)
    kmin = int((-emin + 10) / lg)
    kind = rng.below(6)
    if kind == 0:
        k = -rng.choice([39, 40, 41, 45, 60, rng.range(39, max(40, kmin))])
        odd = b
        v2 = 0
        while odd % 2 == 0:
            odd //= 2
            v2 += 1
        t = rng.bits(rng.range(1, p)) | 1
        s = t * odd ** (-k)
    elif kind == 1:
        k = rng.choice([kmax, kmax - 1, kmax + 1, -kmin, -kmin + 1, -kmin - 1, kmax + 5, -kmin - 5])
        s = gen_float_sig(rng, b, rng.choice([1, 3, 17]))
        if abs(k) <= 38:
            k = 39 if k > 0 else -39
    else:
        k = rng.choice([39, -39, 40, -40, 50, -50, rng.range(39, max(40, kmax)), -rng.range(39, max(40, kmin))])
        s = gen_float_sig(rng, b, rng.choice([1, 3, 8, 17, 25]))
    s = abs(s) or 1
    while s % b == 0:
        s //= b
        k += 1
    if abs(k) <= 38:
        k = 39 if k >= 0 else -39
    return (-s if rng.chance(1, 2) else s), k


def gen_div_route(rng, f, b):
    """non-binary float on the division route of convert_base (-38 <= exponent < 0): s / b^k whose binary quotient sits at or next to
    a rounding boundary of p (ties: s = t * odd^k with t an odd (p+1)-bit integer, then +-1, +-2), dividends whose bit length is
    p + bits(divisor) - 1 / + 0 / + 1 (the padding threshold; the old repr_div route kept p + 1 bits there), short dividends
    (1..4 digits: the recorded witness 4899e-7), exactly representable quotients (exact flag), values next to the overflow threshold"""
    p, emin, eb = FMT[f]
    k = rng.choice([1, 1, 2, 3, 5, 7, 10, 17, 22, 27, 37, 38, rng.range(1, 38)])
    odd = b
    while odd % 2 == 0:
        odd //= 2
    dv = odd ** k                                   # normal form of the divisor b^k in base 2
    kind = rng.below(8)
    if kind == 0:
        s = rng.range(1, b ** rng.choice([1, 2, 3, 4]))
    elif kind <= 3:
        tb = rng.choice([p + 1, p + 1, p + 2, p, p + 3, p - 1])
        if tb > p:
            t = head_tail(rng, p, tb - p)
        else:
            t = rng.bits(tb) | (1 << (tb - 1)) | 1
        s = t * dv + rng.choice([0, 0, 1, -1, 2, -2, dv // 2, -(dv // 2), rng.range(-dv, dv)])
        if rng.chance(1, 4):
            s <<= rng.choice([1, 2, 5, 30])
    elif kind == 4:
        nb = p + dv.bit_length() + rng.choice([-2, -1, 0, 0, 1, 2])
        s = rng.bits(max(1, nb)) | (1 << (max(1, nb) - 1)) | 1
    elif kind == 5:
        t = rng.bits(rng.range(1, p)) | 1
        s = t * dv * rng.choice([1, 1, 2, 16, 1 << 40])  # exactly representable: t * 2^j / 2^(k*v2(b))
    elif kind == 6 and f == "f32":
        # next to the f32 overflow threshold 2^128 (needs a long significand: 2^128 * b^k)
        s = ((1 << 128) - rng.choice([1 << 103, (1 << 103) + 1, (1 << 103) - 1, 1 << 104, 1, 0])) * b ** k + rng.choice([0, 1, -1])
    else:
        s = gen_float_sig(rng, b, rng.choice([3, 8, 17, 25, 40]))
    s = abs(s) or 1
    while s % b == 0:
        s //= b
        k -= 1
    if k <= 0:
        k = 1
        s = s * b + 1
    return (-s if rng.chance(1, 2) else s), -k


def cast_sweep(rng):
    """Rust's `as` casts on edge patterns, the same list on every run (the random mantissas come from a fixed seed):
    int -> float: every integer type at MIN/MAX/+-1, 2^k-1 / 2^k / 2^k+1 for every bit position, 24/53-bit heads with tie and
    near-tie tails at every length, the u128 -> f32 overflow boundary; float -> int: every type x EVERY f32 exponent field (f64: 0, 1,
    every field from 2^-3 to 2^130, the two largest) x mantissa {0, 1, half, all ones, random} x sign, i.e. +-0, subnormals, halves, the
    neighbours of every power of two up to beyond u128, MAX, +-inf, quiet / signalling / negative NaN."""
    fixed = core.Rng(0xC06CA57)
    lines = []

    def chunks(prefix, vals, k=64):
        for i in range(0, len(vals), k):
            lines.append(prefix + " " + " ".join(vals[i:i + k]))

    for f in ("f32", "f64"):
        p = FMT[f][0]
        for t in UNS + SGN:
            lo, hi = prim_range(t)
            w = width(t)
            vs = {lo, hi, lo + 1, hi - 1, 0, 1, 2, 3}
            for k in range(w + 1):
                for d in (-2, -1, 0, 1, 2):
                    vs.add((1 << k) + d)
                    vs.add(-(1 << k) + d)
            for L in range(p + 1, w + 1):
                g = L - p
                half = 1 << (g - 1)
                for head in ((1 << p) - 1, 1 << (p - 1), (1 << (p - 1)) + 1, fixed.bits(p) | (1 << (p - 1)) | 1, (fixed.bits(p) | (1 << (p - 1))) & ~1):
                    for tail in (half, half - 1, half + 1, 0, (1 << g) - 1):
                        if 0 <= tail < (1 << g):
                            vs.add((head << g) + tail)
                            vs.add(-((head << g) + tail))
            for d in (-2, -1, 0, 1, 2):
                vs.add((1 << 128) - (1 << 103) + d)
                vs.add((1 << 128) - (1 << 104) + d)
            chunks("cast_i2f %s %s" % (f, t), [hx(v) for v in sorted(vs) if lo <= v <= hi])
    for f in ("f32", "f64"):
        p, emin, eb = FMT[f]
        mb = p - 1
        bias = (1 << (eb - 1)) - 1
        fields = list(range(1 << eb)) if f == "f32" else sorted(set([0, 1, 2, (1 << eb) - 2, (1 << eb) - 1] + list(range(bias - 3, bias + 131))))
        pats = []
        for E in fields:
            for man in (0, 1, 1 << (mb - 1), (1 << mb) - 1, fixed.bits(mb), (1 << (mb - 1)) + 1):
                for sign in (0, 1):
                    pats.append("%x" % ((sign << (mb + eb)) | (E << mb) | man))
        for t in UNS + SGN:
            chunks("cast_f2i %s %s" % (t, f), pats)
    return lines


def gen_cases(rng, tier, n):
    out = cast_sweep(rng)
    ops = ["prim", "prim", "prim", "f2int", "f2int", "int2f", "int2f", "tof", "tof", "tof", "enc", "enc", "enc", "dec", "rtof", "rtof", "rtof",
           "rfast", "r2f", "f2r", "r2int", "rtoint", "rtofl", "rtofl", "fl2r", "fltof", "fltof", "fltof", "fl2f", "f2fl", "fl2i", "fl2p", "i2fl",
           "fltoint"]
    ops += ["cast"]
    while len(out) < n:
        op = rng.choice(ops)
        f = rng.choice(["f32", "f64"])
        if op == "cast":
            t = rng.choice(UNS + SGN)
            lo, hi = prim_range(t)
            if rng.chance(1, 2):
                vs = []
                for _ in range(8):
                    v = rng.choice([gen_bigint(rng, True), head_tail(rng, FMT[f][0]), -head_tail(rng, FMT[f][0]), rng.range(lo, hi), sticky_int(rng, f)])
                    vs.append(hx(max(lo, min(hi, v)) if rng.chance(1, 2) else (v % (hi - lo + 1)) + lo))
                out.append("cast_i2f %s %s %s" % (f, t, " ".join(vs)))
            else:
                out.append("cast_f2i %s %s %s" % (t, f, " ".join("%x" % gen_bits(rng, f) for _ in range(8))))
        elif op == "prim":
            t = rng.choice(UNS + SGN)
            lo, hi = prim_range(t)
            k = rng.below(8)
            if k < 2:
                v = rng.choice([lo, hi, lo + 1, hi - 1, 0, 1, -1 if lo < 0 else 0, rng.range(lo, hi)])
                out.append("%s %s %s" % (rng.choice(["p2u", "p2i", "p2r"]), t, hx(v)))
            elif k == 2:
                out.append("bool %d" % rng.below(2))
            elif k == 3:
                v = gen_bigint(rng, True)
                out.append(rng.choice(["u2i %s" % hx(abs(v)), "i2u %s" % hx(v), "i2r %s" % hx(v), "u2r %s" % hx(abs(v))]))
            else:
                v = rng.choice([lo, hi, lo - 1, hi + 1, lo + 1, hi - 1, 0, -1, 1, 1 << 64, (1 << 64) - 1, 1 << 128, (1 << 128) - 1, -(1 << 127),
                                -(1 << 127) - 1, -(1 << 128), 1 << 192, (1 << 192) - 1, gen_bigint(rng, True), rng.range(lo, hi)])
                if rng.chance(1, 2):
                    out.append("i2p %s %s" % (t, hx(v)))
                else:
                    out.append("u2p %s %s" % (t, hx(abs(v))))
        elif op == "f2int":
            out.append("%s %s %x" % (rng.choice(["f2u", "f2i"]), f, gen_bits(rng, f)))
        elif op == "int2f":
            v = gen_bigint(rng, True)
            if rng.chance(1, 6):
                v = sticky_int(rng, f) * rng.choice([1, -1])
            elif rng.chance(1, 3):
                p = FMT[f][0]
                v = (rng.bits(rng.range(1, p + 1)) | 1) << rng.choice([0, 0, 1, 2, 5, 30, 70, 100, 104, 105, 971, 972])
                v = -v if rng.chance(1, 2) else v
            out.append("i2f %s %s" % (f, hx(v)) if rng.chance(1, 2) else "u2f %s %s" % (f, hx(abs(v))))
        elif op == "tof":
            v = gen_bigint(rng, True)
            if rng.chance(2, 5):
                v = sticky_int(rng, f) * rng.choice([1, -1])
            out.append("itof %s %s" % (f, hx(v)) if rng.chance(1, 2) else "utof %s %s" % (f, hx(abs(v))))
        elif op == "enc":
            man, e = gen_enc(rng, f)
            out.append("enc %s %s %s" % (f, hx(man), hx(e)))
        elif op == "dec":
            out.append("dec %s %x" % (f, gen_bits(rng, f)))
        elif op in ("rtof", "rfast", "r2f"):
            if rng.chance(1, 20 if tier == "quick" else 10):
                # exponents far outside the window (the `as i16` cast of TryFrom<RBig>, the isize shifts of to_f32/to_f64): a short or
                # (p+1)-bit mantissa times 2^+-E as a huge numerator or a huge power-of-two denominator, sometimes times 3 in the denominator
                p, emin, eb = FMT[f]
                bits = rng.choice([1, 1, 2, p - 1, p, p, p + 1, rng.range(1, p + 2)])
                man = (rng.bits(bits) | (1 << (bits - 1)) | 1) if bits > 1 else 1
                e = wide_exp(rng, f, False) - bits
                nn, dd = (man << e, 1) if e >= 0 else (man, 1 << -e)
                if rng.chance(1, 8):
                    dd *= 3
                nn = -nn if rng.chance(1, 2) else nn
            elif op == "rfast" and rng.chance(1, 3):
                # numerator longer than the 48/106 bits kept, with an engineered dropped part (none, one bit, all ones):
                # the shift of a negative numerator rounds away from zero and can create or destroy a tie of the quotient
                p, emin, eb = FMT[f]
                keep = 2 * p
                drop = rng.choice([1, 2, 3, 17, 33, 64, 65, 100])
                head = rng.choice([rng.bits(keep) | (1 << (keep - 1)), (1 << keep) - 1, 1 << (keep - 1), (rng.bits(p) | (1 << (p - 1))) << p,
                                   ((rng.bits(p) | (1 << (p - 1))) << p) - 1, ((rng.bits(p) | (1 << (p - 1))) << p) | (1 << (p - 1))])
                tail = rng.choice([0, 1, (1 << drop) - 1, 1 << (drop - 1), rng.bits(drop)])
                nn = (head << drop) | tail
                dd = rng.choice([1 << rng.below(90), (1 << (p - 1)) | rng.bits(p - 1), ((1 << (p - 1)) | rng.bits(p - 1)) << rng.below(40),
                                 (((1 << (p - 1)) | rng.bits(p - 1)) << 20) | rng.bits(20), 3, 7, 10 ** rng.below(20)]) or 1
                nn = -nn if rng.chance(2, 3) else nn
            elif op == "r2f" and rng.chance(1, 3):
                # the window of TryFrom<RBig>: top bit at ub+1 / ub / lb / lb-1, mantissa of MANTISSA_DIGITS / one more bits,
                # numerators with trailing zeros (man << e) and power-of-two denominators
                p, emin, eb = FMT[f]
                ub = emin + p - 1 + (1 << eb) - 2
                bits = rng.choice([1, 2, p - 1, p, p, p + 1, p + 2, rng.range(1, p + 3)])
                man = (rng.bits(bits) | (1 << (bits - 1)) | 1) if bits > 1 else 1
                top = rng.choice([ub + 1, ub, ub - 1, ub + 2, emin + 1, emin, emin - 1, emin - 2, emin + p, emin + p - 1, 0, 1, rng.range(emin - 3, ub + 3)])
                e = top - bits
                nn, dd = (man << e, 1) if e >= 0 else (man, 1 << -e)
                if rng.chance(1, 6):
                    dd *= rng.choice([3, 5, 7])
                nn = -nn if rng.chance(1, 2) else nn
            elif op == "r2f" and rng.chance(1, 2):
                p, emin, eb = FMT[f]
                nn = (rng.bits(rng.range(1, p + 2)) | 1) * rng.choice([1, 1, 3])
                e = rng.range(emin - 3, emin + 2 * p) if rng.chance(1, 2) else rng.range(-80, 1030)
                nn, dd = (nn << e, 1) if e >= 0 else (nn, 1 << -e)
                nn = -nn if rng.chance(1, 2) else nn
            elif rng.chance(1, 8):
                nn, dd = gen_int(rng, "quick", True), abs(gen_int(rng, "quick", False)) or 1
            else:
                nn, dd = gen_rat_tie(rng, f)
            out.append("%s %s %s %s" % ({"rtof": "rtof", "rfast": "rtof_fast", "r2f": "r2f"}[op], f, hx(nn), hx(dd)))
        elif op == "f2r":
            out.append("f2r %s %x" % (f, gen_bits(rng, f)))
        elif op == "r2int":
            nn = gen_bigint(rng, True) if rng.chance(1, 2) else rng.range(-300, 300)
            dd = rng.choice([1, 1, 1, 2, 3, 7, abs(nn) or 1, 1 << 64, rng.range(1, 1000)])
            if rng.chance(1, 4):
                # an integer (or not) stored with a common odd factor: Relaxed keeps 6/3, 15/5, -9/3 as they are
                k = rng.choice([3, 5, 7, 9, 15, 255, (1 << 61) - 1, rng.range(3, 1000) | 1])
                dd = k * rng.choice([1, 1, 1, 2, 3])
                nn = nn * k if rng.chance(3, 4) else nn
            t = rng.choice(UNS + SGN)
            out.append(rng.choice(["r2u %s %s" % (hx(nn), hx(dd)), "r2i %s %s" % (hx(nn), hx(dd)), "r2p %s %s %s" % (t, hx(nn), hx(dd))]))
        elif op == "rtoint":
            nn = gen_bigint(rng, True) if rng.chance(1, 2) else rng.range(-3000, 3000)
            dd = rng.choice([1, 2, 3, 7, 10, 1 << 64, (1 << 64) + 1, rng.range(1, 1000), abs(gen_bigint(rng, False)) or 1])
            out.append("rtoint %s %s" % (hx(nn), hx(dd)))
        elif op == "rtofl":
            b = rng.choice([2, 3, 8, 10, 10, 10, 16, 36])
            m = rng.choice(MODES)
            p = rng.choice([1, 2, 3, 4, 5, 7, 10, 17, 24, 53])
            k = rng.below(4)
            dd = rng.choice([1, 3, 6, 7, 9, 11, 1000, 999, b ** rng.below(6), rng.range(1, 100000), rng.bits(70) | 1])
            if k == 0:
                nn = rng.range(1, 10 ** 6)
            else:
                # quotient with p+1 / p+2 digits, engineered last digits: ...49..9x, ...50..0x, ties
                extra = rng.choice([1, 2, 3])
                head = rng.range(b ** (p - 1), b ** p - 1)
                half = b ** extra // 2
                tail = rng.choice([half, half - 1, half + 1, (b // 2) * b ** (extra - 1) - 1, b ** extra - 1, 0, 1, rng.below(b ** extra)]) % (b ** extra)
                q = head * b ** extra + tail
                nn = q * dd + rng.choice([0, 0, 1, dd // 2, dd - 1, rng.below(dd)]) % dd
                nn *= b ** rng.choice([0, 0, 1, 5]) if rng.chance(1, 3) else 1
                if rng.chance(1, 4):
                    dd *= b ** rng.choice([1, 3, 10])
            nn = -nn if rng.chance(1, 2) else nn
            out.append("rtofl %x %s %x %s %s" % (b, m, p, hx(nn), hx(dd)))
        elif op == "fl2r":
            b = rng.choice([2, 3, 8, 10, 16, 36])
            if rng.chance(1, 30):
                out.append("fl2r %x %s 0" % (b, rng.choice(["inf", "-inf"])))
            else:
                out.append("fl2r %x %s %s" % (b, hx(gen_float_sig(rng, b, 30)), hx(rng.range(-40, 40))))
        elif op == "fltof":
            b = rng.choice([2, 2, 2, 2, 8, 16, 10, 10, 3, 36])
            m = rng.choice(MODES)
            name = rng.choice(["fltof", "fltof", "reprtof"])
            if rng.chance(1, 40):
                s, e = rng.choice(["inf", "-inf"]), "0"
            elif b == 2:
                s, e = gen_fbig2(rng, f)
                if rng.chance(1, 8):
                    e = wide_exp(rng, f, True) - abs(s).bit_length()
                s, e = hx(s), hx(e)
            elif b in (8, 16):
                s = gen_float_sig(rng, b, 20)
                lg = 3 if b == 8 else 4
                p, emin, eb = FMT[f]
                e = rng.choice([0, 1, -1, rng.range(-5, 5), (emin // lg) + rng.range(-3, 8), ((emin + p + (1 << eb)) // lg) + rng.range(-8, 2), rng.range(-300, 300)])
                s, e = hx(s), hx(e)
            elif rng.chance(1, 8 if tier == "quick" else 5):
                s, e = gen_large_route(rng, f, b)
                s, e = hx(s), hx(e)
            elif rng.chance(1, 2):
                s, e = gen_div_route(rng, f, b)
                s, e = hx(s), hx(e)
            else:
                s = gen_float_sig(rng, b, rng.choice([3, 8, 17, 25]))
                e = rng.choice([0, 1, 2, -1, -2, -7, 30, 38, -38, rng.range(-38, 38)])
                s, e = hx(s), hx(e)
            if name == "fltof":
                dg = 0
                if s not in ("inf", "-inf"):
                    t = abs(int(s, 16))
                    while t:
                        t //= b
                        dg += 1
                out.append("fltof %s %x %s %x %s %s" % (f, b, m, rng.choice([0, 0, dg, dg + 5, dg + 100]), s, e))
            else:
                out.append("reprtof %s %x %s %s" % (f, b, s, e))
        elif op == "fl2f":
            s, e = gen_fbig2(rng, f)
            if rng.chance(1, 2):
                p = FMT[f][0]
                s = (rng.bits(rng.range(1, p + 1)) | 1) * rng.choice([1, -1])
                e = e + rng.range(0, 30)
            if rng.chance(1, 8):
                e = wide_exp(rng, f, True) - abs(s).bit_length()
            if rng.chance(1, 40):
                s, e = rng.choice(["inf", "-inf"]), 0
            else:
                s = hx(s)
            out.append("fl2f %s %s %s %s" % (f, rng.choice(MODES), s, hx(e)) if rng.chance(1, 2) else "repr2f %s %s %s" % (f, s, hx(e)))
        elif op == "f2fl":
            out.append("f2fl %s %x" % (f, gen_bits(rng, f)))
        elif op == "fl2i":
            b = rng.choice([2, 3, 8, 10, 16, 36])
            if rng.chance(1, 30):
                out.append("fl2i %x %s 0" % (b, rng.choice(["inf", "-inf"])))
            else:
                out.append("fl2i %x %s %s" % (b, hx(gen_float_sig(rng, b, 30)), hx(rng.choice([0, 0, 1, 2, 10, 40, -1, -2, -10, rng.range(-20, 60)]))))
        elif op == "fl2p":
            b = rng.choice([2, 3, 8, 10, 16, 36])
            t = rng.choice(UNS + SGN)
            lo, hi = prim_range(t)
            k = rng.below(5)
            if k == 0:
                out.append("fl2p %s %x %s 0" % (t, b, rng.choice(["inf", "-inf"])))
                continue
            if k == 1:
                out.append("fl2p %s %x %s %s" % (t, b, hx(gen_float_sig(rng, b, 12)), hx(rng.range(-6, 30))))
                continue
            v = rng.choice([lo, hi, lo - 1, hi + 1, 0, 1, -1, rng.range(lo, hi), hi // 2 + 1])
            e = 0
            while v != 0 and v % b == 0:
                v //= b
                e += 1
            out.append("fl2p %s %x %s %x" % (t, b, hx(v), e))
        elif op == "i2fl":
            b = rng.choice([2, 3, 8, 10, 16, 36])
            v = gen_bigint(rng, True) if rng.chance(1, 2) else rng.range(-10 ** 6, 10 ** 6) * b ** rng.below(5)
            out.append("i2fl %x %s" % (b, hx(v)))
        elif op == "fltoint":
            b = rng.choice([2, 3, 8, 10, 16, 36])
            p = rng.choice([0, 1, 2, 3, 5, 10, 24, 60])
            s = gen_float_sig(rng, b, max(1, p) if p else 12)
            L = 0
            t = abs(s)
            while t:
                t //= b
                L += 1
            e = rng.choice([0, 1, 3, -1, -2, -L, -L + 1, -L - 1, -L - 2, -L - 5, rng.range(-L - 3, 3)])
            out.append("fltoint %x %s %x %s %s" % (b, rng.choice(MODES), p, hx(s), hx(e)))
    return out
