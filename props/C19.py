"""C19 - results do not depend on word size, build features or serialization medium."""
import os
import sys
import core
from core import hx, gen_mag, gen_words_len

# The architecture selection (integer/src/arch/mod.rs cfg_if! chain, <dir>/mod.rs, word.rs, generic/add.rs) is regenerated
# into coq/gen/ArchGen.v when this plug-in is imported, i.e. before the proof phase of every run (tools/check.py has no hook
# between plug-in load and the Coq build; tools/translate.py is shared and not ours to edit).  C19_arch_* are proved over the
# regenerated definitions.  Unparseable source is not an alarm: the committed copy stays (marked STALE), the status is
# reported in the evidence by extra_phase, and the `config` case of the correspondence run alone ties the word size.
sys.path.insert(0, os.path.join(core.ROOT, "tools"))
try:
    import translate_c19_r3
    ARCH_GEN_STATUS = translate_c19_r3.generate(core.REPO, os.path.join(core.COQ, "gen"))
except Exception as _ex:  # the generator itself broke: same fallback as an unparseable source
    ARCH_GEN_STATUS = "unparsed generator-failed: %s" % str(_ex)[:200]

# round 4: the serde glue (which Visitor method a human readable deserializer reaches, which parser visit_str calls, the
# infinity tokens and the escape of collect_float_str) is regenerated into coq/gen/SerdeVisitorsGen.v the same way;
# C19_serde_glue_is_modelled and C19_json_float_ser_roundtrip are proved over the regenerated definitions.
try:
    import translate_c19_r4
    SERDE_GEN_STATUS = translate_c19_r4.generate(core.REPO, os.path.join(core.COQ, "gen"))
except Exception as _ex:
    SERDE_GEN_STATUS = "unparsed generator-failed: %s" % str(_ex)[:200]

# a run against a scratch checkout (VERIF_REPO) with the shared Coq tree must not leave its fragment behind
if os.path.realpath(core.REPO) != os.path.realpath("/repo") and os.path.realpath(core.COQ) == os.path.realpath(os.path.join(core.ROOT, "coq")):
    import atexit

    def _restore_arch_gen():
        try:
            translate_c19_r3.generate("/repo", os.path.join(core.COQ, "gen"))
        except Exception:
            pass
        try:
            translate_c19_r4.generate("/repo", os.path.join(core.COQ, "gen"))
        except Exception:
            pass

    atexit.register(_restore_arch_gen)


def extra_phase(tier, seed, exes, oracle):
    word = ARCH_GEN_STATUS.split(" ", 1)[0]
    word4 = SERDE_GEN_STATUS.split(" ", 1)[0]
    return {
        "evaluations": 0,
        "hist": {"translator_c19_r3:ArchGen:" + word: 1, "FRAGMENT:SerdeVisitorsGen:" + word4: 1, "FRAGMENT:ArchGen:" + word: 1},
        "nontrivial": [],
        "samples": [{"fragment": "coq/gen/SerdeVisitorsGen.v (tools/translate_c19_r4.py from {integer,float,rational}/src/third_party/serde.rs)",
                     "status": SERDE_GEN_STATUS,
                     "tied_by": "C19_serde_glue_is_modelled, C19_json_float_ser_roundtrip, C19_json_float_ser_inf + every dej_* / ser_* case in every build"
                     if word4 == "ok" else "the dej_* / ser_* cases of the correspondence run only (source not parsed; committed copy marked STALE)"},
                    {"fragment": "coq/gen/ArchGen.v (tools/translate_c19_r3.py from integer/src/arch/mod.rs, <arch>/mod.rs, <arch>/word.rs, generic/add.rs)",
                     "status": ARCH_GEN_STATUS,
                     "tied_by": "C19_arch_word_admissible, C19_arch_force_bits, C19_arch_x86_64_default, C19_arch_add_with_carry, C19_arch_sub_with_borrow + the `config` case in every build"
                     if word == "ok" else "the `config` case of the correspondence run only (source not parsed; committed copy marked STALE)"}],
        "failures": [],
    }


ID = "C19"
READY = True
ORACLE = "c19"
HARNESS_BIN = "c19"
NCASES = {"quick": 2600, "thorough": 40000}
CASE_TIMEOUT = {"quick": 30, "thorough": 120}
# 64-bit words + debug assertions + std | no debug assertions | force_bits="32" | both | dashu-base without std
CONFIGS = ["default", "release", "w32", "w32release", "nostd"]
if os.environ.get("C19_CONFIGS"):       # sensitivity experiments only: a subset of the builds
    CONFIGS = os.environ["C19_CONFIGS"].split(",")

LEVEL_TEXT = ("Machine-checked Coq theorems (120, coq/props/C19.v). WIRE FORMATS (round 2): the word->byte encoder of convert.rs, modelled for "
              "an arbitrary WORD_BYTES = k, writes the shortest little-endian byte string of the VALUE and the byte->word decoder returns "
              "the little-endian value for every k, so the binary encodings of UBig/IBig and of the float/rational structs are identical "
              "for 64-, 32- and 16-bit words; decode(encode x) = x; every byte string is rejected or decoded to a canonical value, the "
              "decoders never panic. WORD SIZE (round 3): for every public operation family a corollary 'the result does not depend on "
              "w', citing the word-level theorems of the other properties which hold for any word size: multiplication dispatch with "
              "the source thresholds incl. the slice-by-slice Toom-3, squares, cubes, powers, + and - (C01); DivRem/Div/Rem/ConstDivisor "
              "with every kernel transcribed (C02); & | ^ and_not, shifts, bit queries on magnitudes and IBig (C09); Display/in_radix, "
              "the three parsers, LE/BE bytes and chunks (C07); the modular ring incl. pow (C13); sqrt_rem with the Karatsuba kernel "
              "(C12); IBig->f32/f64 (C06). The runs the oracle evaluates (Serde/WordRuns.v, WordRuns2.v: build the representation of the "
              "build's word size, run the word-level as-is model, read the value) are each proved equal to their word-size-free "
              "specification for EVERY w >= 8; round 4 adds gcd, gcd_ext, nth_root and ilog with the dispatch of gcd_ops.rs / root_ops.rs / "
              "log.rs transcribed per word size (small = two words, Word or DoubleWord second operand, primitive gcd on the Word / "
              "DoubleWord type, Lehmer on w-bit words with the double-word guess from 300 words on, max_exp_in_word, the three ilog loops "
              "from ANY admissible first guess): whenever two builds answer, they return the same gcd, the same n-th root, the same "
              "logarithm, and Bezout coefficients of the same gcd. ARCHITECTURE: the cfg_if! chain of integer/src/arch/mod.rs, the "
              "per-architecture mod.rs/word.rs and generic/add.rs are regenerated into coq/gen/ArchGen.v on every run; for EVERY set of cfg "
              "values the selected Word is 16/32/64 bits, force_bits=N selects N bits, and the portable add_with_carry/sub_with_borrow are "
              "the primitives of C01's model. STD / NO_STD: the only differing code is the log2 estimator; ilog, nth_root, FBig comparison "
              "and FBig +/- are proved for ANY (sound) estimate; round 4: Context::div returns the same digits for ANY pair of digit "
              "estimates, and what mul / div / sqrt store is in normal form. TEXT FORMS (serde_json): Display + "
              "from_str_with_radix_prefix of UBig/IBig round trip and are word-size independent; RBig text n[/d] round trips and every "
              "accepted text decodes to lowest terms; round 4: a lexer model of what serde_json hands to visit_str for an ARBITRARY token "
              "stream (escapes incl. surrogate pairs, blanks, and the rejection of every token that is not a string - numbers, null, "
              "booleans, arrays, maps never reach a Visitor of the library; the list of Visitor methods, the deserializer hints, the "
              "callees of visit_str, the infinity tokens and the escape of the float serializer are regenerated into "
              "coq/gen/SerdeVisitorsGen.v on every run); the lexer never runs out of fuel, plain strings reach visit_str unchanged, "
              "serialize-quote-lex-parse round trips for integers and RBig, accepted rationals are canonical; the REPAIRED float text form "
              "(finite numbers whose digits spell an infinity token get the scale @0) round trips for every finite normal-form value in "
              "EVERY base 2..36, and for the infinities. The value-level half is tied by running one case file through five builds "
              "(64/32-bit words x debug/release, no_std), judging every answer against word-size-free specifications, running the "
              "word-level models at the word size each build reports, and diffing the builds.")
LEVEL_NOTE = ("Proved for all inputs: everything listed above. Judged per case against a proved/certified specification AND compared token "
              "for token with an as-is model in all five builds: gcd / gcd_ext (incl. the cofactors) / nth_root / ilog through the "
              "word-level dispatch models at the build's word size (round 3: certificates only); float add/sub/mul/div/sqrt against C03's "
              "digit-exact models with every Repr::new (round 3: rounding contract only); every JSON token stream against the lexer model "
              "(round 3: plain strings only); RBig->f32/f64 (C06 ieee_rne = Flocq), FBig->f32/f64 (C06 ieee_round; open class "
              "fbig_to_float_subnormal shared with C06), exp/ln/powi (C11's certified interval checkers; open class directed_faithful "
              "shared with C11). Partial correctness only: the Lehmer loops and the Newton / logarithm loops are proved correct whenever "
              "they answer; their termination is C12's (loop totality theorems), the absence of the model's panic branches inside Lehmer "
              "is compared by the run. Only compared by the run, not proved here: that two word sizes return the SAME Bezout coefficients "
              "(proved: coefficients of the same gcd; the run diffs them and compares each with the model); the first guess of ilog "
              "(f32 arithmetic of the build; the theorem covers every guess); bytes >= 0x80 inside a JSON string are rejected by "
              "assumption (invalid UTF-8: serde_json; valid non-ASCII: no parser accepts it) and compared by the run; FBig::ftostr / "
              "ffromstr by canonical value; extreme-exponent float cases are judged after an exponent translation done in the driver; "
              "x86/x86_64 add.rs use core::arch intrinsics (listed, not transcribed); NTT tables are dead code. Findings of this round: "
              "fbig_json_inf_collision FIXED (text form escaped), fbig_to_float_wide_significand FIXED by C06's repair 344196e (the debug "
              "assertion is now a theorem), float_exponent_intermediate_overflow FIXED (sqrt / to_f32 / to_f64 / add / sub / ulp / {:e} "
              "overflowed on representable operands with representable results: debug builds panicked, release builds returned wrong "
              "values for sqrt and to_f64), float_exponent_range_unchecked OPEN (the exponent of a product / square / cube / quotient / "
              "shift that leaves isize panics in builds with overflow checks and wraps silently in release builds). force_bits=\"16\" "
              "does not compile on this host and is not exercised (its selection and word widths are covered by the regenerated table).")
TECHNIQUE = ("Coq proofs for arbitrary word size (wire formats, word-level runs incl. gcd/root/log dispatch, corollaries of "
             "C01/C02/C03/C06/C07/C09/C12/C13), two regenerated fragments (architecture table, serde glue), estimator-independence theorems, "
             "text-form round trips with a JSON lexer model + five-configuration correspondence run with word-level and digit-exact float "
             "models evaluated for each build")
RULE = ("cases = operation x operands: integers from word-count classes {0,1,2,3,4,5,8,T-1,T,T+1 for the size thresholds, counted in "
        "64-bit AND in 32-bit words} x bit patterns x signs for arithmetic/division/bit/radix/byte/gcd/root/log/modular operations; single "
        "multiplication kernels (schoolbook/Karatsuba/Toom-3/dispatch through verif_hooks::mul_kernel) on slices sized at the kernel "
        "minimum lengths and thresholds of both word sizes with accumulators around borrow/overflow; radix conversion at powers of the "
        "radix around the digits-per-word and chunk boundaries of both word sizes; log2_bounds of every numeric type; float "
        "add/sub/mul/div/sqrt/exp/ln/powi; integer, rational and float -> f32/f64; rational arithmetic; serde round trips (postcard + "
        "serde_json) of UBig/IBig/FBig/Repr/RBig/Relaxed incl. zero, infinities, the base-36 'inf' number and its neighbours, "
        "sign/parity classes of the byte length; decoders fed with valid encodings, their mutations (truncated, extended, non-minimal "
        "varints, trailing zero bytes, zero denominator, zero significand with exponents 0,+-1,other, precision below the digit count, "
        "10-byte varints) and random bytes / JSON tokens; round 4: JSON strings with uXXXX escapes of either case, escaped slash, blanks around, "
        "valid escapes of non-digits, invalid escapes, lone / paired surrogates, raw control bytes, non-ASCII and invalid UTF-8 bytes, trailing "
        "characters, unterminated strings, and numbers / null / booleans / arrays / maps; gcd / gcd_ext / ilog / nth_root at the dispatch "
        "boundaries of both word sizes (two-word operands, Word / DoubleWord second operand, 300-word operands for the double-word Lehmer guess, "
        "Fibonacci-like operands, bases that are a Word in one build and a DoubleWord in the other, powers of the base +-1); division by a "
        "prepared ConstDivisor whose top word has / has no leading zeros and residue rings with shift 0 whose operand lengths add up to the "
        "modulus length (release-only code paths); float mul / add / sub / sqrt and base-2 -> f64/f32 with exponents at the ends of the isize "
        "range; short histories with state (Clone::clone_from of IBig / FBig / RBig into destinations of every sign and size class, "
        "65..128-bit values that are inline with 64-bit words and heap-stored with 32-bit words, lengths inside and outside the buffer-reuse "
        "window, then text and JSON); the build's cfg values against the regenerated architecture chain. Every case "
        "runs in all five builds; non-trivial = the oracle evaluated a specification on a non-degenerate input; distinct = distinct case texts.")
EXPLANATION = ("Theorems in coq/props/C19.v (Serde/WireProofs, WordSizeKernels, WordSizeKernels2, WordRuns, WordRuns2, EstimatorIndependence, JsonProofs, "
               "JsonTokenProofs, SerdeGlueProofs, FloatBuilds, ExpRangeProofs, ArchProofs). The oracle (oracle/driver_c19.ml) judges each build's answers against the extracted specifications; every `ok` "
               "answer carries the word size of the build (wb=) and the oracle additionally runs the word-level as-is models at exactly that "
               "word size (asis=same|diff, path=<kernel class at that word size>); tools/check.py diffs the builds pairwise through "
               "canon_answer (wb=/len= tokens, log2 bounds and the build banner are canonicalised away, everything else must be identical text).")
TRUSTED_BASE = [
    "Coq 8.16.1 kernel (coqc)",
    "extraction: ExtrOcamlBasic + ExtrOcamlZBigInt + ExtrOcamlNativeString + coq/extract/FastZ.v directives; Extract Constant ClassicalDedekindReals.sig_forall_dec (never called; CoqInterval enclosures of C11)",
    "OCaml 4.13.1 + zarith 1.12, oracle/common.ml, oracle/driver_c19.ml (incl. the precision heuristics for C11's checkers copied from driver_c11.ml: a bad choice can only give 'undecided'); Rust harness harness/src/bin/c19.rs; serde_json and postcard 1.1.3 as the media (postcard's varint/bytes/struct layout is transcribed in Serde/WireModel.v)",
    "specifications and as-is models imported read-only from other properties: Int/BitsSpec, Int/IoSpec+IoModel, Int/GrlSpec, Float/Contract, Int/RingMulW+RingOpsW (C01), Int/DivSrcInst (C02), Int/BitsKernels (C09), Int/ModRingModel (C13), Int/GrlKsqrt (C12), Conv/ConvSpec+ConvModel (C06), Float/TextIoModel (C08), Float/ElemEncl+ElemEntry (C11)",
    "tools/translate_c19_r3.py: strict regex reader of integer/src/arch/{mod.rs,<dir>/mod.rs,<dir>/word.rs,generic/add.rs} -> coq/gen/ArchGen.v; the reading of cfg predicates as (key, value) alternatives, of cfg_if! as first match, of overflowing_add/sub and Word::from(bool) (Serde/ArchModel.v) is hand-written semantics; x86/x86_64 add.rs (core::arch intrinsics) are trusted",
    "cargo feature unification: the nostd configuration builds all four crates without default features (tools/core.py harness_dir)",
    "tools/translate_c19_r4.py: regex reader of the three third_party/serde.rs files -> coq/gen/SerdeVisitorsGen.v; the reading of serde_json's deserialize_str (only a JSON string reaches the Visitor; serde_json 1.0.151 read.rs parse_str / parse_escape / parse_unicode_escape transcribed by hand into Serde/JsonTokenModel.v) and the rejection of bytes >= 0x80 are hand-written semantics of the medium",
    "round 4 models imported read-only: Int/GrlModel + GrlLehmer + GrlKsqrt (C12: primitive gcd, Lehmer value level, Newton root, the three ilog loops), Float/LongModel (C03: digit-exact models with every Repr::new), Conv/ConvModel div_round_once (C06)",
    "oracle/driver_c19.ml translates the exponents of the extreme-exponent float cases next to zero before evaluating the rounding contract (rounding to p digits commutes with scaling by powers of the base; operands of + / - further apart than p + both lengths + 16 digits are moved to that distance) and caps base-2 exponents at +-5000 for the f32/f64 conversions; the as-is models themselves are evaluated on the real exponents (they only add exponents)",
]
ASSUMPTIONS = [
    "UBig::from_words / as_words / IBig::from_parts / as_sign_words transport values faithfully in every build (the harness moves values through raw words of the build's own word size)",
    "isize/usize are 64-bit in all five builds (force_bits changes Word only); float exponents stay within +-2^40 in generated cases except the fx / ftof64 cases of round 4, which sit at the ends of the isize range",
    "force_bits=\"16\" is not exercised: it does not compile on this host",
    "serde_json / postcard themselves are trusted as media; only dashu's Serialize/Deserialize implementations are under test",
]


def canon_answer(ans):
    """what must be identical between two builds"""
    if ans.startswith("ok ") and ("wb=" in ans or "len=" in ans):
        # wb=<bits>: the word size of the answering build (the oracle runs the word-level models at it); len=<la>,<lb>: the
        # slice lengths of kmul in words of that build - both legitimately differ, everything else must not
        ans = " ".join(t for t in ans.split(" ") if not (t.startswith("wb=") or t.startswith("len=")))
    if ans.startswith("ok xr=1"):
        # open finding float_exponent_range_unchecked: the product's exponent is out of the range of isize - builds with overflow
        # checks panic, builds without wrap; the oracle judges each answer against the as-is model of its kind of build
        return "ok xr=1"
    if ans.startswith("ok bounds"):
        return "ok bounds"          # judged as bounds in each build, legitimately different (std vs table estimator)
    if ans.startswith("ok config"):
        return "ok config"
    if ans.startswith("ok wide="):
        # open finding F06: the part whose internal conversion is too wide is excluded from the diff
        t = ans.split()
        if len(t) == 6:
            if t[1][5] == "1":
                t[2] = t[3] = "*"
            if t[1][6] == "1":
                t[4] = t[5] = "*"
            return " ".join(t)
    if ans.startswith("panic Undocumented:"):
        return "panic Undocumented"  # an undocumented panic in both builds: the message text may differ (std vs no_std estimator)
    return ans


# ------------------------------------------------------------------------------------------------
# python encoders of the wire formats (generators only; expected answers come from the Coq model)
# ------------------------------------------------------------------------------------------------
def varint(n):
    out = []
    while True:
        if n < 128:
            out.append(n)
            return out
        out.append((n & 0x7F) | 0x80)
        n >>= 7


def zigzag(n):
    return 2 * n if n >= 0 else -2 * n - 1


def le(v):
    return list(v.to_bytes((v.bit_length() + 7) // 8, "little"))


def enc_ubig(v):
    b = le(v)
    return varint(len(b)) + b


def enc_ibig(v):
    if v == 0:
        return [0]
    b = le(abs(v))
    if (len(b) % 2 == 1) != (v < 0):
        b.append(0)
    return varint(len(b)) + b


def xb(bs):
    return "x" + "".join("%02x" % b for b in bs)


def xs(s):
    return xb(s.encode())


def shex(v):
    return hx(v)


BASES = [("2", 2), ("a", 10), ("10", 16), ("3", 3), ("8", 8), ("24", 36), ("5", 5), ("7", 7)]
MODES = ["Zero", "Away", "Up", "Down", "HalfEven", "HalfAway"]


def ndigits(v, b):
    v = abs(v)
    n = 0
    while v:
        v //= b
        n += 1
    return n


def gint(rng, tier, signed=True, big=False):
    """an integer whose length is a size class counted in 64-bit or in 32-bit words"""
    unit = rng.choice([64, 32, 64])
    n = gen_words_len(rng, tier, big)
    m = gen_mag(rng, n, word=unit)
    if signed and rng.chance(1, 2):
        m = -m
    return m


def small(rng):
    return rng.choice([0, 1, 2, 3, 5, 7, 10, 255, 256, 65535, 65536, (1 << 32) - 1, 1 << 32, (1 << 64) - 1, 1 << 64, rng.bits(16), rng.bits(40)])


def gfloat(rng, b):
    """(significand, exponent)"""
    k = rng.below(8)
    if k == 0:
        s = 0
    elif k == 1:
        s = b ** rng.range(0, 12) * rng.choice([1, -1])
    elif k == 2:
        s = (b ** rng.range(1, 20) - 1) * rng.choice([1, -1])
    elif k == 3:
        s = gint(rng, "quick")
    else:
        s = rng.bits(rng.choice([3, 10, 30, 64, 65, 100, 130])) * rng.choice([1, -1])
    e = rng.choice([0, 1, -1, 2, -3, 7, -20, 40, -64, rng.range(-200, 200)])
    return s, e


def shows(e):
    return hx(e)


def mutate(rng, bs):
    k = rng.below(10)
    bs = list(bs)
    if k == 0 and bs:
        return bs[: rng.below(len(bs))]                        # truncated
    if k == 1:
        return bs + [rng.below(256) for _ in range(rng.range(1, 3))]   # trailing garbage
    if k == 2 and bs:
        i = rng.below(len(bs))
        bs[i] = rng.below(256)
        return bs
    if k == 3 and bs:
        bs[0] = (bs[0] + rng.choice([1, 2, 255])) % 256         # length prefix off
        return bs
    if k == 4 and bs and bs[0] < 128:
        return [bs[0] | 0x80, 0] + bs[1:]                       # non-minimal varint length
    if k == 5:
        return [0xFF] * rng.range(1, 11) + [rng.choice([0, 1, 2, 0x7F])] + bs
    return bs


def gen_de_int(rng, tier, signed):
    k = rng.below(10)
    if k < 3:
        v = gint(rng, tier, signed)
        return enc_ibig(v) if signed else enc_ubig(v)
    if k < 5:
        # raw body of any parity, with trailing zero bytes (accepted, not minimal)
        body = le(abs(gint(rng, tier, False))) + [0] * rng.range(0, 3)
        if rng.chance(1, 4):
            body = [0] * rng.range(0, 9)
        return varint(len(body)) + body
    if k < 8:
        v = gint(rng, tier, signed)
        return mutate(rng, enc_ibig(v) if signed else enc_ubig(v))
    return [rng.below(256) for _ in range(rng.range(0, 12))]


def gen_de_rat(rng, tier):
    k = rng.below(10)
    n = rng.choice([0, 1, -1, 2, -6, rng.bits(20), -rng.bits(70), gint(rng, tier)])
    d = rng.choice([0, 0, 1, 2, 4, 6, rng.bits(20) + 1, abs(gint(rng, tier, False)) + 1, abs(n), 2 * abs(n)])
    bs = enc_ibig(n) + enc_ubig(d)
    if k < 6:
        return bs
    if k < 9:
        return mutate(rng, bs)
    return [rng.below(256) for _ in range(rng.range(0, 10))]


def gen_de_float(rng, b, with_prec):
    k = rng.below(10)
    s, e = gfloat(rng, b)
    if rng.chance(1, 4):
        s = 0
        e = rng.choice([0, 1, -1, 2, -2, 5, -(1 << 40)])
    bs = enc_ibig(s) + varint(zigzag(e))
    if with_prec:
        nd = ndigits(s, b)
        p = rng.choice([0, nd, nd + 1, nd + 7, max(0, nd - 1), 1, 2, nd // 2, 1 << 20])
        bs += varint(p)
    if k < 6:
        return bs
    if k < 9:
        return mutate(rng, bs)
    return [rng.below(256) for _ in range(rng.range(0, 10))]


def valid(text):
    """preconditions of the hook-driven kernels, for the shrinker: kmul needs len(b) >= the kernel's minimum length in BOTH
    word sizes (the 64-bit geometry binds) and an accumulator that fits len(a) + len(b) 32-bit words"""
    t = text.split()
    if t and t[0] == "kmul" and len(t) == 6:
        try:
            which, c, a, b = int(t[1], 16), int(t[3], 16), int(t[4], 16), int(t[5], 16)
        except ValueError:
            return False
        if a <= 0 or b <= 0 or c < 0:
            return False
        lo = min(a.bit_length(), b.bit_length())
        need = {0: 1, 1: 1, 2: 3, 3: 16}.get(which)
        if need is None or -(-lo // 64) < need:
            return False
        return c.bit_length() <= 32 * (-(-a.bit_length() // 32) + -(-b.bit_length() // 32))
    return True


def gen_kmul(rng, tier):
    """one multiplication kernel on the word slices of each build: lengths chosen in 32-bit AND in 64-bit words around the
    thresholds (24/25, 192/193 words) and the minimum lengths of the kernels (Karatsuba 3, Toom-3 16 words of the 64-bit build)"""
    which = rng.choice([0, 0, 1, 2, 2, 3, 3])
    unit = rng.choice([32, 32, 64])
    if which == 3:
        lb = rng.choice([16, 17, 24, 25, 31, 32, 33, 64] if unit == 64 else [31, 32, 33, 34, 47, 48, 49, 63, 64, 65, 96, 97, 193])
    elif which == 2:
        lb = rng.choice([3, 4, 5, 8, 16, 24, 25, 26, 31] if unit == 64 else [5, 6, 7, 8, 9, 24, 25, 26, 33, 47, 48, 49, 51, 63, 64, 65])
    elif which == 1:
        lb = rng.choice([1, 2, 3, 4, 8, 24, 25, 30])
    else:
        lb = rng.choice([1, 2, 3, 23, 24, 25, 26, 48, 49, 50, 51, 52, 96, 191, 192, 193, 194] + ([384, 385, 386, 387, 388] if unit == 32 else []))
    la = rng.choice([lb, lb, lb + 1, lb + 2, lb + 24, lb + 25, 2 * lb - 1, 2 * lb, 2 * lb + 1, 3 * lb + 1, lb + rng.below(lb + 1)])
    la = max(la, lb)
    if la * lb > 120000:
        la = lb + 1
    a, b = gen_mag(rng, la, word=unit), gen_mag(rng, lb, word=unit)
    if rng.chance(1, 8) and la == lb:
        b = a
    # the accumulator must fit len(a) + len(b) words in BOTH builds: the 32-bit geometry is the shorter one
    nb = 32 * (-(-a.bit_length() // 32) + -(-b.bit_length() // 32))
    r = rng.below(6)
    if r == 0:
        c = 0
    elif r == 1:
        c = (1 << nb) - 1
    elif r == 2:
        c = rng.bits(nb)
    elif r == 3:
        c = max(0, a * b % (1 << nb) + rng.choice([-1, 0, 1]))
    elif r == 4:
        c = min(max(0, (1 << nb) - 1 - a * b + rng.choice([-1, 0, 1, 2])), (1 << nb) - 1)
    else:
        c = rng.bits(nb) | (((1 << (nb // 2)) - 1) << (nb // 4))
        c &= (1 << nb) - 1
    return "kmul %x %d %s %s %s" % (which, rng.below(2), hx(c), hx(a), hx(b))


def gen_qtof_tie(rng):
    """RBig -> f64 / f32 just above / below / on a rounding tie (54th resp. 25th bit of the quotient set, then zeros): only the
    remainder of the division (sticky bit) tells the three apart; also quotients that are exactly representable"""
    pb = rng.choice([53, 53, 24])
    m = ((rng.bits(pb - 1) | (1 << (pb - 1))) << 1) | rng.choice([1, 1, 1, 0])
    dd = rng.choice([3, 7, rng.bits(30) | 1, (1 << 70) + 1, 10 ** 20 + 1])
    j = rng.choice([0, 1, 2, 5, 40, 200])
    nn = (m * dd << j) + rng.choice([1, -1, 1, -1, 0, dd // 2, 2])
    if rng.chance(1, 2):
        dd <<= rng.choice([1, 30, 300, 1000])
    if rng.chance(1, 2):
        nn = -nn
    return "qtof64 %s %s" % (hx(nn), hx(dd))


def gen_ftof(rng):
    """FBig -> f64 / f32, exponents within the exact / division routes of the base conversion (|e| <= 38), all modes,
    significands of 1..60 digits incl. exactly representable values and near-ties"""
    bt, b = rng.choice([("a", 10), ("a", 10), ("2", 2), ("10", 16), ("3", 3), ("8", 8), ("5", 5)])
    k = rng.below(4)
    if k == 0:
        s = rng.choice([1, 3, 5, 7, 4899, 12, 123456789, 10 ** 17 - 1, (1 << 53) + 1, (1 << 24) + 1, (1 << 54) - 1])
    elif k == 1:
        s = rng.bits(rng.choice([10, 24, 25, 53, 54, 60, 100, 200])) | 1
    elif k == 2:
        s = b ** rng.range(1, 30) + rng.choice([1, -1])
    else:
        s = ((rng.bits(52) | (1 << 52)) << 1 | 1) << rng.choice([0, 1, 7])     # a tie of f64 when the exponent is 0 in base 2
    s *= rng.choice([1, -1])
    e = rng.choice([0, 1, -1, 2, -2, 5, -5, 10, -10, 20, -20, 37, 38, -37, -38, rng.range(-38, 38)])
    if b == 2:
        e = rng.choice([e, -1074, -1075, -1080, -149, -150, -160, 960, 1023, 100, -100])
    return "ftof64 %s %s %x %s %s" % (bt, rng.choice(MODES), ndigits(s, b) + rng.choice([0, 1, 5]), hx(s), hx(e))


JSON_INT = ['"0"', '"12"', '"-12"', '"+7"', '"0x1f"', '"-0x1F"', '"0b101"', '"0o17"', '"1_000"', '"_"', '""', '"-"', '"12a"', '"0x"',
            '" 12"', '"12 "', '12', '-3', '1.5', 'null', 'true', '[]', '{}', '["1"]', '"\\u0031\\u0032"', '"1\\n"', ' "34" ', '"99', '99"',
            '"-0"', '"--1"', '"+-1"', '"0x-1"', '"340282366920938463463374607431768211456"', '"-18446744073709551616"']
JSON_RAT = ['"1/2"', '"2/4"', '"-6/4"', '"0/5"', '"1/0"', '"0/0"', '"3"', '"-3"', '"3/"', '"/3"', '"1/-2"', '"0x10/0x4"', '"1/2/3"', '1', '0.5',
            '"18446744073709551616/36893488147419103232"', '" 1/2"', '"1 / 2"', '"+1/+2"', 'null', '{"numerator":"1","denominator":"2"}']
JSON_FLT = ['"0"', '"1.5"', '"-1.5"', '"1e3"', '"1.5e-3"', '"inf"', '"-inf"', '"nan"', '"+inf"', '"Inf"', '"0.1"', '"100"', '"1_0.0_1"', '".5"', '"5."',
            '"1.1b4"', '"0x1.8p3"', '"1.8p3"', '"1e"', '"e1"', '""', '"."', '1.5', 'null', '"1.000000000000000000000000000001"', '"-0"', '"-0.0"',
            '"1e100"', '"1@5"', '"12.5@-2"', '{"significand":"1","exponent":0,"precision":1}']


def json_escape_variant(rng, text):
    """a JSON token stream around `text` (the bytes visit_str should see when the variant is valid): escapes, blanks, and the
    ways a string can be malformed.  Returns bytes."""
    q = rng.below(16)
    body = []
    for ch in text.encode():
        r = rng.below(6)
        if r == 0 and ch < 128:
            body += list(("\\u%04x" if rng.chance(1, 2) else "\\u%04X") % ch)   # \uXXXX of either case
            body = [c if isinstance(c, int) else ord(c) for c in body]
        elif ch == 0x2F and r == 1:
            body += [0x5C, 0x2F]                                                 # \/
        else:
            body.append(ch)
    pre = [rng.choice([0x20, 0x0A, 0x09, 0x0D]) for _ in range(rng.below(3))]
    post = [rng.choice([0x20, 0x0A, 0x09, 0x0D]) for _ in range(rng.below(3))]
    if q == 0:
        body.insert(rng.below(len(body) + 1), rng.choice([0x0A, 0x00, 0x1F, 0x09]))           # raw control byte
    elif q == 1:
        body[rng.below(len(body) + 1):0] = [0x5C, rng.choice([0x78, 0x61, 0x27, 0x30, 0x55])]  # invalid escape
    elif q == 2:
        body[rng.below(len(body) + 1):0] = list(rng.choice([b"\\ud800", b"\\udc00", b"\\ud83d\\u0031", b"\\ud83d\\ude00", b"\\u12", b"\\u00e9", b"\\u0000", b"\\u12g4"]))
    elif q == 3:
        body[rng.below(len(body) + 1):0] = list(rng.choice(["\u00e9", "\u0663", "\uff11", "\u2212"]).encode())  # valid UTF-8, not ASCII
    elif q == 4:
        body.insert(rng.below(len(body) + 1), rng.choice([0xFF, 0x80, 0xC0, 0xF8]))             # not UTF-8
    elif q == 5:
        post += list(rng.choice([b"x", b"1", b'"', b",", b"]", b"\x00"]))                      # trailing characters
    elif q == 6:
        return pre + [0x22] + body                                                             # unterminated
    elif q == 7:
        body[rng.below(len(body) + 1):0] = list(rng.choice([b"\\n", b"\\t", b"\\\"", b"\\\\", b"\\b", b"\\f", b"\\r"]))  # valid escapes of non-digits
    return pre + [0x22] + body + [0x22] + post


JSON_OTHER = ['12', '-3', '0', '1.5', '1e3', '-0', 'null', 'true', 'false', '[]', '["1"]', '[1]', '{}', '{"significand":"1","exponent":0}',
              '{"numerator":"1","denominator":"2"}', '', ' ', 'nul', '"', "'12'", '12"', '18446744073709551616', '-9223372036854775809', 'NaN', 'Infinity',
              '[1,2]', '[1,0,1]', '"\u0031\u0032"', '"\u0069\u006e\u0066"', '"\u002d1"', '"1\/2"', '"-\u0069nf"', '"1\u002e5"', '"1\u00405"']


def gen_grl4(rng, tier):
    """gcd / gcd_ext / ilog / nth_root at the dispatch boundaries of BOTH word sizes: small = two words (64 / 128 bits), a Word
    or a DoubleWord as the second operand, the double-word Lehmer guess from 300 words on (9600 / 19200 bits)"""
    op = rng.choice(["gcd", "gcd", "gcdext", "gcdext", "ilog", "ilog", "nthroot"])
    unit = rng.choice([32, 32, 64])
    if op in ("gcd", "gcdext"):
        r = rng.below(6)
        if r == 0:
            # both operands from MIN_DWORD_GUESS_LEN words on (in this unit): lehmer_guess_dword
            la, lb = rng.choice([300, 301, 302, 310]), rng.choice([300, 300, 301, 305])
            a, b = gen_mag(rng, la, word=unit), gen_mag(rng, lb, word=unit)
            if rng.chance(1, 2):
                g = gen_mag(rng, rng.choice([1, 2, 5]), word=unit)
                a, b = a * g, b * g
        elif r == 1:
            la, lb = rng.choice([299, 300, 298]), rng.choice([3, 150, 299, 300])
            a, b = gen_mag(rng, la, word=unit), gen_mag(rng, lb, word=unit)
        elif r == 2:
            # a Word / DoubleWord against a large number
            a = gen_mag(rng, rng.choice([3, 4, 5, 9, 40]), word=unit)
            b = rng.choice([0, 1, 2, 3, (1 << 32) - 1, 1 << 32, (1 << 32) + 1, (1 << 64) - 1, 1 << 64, (1 << 64) + 1, (1 << 96) + 7, (1 << 128) - 1,
                            rng.bits(31) + 1, rng.bits(63) + 1, rng.bits(64) | (1 << 64), rng.bits(127) | (1 << 127)])
            if rng.chance(1, 3) and b:
                a = a * b if rng.chance(1, 2) else a - a % b + b * rng.choice([0, 1])
        elif r == 3:
            # two small numbers in one unit, one of them large in the other
            a = rng.bits(rng.choice([60, 64, 65, 96, 127, 128])) + 1
            b = rng.bits(rng.choice([30, 33, 64, 65, 100, 128])) + 1
            if rng.chance(1, 3):
                g = rng.bits(20) + 1
                a, b = a * g, b * g
        elif r == 4:
            # consecutive Fibonacci-like numbers (all quotients 1) and a huge first quotient
            x, y = 1, 1
            for _ in range(rng.choice([90, 95, 180, 190, 400])):
                x, y = x + y, x
            a, b = (x, y) if rng.chance(1, 2) else (x * (1 << rng.choice([64, 70, 200])) + y, x)
        else:
            a, b = gen_mag(rng, rng.choice([3, 4, 6, 8]), word=unit), gen_mag(rng, rng.choice([3, 4, 5, 7]), word=unit)
        if rng.chance(1, 2):
            a, b = b, a
        if a == 0 and b == 0:
            a = 1
        if op == "gcd":
            a, b = a * rng.choice([1, -1]), b * rng.choice([1, 1, -1])
        return "%s %s %s" % (op, hx(a), hx(b))
    if op == "ilog":
        b = rng.choice([3, 5, 7, 10, 10, 36, 255, 257, 65535, 65536, 65537, (1 << 32) - 1, (1 << 32) + 1, (1 << 64) - 1, (1 << 64) + 1,
                        (1 << 96) + 3, (1 << 127) - 1, (1 << 128) + 1, 10 ** 9, 10 ** 19, 10 ** 20, rng.bits(200) + 2, 1 << 40, 1 << 130, 6 ** 12])
        k = rng.choice([0, 1, 2, 3, 5, 9, 10, 19, 20, 21, 38, 39, 40, 77, 100, 250])
        if b.bit_length() * k > 12000:
            k = 3
        x = rng.choice([b ** k, b ** k - 1, b ** k + 1, b ** k * (b - 1), rng.bits(b.bit_length() * k + 1) + 1, b, b - 1, b + 1, 1])
        return "ilog %s %s" % (hx(max(x, 1)), hx(b))
    a = gen_mag(rng, rng.choice([1, 2, 3, 4, 5, 8]), word=unit)
    if rng.chance(1, 2):
        r = gen_mag(rng, rng.choice([1, 2, 3]), word=unit)
        nn = rng.choice([2, 2, 3, 5])
        return "nthroot %s %x" % (hx(r ** nn + rng.choice([0, -1, 1])), nn)
    return "nthroot %s %x" % (hx(a), rng.choice([2, 2, 3, 4, 7, 64]))


def gen_ring4(rng, tier):
    """prepared divisors: division by a ConstDivisor whose top word has / has no leading zeros (in 64- and 32-bit words), residue
    rings with normalising shift 0 and operands whose word counts add up to at most the length of the modulus"""
    unit = rng.choice([32, 64, 64])
    lm = rng.choice([1, 2, 3, 3, 4, 5, 8, 17, 33])
    m = gen_mag(rng, lm, word=unit)
    q = rng.below(4)
    if q == 0:
        m |= 1 << (unit * lm - 1)                         # top bit set: shift 0
    elif q == 1:
        m = (m >> rng.choice([1, 7, 31, 33, unit - 1])) or 1   # leading zeros in the top word
    elif q == 2:
        m = (1 << (unit * lm)) - rng.choice([1, 3, 59, 189])
    m = m or 1
    op = rng.choice(["cdivrem", "cdivrem", "modmul", "modsqr", "modpow"])
    if op == "cdivrem":
        la = rng.choice([0, 1, lm, lm, lm + 1, 2 * lm, 2 * lm + 1, 3 * lm + 2])
        a = gen_mag(rng, la, word=unit) if la else rng.choice([0, 1])
        r = rng.below(5)
        if r == 0:
            a = m * gen_mag(rng, max(1, la - lm), word=unit) + rng.choice([0, 1, m - 1])
        elif r == 1:
            a = m * ((1 << (unit * rng.choice([1, 2, lm]))) - 1) + (m - 1)     # quotient words all ones
        return "cdivrem %s %s" % (hx(a * rng.choice([1, 1, -1])), hx(m))
    if lm >= 2 and rng.chance(1, 3):
        # normalising shift 0, len(x) + len(y) = len(m) exactly and x * y >= m: the product is not divided but compared with the
        # modulus and reduced by ONE conditional subtraction (mul_normalized / sqr_normalized)
        m = (1 << (unit * lm - 1)) + rng.bits(unit * lm - 2) + 1
        lx = rng.choice([lm // 2, 1, lm - 1]) if op != "modsqr" else lm // 2
        lx = max(1, lx)
        ly = lm - lx if op != "modsqr" else lx
        hi = lambda l: ((1 << (unit * l)) - 1) - rng.bits(unit * l - 3 if unit * l > 3 else 1)   # top three bits set
        x, y = hi(lx), hi(max(1, ly))
        if op == "modsqr" and 2 * lx < lm:
            m = (1 << (unit * 2 * lx - 1)) + rng.bits(unit * 2 * lx - 2) + 1
        if op == "modmul":
            return "modmul %s %s %s" % (hx(m), hx(x), hx(y))
        if op == "modsqr":
            return "modsqr %s %s" % (hx(m), hx(x))
        return "modpow %s %s %s" % (hx(m), hx(x), hx(rng.choice([2, 3, 4, 5, 17])))
    # small residues: len(x) + len(y) <= len(m)
    lx = rng.choice([0, 1, 1, max(1, lm // 2), max(1, lm - 1), lm, lm + 2])
    ly = rng.choice([1, max(1, lm - lx), max(1, lm // 2), lm])
    x = gen_mag(rng, lx, word=unit) if lx else 0
    y = gen_mag(rng, ly, word=unit)
    if rng.chance(1, 4):
        x = m - rng.choice([1, 2])
    if rng.chance(1, 3):
        x = -x
    if op == "modmul":
        return "modmul %s %s %s" % (hx(m), hx(x), hx(y))
    if op == "modsqr":
        return "modsqr %s %s" % (hx(m), hx(x))
    return "modpow %s %s %s" % (hx(m), hx(x), hx(rng.choice([0, 1, 2, 3, 4, 5, 16, 17, 65537, rng.bits(12)])))


IMAX, IMIN = (1 << 63) - 1, -(1 << 63)


def gen_fx(rng, tier):
    """float operations with exponents at the ends of the isize range (release vs debug: overflow checks): products whose
    exponents do / do not add up within isize, sums of operands further apart than isize::MAX, square roots next to both ends,
    base-2 floats next to isize::MAX into f64 / f32"""
    bt, b = rng.choice([("a", 10), ("a", 10), ("2", 2), ("10", 16), ("3", 3), ("24", 36)])
    mode = rng.choice(MODES)
    p = rng.choice([1, 2, 3, 5, 20])

    def sig(nd):
        v = rng.bits(rng.choice([2, 8, 30, 70])) % b ** nd
        while v % b == 0:
            v += 1
        return v

    ends = [IMAX, IMAX - 1, IMAX - 2, IMAX - 40, IMIN, IMIN + 1, IMIN + 2, IMIN + 41, 1 << 62, (1 << 62) + 1, -(1 << 62), -(1 << 62) - 1,
            (1 << 62) - 1, 0, 1, -1, 17, -40]
    op = rng.choice(["mul", "mul", "add", "sub", "sqrt", "sqrt", "tof"])
    if op == "tof":
        s = rng.choice([1, 3, (1 << 52) + 1, (1 << 53) - 1, (1 << 24) - 1, rng.bits(40) | 1]) * rng.choice([1, -1])
        e = rng.choice([IMAX, IMAX - 1, IMAX - 52, IMAX - 53, IMAX - 54, IMAX - 60, IMIN + 1, IMIN + 60, 1 << 62, -(1 << 62), 1024, 971, -1074, -1075, -1130])
        return "ftof64 2 %s %x %s %s" % (mode, abs(s).bit_length() + rng.choice([0, 3]), hx(s), hx(e))
    s1 = sig(p) * rng.choice([1, -1])
    s2 = sig(p) * rng.choice([1, -1])
    e1, e2 = rng.choice(ends), rng.choice(ends)
    if op == "mul":
        if rng.chance(1, 3):
            e2 = rng.choice([IMAX - e1 - 64, IMAX - e1 + 1, IMIN - e1, IMIN - e1 - 1, IMAX - e1 - 70])   # the sum at the very edge
            e2 = max(IMIN, min(IMAX, e2))
        if IMAX - 64 < e1 + e2 <= IMAX:
            # the rounding and the normalisation still add up to 2p + 1 to the exponent: keep clear of the top so that the class
            # of the open finding is decided by e1 + e2 alone
            e2 -= 64
        return "fx mul %s %s %x %s %s %s %s" % (bt, mode, p, hx(s1), hx(e1), hx(s2), hx(e2))
    if op == "sqrt":
        s1 = abs(sig(rng.choice([1, p, 2 * p, 2 * p + 1, 3 * p + 2])))
        return "fx sqrt %s %s %x %s %s" % (bt, mode, p, hx(s1), hx(e1))
    # + and -: the larger exponent stays 40 below the top so that a carry still fits
    e1, e2 = min(e1, IMAX - 40), min(e2, IMAX - 40)
    if rng.chance(1, 3):
        e2 = max(IMIN, min(IMAX - 40, e1 + rng.choice([0, 1, -1, p, -p - 1, 2 * p + 3])))
    return "fx %s %s %s %x %s %s %s %s" % (op, bt, mode, p, hx(s1), hx(e1), hx(s2), hx(e2))


def gen_hist(rng, tier):
    """a short history with state: a destination of every sign / size class receives values through clone_from; sizes around the
    inline / heap boundary of BOTH word sizes (a value of 65..128 bits is inline with 64-bit words and heap-stored with 32-bit
    words) and lengths inside / outside the buffer-reuse window (src_len <= capacity <= src_len + src_len / 4 + 4 words)"""
    def val():
        nb = rng.choice([0, 1, 20, 63, 64, 65, 70, 90, 96, 97, 100, 127, 128, 129, 130, 160, 192, 193, 250, 256, 257, 300, 400, 640, 2000])
        v = (rng.bits(nb) | (1 << (nb - 1))) if nb else 0
        return v * rng.choice([1, -1, -1])
    vs = [val()]
    for _ in range(rng.choice([1, 1, 2, 3, 4])):
        if rng.chance(1, 2) and vs[-1]:
            # about the same length as the destination: the buffer is reused
            nb = max(1, abs(vs[-1]).bit_length() + rng.choice([0, 0, -1, 1, -10, 10, -32, 32, -64]))
            v = (rng.bits(nb) | (1 << (nb - 1))) * rng.choice([1, -1, -1])
        else:
            v = val()
        vs.append(v)
    return "hist " + " ".join(hx(v) for v in vs)


def gen_json4(rng, tier):
    ty = rng.choice(["ubig", "ibig", "rbig", "relaxed", "fbig"])
    if rng.chance(1, 3):
        t = rng.choice(JSON_OTHER).encode()
    else:
        v = rng.choice([0, 1, 12, 255, rng.bits(40), rng.bits(130)]) * (rng.choice([1, -1]) if ty != "ubig" else 1)
        if ty in ("ubig", "ibig"):
            text = rng.choice(["%d" % v, "%d" % v, "0x%x" % abs(v), "+%d" % abs(v), "1_000", "0b101", "-", ""])
        elif ty in ("rbig", "relaxed"):
            text = rng.choice(["%d/%d" % (v, rng.bits(10) + 1), "%d" % v, "6/4", "-6/8", "1/0", "0/7", "0x10/0x4", "1/-2"])
        else:
            text = rng.choice(["%d" % v, "1.5", "-1.5e3", "inf", "-inf", "1@5", "12.5@-2", "0.001", "1_0.5", "inf@0", "-inf@0", "Inf", "+inf", "1e", "."])
        t = bytes(json_escape_variant(rng, text))
    if ty == "fbig":
        bt, b = rng.choice(BASES)
        return "dej_fbig %s %s %s" % (bt, rng.choice(MODES), xb(t))
    return "dej_%s %s" % (ty, xb(t))


def gen_cases(rng, tier, n):
    out = ["config", "mulparams"]
    while len(out) < n:
        k = rng.below(130)
        if k >= 127:
            out.append(gen_hist(rng, tier))
        elif k >= 124:
            out.append(gen_fx(rng, tier))
        elif k >= 118:
            out.append(gen_json4(rng, tier))
        elif k >= 113:
            out.append(gen_ring4(rng, tier))
        elif k >= 108:
            out.append(gen_grl4(rng, tier))
        elif k >= 106:
            out.append(gen_ftof(rng))
        elif k >= 104:
            out.append(gen_qtof_tie(rng))
        elif k >= 100:
            out.append(gen_kmul(rng, tier))
        elif k < 8:
            a = gint(rng, tier, big=rng.chance(1, 8))
            r = rng.below(5)
            if r == 0:
                b = -a + rng.choice([0, 1, -1])
            elif r == 1:
                b = gen_mag(rng, max(1, (abs(a).bit_length() + 31) // 32), word=32) * rng.choice([1, -1])
            else:
                b = gint(rng, tier)
            out.append("%s %s %s" % (rng.choice(["add", "sub", "mul", "mul", "cmp"]), hx(a), hx(b)))
        elif k < 10:
            op = rng.choice(["sqr", "pow", "usub"])
            if op == "sqr":
                out.append("sqr %s" % hx(gint(rng, tier)))
            elif op == "pow":
                out.append("pow %s %x" % (hx(rng.choice([0, 1, -1, 2, -2, 3, 10, -7, rng.bits(33), -rng.bits(70), gint(rng, "quick") >> 700])), rng.choice([0, 1, 2, 3, 5, 17, 64, 100])))
            else:
                a, b = abs(gint(rng, tier, False)), abs(gint(rng, tier, False))
                if rng.chance(3, 4) and a < b:
                    a, b = b, a
                out.append("usub %s %s" % (hx(a), hx(b)))
        elif k < 17:
            a = gint(rng, tier, big=rng.chance(1, 8))
            r = rng.below(6)
            if r == 0:
                b = rng.choice([1, -1, 2, 3, (1 << 32) - 1, 1 << 32, (1 << 32) + 1, (1 << 64) - 1, 1 << 64, 0])
            elif r == 1:
                b = gen_mag(rng, rng.choice([1, 2, 3, 4]), word=32) * rng.choice([1, -1])
            elif r == 2:
                # divisor about half as long: the balanced division paths
                b = gen_mag(rng, max(1, (abs(a).bit_length() + 63) // 128), word=rng.choice([32, 64])) * rng.choice([1, -1])
            else:
                b = gint(rng, tier)
            out.append("%s %s %s" % (rng.choice(["divrem", "diveuc"]), hx(a), hx(b)))
        elif k < 22:
            a, b = gint(rng, tier), gint(rng, tier)
            op = rng.choice(["and", "or", "xor", "not", "shl", "shr", "bitlen", "tz", "ones"])
            if op in ("and", "or", "xor"):
                out.append("%s %s %s" % (op, hx(a), hx(b)))
            elif op in ("shl", "shr"):
                nb = abs(a).bit_length()
                out.append("%s %s %x" % (op, hx(a), rng.choice([0, 1, 31, 32, 33, 63, 64, 65, 95, 96, 127, 128, 129, max(0, nb - 1), nb, nb + 1, rng.below(300)])))
            elif op == "ones":
                out.append("ones %s" % hx(abs(a)))
            else:
                out.append("%s %s" % (op, hx(a)))
        elif k < 27:
            op = rng.choice(["gcd", "gcdext", "sqrt", "nthroot", "ilog"])
            if op in ("gcd", "gcdext"):
                a, b = gint(rng, tier, op == "gcd"), gint(rng, tier, op == "gcd")
                if rng.chance(1, 3):
                    g = abs(gint(rng, "quick")) >> rng.choice([0, 100, 900])
                    a, b = a * g, b * g
                if a == 0 and b == 0:
                    a = 1
                if op == "gcdext":
                    a, b = abs(a), abs(b)
                out.append("%s %s %s" % (op, hx(a), hx(b)))
            elif op == "sqrt":
                a = abs(gint(rng, tier, False))
                if rng.chance(1, 3):
                    r = abs(gint(rng, "quick")) >> rng.choice([0, 300, 900])
                    a = r * r + rng.choice([0, -1, 1]) if r else 0
                out.append("sqrt %s" % hx(max(a, 0)))
            elif op == "nthroot":
                a = abs(gint(rng, tier, False))
                out.append("nthroot %s %x" % (hx(a), rng.choice([1, 2, 3, 3, 4, 5, 7, 31, 32, 33, 63, 64, 65, max(1, a.bit_length()), a.bit_length() + 1, 0])))
            else:
                b = rng.choice([2, 3, 4, 10, 16, 255, 256, (1 << 32) - 1, 1 << 32, (1 << 64) - 1, 1 << 64, (1 << 64) + 1, rng.bits(100) + 2])
                a = rng.choice([abs(gint(rng, tier, False)), b ** rng.range(0, 9) + rng.choice([0, -1, 1])])
                out.append("ilog %s %s" % (hx(max(a, 1)), hx(b)))
        elif k < 30:
            m = abs(gint(rng, tier, False)) or 1
            if rng.chance(1, 3):
                m = rng.choice([1, 2, 3, (1 << 32) - 1, (1 << 32) + 15, (1 << 64) - 1, (1 << 64) - 59, (1 << 64) + 13, (1 << 128) - 159])
            x, y = gint(rng, tier), gint(rng, tier)
            if rng.chance(1, 2):
                out.append("modmul %s %s %s" % (hx(m), hx(x), hx(y)))
            else:
                out.append("modpow %s %s %s" % (hx(m), hx(x), hx(rng.choice([0, 1, 2, 3, 65537, rng.bits(20), rng.bits(70)]))))
        elif k < 35:
            r = rng.choice([2, 3, 7, 8, 10, 10, 16, 16, 32, 36, rng.range(2, 36)])
            if rng.chance(1, 2):
                v = gint(rng, tier, big=rng.chance(1, 10))
                if rng.chance(1, 3):
                    # digits per word differ (9 / 19 decimal digits per 32 / 64-bit word): powers of the radix around the
                    # word and chunk boundaries of both word sizes
                    v = (r ** rng.choice([8, 9, 10, 18, 19, 20, 27, 38, 57, 9 * 16, 9 * 16 + 1, 19 * 16, 19 * 16 + 1, 9 * 32 + 1, rng.range(1, 400)])
                         + rng.choice([0, -1, 1])) * rng.choice([1, -1])
                out.append("tostr %x %s" % (r, hx(v)))
            else:
                v = gint(rng, tier)
                if rng.chance(1, 3):
                    v = (r ** rng.choice([8, 9, 10, 18, 19, 20, 38, 255, 256, 257, 9 * 256 + 1, rng.range(1, 600)]) + rng.choice([0, -1, 1])) * rng.choice([1, -1])
                digs = "0123456789abcdefghijklmnopqrstuvwxyz"
                m, t = abs(v), ""
                while m:
                    t = digs[m % r] + t
                    m //= r
                t = t or "0"
                t = ("-" if v < 0 else rng.choice(["", "", "+"])) + t
                q = rng.below(8)
                if q == 0:
                    t = t.upper()
                elif q == 1 and len(t) > 2:
                    i = rng.range(1, len(t) - 1)
                    t = t[:i] + "_" + t[i:]
                elif q == 2:
                    i = rng.below(len(t) + 1)
                    t = t[:i] + rng.choice(["z", " ", ".", "-", "g", "/", "\x00", "é"]) + t[i:]
                elif q == 3:
                    t = rng.choice(["", "-", "+", "_", "__", "-_", "0x10", "00012", "-0"])
                out.append("fromstr %x %s" % (r, xs(t)))
        elif k < 39:
            if rng.chance(1, 2):
                v = gint(rng, tier)
                if rng.chance(1, 4):
                    v = rng.choice([1, -1]) * (1 << (8 * rng.choice([1, 2, 4, 7, 8, 9, 15, 16, 17, 24, 32]))) + rng.choice([0, -1, 1])
                out.append("tobytes %s" % hx(v))
            else:
                nb = rng.choice([0, 1, 2, 3, 4, 5, 7, 8, 9, 15, 16, 17, 24, 31, 32, 33, 40])
                bs = [rng.choice([0, 0xFF, 0x80, 0x7F, rng.below(256)]) for _ in range(nb)]
                out.append("frombytes %s" % xb(bs))
        elif k < 41:
            v = gint(rng, tier)
            if rng.chance(1, 2):
                nb = rng.choice([24, 25, 53, 54, 55, 64, 65, 100, 127, 128, 129, 1023, 1024, 1025])
                v = ((1 << nb) - rng.choice([0, 1, 2, 1 << max(0, nb - 25), 1 << max(0, nb - 54), (1 << max(0, nb - 54)) + 1])) * rng.choice([1, -1])
            out.append("tof64 %s" % hx(v))
        elif k < 49:
            ty = rng.choice(["ubig", "ibig", "u8", "u16", "u32", "u64", "u128", "i64", "f32", "f64", "rbig", "relaxed", "fbig"])
            if ty in ("ubig", "ibig"):
                v = gint(rng, tier, ty == "ibig", big=rng.chance(1, 8))
                if rng.chance(1, 3) and v:
                    nb = abs(v).bit_length()
                    v = (1 << (nb - 1)) + rng.choice([0, 1, -1, (1 << max(0, nb - 16)) - 1, rng.bits(max(1, nb - 16))])
                out.append("log2b %s %s" % (ty, hx(v if ty == "ibig" else abs(v))))
            elif ty in ("u8", "u16", "u32", "u64", "u128", "i64"):
                bits = {"u8": 8, "u16": 16, "u32": 32, "u64": 64, "u128": 128, "i64": 63}[ty]
                v = rng.choice([0, 1, 2, 3, (1 << bits) - 1, 1 << (bits - 1), (1 << (bits - 1)) + 1, rng.bits(bits), rng.bits(bits) >> rng.below(bits)])
                if bits >= 32 and rng.chance(1, 3):
                    # the table estimator looks at the top 16 bits: a power of two there with large / random low bits
                    top = rng.choice([0x8000, 0x8000, 0x8001, 0xFFFF, 0xC000, 0xB504])
                    nb = rng.range(17, bits)
                    v = (top << (nb - 16)) | rng.choice([(1 << (nb - 16)) - 1, rng.bits(nb - 16), 1, 0])
                out.append("log2b %s %x" % (ty, v))
            elif ty == "f32":
                out.append("log2b f32 %x" % rng.choice([0, 1, 0x3F800000, 0x3F800001, 0x3F7FFFFF, 0x7F7FFFFF, 0x00800000, 0x007FFFFF, 0x7F800000, 0x7FC00000, 0xBF800000, rng.bits(31)]))
            elif ty == "f64":
                out.append("log2b f64 %x" % rng.choice([0, 1, 0x3FF0000000000000, 0x3FF0000000000001, 0x3FEFFFFFFFFFFFFF, 0x7FEFFFFFFFFFFFFF, 0x0010000000000000, 0x7FF0000000000000, 0x7FF8000000000000, rng.bits(63)]))
            elif ty in ("rbig", "relaxed"):
                nn = rng.choice([gint(rng, tier), rng.bits(70) + 1, 1, -1, 0])
                dd = rng.choice([abs(gint(rng, tier, False)) + 1, rng.bits(70) + 1, 1, abs(nn) + 1, max(1, abs(nn) - 1)])
                out.append("log2b %s %s %s" % (ty, hx(nn), hx(dd)))
            else:
                bt, b = rng.choice(BASES)
                s, e = gfloat(rng, b)
                out.append("log2b fbig %s %s %s" % (bt, hx(s), hx(max(-300, min(300, e)))))
        elif k < 57:
            bt, b = rng.choice(BASES[:6])
            mode = rng.choice(MODES)
            p = rng.choice([1, 2, 3, 5, 10, 19, 20, 38, 53, 64, 65, 100])
            if rng.chance(1, 5):
                # Ord of two floats of one base, both call directions: B^k + d against B^k (the digit-estimate shortcut of
                # repr_cmp_same_base must not decide pairs the estimate cannot separate) and random pairs
                kk = rng.range(1, 70)
                dd = rng.choice([1, -1, 2, b - 1, b + 1, 0])
                sg = rng.choice([1, -1])
                xx, yy = (sg * (b ** kk + dd), 0), (sg, kk)
                if rng.chance(1, 4):
                    s_, e_ = gfloat(rng, b)
                    yy = (s_, max(-80, min(80, e_)))
                if rng.chance(1, 2):
                    xx, yy = yy, xx
                out.append("fcmp %s %s %s %s %s %s" % (bt, mode, hx(xx[0]), hx(xx[1]), hx(yy[0]), hx(yy[1])))
                continue
            op = rng.choice(["fadd", "fsub", "fmul", "fdiv", "fsqrt", "fadd", "fmul", "fexp", "fln", "fpowi"])
            s1, e1 = gfloat(rng, b)
            s2, e2 = gfloat(rng, b)
            # the premise of the float properties: operands fit the context precision
            s1 = (abs(s1) % b ** p) * (1 if s1 >= 0 else -1)
            s2 = (abs(s2) % b ** p) * (1 if s2 >= 0 else -1)
            if op in ("fexp", "fln", "fpowi"):
                p = rng.choice([1, 3, 10, 20, 40])
                s1 = (rng.bits(rng.choice([3, 10, 30])) + 1) % b ** p or 1
                e1 = -rng.range(0, ndigits(s1, b) + 2)
                if op == "fexp" and rng.chance(1, 2):
                    s1 = -s1
                if op == "fpowi":
                    out.append("fpowi %s %s %x %s %s %s" % (bt, mode, p, hx(s1 * rng.choice([1, -1])), hx(e1), hx(rng.choice([0, 1, 2, 3, -1, -2, 7, 10, -5]))))
                else:
                    out.append("%s %s %s %x %s %s" % (op, bt, mode, p, hx(s1), hx(e1)))
            elif op == "fsqrt":
                out.append("fsqrt %s %s %x %s %s" % (bt, mode, p, hx(abs(s1)), hx(e1)))
            else:
                if op in ("fadd", "fsub") and rng.chance(1, 2):
                    e2 = e1 + rng.choice([0, 1, -1, p, -p, p + 1, -p - 1, p + 2, 2 * p + 3])
                out.append("%s %s %s %x %s %s %s %s" % (op, bt, mode, p, hx(s1), hx(e1), hx(s2), hx(e2)))
        elif k < 60:
            bt, b = rng.choice(BASES)
            if rng.chance(1, 2):
                s, e = gfloat(rng, b)
                e = max(-60, min(60, e))
                s >>= max(0, abs(s).bit_length() - 200)
                nd = ndigits(s, b)
                out.append("ftostr %s %s %x %s %s" % (bt, rng.choice(MODES), rng.choice([0, nd + b, nd + 100]), hx(s), hx(e)))
            else:
                out.append("ffromstr %s %s %s" % (bt, rng.choice(MODES), xs(rng.choice(JSON_FLT).strip('"'))))
        elif k < 63:
            if rng.chance(2, 3):
                n1, n2 = gint(rng, tier), gint(rng, tier)
                d1, d2 = abs(gint(rng, tier, False)) + 1, abs(gint(rng, tier, False)) + 1
                if rng.chance(1, 2):
                    n1, d1, n2, d2 = n1 >> 900, (d1 >> 900) + 1, n2 >> 900, (d2 >> 900) + 1
                out.append("%s %s %s %s %s" % (rng.choice(["qadd", "qsub", "qmul", "qdiv"]), hx(n1), hx(d1), hx(n2), hx(d2)))
            elif rng.chance(1, 2):
                out.append("qfromstr %s" % xs(rng.choice(JSON_RAT).strip('"')))
            else:
                # code paths with debug assertions: Farey stepping, rational -> float, decimal float -> float
                q = rng.below(3)
                if q == 0:
                    nn = rng.choice([3, 0, -3, 1, 7, rng.bits(30), -rng.bits(70)])
                    dd = rng.choice([1, 1, 2, 3, 7, rng.bits(20) + 1, rng.bits(66) + 1])
                    if dd.bit_length() > 24 and abs(nn).bit_length() < dd.bit_length() - 12:
                        # the Farey walk of next_up / next_down takes about (sum of the partial quotients of x) steps: a tiny x
                        # against a huge limit is a walk of 2^40 and more steps (hours, not a defect of this property)
                        nn = (rng.bits(dd.bit_length()) | 1) * rng.choice([1, -1])
                    out.append("qnext %s %s %s" % (hx(nn), hx(dd), hx(rng.choice([1, 1, 2, 3, 10, dd, dd + 1, max(1, dd - 1), rng.bits(12) + 1, 0]))))
                elif q == 1:
                    nn = rng.choice([1, -1, 3, rng.bits(24), rng.bits(53), rng.bits(54), rng.bits(64), rng.bits(120), (1 << 54) - 1, (1 << 25) - 1, gint(rng, tier) >> 600])
                    dd = rng.choice([1, 3, 7, 10, 1 << 10, rng.bits(30) + 1, rng.bits(70) + 1, (1 << 60) + 1])
                    out.append("qtof64 %s %s" % (hx(nn), hx(dd)))
                else:
                    bt, b = rng.choice([("a", 10), ("a", 10), ("2", 2), ("10", 16), ("3", 3)])
                    s = rng.choice([4899, 1, 5, rng.bits(20), rng.bits(54), rng.bits(60), 10 ** 17 - 1]) * rng.choice([1, -1])
                    out.append("ftof64 %s %s %x %s %s" % (bt, rng.choice(MODES), ndigits(s, b) + rng.choice([0, 1, 5]), hx(s), hx(rng.choice([-7, 0, 1, 30, -30, 22, 23, -22, -23, 300, -330, -400, 310]))))
        elif k < 70:
            v = gint(rng, tier, big=rng.chance(1, 10))
            if rng.chance(1, 3):
                # byte-length parity classes around every byte boundary
                nb = 8 * rng.choice([1, 2, 3, 4, 7, 8, 9, 15, 16, 17, 31, 32, 33])
                v = ((1 << nb) + rng.choice([0, -1, 1])) * rng.choice([1, -1])
            if rng.chance(1, 2):
                out.append("ser_ubig %s" % hx(abs(v)))
            else:
                out.append("ser_ibig %s" % hx(v))
        elif k < 76:
            bt, b = rng.choice(BASES)
            s, e = gfloat(rng, b)
            e = max(-60, min(60, e))
            s >>= max(0, abs(s).bit_length() - 300)
            if rng.chance(1, 12):
                st, et = rng.choice(["inf", "-inf"]), "0"
                p = 0
            else:
                st, et = hx(s), hx(e)
                ss = s
                while ss and ss % b == 0:
                    ss //= b
                nd = ndigits(ss, b)
                p = rng.choice([0, nd, nd + 1, nd + 13]) if nd else rng.choice([0, 1, 5])
            if rng.chance(1, 10):
                # the digits i, n, f exist from base 24 on: "inf" = 18 B^2 + 23 B + 15 (open finding fbig_json_inf_collision)
                bt, b = "24", 36
                st = hx(rng.choice([24171, -24171, 24171, 24172, 24170, 18 * 36 + 23, 24171 * 36 + 1]))
                et = hx(rng.choice([0, 0, 0, 1, -1]))
                p = rng.choice([0, 4, 7])      # FBig::from_repr requires digits <= precision (at most 4 digits here)
            if rng.chance(2, 3):
                out.append("ser_fbig %s %s %x %s %s" % (bt, rng.choice(MODES), p, st, et))
            else:
                out.append("ser_repr %s %s %s" % (bt, st, et))
        elif k < 80:
            nn = rng.choice([gint(rng, tier), rng.bits(70), 0, 1, -1, -rng.bits(20)])
            dd = rng.choice([abs(gint(rng, tier, False)) + 1, rng.bits(70) + 1, 1, 2, 4, 1 << 64, abs(nn) + 1, 2 * abs(nn) + 2])
            out.append("%s %s %s" % (rng.choice(["ser_rbig", "ser_relaxed"]), hx(nn), hx(dd)))
        elif k < 85:
            signed = rng.chance(1, 2)
            out.append("%s %s" % ("de_ibig" if signed else "de_ubig", xb(gen_de_int(rng, tier, signed))))
        elif k < 89:
            out.append("%s %s" % (rng.choice(["de_rbig", "de_relaxed"]), xb(gen_de_rat(rng, tier))))
        elif k < 94:
            bt, b = rng.choice(BASES)
            if rng.chance(2, 3):
                out.append("de_fbig %s %s %s" % (bt, rng.choice(MODES), xb(gen_de_float(rng, b, True))))
            else:
                out.append("de_repr %s %s" % (bt, xb(gen_de_float(rng, b, False))))
        else:
            ty = rng.choice(["ubig", "ibig", "rbig", "relaxed", "fbig"])
            pool = {"ubig": JSON_INT, "ibig": JSON_INT, "rbig": JSON_RAT, "relaxed": JSON_RAT, "fbig": JSON_FLT}[ty]
            t = rng.choice(pool)
            if rng.chance(1, 4):
                v = gint(rng, "quick") >> rng.choice([0, 500, 1000])
                t = '"%d"' % (abs(v) if ty == "ubig" else v)
                if ty in ("rbig", "relaxed"):
                    t = '"%d/%d"' % (v, (abs(gint(rng, "quick")) >> 800) + 1)
            if ty == "fbig":
                bt, b = rng.choice(BASES)
                out.append("dej_fbig %s %s %s" % (bt, rng.choice(MODES), xs(t)))
            else:
                out.append("dej_%s %s" % (ty, xs(t)))
    return out
