"""C19 - results do not depend on word size, build features or serialization medium."""
import os
import core
from core import hx, gen_mag, gen_words_len

ID = "C19"
READY = True
ORACLE = "c19"
HARNESS_BIN = "c19"
NCASES = {"quick": 2600, "thorough": 40000}
CASE_TIMEOUT = {"quick": 30, "thorough": 120}
# 64-bit words + debug assertions + std | no debug assertions | force_bits="32" | both | dashu-base without std
CONFIGS = ["default", "release", "w32", "w32release", "nostd"]
if os.environ.get("C19_CONFIGS"):       # sensitivity experiments only: a subset of the builds
    CONFIGS = os.environ["C19_CONFIGS"].split(",")

LEVEL_TEXT = ("Machine-checked Coq theorems (42, coq/props/C19.v) about the binary serde formats carried by postcard: the word->byte "
              "encoder of convert.rs, modelled for an arbitrary WORD_BYTES = k, writes the shortest little-endian byte string of the "
              "VALUE (a function that does not mention k) and the byte->word decoder returns the little-endian value for every k, so "
              "the encodings of UBig/IBig - and of the float/rational structs built from them - are identical for 64-, 32- and 16-bit "
              "words; decode(encode x) = x for integers, varints, zigzag exponents, canonical floats and rationals; every byte string "
              "(whole input, no size bound) is rejected or decoded to a canonical value (lowest terms with a positive denominator; "
              "normalised significand within the precision; the two infinities) and the decoders never panic. Word-size independence "
              "of the integer kernels is stated as corollaries of the C01/C09 theorems (multiply with the source thresholds, "
              "add_in_place, trailing_zeros), which hold for any word size. The value-level half (same result in every build) is tied "
              "by running one case file through five builds of the harness (64/32-bit words x debug/release, no_std dashu-base), "
              "judging every answer against word-size-free specifications and diffing the builds against each other; log2_bounds "
              "answers are judged as bounds in each build.")
LEVEL_NOTE = ("Proved for all inputs: the wire-format theorems, the word-size corollaries, the properties of the word-size-free "
              "specifications (Euclid/truncated division, modular power, root/log certificates unique). Only compared by the run, not "
              "proved here: that every other kernel of the 32-bit build computes the same values; exp/ln/powi, RBig->f64 and FBig->f64 "
              "answers are only diffed between the builds (verdict 'undecided' from the oracle, violation on any difference); the text "
              "(serde_json) forms are checked by round trip and canonical-value tests, their grammar belongs to C07/C08. One open "
              "finding (F06, debug assertion of into_f64_internal, shared with C06) is modelled as-is and excluded from the diff by an "
              "exact class flag read through the public API. force_bits=\"16\" does not compile on this host and is not exercised.")
TECHNIQUE = "Coq proof of the wire formats for arbitrary word size + five-configuration correspondence run against extracted specifications"
RULE = ("cases = operation x operands: integers from word-count classes {0,1,2,3,4,5,8,T-1,T,T+1 for the size thresholds, counted in "
        "64-bit AND in 32-bit words} x bit patterns x signs for arithmetic/division/bit/radix/byte/gcd/root/log/modular operations; "
        "log2_bounds of every numeric type; float add/sub/mul/div/sqrt (exp/ln/powi: cross-build only); rational arithmetic; serde "
        "round trips (postcard + serde_json) of UBig/IBig/FBig/DBig-like bases/Repr/RBig/Relaxed incl. zero, infinities, sign/parity "
        "classes of the byte length; decoders fed with valid encodings, their mutations (truncated, extended, non-minimal varints, "
        "trailing zero bytes, zero denominator, zero significand with exponents 0,+-1,other, precision below the digit count, "
        "10-byte varints) and random bytes / JSON tokens. Every case runs in all five builds; non-trivial = the oracle evaluated a "
        "specification on a non-degenerate input; distinct = distinct case texts.")
EXPLANATION = ("Theorems in coq/props/C19.v (Serde/WireProofs.v). The oracle (oracle/driver_c19.ml) judges each build's answers against "
               "the extracted specifications; tools/check.py additionally diffs the builds pairwise through canon_answer (log2 bounds and "
               "the build banner are canonicalised away, everything else must be identical text).")
TRUSTED_BASE = [
    "Coq 8.16.1 kernel (coqc)",
    "extraction: ExtrOcamlBasic + ExtrOcamlZBigInt + coq/extract/FastZ.v directives",
    "OCaml 4.13.1 + zarith 1.12, oracle/common.ml, oracle/driver_c19.ml; Rust harness harness/src/bin/c19.rs; serde_json and postcard 1.1.3 as the media (postcard's varint/bytes/struct layout is transcribed in Serde/WireModel.v)",
    "specifications imported read-only from other properties: Int/BitsSpec, Int/IoSpec, Int/GrlSpec (log2 bracket decision), Float/Contract (rounding contract)",
    "cargo feature unification: the nostd configuration builds all four crates without default features (tools/core.py harness_dir)",
]
ASSUMPTIONS = [
    "UBig::from_words / as_words / IBig::from_parts / as_sign_words transport values faithfully in every build (the harness moves values through raw words of the build's own word size)",
    "isize/usize are 64-bit in all five builds (force_bits changes Word only); float exponents stay within +-2^40 in generated cases",
    "force_bits=\"16\" is not exercised: it does not compile on this host",
    "serde_json / postcard themselves are trusted as media; only dashu's Serialize/Deserialize implementations are under test",
]


def canon_answer(ans):
    """what must be identical between two builds"""
    if ans.startswith("ok bounds"):
        return "ok bounds"          # judged as bounds in each build, legitimately different (std vs table estimator)
    if ans.startswith("ok config"):
        return "ok config"
    if ans.startswith("ok wide="):
        # open finding F06: the part whose internal conversion is too wide is excluded from the diff
        t = ans.split()
        if len(t) == 6:
            if t[1][5] == "1":
                t[2] = t[3] = "*"
            if t[1][6] == "1":
                t[4] = t[5] = "*"
            return " ".join(t)
    if ans.startswith("panic Undocumented:"):
        return "panic Undocumented"  # an undocumented panic in both builds: the message text may differ (std vs no_std estimator)
    return ans


# ------------------------------------------------------------------------------------------------
# python encoders of the wire formats (generators only; expected answers come from the Coq model)
# ------------------------------------------------------------------------------------------------
def varint(n):
    out = []
    while True:
        if n < 128:
            out.append(n)
            return out
        out.append((n & 0x7F) | 0x80)
        n >>= 7


def zigzag(n):
    return 2 * n if n >= 0 else -2 * n - 1


def le(v):
    return list(v.to_bytes((v.bit_length() + 7) // 8, "little"))


def enc_ubig(v):
    b = le(v)
    return varint(len(b)) + b


def enc_ibig(v):
    if v == 0:
        return [0]
    b = le(abs(v))
    if (len(b) % 2 == 1) != (v < 0):
        b.append(0)
    return varint(len(b)) + b


def xb(bs):
    return "x" + "".join("%02x" % b for b in bs)


def xs(s):
    return xb(s.encode())


def shex(v):
    return hx(v)


BASES = [("2", 2), ("a", 10), ("10", 16), ("3", 3), ("8", 8), ("24", 36), ("5", 5), ("7", 7)]
MODES = ["Zero", "Away", "Up", "Down", "HalfEven", "HalfAway"]


def ndigits(v, b):
    v = abs(v)
    n = 0
    while v:
        v //= b
        n += 1
    return n


def gint(rng, tier, signed=True, big=False):
    """an integer whose length is a size class counted in 64-bit or in 32-bit words"""
    unit = rng.choice([64, 32, 64])
    n = gen_words_len(rng, tier, big)
    m = gen_mag(rng, n, word=unit)
    if signed and rng.chance(1, 2):
        m = -m
    return m


def small(rng):
    return rng.choice([0, 1, 2, 3, 5, 7, 10, 255, 256, 65535, 65536, (1 << 32) - 1, 1 << 32, (1 << 64) - 1, 1 << 64, rng.bits(16), rng.bits(40)])


def gfloat(rng, b):
    """(significand, exponent)"""
    k = rng.below(8)
    if k == 0:
        s = 0
    elif k == 1:
        s = b ** rng.range(0, 12) * rng.choice([1, -1])
    elif k == 2:
        s = (b ** rng.range(1, 20) - 1) * rng.choice([1, -1])
    elif k == 3:
        s = gint(rng, "quick")
    else:
        s = rng.bits(rng.choice([3, 10, 30, 64, 65, 100, 130])) * rng.choice([1, -1])
    e = rng.choice([0, 1, -1, 2, -3, 7, -20, 40, -64, rng.range(-200, 200)])
    return s, e


def shows(e):
    return hx(e)


def mutate(rng, bs):
    k = rng.below(10)
    bs = list(bs)
    if k == 0 and bs:
        return bs[: rng.below(len(bs))]                        # truncated
    if k == 1:
        return bs + [rng.below(256) for _ in range(rng.range(1, 3))]   # trailing garbage
    if k == 2 and bs:
        i = rng.below(len(bs))
        bs[i] = rng.below(256)
        return bs
    if k == 3 and bs:
        bs[0] = (bs[0] + rng.choice([1, 2, 255])) % 256         # length prefix off
        return bs
    if k == 4 and bs and bs[0] < 128:
        return [bs[0] | 0x80, 0] + bs[1:]                       # non-minimal varint length
    if k == 5:
        return [0xFF] * rng.range(1, 11) + [rng.choice([0, 1, 2, 0x7F])] + bs
    return bs


def gen_de_int(rng, tier, signed):
    k = rng.below(10)
    if k < 3:
        v = gint(rng, tier, signed)
        return enc_ibig(v) if signed else enc_ubig(v)
    if k < 5:
        # raw body of any parity, with trailing zero bytes (accepted, not minimal)
        body = le(abs(gint(rng, tier, False))) + [0] * rng.range(0, 3)
        if rng.chance(1, 4):
            body = [0] * rng.range(0, 9)
        return varint(len(body)) + body
    if k < 8:
        v = gint(rng, tier, signed)
        return mutate(rng, enc_ibig(v) if signed else enc_ubig(v))
    return [rng.below(256) for _ in range(rng.range(0, 12))]


def gen_de_rat(rng, tier):
    k = rng.below(10)
    n = rng.choice([0, 1, -1, 2, -6, rng.bits(20), -rng.bits(70), gint(rng, tier)])
    d = rng.choice([0, 0, 1, 2, 4, 6, rng.bits(20) + 1, abs(gint(rng, tier, False)) + 1, abs(n), 2 * abs(n)])
    bs = enc_ibig(n) + enc_ubig(d)
    if k < 6:
        return bs
    if k < 9:
        return mutate(rng, bs)
    return [rng.below(256) for _ in range(rng.range(0, 10))]


def gen_de_float(rng, b, with_prec):
    k = rng.below(10)
    s, e = gfloat(rng, b)
    if rng.chance(1, 4):
        s = 0
        e = rng.choice([0, 1, -1, 2, -2, 5, -(1 << 40)])
    bs = enc_ibig(s) + varint(zigzag(e))
    if with_prec:
        nd = ndigits(s, b)
        p = rng.choice([0, nd, nd + 1, nd + 7, max(0, nd - 1), 1, 2, nd // 2, 1 << 20])
        bs += varint(p)
    if k < 6:
        return bs
    if k < 9:
        return mutate(rng, bs)
    return [rng.below(256) for _ in range(rng.range(0, 10))]


JSON_INT = ['"0"', '"12"', '"-12"', '"+7"', '"0x1f"', '"-0x1F"', '"0b101"', '"0o17"', '"1_000"', '"_"', '""', '"-"', '"12a"', '"0x"',
            '" 12"', '"12 "', '12', '-3', '1.5', 'null', 'true', '[]', '{}', '["1"]', '"\\u0031\\u0032"', '"1\\n"', ' "34" ', '"99', '99"',
            '"-0"', '"--1"', '"+-1"', '"0x-1"', '"340282366920938463463374607431768211456"', '"-18446744073709551616"']
JSON_RAT = ['"1/2"', '"2/4"', '"-6/4"', '"0/5"', '"1/0"', '"0/0"', '"3"', '"-3"', '"3/"', '"/3"', '"1/-2"', '"0x10/0x4"', '"1/2/3"', '1', '0.5',
            '"18446744073709551616/36893488147419103232"', '" 1/2"', '"1 / 2"', '"+1/+2"', 'null', '{"numerator":"1","denominator":"2"}']
JSON_FLT = ['"0"', '"1.5"', '"-1.5"', '"1e3"', '"1.5e-3"', '"inf"', '"-inf"', '"nan"', '"+inf"', '"Inf"', '"0.1"', '"100"', '"1_0.0_1"', '".5"', '"5."',
            '"1.1b4"', '"0x1.8p3"', '"1.8p3"', '"1e"', '"e1"', '""', '"."', '1.5', 'null', '"1.000000000000000000000000000001"', '"-0"', '"-0.0"',
            '"1e100"', '"1@5"', '"12.5@-2"', '{"significand":"1","exponent":0,"precision":1}']


def gen_cases(rng, tier, n):
    out = ["config"]
    while len(out) < n:
        k = rng.below(100)
        if k < 8:
            a = gint(rng, tier, big=rng.chance(1, 8))
            r = rng.below(5)
            if r == 0:
                b = -a + rng.choice([0, 1, -1])
            elif r == 1:
                b = gen_mag(rng, max(1, (abs(a).bit_length() + 31) // 32), word=32) * rng.choice([1, -1])
            else:
                b = gint(rng, tier)
            out.append("%s %s %s" % (rng.choice(["add", "sub", "mul", "mul", "cmp"]), hx(a), hx(b)))
        elif k < 10:
            op = rng.choice(["sqr", "pow", "usub"])
            if op == "sqr":
                out.append("sqr %s" % hx(gint(rng, tier)))
            elif op == "pow":
                out.append("pow %s %x" % (hx(rng.choice([0, 1, -1, 2, -2, 3, 10, -7, rng.bits(33), -rng.bits(70), gint(rng, "quick") >> 700])), rng.choice([0, 1, 2, 3, 5, 17, 64, 100])))
            else:
                a, b = abs(gint(rng, tier, False)), abs(gint(rng, tier, False))
                if rng.chance(3, 4) and a < b:
                    a, b = b, a
                out.append("usub %s %s" % (hx(a), hx(b)))
        elif k < 17:
            a = gint(rng, tier, big=rng.chance(1, 8))
            r = rng.below(6)
            if r == 0:
                b = rng.choice([1, -1, 2, 3, (1 << 32) - 1, 1 << 32, (1 << 32) + 1, (1 << 64) - 1, 1 << 64, 0])
            elif r == 1:
                b = gen_mag(rng, rng.choice([1, 2, 3, 4]), word=32) * rng.choice([1, -1])
            elif r == 2:
                # divisor about half as long: the balanced division paths
                b = gen_mag(rng, max(1, (abs(a).bit_length() + 63) // 128), word=rng.choice([32, 64])) * rng.choice([1, -1])
            else:
                b = gint(rng, tier)
            out.append("%s %s %s" % (rng.choice(["divrem", "diveuc"]), hx(a), hx(b)))
        elif k < 22:
            a, b = gint(rng, tier), gint(rng, tier)
            op = rng.choice(["and", "or", "xor", "not", "shl", "shr", "bitlen", "tz", "ones"])
            if op in ("and", "or", "xor"):
                out.append("%s %s %s" % (op, hx(a), hx(b)))
            elif op in ("shl", "shr"):
                nb = abs(a).bit_length()
                out.append("%s %s %x" % (op, hx(a), rng.choice([0, 1, 31, 32, 33, 63, 64, 65, 95, 96, 127, 128, 129, max(0, nb - 1), nb, nb + 1, rng.below(300)])))
            elif op == "ones":
                out.append("ones %s" % hx(abs(a)))
            else:
                out.append("%s %s" % (op, hx(a)))
        elif k < 27:
            op = rng.choice(["gcd", "gcdext", "sqrt", "nthroot", "ilog"])
            if op in ("gcd", "gcdext"):
                a, b = gint(rng, tier, op == "gcd"), gint(rng, tier, op == "gcd")
                if rng.chance(1, 3):
                    g = abs(gint(rng, "quick")) >> rng.choice([0, 100, 900])
                    a, b = a * g, b * g
                if a == 0 and b == 0:
                    a = 1
                if op == "gcdext":
                    a, b = abs(a), abs(b)
                out.append("%s %s %s" % (op, hx(a), hx(b)))
            elif op == "sqrt":
                a = abs(gint(rng, tier, False))
                if rng.chance(1, 3):
                    r = abs(gint(rng, "quick")) >> rng.choice([0, 300, 900])
                    a = r * r + rng.choice([0, -1, 1]) if r else 0
                out.append("sqrt %s" % hx(max(a, 0)))
            elif op == "nthroot":
                a = abs(gint(rng, tier, False))
                out.append("nthroot %s %x" % (hx(a), rng.choice([1, 2, 3, 3, 4, 5, 7, 31, 32, 33, 63, 64, 65, max(1, a.bit_length()), a.bit_length() + 1, 0])))
            else:
                b = rng.choice([2, 3, 4, 10, 16, 255, 256, (1 << 32) - 1, 1 << 32, (1 << 64) - 1, 1 << 64, (1 << 64) + 1, rng.bits(100) + 2])
                a = rng.choice([abs(gint(rng, tier, False)), b ** rng.range(0, 9) + rng.choice([0, -1, 1])])
                out.append("ilog %s %s" % (hx(max(a, 1)), hx(b)))
        elif k < 30:
            m = abs(gint(rng, tier, False)) or 1
            if rng.chance(1, 3):
                m = rng.choice([1, 2, 3, (1 << 32) - 1, (1 << 32) + 15, (1 << 64) - 1, (1 << 64) - 59, (1 << 64) + 13, (1 << 128) - 159])
            x, y = gint(rng, tier), gint(rng, tier)
            if rng.chance(1, 2):
                out.append("modmul %s %s %s" % (hx(m), hx(x), hx(y)))
            else:
                out.append("modpow %s %s %s" % (hx(m), hx(x), hx(rng.choice([0, 1, 2, 3, 65537, rng.bits(20), rng.bits(70)]))))
        elif k < 35:
            r = rng.choice([2, 3, 7, 8, 10, 10, 16, 16, 32, 36, rng.range(2, 36)])
            if rng.chance(1, 2):
                out.append("tostr %x %s" % (r, hx(gint(rng, tier, big=rng.chance(1, 10)))))
            else:
                v = gint(rng, tier)
                digs = "0123456789abcdefghijklmnopqrstuvwxyz"
                m, t = abs(v), ""
                while m:
                    t = digs[m % r] + t
                    m //= r
                t = t or "0"
                t = ("-" if v < 0 else rng.choice(["", "", "+"])) + t
                q = rng.below(8)
                if q == 0:
                    t = t.upper()
                elif q == 1 and len(t) > 2:
                    i = rng.range(1, len(t) - 1)
                    t = t[:i] + "_" + t[i:]
                elif q == 2:
                    i = rng.below(len(t) + 1)
                    t = t[:i] + rng.choice(["z", " ", ".", "-", "g", "/", "\x00", "é"]) + t[i:]
                elif q == 3:
                    t = rng.choice(["", "-", "+", "_", "__", "-_", "0x10", "00012", "-0"])
                out.append("fromstr %x %s" % (r, xs(t)))
        elif k < 39:
            if rng.chance(1, 2):
                v = gint(rng, tier)
                if rng.chance(1, 4):
                    v = rng.choice([1, -1]) * (1 << (8 * rng.choice([1, 2, 4, 7, 8, 9, 15, 16, 17, 24, 32]))) + rng.choice([0, -1, 1])
                out.append("tobytes %s" % hx(v))
            else:
                nb = rng.choice([0, 1, 2, 3, 4, 5, 7, 8, 9, 15, 16, 17, 24, 31, 32, 33, 40])
                bs = [rng.choice([0, 0xFF, 0x80, 0x7F, rng.below(256)]) for _ in range(nb)]
                out.append("frombytes %s" % xb(bs))
        elif k < 41:
            v = gint(rng, tier)
            if rng.chance(1, 2):
                nb = rng.choice([24, 25, 53, 54, 55, 64, 65, 100, 127, 128, 129, 1023, 1024, 1025])
                v = ((1 << nb) - rng.choice([0, 1, 2, 1 << max(0, nb - 25), 1 << max(0, nb - 54), (1 << max(0, nb - 54)) + 1])) * rng.choice([1, -1])
            out.append("tof64 %s" % hx(v))
        elif k < 49:
            ty = rng.choice(["ubig", "ibig", "u8", "u16", "u32", "u64", "u128", "i64", "f32", "f64", "rbig", "relaxed", "fbig"])
            if ty in ("ubig", "ibig"):
                v = gint(rng, tier, ty == "ibig", big=rng.chance(1, 8))
                if rng.chance(1, 3) and v:
                    nb = abs(v).bit_length()
                    v = (1 << (nb - 1)) + rng.choice([0, 1, -1, (1 << max(0, nb - 16)) - 1, rng.bits(max(1, nb - 16))])
                out.append("log2b %s %s" % (ty, hx(v if ty == "ibig" else abs(v))))
            elif ty in ("u8", "u16", "u32", "u64", "u128", "i64"):
                bits = {"u8": 8, "u16": 16, "u32": 32, "u64": 64, "u128": 128, "i64": 63}[ty]
                v = rng.choice([0, 1, 2, 3, (1 << bits) - 1, 1 << (bits - 1), (1 << (bits - 1)) + 1, rng.bits(bits), rng.bits(bits) >> rng.below(bits)])
                if bits >= 32 and rng.chance(1, 3):
                    # the table estimator looks at the top 16 bits: a power of two there with large / random low bits
                    top = rng.choice([0x8000, 0x8000, 0x8001, 0xFFFF, 0xC000, 0xB504])
                    nb = rng.range(17, bits)
                    v = (top << (nb - 16)) | rng.choice([(1 << (nb - 16)) - 1, rng.bits(nb - 16), 1, 0])
                out.append("log2b %s %x" % (ty, v))
            elif ty == "f32":
                out.append("log2b f32 %x" % rng.choice([0, 1, 0x3F800000, 0x3F800001, 0x3F7FFFFF, 0x7F7FFFFF, 0x00800000, 0x007FFFFF, 0x7F800000, 0x7FC00000, 0xBF800000, rng.bits(31)]))
            elif ty == "f64":
                out.append("log2b f64 %x" % rng.choice([0, 1, 0x3FF0000000000000, 0x3FF0000000000001, 0x3FEFFFFFFFFFFFFF, 0x7FEFFFFFFFFFFFFF, 0x0010000000000000, 0x7FF0000000000000, 0x7FF8000000000000, rng.bits(63)]))
            elif ty in ("rbig", "relaxed"):
                nn = rng.choice([gint(rng, tier), rng.bits(70) + 1, 1, -1, 0])
                dd = rng.choice([abs(gint(rng, tier, False)) + 1, rng.bits(70) + 1, 1, abs(nn) + 1, max(1, abs(nn) - 1)])
                out.append("log2b %s %s %s" % (ty, hx(nn), hx(dd)))
            else:
                bt, b = rng.choice(BASES)
                s, e = gfloat(rng, b)
                out.append("log2b fbig %s %s %s" % (bt, hx(s), hx(max(-300, min(300, e)))))
        elif k < 57:
            bt, b = rng.choice(BASES[:6])
            mode = rng.choice(MODES)
            p = rng.choice([1, 2, 3, 5, 10, 19, 20, 38, 53, 64, 65, 100])
            op = rng.choice(["fadd", "fsub", "fmul", "fdiv", "fsqrt", "fadd", "fmul", "fexp", "fln", "fpowi"])
            s1, e1 = gfloat(rng, b)
            s2, e2 = gfloat(rng, b)
            # the premise of the float properties: operands fit the context precision
            s1 = (abs(s1) % b ** p) * (1 if s1 >= 0 else -1)
            s2 = (abs(s2) % b ** p) * (1 if s2 >= 0 else -1)
            if op in ("fexp", "fln", "fpowi"):
                p = rng.choice([1, 3, 10, 20, 40])
                s1 = (rng.bits(rng.choice([3, 10, 30])) + 1) % b ** p or 1
                e1 = -rng.range(0, ndigits(s1, b) + 2)
                if op == "fexp" and rng.chance(1, 2):
                    s1 = -s1
                if op == "fpowi":
                    out.append("fpowi %s %s %x %s %s %s" % (bt, mode, p, hx(s1 * rng.choice([1, -1])), hx(e1), hx(rng.choice([0, 1, 2, 3, -1, -2, 7, 10, -5]))))
                else:
                    out.append("%s %s %s %x %s %s" % (op, bt, mode, p, hx(s1), hx(e1)))
            elif op == "fsqrt":
                out.append("fsqrt %s %s %x %s %s" % (bt, mode, p, hx(abs(s1)), hx(e1)))
            else:
                if op in ("fadd", "fsub") and rng.chance(1, 2):
                    e2 = e1 + rng.choice([0, 1, -1, p, -p, p + 1, -p - 1, p + 2, 2 * p + 3])
                out.append("%s %s %s %x %s %s %s %s" % (op, bt, mode, p, hx(s1), hx(e1), hx(s2), hx(e2)))
        elif k < 60:
            bt, b = rng.choice(BASES)
            if rng.chance(1, 2):
                s, e = gfloat(rng, b)
                e = max(-60, min(60, e))
                s >>= max(0, abs(s).bit_length() - 200)
                nd = ndigits(s, b)
                out.append("ftostr %s %s %x %s %s" % (bt, rng.choice(MODES), rng.choice([0, nd + b, nd + 100]), hx(s), hx(e)))
            else:
                out.append("ffromstr %s %s %s" % (bt, rng.choice(MODES), xs(rng.choice(JSON_FLT).strip('"'))))
        elif k < 63:
            if rng.chance(2, 3):
                n1, n2 = gint(rng, tier), gint(rng, tier)
                d1, d2 = abs(gint(rng, tier, False)) + 1, abs(gint(rng, tier, False)) + 1
                if rng.chance(1, 2):
                    n1, d1, n2, d2 = n1 >> 900, (d1 >> 900) + 1, n2 >> 900, (d2 >> 900) + 1
                out.append("%s %s %s %s %s" % (rng.choice(["qadd", "qsub", "qmul", "qdiv"]), hx(n1), hx(d1), hx(n2), hx(d2)))
            elif rng.chance(1, 2):
                out.append("qfromstr %s" % xs(rng.choice(JSON_RAT).strip('"')))
            else:
                # code paths with debug assertions: Farey stepping, rational -> float, decimal float -> float
                q = rng.below(3)
                if q == 0:
                    nn = rng.choice([3, 0, -3, 1, 7, rng.bits(30), -rng.bits(70)])
                    dd = rng.choice([1, 1, 2, 3, 7, rng.bits(20) + 1, rng.bits(66) + 1])
                    out.append("qnext %s %s %s" % (hx(nn), hx(dd), hx(rng.choice([1, 1, 2, 3, 10, dd, dd + 1, max(1, dd - 1), rng.bits(12) + 1, 0]))))
                elif q == 1:
                    nn = rng.choice([1, -1, 3, rng.bits(24), rng.bits(53), rng.bits(54), rng.bits(64), rng.bits(120), (1 << 54) - 1, (1 << 25) - 1, gint(rng, tier) >> 600])
                    dd = rng.choice([1, 3, 7, 10, 1 << 10, rng.bits(30) + 1, rng.bits(70) + 1, (1 << 60) + 1])
                    out.append("qtof64 %s %s" % (hx(nn), hx(dd)))
                else:
                    bt, b = rng.choice([("a", 10), ("a", 10), ("2", 2), ("10", 16), ("3", 3)])
                    s = rng.choice([4899, 1, 5, rng.bits(20), rng.bits(54), rng.bits(60), 10 ** 17 - 1]) * rng.choice([1, -1])
                    out.append("ftof64 %s %s %x %s %s" % (bt, rng.choice(MODES), ndigits(s, b) + rng.choice([0, 1, 5]), hx(s), hx(rng.choice([-7, 0, 1, 30, -30, 22, 23, -22, -23, 300, -330, -400, 310]))))
        elif k < 70:
            v = gint(rng, tier, big=rng.chance(1, 10))
            if rng.chance(1, 3):
                # byte-length parity classes around every byte boundary
                nb = 8 * rng.choice([1, 2, 3, 4, 7, 8, 9, 15, 16, 17, 31, 32, 33])
                v = ((1 << nb) + rng.choice([0, -1, 1])) * rng.choice([1, -1])
            if rng.chance(1, 2):
                out.append("ser_ubig %s" % hx(abs(v)))
            else:
                out.append("ser_ibig %s" % hx(v))
        elif k < 76:
            bt, b = rng.choice(BASES)
            s, e = gfloat(rng, b)
            e = max(-60, min(60, e))
            s >>= max(0, abs(s).bit_length() - 300)
            if rng.chance(1, 12):
                st, et = rng.choice(["inf", "-inf"]), "0"
                p = 0
            else:
                st, et = hx(s), hx(e)
                ss = s
                while ss and ss % b == 0:
                    ss //= b
                nd = ndigits(ss, b)
                p = rng.choice([0, nd, nd + 1, nd + 13]) if nd else rng.choice([0, 1, 5])
            if rng.chance(2, 3):
                out.append("ser_fbig %s %s %x %s %s" % (bt, rng.choice(MODES), p, st, et))
            else:
                out.append("ser_repr %s %s %s" % (bt, st, et))
        elif k < 80:
            nn = rng.choice([gint(rng, tier), rng.bits(70), 0, 1, -1, -rng.bits(20)])
            dd = rng.choice([abs(gint(rng, tier, False)) + 1, rng.bits(70) + 1, 1, 2, 4, 1 << 64, abs(nn) + 1, 2 * abs(nn) + 2])
            out.append("%s %s %s" % (rng.choice(["ser_rbig", "ser_relaxed"]), hx(nn), hx(dd)))
        elif k < 85:
            signed = rng.chance(1, 2)
            out.append("%s %s" % ("de_ibig" if signed else "de_ubig", xb(gen_de_int(rng, tier, signed))))
        elif k < 89:
            out.append("%s %s" % (rng.choice(["de_rbig", "de_relaxed"]), xb(gen_de_rat(rng, tier))))
        elif k < 94:
            bt, b = rng.choice(BASES)
            if rng.chance(2, 3):
                out.append("de_fbig %s %s %s" % (bt, rng.choice(MODES), xb(gen_de_float(rng, b, True))))
            else:
                out.append("de_repr %s %s" % (bt, xb(gen_de_float(rng, b, False))))
        else:
            ty = rng.choice(["ubig", "ibig", "rbig", "relaxed", "fbig"])
            pool = {"ubig": JSON_INT, "ibig": JSON_INT, "rbig": JSON_RAT, "relaxed": JSON_RAT, "fbig": JSON_FLT}[ty]
            t = rng.choice(pool)
            if rng.chance(1, 4):
                v = gint(rng, "quick") >> rng.choice([0, 500, 1000])
                t = '"%d"' % (abs(v) if ty == "ubig" else v)
                if ty in ("rbig", "relaxed"):
                    t = '"%d/%d"' % (v, (abs(gint(rng, "quick")) >> 800) + 1)
            if ty == "fbig":
                bt, b = rng.choice(BASES)
                out.append("dej_fbig %s %s %s" % (bt, rng.choice(MODES), xs(t)))
            else:
                out.append("dej_%s %s" % (ty, xs(t)))
    return out
