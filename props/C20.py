"""C20 - literal macros build exactly the number that was written."""
import hashlib
import json
import os
import re
import shutil

import core

ID = "C20"
READY = True
ORACLE = "c20"
HARNESS_BIN = "c20"
NCASES = {"quick": 12000, "thorough": 120000}
CASE_TIMEOUT = {"quick": 30, "thorough": 120}
SHRINK = False  # case arguments are hex-coded texts, not integers
# the 32-bit selector of the static word arrays is executed too (force_bits="32"); answers must be identical
CONFIGS = ["default", "w32"]


def canon_answer(a):
    return a


# round 3: the quote! templates and guards of the code generators (macros/src/parse/int.rs, float.rs, ratio.rs) are re-read
# into coq/gen/LitTemplates.v when this plug-in is imported, i.e. before the proof phase of every run (tools/check.py has no
# hook between plug-in load and the Coq build; tools/translate.py is shared).  Macro/LitTemplateProofs.v proves that the rows
# selected by the guards call the constructors the model's shapes stand for (pinned C20_templates_*).  Unparseable source is
# not an alarm: the committed copy stays (marked STALE), the status is reported in the evidence.
import sys
sys.path.insert(0, os.path.join(core.ROOT, "tools"))
try:
    import translate_c20_r3
    TEMPLATES_STATUS = translate_c20_r3.generate(core.REPO, os.path.join(core.COQ, "gen"))
except Exception as _ex:  # the generator itself broke: same fallback as an unparseable source
    TEMPLATES_STATUS = "unparsed generator-failed: %s" % str(_ex)[:200]
# round 4: the tables behind the macro names (macros/src/lib.rs entry points, src/lib.rs wrappers and their `[$crate]`,
# the selector rows of quote_words) -> coq/gen/LitEntryPoints.v, proved in Macro/LitEntryProofs.v (pinned C20_entry_points,
# C20_dashu_wrappers_pass_crate, C20_static_selector_rows)
try:
    import translate_c20_r4
    ENTRY_STATUS = translate_c20_r4.generate(core.REPO, os.path.join(core.COQ, "gen"))
except Exception as _ex:
    ENTRY_STATUS = "unparsed generator-failed: %s" % str(_ex)[:200]
if os.path.realpath(core.REPO) != os.path.realpath("/repo") and "VERIF_COQ" not in os.environ:
    import atexit

    def _restore_templates():
        try:
            translate_c20_r3.generate("/repo", os.path.join(core.COQ, "gen"))
            translate_c20_r4.generate("/repo", os.path.join(core.COQ, "gen"))
        except Exception:
            pass

    atexit.register(_restore_templates)


LEVEL_TEXT = ("Machine-checked Coq theorems (no size bound). (1) Whole macros relative to the GRAMMAR VALUE of the literal: ubig!/ibig! "
              "(token loop -> C07's as-is parser for any host word size -> generator -> emitted constructor for 16/32/64-bit targets) compile "
              "iff the tokens are a literal [+|-]? value [base N]? and then build sign * positional value of the written digits, which is "
              "what the run-time parser returns for the same text; fbig!/dbig! (text of the tokens -> FBig::from_str as C08 models it -> "
              "generator -> constructor) build the written significand, exponent and digit count for every literal of C08's grammar "
              "outside two listed precision classes, and compile nothing else; rbig! builds the components the run-time ratio parser "
              "(rational/src/parse.rs over C07's parsers, C04's reduce/reduce2) builds from the same text, equal in value to the written "
              "fraction, positive denominator, lowest terms. (2) Token reconstruction: a model of the lexer (proc_macro2 fallback = rustc's "
              "rules for identifiers, number literals with prefixes/fractions/exponents/suffixes, punctuation) - the tokens joined are the "
              "text without white space, nothing dropped or re-ordered; the float macros build the same float however the text is cut "
              "(`1e5` | `1.` `e5` | `0x1` `.` `8p` `-` `3`). Round 4, the other direction (maximal munch): a number or identifier token never "
              "ends inside a run of letters, digits and `_` (integer literals and identifiers ARE the maximal run, so `a3f`, `0x1F`, `123`, "
              "`1e5` stay one token); the only lexical errors of the alphabet are radix prefixes without a digit of the radix; every "
              "sequence of well-formed tokens laid out with white space after each word is lexed back into exactly these tokens, hence "
              "EVERY text  [+|-]? value [base N]?  reaches the integer macros as sign/value/base and compiles iff the run-time parser "
              "accepts it, with the same number; every decimal float text and every float text with well-formed prefixes is cut into "
              "tokens whose text the float macros read; the value tokens of a lexed text contain no slash and no leading sign, so the "
              "ratio macros build what the run-time ratio parser builds from the same text (no side condition left). (3) The three code generators (u32 const expression, from_le_bytes, static "
              "word arrays for 16/32/64-bit words with LEN and padding) build the parsed magnitude and satisfy from_static_words' "
              "assertions; (4) the quote! templates and guards, regenerated from the source on every run, select the constructors and "
              "arguments the model's shapes stand for; (5) regenerated tables: each of the 20 proc-macro names calls the front end and flags "
              "the model is indexed by, every dashu:: wrapper hands over `[$crate]` and reaches the embedded entry point that applies it, "
              "the DataSelector rows of quote_words use the element type, LEN and DATA of the same converter in the model's order. "
              "Tie to the code: the macro front ends of the working tree are compiled into the harness and run on generated literals "
              "(model fidelity of lexer model, end-to-end as-is models and run-time parser models reported per case); a generated crate "
              "of real macro invocations - every production of the grammar x every boundary size (32-bit const path, one and two 64-bit "
              "words, the byte counts where the u16/u32/u64 tables differ), reproducible from the seed - is compiled with rustc and run "
              "with 64-bit and with 32-bit words, and once more in a crate that knows dashu only under another name. PARTIAL: rustc's own lexer (only its proc_macro2 transcription "
              "is modelled; the crate phase observes rustc), const evaluation, hygiene and the compile errors themselves are observed.")
LEVEL_NOTE = ("Trusted: Coq kernel, extraction incl. FastZ.v, zarith, harness (its interpreter of the emitted token stream), "
              "proc_macro2's fallback lexer in the harness phase (now also modelled: Macro/LitLexModel.v, compared on every case), "
              "rustc/cargo in the crate phase. The run-time parsers are no longer black boxes: integers are C07's as-is model "
              "(proved equal to the grammar for any word size), floats C08's fbig_from_str_asis (proved iff the grammar), ratios "
              "C04's constructors plus a transcription of rational/src/parse.rs; C07/C08/C04 tie those models to the code in their "
              "own runs, C20 additionally compares them with the harness' run-time answers.")
TECHNIQUE = "Coq proof of end-to-end macro models over the cited parser models (C07/C08/C04), a lexer model (soundness and maximal-munch completeness) and regenerated code-generator templates / entry-point tables + extracted-model correspondence run on the compiled-in macro front ends + compiled crates of real macro invocations generated from the grammar (64-bit words, 32-bit words, renamed dependency)"
RULE = ("harness phase: cases = macro {ubig,ibig,fbig,dbig,rbig} x {plain, static_} x {dashu_*, dashu:: (embedded) paths} x literal form "
        "{decimal, 0b/0o/0x prefix, `base N` for N in 2..36, underscores, sign tokens glued or spaced, binary/hex float with "
        "b/p/@ exponents, decimal float with e/E/@ exponents, fraction with optional denominator, ~ marker} x magnitude classes "
        "{0, 1, <2^32, 2^32-1, 2^32, 2^32+1, 63/64/65, 127/128/129, 191/192/193 bits, byte-length boundaries 8k-1/8k/8k+1, "
        "multi-word up to 1000 (thorough 4000) bits; all-ones, powers of two, zero low words, random} plus token sequences "
        "outside the grammar (repeated signs, missing/dangling `/`, stray tokens, groups, bad radix, invalid digits) and texts "
        "the lexer cuts in unexpected places (`1.e5`, `0x1.8p-3`, `1.5e+`, `12e`, exponent signs as punctuation, blanks between "
        "the pieces). Crate phase: productions (macro x static_ x literal form x sign / part) x boundary bit lengths "
        "(32 33 64 65 128 129 always; two more per production drawn from 1 8 16 17 24 31 40 48 49 56 63 72 96 97 112 127 160 192 193 256 257; "
        "thorough: all) with all-ones / smallest / random-odd magnitudes, plus the fixed sweeps and random cases. A case is non-trivial when the token loop model and the generator model were both evaluated on it; "
        "asis=same when the lexer model reproduces the tokens, the end-to-end model the built value or refusal, and the run-time "
        "parser model the harness' run-time answer.")
EXPLANATION = ("Theorems (coq/props/C20.v, 66) are about Macro/LitModel.v (generators, constructors, token loops), Macro/LitRefModel.v "
               "(the macros end to end over Int/IoModel.v, Float/PartsConstModel.v, Ratio/RatArithModel.v), Macro/LitLexModel.v (lexer) "
               "and coq/gen/LitTemplates.v, coq/gen/LitEntryPoints.v (regenerated templates and entry-point / wrapper / selector tables); "
               "round 4: Macro/LitLexComplete.v, LitSrcComplete.v, LitSrcRatio.v (maximal munch, tokens -> text -> tokens, every literal text "
               "of the integer grammar, float texts, ratio texts), Macro/LitEntryProofs.v. "
               "Every run pushes generated literals through the front ends of the working tree (compiled into the harness), "
               "interprets the emitted token stream by generator shape, builds the value with the real constructors and lets the "
               "oracle (the extracted Coq model) judge tokens -> reading -> value -> shape -> built value, including rejected "
               "literals, and compare the lexer model, the end-to-end as-is models and the run-time parser models with the "
               "implementation; then a crate of real invocations of all ten macros (and their dashu:: re-exports) is compiled against "
               "the working tree: invocations that must not compile are checked to fail with a macro panic (never "
               "with a later type or path error; the message class of every such invocation is in the evidence), the others are run "
               "and compared with the front-end answers and with run-time parsing; the static_ invocations (and a fifth of the others) are "
               "built and run again with --cfg force_bits=\"32\", the dashu:: invocations again in a crate that renames the dependency. "
               "Where the harness cannot read the emitted code (a refactored generator) the invocation is still compiled and compared "
               "with the run-time parser's value.")
TRUSTED_BASE = [
    "Coq 8.16.1 kernel; vm_compute only in the *_refuted witnesses, non-vacuity examples and the finite flag combinations of the template theorems",
    "extraction: ExtrOcamlBasic + ExtrOcamlZBigInt + coq/extract/FastZ.v; OCaml 4.13.1 + zarith, oracle/common.ml, oracle/driver_c20.ml",
    "harness/src/bin/c20.rs: includes macros/src/parse/*.rs of the working tree, interprets the emitted token stream by matching the generator shapes (asserting every structural detail it relies on) and calls the real constructors",
    "proc_macro2 (fallback mode) as lexer in the harness phase (transcribed in Macro/LitLexModel.v and compared per case); rustc 1.95 / cargo in the crate phase",
    "tools/translate_c20_r4.py: regular-expression reader of macros/src/lib.rs (entry points), src/lib.rs (macro_rules! wrappers) and quote_words (selector blocks); anything it does not recognise is reported as unparsed",
    "tools/translate_c20_r3.py: reads the quote! bodies, guards and let-bindings of the seven generator functions into coq/gen/LitTemplates.v; the reading of a row's calls as a model shape (int_calls / fbin_calls / fdec_calls / part_calls) is hand-written",
    "the parser models of C07 (Int/IoModel.v), C08 (Float/TextIoModel.v, PartsConstModel.v) and C04 (Ratio/RatArithModel.v) are tied to the code by those properties' own runs",
]
ASSUMPTIONS = [
    "the harness is built with 64-bit and with 32-bit words (force_bits) and both builds must answer identically; the 16-bit selector of the static arrays is checked from the emitted arrays against the model (and proved for all three sizes), not executed: dashu-int does not compile with force_bits=\"16\"",
    "rustc's const evaluation of the emitted expressions agrees with run-time evaluation (observed in the crate phase for every literal of the crate)",
    "rustc's lexer cuts the literal texts as its proc_macro2 transcription does (observed in the crate phase; where rustc refuses a text the fallback lexer accepts, e.g. `12e`, the invocation is a compile error)",
]

DIG = "0123456789abcdefghijklmnopqrstuvwxyz"


def to_base(n, b):
    if n == 0:
        return "0"
    s = ""
    while n:
        s = DIG[n % b] + s
        n //= b
    return s


def hexs(t):
    return t.encode().hex()


def piece(text, glued=False):
    return ("l" if glued else "L") + hexs(text)


def gen_bits(rng, tier):
    big = 4000 if tier == "thorough" else 1000
    k = rng.below(10)
    if k < 4:
        return rng.choice([0, 1, 5, 8, 9, 16, 31, 32, 33, 34, 63, 64, 65, 127, 128, 129, 191, 192, 193, 255, 256, 257])
    if k < 7:
        return 8 * rng.range(1, 40) + rng.choice([-1, 0, 1])
    if k < 9:
        return rng.range(0, 300)
    return rng.range(300, big)


def gen_mag(rng, tier):
    b = gen_bits(rng, tier)
    if b <= 0:
        return 0
    k = rng.below(8)
    top = 1 << (b - 1)
    if k == 0:
        return (1 << b) - 1
    if k == 1:
        return top
    if k == 2:
        return top + 1
    if k == 3 and b > 16:
        z = rng.range(1, b - 1)
        return ((rng.bits(b - z) | (1 << (b - z - 1))) << z)
    if k == 4 and b > 64:
        # zero words in the middle
        return top | rng.bits(16)
    return top | rng.bits(b - 1)


def underscores(rng, s, start=1):
    if len(s) < 2 or not rng.chance(1, 3):
        return s
    out = s[:start]
    for c in s[start:]:
        if rng.chance(1, 6):
            out += "_" * rng.range(1, 2)
        out += c
    if rng.chance(1, 8):
        out += "_"
    return out


def risky_as_literal(t):
    """a digit text that rustc would not lex as one plain literal token"""
    if not t or not t[0].isdigit():
        return False
    if re.match(r"^0[box]", t):
        return True
    m = re.match(r"^[0-9_]+", t)
    rest = t[m.end():]
    return rest[:1] in ("e", "E")


def digits_text(rng, n, form):
    """text of the magnitude n in the given form; returns (text, radix for the run-time parser or 0, base suffix tokens)"""
    if form == "dec":
        t = underscores(rng, to_base(n, 10))
        if rng.chance(1, 12):
            t = "0" * rng.range(1, 3) + t
        return t, 0, []
    if form in ("0x", "0o", "0b"):
        b = {"0x": 16, "0o": 8, "0b": 2}[form]
        d = to_base(n, b)
        if form == "0x" and rng.chance(1, 3):
            d = d.upper()
        if rng.chance(1, 10):
            d = "0" * rng.range(1, 3) + d
        return form + underscores(rng, d, 0 if rng.chance(1, 6) else 1), 0, []
    b = form
    if b >= 12 and rng.chance(1, 5):
        # digits of radix b that merely LOOK like a radix prefix: `0b101 base 16` is 0xb101, not 5 (seeded change C20_D:
        # from_str_with_radix_default instead of from_str_radix would re-read them in radix 2/8/16).  The digits after the
        # letter are valid for that pseudo prefix, so rustc and proc_macro2 lex the text as one literal token
        letters = [("b", "01")] + ([("o", "01234567")] if b >= 25 else []) + ([("x", "0123456789abcdef")] if b >= 34 else [])
        letter, alphabet = rng.choice(letters)
        body = "".join(rng.choice(alphabet) for _ in range(rng.range(1, rng.choice([3, 8, 20, 70]))))
        if rng.chance(1, 4):
            body = underscores(rng, body)
        return "0" + letter + body, b, [piece("base"), piece(str(b))]
    d = to_base(n, b)
    if rng.chance(1, 4):
        d = d.upper()
    d = underscores(rng, d)
    if risky_as_literal(d) or rng.chance(1, 8):
        d = "_" + d
    return d, b, [piece("base"), piece(str(b))]


def gen_form(rng):
    k = rng.below(10)
    if k < 3:
        return "dec"
    if k < 5:
        return "0x"
    if k < 6:
        return rng.choice(["0o", "0b"])
    return rng.choice([2, 3, 7, 8, 10, 16, 32, 36, rng.range(2, 36)])


def flags_str(*parts):
    s = "".join(p for p in parts if p)
    return s or "-"


def case(op, flags, radix, rttext, pieces):
    return "%s %s %x %s %s" % (op, flags, radix, ("x" + hexs(rttext)) if rttext is not None else "-", " ".join(pieces))


def sign_pieces(rng, signed, neg):
    if neg:
        return [piece("-")], "-"
    if signed and rng.chance(1, 6):
        return [piece("+")], ""
    return [], ""


def pick(fix, key, draw):
    """the value of a generator choice: drawn from the rng, or fixed by the systematic grid (crate_grid)"""
    v = draw()
    return fix[key] if key in fix else v


def gen_int_case(rng, tier, **fix):
    signed = pick(fix, "signed", lambda: rng.chance(1, 2))
    static = pick(fix, "static", lambda: rng.chance(2, 5))
    emb = rng.chance(1, 4)
    n = pick(fix, "n", lambda: gen_mag(rng, tier))
    form = pick(fix, "form", lambda: gen_form(rng))
    text, radix, suffix = digits_text(rng, n, form)
    neg = signed and pick(fix, "neg", lambda: rng.chance(1, 2))
    sp, stext = sign_pieces(rng, signed, neg)
    glued = rng.chance(1, 2)
    pieces = sp + [piece(text, glued and bool(sp))] + suffix
    return case("int", flags_str("i" if signed else "u", "s" if static else "", "e" if emb else ""), radix, stext + text, pieces)


BAD_INT = [
    # (signed?, pieces as texts, glue flags) - token sequences outside the grammar
    ["-", "-", "5"], ["-", "+", "5"], ["+", "-", "7"], ["+", "+", "7"], ["-", "-", "-", "9"],
    ["5", "base", "base", "10"], ["a", "base", "base", "16"], ["5", "base"], ["5", "base", "1"], ["5", "base", "0"],
    ["5", "base", "37"], ["5", "base", "4294967296"], ["5", "base", "10u8"], ["5", "base", "1_0"], ["5", "base", "0x10"],
    ["5", "6"], ["5", "base", "10", "7"], ["5", "base", "10", "base"], ["(5)"], ["[5]"], ["5", ","], ["5", ";"], ["1.5"],
    ["12a"], ["0xg"], ["_0b12"], ["0b2"[:2] + "_"], ["_"], ["__"], ["-"], ["+"], [""], ["5", "-"], ["5", "+", "6"], ["- 5", "base", "2"],
    ["base", "10"], ["base", "base", "36"], ["1e5"], ["1e5", "base", "16"], ["5u8"], ["0x1f32"], ["5", "Base", "10"], ["'5'"],
    ["\"5\""], ["5", "base", "+10"], ["~", "5"], ["5", "/", "1"], ["!", "5"], ["-", "0"], ["+", "0"], ["0"], ["00"], ["0_"],
    ["5", "base", "10", "10"], ["5_", "base", "8"], ["z", "base", "36"], ["Z", "base", "36"], ["z", "base", "35"],
]


def gen_bad_int(rng):
    toks = rng.choice(BAD_INT)
    signed = rng.chance(2, 3)
    static = rng.chance(1, 3)
    pieces = [piece(t, rng.chance(1, 4) and i > 0) for i, t in enumerate(toks) if t != ""]
    # run-time text: sign + value, radix from a trailing `base N`
    radix = 0
    body = list(toks)
    if len(body) >= 3 and body[-2] == "base" and body[-1].isdigit() and int(body[-1]) < 256:
        radix = int(body[-1])
        body = body[:-2]
    return case("int", flags_str("i" if signed else "u", "s" if static else ""), radix, "".join(body).replace(" ", ""), pieces)


def gen_rat_case(rng, tier, **fix):
    static = pick(fix, "static", lambda: rng.chance(2, 5))
    emb = rng.chance(1, 4)
    relaxed = pick(fix, "relaxed", lambda: rng.chance(2, 5))
    k = rng.below(8)
    if k == 0:
        n, d = rng.bits(rng.range(0, 32)), rng.bits(rng.range(1, 32)) | 1
    elif k == 1:
        n, d = gen_mag(rng, tier), rng.bits(rng.range(1, 32)) | 1
    elif k == 2:
        n, d = rng.bits(rng.range(0, 32)), gen_mag(rng, tier) or 1
    elif k == 3:
        # common factor: reduced components fall on the other side of 32 bits
        g = rng.choice([2, 3, 1 << rng.range(1, 40), rng.bits(20) | 1, 6])
        n, d = g * (rng.bits(rng.range(1, 34)) | 1), g * (rng.bits(rng.range(1, 34)) | 1)
    elif k == 4:
        n, d = gen_mag(rng, tier), None
    else:
        n, d = gen_mag(rng, tier), gen_mag(rng, tier) or 1
    if "n" in fix:
        n, d = fix["n"], fix["d"]
    if d == 0:
        d = 1
    form = pick(fix, "form", lambda: gen_form(rng))
    nneg = rng.chance(1, 2)
    dneg = d is not None and rng.chance(1, 6)
    ntext, radix, suffix = digits_text(rng, n, form)
    pieces = []
    rt = ""
    if relaxed and rng.chance(1, 2):
        pieces.append(piece("~"))
    sp, stext = sign_pieces(rng, True, nneg)
    pieces += sp
    if relaxed and len(pieces) == len(sp):
        pieces.append(piece("~", rng.chance(1, 2)))
    pieces.append(piece(ntext, rng.chance(1, 2) and bool(pieces)))
    rt += stext + ntext
    if d is not None:
        dform = form
        if form in ("0x", "0o", "0b") and rng.chance(1, 2):
            dform = {"0x": 16, "0o": 8, "0b": 2}[form]  # prefix omitted on the denominator
            dtext = to_base(d, dform)
            if risky_as_literal(dtext):
                dtext = "_" + dtext
        else:
            dtext = digits_text(rng, d, dform)[0]
        pieces.append(piece("/", rng.chance(1, 2)))
        dsp, dstext = sign_pieces(rng, True, dneg)
        pieces += dsp
        pieces.append(piece(dtext, rng.chance(1, 2)))
        rt += "/" + dstext + dtext
    elif suffix:
        # `num base N` is read as a denominator called "base": give it a denominator
        pieces += [piece("/"), piece("1")]
        rt += "/1"
    pieces += suffix
    return case("rat", flags_str("s" if static else "", "e" if emb else "", "x" if relaxed else ""), radix, rt, pieces)


BAD_RAT = [
    ["1", "2"], ["1", "/"], ["/", "2"], ["1", "/", "/", "2"], ["1", "-", "2"], ["-", "-", "1", "/", "2"], ["1", "/", "-", "-", "2"],
    ["~", "~", "1", "/", "2"], ["1", "~", "/", "2"], ["1", "/", "~", "2"], ["1", "/", "0"], ["0", "/", "0"], ["~", "1", "/", "0"],
    ["1", "/", "2", "/", "3"], ["1", "/", "2", "3"], ["1", "/", "2", "base"], ["1", "/", "2", "base", "10", "4"], ["5", "base", "7"],
    ["0x10", "/", "0b11"], ["0x10", "/", "0x"], ["1.5", "/", "2"], ["(1)", "/", "2"], ["1", "/", "(2)"], ["~"], ["-"], ["/"], ["1", "-", "/", "2"],
    ["-", "~", "1", "/", "2"], ["~", "-", "1", "/", "2"], ["+", "1", "/", "+", "2"], ["1", "/", "2", "base", "base", "10"],
    ["1", "2", "/"], ["/", "1", "2"], ["1", "/", "2", "base", "1"], ["1", "/", "2", "base", "37"], ["a", "/", "b", "base", "16"],
    ["a", "/", "b"], ["0", "/", "5"], ["-", "0", "/", "5"], ["6", "/", "4"], ["~", "6", "/", "4"], ["~", "6", "/", "3"],
    ["4294967296", "/", "2"], ["~", "4294967296", "/", "2"], ["8589934592", "/", "4294967296"],
]


def gen_bad_rat(rng):
    toks = rng.choice(BAD_RAT)
    static = rng.chance(1, 3)
    relaxed = "~" in toks
    pieces = [piece(t, rng.chance(1, 4) and i > 0 and not (t == "/" and toks[i - 1] == "/")) for i, t in enumerate(toks)]
    body = [t for t in toks if t != "~"]
    radix = 0
    if len(body) >= 3 and body[-2] == "base" and body[-1].isdigit() and int(body[-1]) < 256:
        radix = int(body[-1])
        body = body[:-2]
    return case("rat", flags_str("s" if static else "", "x" if relaxed else ""), radix, "".join(body), pieces)


def split_point(rng, d):
    """split a digit string into integral and fractional digits"""
    k = rng.range(0, len(d))
    return d[:k], d[k:]


def gen_fbin_case(rng, tier, **fix):
    static = pick(fix, "static", lambda: rng.chance(2, 5))
    emb = rng.chance(1, 4)
    n = pick(fix, "n", lambda: gen_mag(rng, tier))
    neg = pick(fix, "neg", lambda: rng.chance(1, 2))
    hexf = pick(fix, "hexf", lambda: rng.chance(3, 5))
    d = to_base(n, 16 if hexf else 2)
    if rng.chance(1, 5):
        d = d + "0" * rng.range(1, 12)   # trailing zero digits: normalisation moves them into the exponent
    if rng.chance(1, 8):
        d = "0" * rng.range(1, 3) + d
    form = pick(fix, "form", lambda: rng.below(4))
    body = d
    if form >= 1:
        a, b = split_point(rng, d)
        a, b = underscores(rng, a), underscores(rng, b, 0)
        body = a + "." + b
        if a == "" and b == "":
            body = d
    else:
        body = underscores(rng, d)
    exp = ""
    if form >= 2 or rng.chance(1, 3):
        e = rng.choice([0, 1, -1, 7, -200, 1234, -33, rng.range(-100000, 100000)])
        mark = rng.choice(["p", "P", "@"]) if hexf else rng.choice(["b", "B", "@"])
        exp = mark + (rng.choice(["", "+"]) if e >= 0 else "") + str(e)
    pre = "0x" if hexf else ""
    text = pre + body + exp
    us = ""
    # the `_` prefix of the documentation where rustc would not lex the text as wished
    if hexf and (re.match(r"^0x[0-9a-fA-F_]*\.[0-9]", text) or text.startswith("0x.") or rng.chance(1, 10)):
        us = "_"
    sp = [piece("-")] if neg else ([piece("+")] if rng.chance(1, 8) else [])
    # pieces: the text is cut where spaces may appear without changing the reassembled text
    cuts = [text]
    if rng.chance(1, 4) and exp:
        m = re.search(r"[pPbB@]", text[2:] if hexf else text)
        if m and not hexf:
            pass
    pieces = sp + [piece(us + text, bool(sp) and rng.chance(1, 2))]
    return case("fbin", flags_str("s" if static else "", "e" if emb else ""), 0, ("-" if neg else "") + text, pieces)


def gen_fdec_case(rng, tier, **fix):
    static = pick(fix, "static", lambda: rng.chance(2, 5))
    emb = rng.chance(1, 4)
    n = pick(fix, "n", lambda: gen_mag(rng, tier))
    neg = pick(fix, "neg", lambda: rng.chance(1, 2))
    d = to_base(n, 10)
    if rng.chance(1, 5):
        d = d + "0" * rng.range(1, 12)
    if rng.chance(1, 8):
        d = "0" * rng.range(1, 3) + d
    form = pick(fix, "form", lambda: rng.below(4))
    if form >= 1:
        a, b = split_point(rng, d)
        a, b = underscores(rng, a), underscores(rng, b, 0)
        body = a + "." + b if (a or b) else d
    else:
        body = underscores(rng, d)
    exp = ""
    if form >= 2 or rng.chance(1, 3):
        e = rng.choice([0, 1, -1, 7, -100, 1234, -60, rng.range(-100000, 100000)])
        exp = rng.choice(["e", "E", "@"]) + (rng.choice(["", "+"]) if e >= 0 else "") + str(e)
    text = body + exp
    sign = "-" if neg else ("+" if rng.chance(1, 8) else "")
    sp = [piece(sign)] if sign else []
    pieces = sp + [piece(text, bool(sp) and rng.chance(1, 2))]
    return case("fdec", flags_str("s" if static else "", "e" if emb else ""), 0, sign + text, pieces)


BAD_FLOAT = ["1.5e", "1..5", ".", "1.5.2", "--1", "-+1", "+-1", "1e5", "0x", "_", "__1", "1_", "1._5", "1.5e1_0", "1.5e+", "(1.5)", "1,5",
             "1.5 2", "0x1.8", "_0x1.8p3", "0x1p", "1b", "1 b 3", "1.5 e 3", "1 . 5", "12 .5", "0", "0.00", "-0", "-0.0", "000", "0e5", "0.0e-7",
             "1e99999999999999999999", "0x0p5", "0x.0", "5e-3", "1@5", "1.0@-5", "1p3", "0x1b3", "0b101", "0o17", "1e0x5", "~1", "1/2", "nan", "inf",
             # round 3: texts the lexer cuts in unexpected places (literal + suffix, `.` + ident, exponent sign as punct) and white space between the tokens
             "1.e5", "1 .5e3", "1. 5", "0x1.8p-3", "0x1 .8 p -3", "_0x1.8p-3", "1e 5", "1e+ 5", "1_000.5", "1__0", "5 e-3", "1.5e+3", "1.5e+", "1.5e", "12e", "1.5.e3",
             "0x1p+3", "0x1.p3", "0b2", "0o8", "1e5e5", "1.5 @ -3", "- 1.5", "+ 1.5", "-_1.5", "- _0x1p3", "1..5e3", "1.5ee3", "0x1e5", "0xep3", "9e", "00.50"]


def gen_bad_float(rng):
    t = rng.choice(BAD_FLOAT)
    op = rng.choice(["fbin", "fdec"])
    static = rng.chance(1, 3)
    toks = t.split(" ")
    pieces = [piece(x) for x in toks]
    joined = "".join(toks)
    if op == "fbin":
        # the macro strips one sign and one underscore itself
        s = joined
        sign = ""
        if s[:1] in "+-" and s[:1]:
            sign = "-" if s[0] == "-" else ""
            s = s[1:]
        if s[:1] == "_":
            s = s[1:]
        joined = sign + s
    return case(op, flags_str("s" if static else ""), 0, joined, pieces)


def gen_one(rng, tier):
    k = rng.below(100)
    if k < 30:
        return gen_int_case(rng, tier)
    if k < 36:
        return gen_bad_int(rng)
    if k < 54:
        return gen_rat_case(rng, tier)
    if k < 60:
        return gen_bad_rat(rng)
    if k < 76:
        return gen_fbin_case(rng, tier)
    if k < 94:
        return gen_fdec_case(rng, tier)
    return gen_bad_float(rng)


# digit texts that start like a radix prefix, with a `base N` suffix: values of radix N where `b`/`o`/`x` is a digit of N,
# compile errors where it is not (or where the pseudo prefix would be the only way to read them)
PREFIX_BASE = [("0b101", 16), ("0o17", 32), ("0x1f", 36), ("0b11", 12), ("0B11", 16), ("0o7", 25), ("0x0", 34), ("0b1_0", 36),
               ("0b100000000000000000000000000000001", 16), ("0x123456789abcdef0123456789", 36),
               ("0x10", 10), ("0b11", 2), ("0o17", 8), ("0b101", 11), ("0o17", 24), ("0x1f", 33), ("0x1f", 16), ("0b", 16), ("0x", 36)]


def gen_prefix_base(rng):
    """every entry of PREFIX_BASE in all of ubig!/ibig!/static_ubig!/static_ibig! (and two dashu:: paths), then as rbig! parts"""
    out = []
    for text, b in PREFIX_BASE:
        for flags in ("u", "us", "i", "is", "ue", "ise"):
            neg = "i" in flags and rng.chance(1, 2)
            sp = [piece("-")] if neg else []
            out.append(case("int", flags, b, ("-" if neg else "") + text, sp + [piece(text, bool(sp) and rng.chance(1, 2)), piece("base"), piece(str(b))]))
    for text, b in PREFIX_BASE[:8] + PREFIX_BASE[10:14]:
        for flags in ("-", "s", "x", "sx"):
            tilde = [piece("~")] if "x" in flags else []
            out.append(case("rat", flags, b, text + "/3", tilde + [piece(text), piece("/"), piece("3"), piece("base"), piece(str(b))]))
            out.append(case("rat", flags, b, "5/" + text, tilde + [piece("5"), piece("/"), piece(text), piece("base"), piece(str(b))]))
    return out


# round 4 (maximal munch): value words that look like something else - exponent-like (`1e5` is ONE literal token and, with
# `base 16`, the hex number 0x1e5), literal + suffix (`12e`, `1z`), pseudo prefixes - and texts where the float reading does
# take more than the word (`1e+5`, `1.5`: one token, no digits of the radix -> compile error)
MUNCH_WORDS = [("1e5", 16), ("1E5", 15), ("12e", 15), ("9e_", 36), ("0b1e2", 16), ("1_e5", 16), ("1e5_", 16), ("1e55e", 16), ("0x1F", 36),
               ("a3f", 16), ("_1e5", 16), ("1z", 36), ("0e0", 15), ("7e7", 10), ("1e+5", 16), ("1e-5", 16), ("1.5", 16), ("1e5", 14), ("0E", 15),
               ("00e1", 16), ("1__e__5", 16), ("e1", 16), ("E", 15), ("1e5e5e5e5e5e5e5e5e5e5", 16)]


def gen_munch(rng):
    out = []
    for text, b in MUNCH_WORDS:
        for flags in ("u", "is", "ue"):
            neg = "i" in flags and rng.chance(1, 2)
            sp = [piece("-")] if neg else []
            out.append(case("int", flags, b, ("-" if neg else "") + text, sp + [piece(text, bool(sp) and rng.chance(1, 2)), piece("base"), piece(str(b))]))
    # every white-space character of the lexer model between the tokens (the pieces carry the white space themselves)
    for ws in ("\t", "  ", "\x0b", "\x0c", "\r", " \t \r ", "\n"):
        out.append(case("int", "i", 16, "-a3f", [piece("-" + ws + "a3f" + ws + "base" + ws + "16" + ws)]))
        out.append(case("int", "us", 0, "0x1F", [piece(ws + "0x1F" + ws)]))
        out.append(case("rat", "-", 0, "3/4", [piece("3" + ws + "/" + ws + "4")]))
        out.append(case("fdec", "-", 0, "-1.5e3", [piece("-" + ws + "1.5e3")]))
    return out


def gen_cases(rng, tier, n):
    out = gen_prefix_base(rng) + gen_munch(rng)
    # every hand-written bad token sequence once, in a fixed order, then the random mixture
    for i in range(len(BAD_INT)):
        out.append(gen_bad_int(FixedChoice(rng, i)))
    for i in range(len(BAD_RAT)):
        out.append(gen_bad_rat(FixedChoice(rng, i)))
    for i in range(len(BAD_FLOAT)):
        out.append(gen_bad_float(FixedChoice(rng, i)))
    while len(out) < n:
        out.append(gen_one(rng, tier))
    return out[:max(n, 1)]


class FixedChoice:
    """an rng whose first `choice` returns a fixed element (sweeps the hand-written lists)"""

    def __init__(self, rng, i):
        self.rng, self.i, self.used = rng, i, False

    def choice(self, xs):
        if not self.used:
            self.used = True
            return xs[self.i % len(xs)]
        return self.rng.choice(xs)

    def __getattr__(self, name):
        return getattr(self.rng, name)


# ------------------------------------------------------------------------------------------------
# round 4: the systematic part of the crate phase - every production of the literal grammar x every boundary size
# ------------------------------------------------------------------------------------------------
# bit lengths of the magnitude / significand / numerator / denominator: both sides of the 32-bit const path, of one and two
# 64-bit words (DoubleWord), and the sizes where the padded u16/u32/u64 tables of the static word-array generator have
# different LEN (byte counts 2k+1, 4k+1 .. 4k+3, 8k+1 .. 8k+7) or the same (multiples of 64)
GRID_BITS_CORE = [32, 33, 64, 65, 128, 129]
GRID_BITS_MORE = [1, 8, 16, 17, 24, 31, 40, 48, 49, 56, 63, 72, 96, 97, 112, 127, 160, 192, 193, 256, 257]


def grid_value(rng, bits, k):
    """k-th magnitude with exactly `bits` bits: all ones, smallest, random odd"""
    if bits <= 0:
        return 0
    top = 1 << (bits - 1)
    if k % 3 == 0:
        return (1 << bits) - 1
    if k % 3 == 1:
        return top | (1 if bits > 1 else 0)
    return top | rng.bits(bits - 1) | 1


def grid_productions():
    """(name, function(rng, tier, bits, k) -> case): one entry per macro x code generator x literal form (x sign for floats)"""
    prods = []
    for signed in (False, True):
        for static in (False, True):
            for form in ("dec", "0x", "0b", "0o", 16, 36, 2, 10):
                def f(rng, tier, bits, k, signed=signed, static=static, form=form):
                    return gen_int_case(rng, tier, signed=signed, static=static, form=form, n=grid_value(rng, bits, k))
                prods.append(("%s%sbig/%s" % ("static_" if static else "", "i" if signed else "u", form), f))
    for static in (False, True):
        for neg in (False, True):
            for hexf, form in ((True, 0), (True, 2), (False, 0), (False, 3)):
                def f(rng, tier, bits, k, static=static, neg=neg, hexf=hexf, form=form):
                    return gen_fbin_case(rng, tier, static=static, neg=neg, hexf=hexf, form=form, n=grid_value(rng, bits, k) | 1)
                prods.append(("%sfbig/%s%s%d" % ("static_" if static else "", "-" if neg else "+", "hex" if hexf else "bin", form), f))
            for form in (0, 1, 3):
                def f(rng, tier, bits, k, static=static, neg=neg, form=form):
                    n = grid_value(rng, bits, k) | 1     # odd: no factor 10 is moved into the exponent, the size stays
                    return gen_fdec_case(rng, tier, static=static, neg=neg, form=form, n=n)
                prods.append(("%sdbig/%s%d" % ("static_" if static else "", "-" if neg else "+", form), f))
    for static in (False, True):
        for relaxed in (False, True):
            for form in ("dec", "0x", 16):
                for part in ("num", "den", "both", "int"):
                    def f(rng, tier, bits, k, static=static, relaxed=relaxed, form=form, part=part):
                        big = grid_value(rng, bits, k)
                        small = rng.choice([1, 3, 7, (1 << 31) - 1, (1 << 32) - 1, rng.bits(20) | 1])
                        n, d = {"num": (big, small), "den": (small, big), "both": (big, grid_value(rng, bits, k + 1) | 1), "int": (big, None)}[part]
                        return gen_rat_case(rng, tier, static=static, relaxed=relaxed, form=form, n=n, d=d)
                    prods.append(("%srbig/%s%s/%s" % ("static_" if static else "", "~" if relaxed else "", form, part), f))
    return prods


def crate_grid(rng, tier):
    """productions x boundary sizes; quick: all core sizes and, per production, two of the further sizes drawn from the seed;
    thorough: the full product.  Reproducible from the seed (the rng is forked per production)."""
    out = []
    for name, f in grid_productions():
        r = rng.fork("grid-" + name)
        if tier == "thorough":
            sizes = GRID_BITS_CORE + GRID_BITS_MORE
        else:
            light = name.split("/")[0] in ("ubig", "ibig", "fbig", "dbig", "rbig") and not name.endswith(("0x", "dec", "0", "/num"))
            core = [r.choice(GRID_BITS_CORE[:2]), r.choice(GRID_BITS_CORE[2:])] if light else GRID_BITS_CORE
            sizes = core + [r.choice(GRID_BITS_MORE) for _ in range(1 if light else 2)]
        for i, bits in enumerate(sizes):
            out.append((name, bits, f(r, tier, bits, i + r.below(3))))
    return out


# ------------------------------------------------------------------------------------------------
# crate phase: real macro invocations compiled by rustc against the working tree
# ------------------------------------------------------------------------------------------------
NCRATE = {"quick": 500, "thorough": 2000}


def _w(op, flags, text, pieces=None, radix=0):
    return case(op, flags, radix, text.replace(" ", ""), [piece(x) for x in (pieces or [text])])


# witnesses of the seeded changes C20_E (32-bit selector of the static word arrays given the u64 LEN: visible only with 32-bit
# words, static_ macros, more than 4 bytes) and C20_F (static_dbig! of a negative literal beyond the 32-bit const path took the
# two's complement bytes of the IBig): always in the crate phase, i.e. compiled and run with 64-bit AND with 32-bit words
CRATE_WITNESSES = [
    _w("int", "us", "0x10000000100000001"), _w("int", "is", "-0x1000000010000000100000001", ["-", "0x1000000010000000100000001"]),
    _w("int", "us", "18446744073709551616"), _w("int", "use", "0xffffffffffffffffffffffff"), _w("int", "is", "-4294967296", ["-", "4294967296"]),
    _w("fdec", "s", "-12345678901.5", ["-", "12345678901.5"]), _w("fdec", "s", "-1267650600228229401496703205377e-7", ["-", "1267650600228229401496703205377e-7"]),
    _w("fdec", "s", "-98765432109876.54321", ["-", "98765432109876.54321"]), _w("fdec", "s", "18446744073709551615"), _w("fdec", "se", "-18446744073709551615e3", ["-", "18446744073709551615e3"]),
    _w("fdec", "s", "-4294967297", ["-", "4294967297"]), _w("fdec", "-", "-12345678901.5", ["-", "12345678901.5"]),
    _w("fbin", "s", "-0x123456789abcdefp-3", ["-", "0x123456789abcdefp-3"]), _w("fbin", "s", "-0xffffffffffffffffp7", ["-", "0xffffffffffffffffp7"]),
    _w("fbin", "se", "-0x100000001p0", ["-", "0x100000001p0"]), _w("fbin", "s", "0x8000000000000001p-64"),
    _w("rat", "s", "0x10000000100000001/3", ["0x10000000100000001", "/", "3"]), _w("rat", "sx", "-3/0x10000000100000001", ["~", "-", "3", "/", "0x10000000100000001"]),
    _w("rat", "s", "-18446744073709551617/18446744073709551615", ["-", "18446744073709551617", "/", "18446744073709551615"]),
]

MAIN_HEAD = r'''type FBin = FBig<mode::Zero, 2>;
fn wh(neg: bool, w: &[Word]) -> String {
    let mut n = w.len();
    while n > 0 && w[n - 1] == 0 { n -= 1; }
    if n == 0 { return "0".to_string(); }
    let mut s = String::new();
    if neg { s.push('-'); }
    s.push_str(&format!("{:x}", w[n - 1]));
    for i in (0..n - 1).rev() { s.push_str(&format!("{:0width$x}", w[i], width = (Word::BITS / 4) as usize)); }
    s
}
fn hi(x: &IBig) -> String { let (s, w) = x.as_sign_words(); wh(s == Sign::Negative, w) }
fn hz(v: isize) -> String { if v < 0 { format!("-{:x}", (v as i128).unsigned_abs()) } else { format!("{:x}", v) } }
trait Show { fn show(&self) -> String; }
impl Show for UBig { fn show(&self) -> String { wh(false, self.as_words()) } }
impl Show for IBig { fn show(&self) -> String { hi(self) } }
impl Show for FBin { fn show(&self) -> String { format!("{} {} {:x}", hi(self.repr().significand()), hz(self.repr().exponent()), self.precision()) } }
impl Show for DBig { fn show(&self) -> String { format!("{} {} {:x}", hi(self.repr().significand()), hz(self.repr().exponent()), self.precision()) } }
impl Show for RBig { fn show(&self) -> String { format!("{} {}", hi(self.numerator()), wh(false, self.denominator().as_words())) } }
impl Show for Relaxed { fn show(&self) -> String { format!("{} {}", hi(self.numerator()), wh(false, self.denominator().as_words())) } }
impl<T: Show> Show for &T { fn show(&self) -> String { (**self).show() } }
fn p(id: u32, s: String) { println!("{} {}", id, s); }
fn main() {
'''

CRATE_TOML = '''[package]
name = "c20-literals"
version = "0.0.0"
edition = "2021"
publish = false

[workspace]

[dependencies]
dashu-base = { path = "@REPO@/base" }
dashu-int = { path = "@REPO@/integer" }
dashu-float = { path = "@REPO@/float" }
dashu-ratio = { path = "@REPO@/rational" }
dashu-macros = { path = "@REPO@/macros" }
dashu = { path = "@REPO@" }

[profile.dev]
opt-level = 0
debug = false
incremental = true
'''


def source_of(case_text):
    """the macro input of a case, as the harness assembles it from the pieces"""
    toks = case_text.split()[4:]
    src = ""
    for t in toks:
        text = bytes.fromhex(t[1:]).decode()
        if t[0].isupper() and src:
            src += " "
        src += text
    return src


def macro_of(case_text):
    op, flags = case_text.split()[:2]
    name = {"int": "ibig" if "i" in flags else "ubig", "fbin": "fbig", "fdec": "dbig", "rat": "rbig"}[op]
    if "s" in flags:
        name = "static_" + name
    return ("dashu::" if "e" in flags else "dashu_macros::") + name


def type_of(case_text, answer):
    op, flags = case_text.split()[:2]
    if op == "int":
        return "IBig" if "i" in flags else "UBig"
    if op == "fbin":
        return "FBin"
    if op == "fdec":
        return "DBig"
    return "Relaxed" if (" Re " in answer or (" ok " not in answer and "x" in flags)) else "RBig"


def answer_val(answer):
    """value tokens of a harness answer (between `val` and `rt`)"""
    t = answer.split()
    if "shapeerr" in t and "rt" in t:
        # the harness could not read the emitted code: the reference is what the run-time parser says
        return answer_rt(answer)
    if "ok" not in t or "val" not in t:
        return None
    i = len(t) - 1 - t[::-1].index("val")
    j = len(t) - 1 - t[::-1].index("rt")
    return " ".join(t[i + 1:j])


def answer_rt(answer):
    """what the run-time parser made of the text of the case (None: refused / not asked)"""
    t = answer.split()
    if "rt" not in t:
        return None
    r = t[len(t) - 1 - t[::-1].index("rt") + 1:]
    return " ".join(r) if r and r[0] not in ("err", "na") else None


def outer_line(span):
    """line in src/main.rs of the outermost macro call site of a rustc span"""
    while span.get("expansion"):
        span = span["expansion"]["span"]
    if span.get("file_name", "").endswith("main.rs"):
        return span.get("line_start")
    return None


def cargo_json(cmd, cwd, env, timeout):
    rc, out = core.run(cmd, cwd=cwd, env=env, timeout=timeout)
    errors = {}
    other = []
    for line in out.splitlines():
        if not line.startswith("{"):
            continue
        try:
            m = json.loads(line)
        except ValueError:
            continue
        if m.get("reason") != "compiler-message":
            continue
        msg = m["message"]
        if msg.get("level") != "error":
            continue
        text = msg.get("message", "")
        for c in msg.get("children", []):
            text += " | " + c.get("message", "")
        lines = set()
        for sp in msg.get("spans", []):
            if sp.get("is_primary"):
                ln = outer_line(sp)
                if ln:
                    lines.add(ln)
        if not lines and "aborting due to" not in text and "could not compile" not in text:
            other.append(text[:300])
        for ln in lines:
            errors.setdefault(ln, []).append(text[:300])
    return rc, errors, other, out


MAIN_IMPORTS = """#![allow(warnings)]
// generated by /verif/props/C20.py - one macro invocation per line, the line number identifies it
use dashu_float::{round::mode, DBig, FBig};
use dashu_int::{IBig, Sign, UBig, Word};
use dashu_ratio::{RBig, Relaxed};
"""
# the crate that knows dashu only under another name (Cargo.toml: bignum = { package = "dashu", .. }): every type through it
RENAMED_IMPORTS = """#![allow(warnings)]
// generated by /verif/props/C20.py - dashu is known here only as `bignum`
use bignum::float::{round::mode, DBig, FBig};
use bignum::integer::{IBig, Sign, UBig, Word};
use bignum::rational::{RBig, Relaxed};
"""
RENAMED_TOML = """[package]
name = "c20-renamed"
version = "0.0.0"
edition = "2021"
publish = false

[workspace]

[dependencies]
bignum = { package = "dashu", path = "@REPO@" }

[profile.dev]
opt-level = 0
debug = false
incremental = true
"""

# message classes of invocations that must not compile (focus 4): which panic of the macro, or who else refused
MSG_CLASSES = [("Invalid digits or syntax in the literal", "invalid-digit-or-syntax"), ("Missing digits", "no-digits"),
               ("radix is invalid or unsupported", "unsupported-radix"), ("Radix of different components", "inconsistent-radix"),
               ("Incorrect syntax, please refer to the docs for acceptable float", "float-syntax"),
               ("Divisor or denominator must not be zero", "zero-denominator"), ("called `Option::unwrap()` on a `None`", "unwrap-none"),
               ("assertion", "assertion")]


def message_class(errs):
    text = " || ".join(errs)
    if "proc macro panicked" in text:
        for pat, cls in MSG_CLASSES:
            if pat in text:
                return "macro-panic:" + cls
        return "macro-panic:other"
    if any(w in text for w in ("literal", "digit", "suffix", "exponent", "prefix")) and "mismatched" not in text and "evaluation" not in text:
        return "rustc-lexer"
    if "no rules expected" in text or "unexpected end of macro" in text:
        return "macro-rules"
    if "mismatched types" in text or "E0308" in text:
        return "LATER-TYPE-ERROR"
    if "cannot find" in text or "failed to resolve" in text or "E0433" in text:
        return "LATER-PATH-ERROR"
    return "other-compile-error"


def extra_phase(tier, seed, exes, oracle):
    res = {"evaluations": 0, "hist": {}, "nontrivial": [], "samples": [], "failures": []}
    hist = res["hist"]

    def bump(k, n=1):
        hist[k] = hist.get(k, 0) + n

    word = TEMPLATES_STATUS.split(" ", 1)[0]
    word4 = ENTRY_STATUS.split(" ", 1)[0]
    bump("translator_c20_r3:LitTemplates:" + word)
    bump("TRANSLATOR_C20_R4:LitEntryPoints:" + word4)
    stale = "correspondence run only (source not parsed; committed copy marked STALE)"
    res["samples"].append({"fragments": [
        {"fragment": "coq/gen/LitTemplates.v (tools/translate_c20_r3.py from macros/src/parse/{int,float,ratio}.rs)", "status": TEMPLATES_STATUS,
         "tied_by": "C20_templates_int, C20_templates_bytes, C20_templates_float, C20_templates_ratio, C20_templates_thresholds" if word == "ok" else stale},
        {"fragment": "coq/gen/LitEntryPoints.v (tools/translate_c20_r4.py from macros/src/lib.rs, src/lib.rs, macros/src/parse/common.rs quote_words)", "status": ENTRY_STATUS,
         "tied_by": "C20_entry_points, C20_entry_points_count, C20_dashu_wrappers_pass_crate, C20_static_selector_rows" if word4 == "ok" else stale}]})
    exe = exes.get("default")
    if exe is None or oracle is None:
        return res
    rng = core.Rng(seed).fork("c20-crate")
    n = NCRATE[tier]
    texts = []
    origin = {}
    seen = set()
    pool = [l.strip() for l in open(os.path.join(core.ROOT, "corpus", "C20.txt")) if l.strip() and not l.startswith("#")]
    grid = crate_grid(rng.fork("grid"), tier)
    grid_cells = {}
    stream = [(t, None) for t in pool[:17] + CRATE_WITNESSES] + [(t, (name, bits)) for name, bits, t in grid] + [(t, None) for t in gen_cases(rng, tier, n)]
    for t, cell in stream:
        key = (macro_of(t), source_of(t))
        if key not in seen and "\n" not in key[1]:
            seen.add(key)
            texts.append(t)
            if cell:
                origin[t] = cell
    cases = list(enumerate(texts))
    answers = core.run_sharded(exe, cases, case_timeout=30)
    verdicts = core.run_sharded(oracle, [(i, "%s => %s" % (t, answers.get(i, "noanswer"))) for i, t in cases], case_timeout=60)
    items = []  # (line number, case, answer, expected value or None)
    body = []
    by_rt = set()   # cases the oracle failed in the front-end phase: expected value = the run-time parser's
    first_line = (MAIN_IMPORTS + MAIN_HEAD).count("\n") + 1
    for i, t in cases:
        a = answers.get(i, "noanswer")
        v = verdicts.get(i, "noverdict").split()[0]
        if v == "fail" or v == "noverdict":
            res["failures"].append({"case": t, "impl": a, "oracle": verdicts.get(i), "phase": "crate literals through the front end", "replay": "./check C20 --replay <this file>"})
            # the real invocation is compiled all the same and compared with the run-time parser's value: a concrete witness
            # that does not depend on how the harness reads the emitted code
            if not a.startswith("toks") or answer_rt(a) is None or " reject " in a:
                continue
            by_rt.add(t)
            bump("crate:front-end-disagrees-compiled-anyway")
        if a.startswith("lexerr") or not a.startswith("toks"):
            bump("crate:skipped-lexerr")
            continue
        ln = first_line + len(body)
        mac, src = macro_of(t), source_of(t)
        val = answer_rt(a) if t in by_rt else answer_val(a)
        ty = type_of(t, a)
        shape_const = t not in by_rt and val is not None and (" ok c32 " in a or " ok fc32 0 " in a or " ok rc32 " in a)
        k = ln % 3
        if val is not None and "static_" in mac and k == 0:
            body.append("    { static S: &%s = %s!(%s); p(%d, S.show()); }" % (ty, mac, src, ln))
            bump("crate:form:static-item")
        elif shape_const and k != 1:
            body.append("    { const C: %s = %s!(%s); p(%d, C.show()); }" % (ty, mac, src, ln))
            bump("crate:form:const-item")
        else:
            body.append("    p(%d, (%s!(%s)).show());" % (ln, mac, src))
            bump("crate:form:expression")
        items.append((ln, t, a, val))
        if t in origin:
            shape = a.split(" ok ", 1)[1].split()[0] if " ok " in a else "reject"
            grid_cells.setdefault(origin[t][0], []).append("%d:%s" % (origin[t][1], shape))
    key = core.sha(core.REPO)
    base = os.path.join(core.CACHE, "c20_crates", key)
    tdir = os.path.join(core.CACHE, "target", "c20crate-" + key)
    env = {"CARGO_NET_OFFLINE": "true", "CARGO_TARGET_DIR": tdir, "RUSTFLAGS": "-Awarnings"}

    def write_crate(name, main_src, toml=CRATE_TOML):
        d = os.path.join(base, name)
        os.makedirs(os.path.join(d, "src"), exist_ok=True)
        os.makedirs(os.path.join(d, ".cargo"), exist_ok=True)
        for path, txt in ((os.path.join(d, "Cargo.toml"), toml.replace("@REPO@", core.REPO).replace("c20-literals", "c20-" + name)),
                          (os.path.join(d, ".cargo", "config.toml"), "[net]\noffline = true\n"),
                          (os.path.join(d, "src", "main.rs"), main_src)):
            if not os.path.exists(path) or open(path).read() != txt:
                open(path, "w").write(txt)
        lock = os.path.join(core.ROOT, "harness", "Cargo.lock.in")
        if os.path.exists(lock) and not os.path.exists(os.path.join(d, "Cargo.lock")):
            shutil.copy(lock, os.path.join(d, "Cargo.lock"))
        return d

    def assemble(imports, lines_by_ln):
        """main.rs with the given invocation lines at their line numbers (blank lines elsewhere)"""
        rows = [lines_by_ln.get(first_line + i, "") for i in range(len(body))]
        return imports + MAIN_HEAD + "\n".join(rows) + "\n}\n"

    def run_program(path, what):
        rc, out3 = core.run([path], timeout=300)
        got = {}
        for l in out3.splitlines():
            sp = l.split(" ", 1)
            if sp[0].isdigit():
                got[int(sp[0])] = sp[1].strip() if len(sp) > 1 else ""
        if rc != 0:
            res["failures"].append({"phase": what, "what": "the program of accepted literals exited with %d" % rc, "log": out3[-800:]})
        return got

    def compare(got, subset, tag, what):
        for ln, t, a, val in subset:
            res["evaluations"] += 1
            g = got.get(ln)
            if t in by_rt and t.split()[0] in ("fbin", "fdec") and g is not None:
                g, val = " ".join(g.split()[:2]), " ".join(val.split()[:2])
            if g == val:
                bump("crate:%s:%s" % (tag, t.split()[0]))
                res["nontrivial"].append("crate[%s] %s %s" % (tag, macro_of(t), source_of(t)))
            else:
                res["failures"].append({"case": t, "impl": a, "phase": what, "what": "%s!(%s) built `%s`, %s `%s`" % (macro_of(t), source_of(t), g, "the run-time parser says" if t in by_rt else "the front end (and the specification) say", val)})

    all_lines = dict((first_line + i, l) for i, l in enumerate(body))
    messages = []      # per must-fail invocation: the message class
    crates = []
    with core.Lock("c20crate-" + key):
        # 1. everything at once: which invocations does rustc refuse, and why
        d1 = write_crate("check", assemble(MAIN_IMPORTS, all_lines))
        rc, errors, other, out = cargo_json(["cargo", "check", "--offline", "--message-format=json"], d1, env, 1500)
        if rc != 0 and not errors:
            res["failures"].append({"phase": "crate check", "what": "cargo check failed without an error attributed to an invocation", "log": out[-1500:]})
            return res
        good = []
        for ln, t, a, val in items:
            errs = errors.get(ln, [])
            cls = message_class(errs) if errs else None
            res["evaluations"] += 1
            if val is None:
                # the front end rejected the literal: the real macro must panic = compile error, not a later type / path error
                if cls is None:
                    res["failures"].append({"case": t, "impl": a, "phase": "crate check", "what": "%s!(%s) compiles although the macro front end rejects the literal" % (macro_of(t), source_of(t))})
                elif cls.startswith("LATER"):
                    res["failures"].append({"case": t, "impl": a, "phase": "crate check", "what": "%s!(%s) is refused only by a later %s, not by the macro: %s" % (macro_of(t), source_of(t), cls, errs[0])})
                else:
                    bump("CRATE:MUST-FAIL:" + cls)
                    messages.append({"invocation": "%s!(%s)" % (macro_of(t), source_of(t)), "class": cls})
                    if cls.startswith("macro-panic"):
                        bump("crate:must-fail:macro-panic")
                        res["nontrivial"].append("crate " + macro_of(t) + " " + source_of(t))
                    else:
                        bump("crate:must-fail:other-compile-error")   # rustc's lexer / parser refused it first
            else:
                if not errs:
                    good.append((ln, t, a, val))
                elif cls.startswith("macro-panic"):
                    res["failures"].append({"case": t, "impl": a, "phase": "crate check", "what": "%s!(%s) is rejected by the compiled macro although the front end accepts it: %s" % (macro_of(t), source_of(t), errs[0])})
                elif cls == "rustc-lexer":
                    bump("crate:rustc-lexer-refuses")     # proc_macro2's fallback lexer is more liberal than rustc here
                    messages.append({"invocation": "%s!(%s)" % (macro_of(t), source_of(t)), "class": "rustc-lexer (front end accepts)"})
                else:
                    res["failures"].append({"case": t, "impl": a, "phase": "crate check", "what": "the expansion of %s!(%s) does not compile: %s" % (macro_of(t), source_of(t), errs[0])})
        # 2. the invocations that compile: build, run, compare with the front-end value (which the
        #    oracle has judged against the specification and the run-time parser)
        keep = dict((ln, all_lines[ln]) for ln, _, _, _ in good)
        d2 = write_crate("run", assemble(MAIN_IMPORTS, keep))
        rc, errors2, other2, out2 = cargo_json(["cargo", "build", "--offline", "--message-format=json"], d2, env, 1500)
        if rc != 0:
            res["failures"].append({"phase": "crate build", "what": "the crate of accepted literals does not build", "log": (json.dumps(errors2) + " " + " ".join(other2))[:1500]})
            return res
        compare(run_program(os.path.join(tdir, "debug", "c20-run"), "crate run"), good, "value-agrees", "crate run")
        crates.append({"crate": d2, "invocations": len(items), "compiled_and_run": len(good), "must_fail": len(items) - len(good)})
        # 3. the same program with 32-bit words (the DataSelector<32> tables of the static word arrays are the ones used):
        #    every static_ invocation and every fifth other one
        sub32 = [g for g in good if "static_" in macro_of(g[1]) or g[0] % 5 == 0]
        d3 = write_crate("run32", assemble(MAIN_IMPORTS, dict((ln, all_lines[ln]) for ln, _, _, _ in sub32)))
        env32 = dict(env, CARGO_TARGET_DIR=tdir + "-w32", RUSTFLAGS='-Awarnings --cfg force_bits="32"')
        rc, errors3, other3, out3 = cargo_json(["cargo", "build", "--offline", "--message-format=json"], d3, env32, 1500)
        if rc != 0:
            bad = [x for x in sub32 if x[0] in errors3]
            for ln, t, a, val in bad[:20]:
                res["failures"].append({"case": t, "impl": a, "phase": "crate build, 32-bit words", "what": "%s!(%s) does not compile with --cfg force_bits=\"32\": %s" % (macro_of(t), source_of(t), errors3[ln][0])})
            if not bad:
                res["failures"].append({"phase": "crate build, 32-bit words", "what": "the crate of accepted literals does not build with 32-bit words", "log": (json.dumps(errors3) + " " + " ".join(other3))[:1500]})
        else:
            compare(run_program(os.path.join(tdir + "-w32", "debug", "c20-run32"), "crate run, 32-bit words"), sub32, "w32-value-agrees", "crate run, 32-bit words")
            multi = sum(1 for g in sub32 if "static_" in macro_of(g[1]) and (" ok static " in g[2] or " ok fstatic " in g[2] or " ok rstatic " in g[2]))
            bump("crate:w32:static-word-array-invocations", multi)
            crates.append({"crate": d3, "rustflags": env32["RUSTFLAGS"], "compiled_and_run": len(sub32), "static_word_array_literals": multi})
        # 4. the dashu:: re-exports in a crate that depends on dashu under ANOTHER NAME (`$crate` hygiene of the wrappers)
        emb = [x for x in items if "e" in x[1].split()[1]]
        goodset = set(ln for ln, _, _, _ in good)
        emb_good = [x for x in emb if x[0] in goodset]
        emb_good = emb_good[::max(1, len(emb_good) // 120)][:120]     # spread over all macros
        emb_bad = [x for x in emb if x[3] is None and x[0] in errors]
        emb_bad = emb_bad[::max(1, len(emb_bad) // 25)][:25]
        ren = lambda l: l.replace("dashu::", "bignum::")
        lines4 = dict((ln, ren(all_lines[ln])) for ln, _, _, _ in emb_good + emb_bad)
        d4 = write_crate("renamed", assemble(RENAMED_IMPORTS, lines4), RENAMED_TOML)
        rc, errors4, other4, out4 = cargo_json(["cargo", "check", "--offline", "--message-format=json"], d4, env, 1500)
        ok4 = True
        for ln, t, a, val in emb_good:
            res["evaluations"] += 1
            if ln in errors4:
                ok4 = False
                res["failures"].append({"case": t, "impl": a, "phase": "renamed dependency", "what": "%s does not compile in a crate that depends on dashu as `bignum = { package = \"dashu\" }`: %s" % (ren(all_lines[ln]).strip(), errors4[ln][0])})
        for ln, t, a, val in emb_bad:
            res["evaluations"] += 1
            cls = message_class(errors4.get(ln, [])) if ln in errors4 else None
            if cls is None or cls.startswith("LATER"):
                ok4 = False
                res["failures"].append({"case": t, "impl": a, "phase": "renamed dependency", "what": "%s (outside the grammar) is not refused by the macro itself in the renamed crate: %s" % (ren(all_lines[ln]).strip(), cls)})
            else:
                bump("CRATE:RENAMED:MUST-FAIL:" + cls)
        if rc != 0 and not errors4:
            ok4 = False
            res["failures"].append({"phase": "renamed dependency", "what": "cargo check of the renamed crate failed without an attributed error", "log": out4[-1500:]})
        if ok4:
            d5 = write_crate("renamed", assemble(RENAMED_IMPORTS, dict((ln, ren(all_lines[ln])) for ln, _, _, _ in emb_good)), RENAMED_TOML)
            rc, errors5, other5, out5 = cargo_json(["cargo", "build", "--offline", "--message-format=json"], d5, env, 1500)
            if rc != 0:
                res["failures"].append({"phase": "renamed dependency", "what": "the renamed crate does not build", "log": (json.dumps(errors5) + " " + " ".join(other5))[:1500]})
            else:
                compare(run_program(os.path.join(tdir, "debug", "c20-renamed"), "renamed dependency"), emb_good, "renamed-value-agrees", "renamed dependency")
                crates.append({"crate": d5, "dependency": "bignum = { package = \"dashu\", path = .. }", "compiled_and_run": len(emb_good), "must_fail": len(emb_bad)})
    # evidence: the grid cells that were compiled (production -> bits:shape) and the message class of every refused invocation
    for name, cells in grid_cells.items():
        bump("GRID:" + name, len(cells))
    res["samples"].append({"crates": crates})
    res["samples"].append({"grid": "productions x boundary sizes of this seed (bits:generator shape)", "productions": len(grid_cells),
                           "cells": dict((k, " ".join(v)) for k, v in sorted(grid_cells.items()))})
    res["samples"].append({"must_fail_message_classes": messages})
    return res
