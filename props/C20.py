"""C20 - literal macros build exactly the number that was written."""
import hashlib
import json
import os
import re
import shutil

import core

ID = "C20"
READY = True
ORACLE = "c20"
HARNESS_BIN = "c20"
NCASES = {"quick": 12000, "thorough": 120000}
CASE_TIMEOUT = {"quick": 30, "thorough": 120}
SHRINK = False  # case arguments are hex-coded texts, not integers
# the 32-bit selector of the static word arrays is executed too (force_bits="32"); answers must be identical
CONFIGS = ["default", "w32"]


def canon_answer(a):
    return a


# round 3: the quote! templates and guards of the code generators (macros/src/parse/int.rs, float.rs, ratio.rs) are re-read
# into coq/gen/LitTemplates.v when this plug-in is imported, i.e. before the proof phase of every run (tools/check.py has no
# hook between plug-in load and the Coq build; tools/translate.py is shared).  Macro/LitTemplateProofs.v proves that the rows
# selected by the guards call the constructors the model's shapes stand for (pinned C20_templates_*).  Unparseable source is
# not an alarm: the committed copy stays (marked STALE), the status is reported in the evidence.
import sys
sys.path.insert(0, os.path.join(core.ROOT, "tools"))
try:
    import translate_c20_r3
    TEMPLATES_STATUS = translate_c20_r3.generate(core.REPO, os.path.join(core.COQ, "gen"))
except Exception as _ex:  # the generator itself broke: same fallback as an unparseable source
    TEMPLATES_STATUS = "unparsed generator-failed: %s" % str(_ex)[:200]
if os.path.realpath(core.REPO) != os.path.realpath("/repo") and "VERIF_COQ" not in os.environ:
    import atexit

    def _restore_templates():
        try:
            translate_c20_r3.generate("/repo", os.path.join(core.COQ, "gen"))
        except Exception:
            pass

    atexit.register(_restore_templates)


LEVEL_TEXT = ("Machine-checked Coq theorems (no size bound). (1) Whole macros relative to the GRAMMAR VALUE of the literal: ubig!/ibig! "
              "(token loop -> C07's as-is parser for any host word size -> generator -> emitted constructor for 16/32/64-bit targets) compile "
              "iff the tokens are a literal [+|-]? value [base N]? and then build sign * positional value of the written digits, which is "
              "what the run-time parser returns for the same text; fbig!/dbig! (text of the tokens -> FBig::from_str as C08 models it -> "
              "generator -> constructor) build the written significand, exponent and digit count for every literal of C08's grammar "
              "outside two listed precision classes, and compile nothing else; rbig! builds the components the run-time ratio parser "
              "(rational/src/parse.rs over C07's parsers, C04's reduce/reduce2) builds from the same text, equal in value to the written "
              "fraction, positive denominator, lowest terms. (2) Token reconstruction: a model of the lexer (proc_macro2 fallback = rustc's "
              "rules for identifiers, number literals with prefixes/fractions/exponents/suffixes, punctuation) - the tokens joined are the "
              "text without white space, nothing dropped or re-ordered; the float macros build the same float however the text is cut "
              "(`1e5` | `1.` `e5` | `0x1` `.` `8p` `-` `3`). (3) The three code generators (u32 const expression, from_le_bytes, static "
              "word arrays for 16/32/64-bit words with LEN and padding) build the parsed magnitude and satisfy from_static_words' "
              "assertions; (4) the quote! templates and guards, regenerated from the source on every run, select the constructors and "
              "arguments the model's shapes stand for. "
              "Tie to the code: the macro front ends of the working tree are compiled into the harness and run on generated literals "
              "(model fidelity of lexer model, end-to-end as-is models and run-time parser models reported per case); a generated crate "
              "of real macro invocations is compiled with rustc and run. PARTIAL: rustc's own lexer (only its proc_macro2 transcription "
              "is modelled; the crate phase observes rustc), const evaluation, hygiene and the compile errors themselves are observed.")
LEVEL_NOTE = ("Trusted: Coq kernel, extraction incl. FastZ.v, zarith, harness (its interpreter of the emitted token stream), "
              "proc_macro2's fallback lexer in the harness phase (now also modelled: Macro/LitLexModel.v, compared on every case), "
              "rustc/cargo in the crate phase. The run-time parsers are no longer black boxes: integers are C07's as-is model "
              "(proved equal to the grammar for any word size), floats C08's fbig_from_str_asis (proved iff the grammar), ratios "
              "C04's constructors plus a transcription of rational/src/parse.rs; C07/C08/C04 tie those models to the code in their "
              "own runs, C20 additionally compares them with the harness' run-time answers.")
TECHNIQUE = "Coq proof of end-to-end macro models over the cited parser models (C07/C08/C04), a lexer model and regenerated code-generator templates + extracted-model correspondence run on the compiled-in macro front ends + compiled crate of real macro invocations"
RULE = ("cases = macro {ubig,ibig,fbig,dbig,rbig} x {plain, static_} x {dashu_*, dashu:: (embedded) paths} x literal form "
        "{decimal, 0b/0o/0x prefix, `base N` for N in 2..36, underscores, sign tokens glued or spaced, binary/hex float with "
        "b/p/@ exponents, decimal float with e/E/@ exponents, fraction with optional denominator, ~ marker} x magnitude classes "
        "{0, 1, <2^32, 2^32-1, 2^32, 2^32+1, 63/64/65, 127/128/129, 191/192/193 bits, byte-length boundaries 8k-1/8k/8k+1, "
        "multi-word up to 1000 (thorough 4000) bits; all-ones, powers of two, zero low words, random} plus token sequences "
        "outside the grammar (repeated signs, missing/dangling `/`, stray tokens, groups, bad radix, invalid digits) and texts "
        "the lexer cuts in unexpected places (`1.e5`, `0x1.8p-3`, `1.5e+`, `12e`, exponent signs as punctuation, blanks between "
        "the pieces). A case is non-trivial when the token loop model and the generator model were both evaluated on it; "
        "asis=same when the lexer model reproduces the tokens, the end-to-end model the built value or refusal, and the run-time "
        "parser model the harness' run-time answer.")
EXPLANATION = ("Theorems (coq/props/C20.v, 45) are about Macro/LitModel.v (generators, constructors, token loops), Macro/LitRefModel.v "
               "(the macros end to end over Int/IoModel.v, Float/PartsConstModel.v, Ratio/RatArithModel.v), Macro/LitLexModel.v (lexer) "
               "and coq/gen/LitTemplates.v (regenerated templates). "
               "Every run pushes generated literals through the front ends of the working tree (compiled into the harness), "
               "interprets the emitted token stream by generator shape, builds the value with the real constructors and lets the "
               "oracle (the extracted Coq model) judge tokens -> reading -> value -> shape -> built value, including rejected "
               "literals, and compare the lexer model, the end-to-end as-is models and the run-time parser models with the "
               "implementation; then a crate of real invocations of all ten macros (and their dashu:: re-exports) is compiled against "
               "the working tree: invocations that must not compile are checked to fail with a macro panic, the others are run "
               "and compared with the front-end answers and with run-time parsing.")
TRUSTED_BASE = [
    "Coq 8.16.1 kernel; vm_compute only in the *_refuted witnesses, non-vacuity examples and the finite flag combinations of the template theorems",
    "extraction: ExtrOcamlBasic + ExtrOcamlZBigInt + coq/extract/FastZ.v; OCaml 4.13.1 + zarith, oracle/common.ml, oracle/driver_c20.ml",
    "harness/src/bin/c20.rs: includes macros/src/parse/*.rs of the working tree, interprets the emitted token stream by matching the generator shapes (asserting every structural detail it relies on) and calls the real constructors",
    "proc_macro2 (fallback mode) as lexer in the harness phase (transcribed in Macro/LitLexModel.v and compared per case); rustc 1.95 / cargo in the crate phase",
    "tools/translate_c20_r3.py: reads the quote! bodies, guards and let-bindings of the seven generator functions into coq/gen/LitTemplates.v; the reading of a row's calls as a model shape (int_calls / fbin_calls / fdec_calls / part_calls) is hand-written",
    "the parser models of C07 (Int/IoModel.v), C08 (Float/TextIoModel.v, PartsConstModel.v) and C04 (Ratio/RatArithModel.v) are tied to the code by those properties' own runs",
]
ASSUMPTIONS = [
    "the harness is built with 64-bit and with 32-bit words (force_bits) and both builds must answer identically; the 16-bit selector of the static arrays is checked from the emitted arrays against the model (and proved for all three sizes), not executed: dashu-int does not compile with force_bits=\"16\"",
    "rustc's const evaluation of the emitted expressions agrees with run-time evaluation (observed in the crate phase for every literal of the crate)",
    "rustc's lexer cuts the literal texts as its proc_macro2 transcription does (observed in the crate phase; where rustc refuses a text the fallback lexer accepts, e.g. `12e`, the invocation is a compile error)",
]

DIG = "0123456789abcdefghijklmnopqrstuvwxyz"


def to_base(n, b):
    if n == 0:
        return "0"
    s = ""
    while n:
        s = DIG[n % b] + s
        n //= b
    return s


def hexs(t):
    return t.encode().hex()


def piece(text, glued=False):
    return ("l" if glued else "L") + hexs(text)


def gen_bits(rng, tier):
    big = 4000 if tier == "thorough" else 1000
    k = rng.below(10)
    if k < 4:
        return rng.choice([0, 1, 5, 8, 9, 16, 31, 32, 33, 34, 63, 64, 65, 127, 128, 129, 191, 192, 193, 255, 256, 257])
    if k < 7:
        return 8 * rng.range(1, 40) + rng.choice([-1, 0, 1])
    if k < 9:
        return rng.range(0, 300)
    return rng.range(300, big)


def gen_mag(rng, tier):
    b = gen_bits(rng, tier)
    if b <= 0:
        return 0
    k = rng.below(8)
    top = 1 << (b - 1)
    if k == 0:
        return (1 << b) - 1
    if k == 1:
        return top
    if k == 2:
        return top + 1
    if k == 3 and b > 16:
        z = rng.range(1, b - 1)
        return ((rng.bits(b - z) | (1 << (b - z - 1))) << z)
    if k == 4 and b > 64:
        # zero words in the middle
        return top | rng.bits(16)
    return top | rng.bits(b - 1)


def underscores(rng, s, start=1):
    if len(s) < 2 or not rng.chance(1, 3):
        return s
    out = s[:start]
    for c in s[start:]:
        if rng.chance(1, 6):
            out += "_" * rng.range(1, 2)
        out += c
    if rng.chance(1, 8):
        out += "_"
    return out


def risky_as_literal(t):
    """a digit text that rustc would not lex as one plain literal token"""
    if not t or not t[0].isdigit():
        return False
    if re.match(r"^0[box]", t):
        return True
    m = re.match(r"^[0-9_]+", t)
    rest = t[m.end():]
    return rest[:1] in ("e", "E")


def digits_text(rng, n, form):
    """text of the magnitude n in the given form; returns (text, radix for the run-time parser or 0, base suffix tokens)"""
    if form == "dec":
        t = underscores(rng, to_base(n, 10))
        if rng.chance(1, 12):
            t = "0" * rng.range(1, 3) + t
        return t, 0, []
    if form in ("0x", "0o", "0b"):
        b = {"0x": 16, "0o": 8, "0b": 2}[form]
        d = to_base(n, b)
        if form == "0x" and rng.chance(1, 3):
            d = d.upper()
        if rng.chance(1, 10):
            d = "0" * rng.range(1, 3) + d
        return form + underscores(rng, d, 0 if rng.chance(1, 6) else 1), 0, []
    b = form
    if b >= 12 and rng.chance(1, 5):
        # digits of radix b that merely LOOK like a radix prefix: `0b101 base 16` is 0xb101, not 5 (seeded change C20_D:
        # from_str_with_radix_default instead of from_str_radix would re-read them in radix 2/8/16).  The digits after the
        # letter are valid for that pseudo prefix, so rustc and proc_macro2 lex the text as one literal token
        letters = [("b", "01")] + ([("o", "01234567")] if b >= 25 else []) + ([("x", "0123456789abcdef")] if b >= 34 else [])
        letter, alphabet = rng.choice(letters)
        body = "".join(rng.choice(alphabet) for _ in range(rng.range(1, rng.choice([3, 8, 20, 70]))))
        if rng.chance(1, 4):
            body = underscores(rng, body)
        return "0" + letter + body, b, [piece("base"), piece(str(b))]
    d = to_base(n, b)
    if rng.chance(1, 4):
        d = d.upper()
    d = underscores(rng, d)
    if risky_as_literal(d) or rng.chance(1, 8):
        d = "_" + d
    return d, b, [piece("base"), piece(str(b))]


def gen_form(rng):
    k = rng.below(10)
    if k < 3:
        return "dec"
    if k < 5:
        return "0x"
    if k < 6:
        return rng.choice(["0o", "0b"])
    return rng.choice([2, 3, 7, 8, 10, 16, 32, 36, rng.range(2, 36)])


def flags_str(*parts):
    s = "".join(p for p in parts if p)
    return s or "-"


def case(op, flags, radix, rttext, pieces):
    return "%s %s %x %s %s" % (op, flags, radix, ("x" + hexs(rttext)) if rttext is not None else "-", " ".join(pieces))


def sign_pieces(rng, signed, neg):
    if neg:
        return [piece("-")], "-"
    if signed and rng.chance(1, 6):
        return [piece("+")], ""
    return [], ""


def gen_int_case(rng, tier):
    signed = rng.chance(1, 2)
    static = rng.chance(2, 5)
    emb = rng.chance(1, 4)
    n = gen_mag(rng, tier)
    form = gen_form(rng)
    text, radix, suffix = digits_text(rng, n, form)
    neg = signed and rng.chance(1, 2)
    sp, stext = sign_pieces(rng, signed, neg)
    glued = rng.chance(1, 2)
    pieces = sp + [piece(text, glued and bool(sp))] + suffix
    return case("int", flags_str("i" if signed else "u", "s" if static else "", "e" if emb else ""), radix, stext + text, pieces)


BAD_INT = [
    # (signed?, pieces as texts, glue flags) - token sequences outside the grammar
    ["-", "-", "5"], ["-", "+", "5"], ["+", "-", "7"], ["+", "+", "7"], ["-", "-", "-", "9"],
    ["5", "base", "base", "10"], ["a", "base", "base", "16"], ["5", "base"], ["5", "base", "1"], ["5", "base", "0"],
    ["5", "base", "37"], ["5", "base", "4294967296"], ["5", "base", "10u8"], ["5", "base", "1_0"], ["5", "base", "0x10"],
    ["5", "6"], ["5", "base", "10", "7"], ["5", "base", "10", "base"], ["(5)"], ["[5]"], ["5", ","], ["5", ";"], ["1.5"],
    ["12a"], ["0xg"], ["_0b12"], ["0b2"[:2] + "_"], ["_"], ["__"], ["-"], ["+"], [""], ["5", "-"], ["5", "+", "6"], ["- 5", "base", "2"],
    ["base", "10"], ["base", "base", "36"], ["1e5"], ["1e5", "base", "16"], ["5u8"], ["0x1f32"], ["5", "Base", "10"], ["'5'"],
    ["\"5\""], ["5", "base", "+10"], ["~", "5"], ["5", "/", "1"], ["!", "5"], ["-", "0"], ["+", "0"], ["0"], ["00"], ["0_"],
    ["5", "base", "10", "10"], ["5_", "base", "8"], ["z", "base", "36"], ["Z", "base", "36"], ["z", "base", "35"],
]


def gen_bad_int(rng):
    toks = rng.choice(BAD_INT)
    signed = rng.chance(2, 3)
    static = rng.chance(1, 3)
    pieces = [piece(t, rng.chance(1, 4) and i > 0) for i, t in enumerate(toks) if t != ""]
    # run-time text: sign + value, radix from a trailing `base N`
    radix = 0
    body = list(toks)
    if len(body) >= 3 and body[-2] == "base" and body[-1].isdigit() and int(body[-1]) < 256:
        radix = int(body[-1])
        body = body[:-2]
    return case("int", flags_str("i" if signed else "u", "s" if static else ""), radix, "".join(body).replace(" ", ""), pieces)


def gen_rat_case(rng, tier):
    static = rng.chance(2, 5)
    emb = rng.chance(1, 4)
    relaxed = rng.chance(2, 5)
    k = rng.below(8)
    if k == 0:
        n, d = rng.bits(rng.range(0, 32)), rng.bits(rng.range(1, 32)) | 1
    elif k == 1:
        n, d = gen_mag(rng, tier), rng.bits(rng.range(1, 32)) | 1
    elif k == 2:
        n, d = rng.bits(rng.range(0, 32)), gen_mag(rng, tier) or 1
    elif k == 3:
        # common factor: reduced components fall on the other side of 32 bits
        g = rng.choice([2, 3, 1 << rng.range(1, 40), rng.bits(20) | 1, 6])
        n, d = g * (rng.bits(rng.range(1, 34)) | 1), g * (rng.bits(rng.range(1, 34)) | 1)
    elif k == 4:
        n, d = gen_mag(rng, tier), None
    else:
        n, d = gen_mag(rng, tier), gen_mag(rng, tier) or 1
    if d == 0:
        d = 1
    form = gen_form(rng)
    nneg = rng.chance(1, 2)
    dneg = d is not None and rng.chance(1, 6)
    ntext, radix, suffix = digits_text(rng, n, form)
    pieces = []
    rt = ""
    if relaxed and rng.chance(1, 2):
        pieces.append(piece("~"))
    sp, stext = sign_pieces(rng, True, nneg)
    pieces += sp
    if relaxed and len(pieces) == len(sp):
        pieces.append(piece("~", rng.chance(1, 2)))
    pieces.append(piece(ntext, rng.chance(1, 2) and bool(pieces)))
    rt += stext + ntext
    if d is not None:
        dform = form
        if form in ("0x", "0o", "0b") and rng.chance(1, 2):
            dform = {"0x": 16, "0o": 8, "0b": 2}[form]  # prefix omitted on the denominator
            dtext = to_base(d, dform)
            if risky_as_literal(dtext):
                dtext = "_" + dtext
        else:
            dtext = digits_text(rng, d, dform)[0]
        pieces.append(piece("/", rng.chance(1, 2)))
        dsp, dstext = sign_pieces(rng, True, dneg)
        pieces += dsp
        pieces.append(piece(dtext, rng.chance(1, 2)))
        rt += "/" + dstext + dtext
    elif suffix:
        # `num base N` is read as a denominator called "base": give it a denominator
        pieces += [piece("/"), piece("1")]
        rt += "/1"
    pieces += suffix
    return case("rat", flags_str("s" if static else "", "e" if emb else "", "x" if relaxed else ""), radix, rt, pieces)


BAD_RAT = [
    ["1", "2"], ["1", "/"], ["/", "2"], ["1", "/", "/", "2"], ["1", "-", "2"], ["-", "-", "1", "/", "2"], ["1", "/", "-", "-", "2"],
    ["~", "~", "1", "/", "2"], ["1", "~", "/", "2"], ["1", "/", "~", "2"], ["1", "/", "0"], ["0", "/", "0"], ["~", "1", "/", "0"],
    ["1", "/", "2", "/", "3"], ["1", "/", "2", "3"], ["1", "/", "2", "base"], ["1", "/", "2", "base", "10", "4"], ["5", "base", "7"],
    ["0x10", "/", "0b11"], ["0x10", "/", "0x"], ["1.5", "/", "2"], ["(1)", "/", "2"], ["1", "/", "(2)"], ["~"], ["-"], ["/"], ["1", "-", "/", "2"],
    ["-", "~", "1", "/", "2"], ["~", "-", "1", "/", "2"], ["+", "1", "/", "+", "2"], ["1", "/", "2", "base", "base", "10"],
    ["1", "2", "/"], ["/", "1", "2"], ["1", "/", "2", "base", "1"], ["1", "/", "2", "base", "37"], ["a", "/", "b", "base", "16"],
    ["a", "/", "b"], ["0", "/", "5"], ["-", "0", "/", "5"], ["6", "/", "4"], ["~", "6", "/", "4"], ["~", "6", "/", "3"],
    ["4294967296", "/", "2"], ["~", "4294967296", "/", "2"], ["8589934592", "/", "4294967296"],
]


def gen_bad_rat(rng):
    toks = rng.choice(BAD_RAT)
    static = rng.chance(1, 3)
    relaxed = "~" in toks
    pieces = [piece(t, rng.chance(1, 4) and i > 0 and not (t == "/" and toks[i - 1] == "/")) for i, t in enumerate(toks)]
    body = [t for t in toks if t != "~"]
    radix = 0
    if len(body) >= 3 and body[-2] == "base" and body[-1].isdigit() and int(body[-1]) < 256:
        radix = int(body[-1])
        body = body[:-2]
    return case("rat", flags_str("s" if static else "", "x" if relaxed else ""), radix, "".join(body), pieces)


def split_point(rng, d):
    """split a digit string into integral and fractional digits"""
    k = rng.range(0, len(d))
    return d[:k], d[k:]


def gen_fbin_case(rng, tier):
    static = rng.chance(2, 5)
    emb = rng.chance(1, 4)
    n = gen_mag(rng, tier)
    neg = rng.chance(1, 2)
    hexf = rng.chance(3, 5)
    d = to_base(n, 16 if hexf else 2)
    if rng.chance(1, 5):
        d = d + "0" * rng.range(1, 12)   # trailing zero digits: normalisation moves them into the exponent
    if rng.chance(1, 8):
        d = "0" * rng.range(1, 3) + d
    form = rng.below(4)
    body = d
    if form >= 1:
        a, b = split_point(rng, d)
        a, b = underscores(rng, a), underscores(rng, b, 0)
        body = a + "." + b
        if a == "" and b == "":
            body = d
    else:
        body = underscores(rng, d)
    exp = ""
    if form >= 2 or rng.chance(1, 3):
        e = rng.choice([0, 1, -1, 7, -200, 1234, -33, rng.range(-100000, 100000)])
        mark = rng.choice(["p", "P", "@"]) if hexf else rng.choice(["b", "B", "@"])
        exp = mark + (rng.choice(["", "+"]) if e >= 0 else "") + str(e)
    pre = "0x" if hexf else ""
    text = pre + body + exp
    us = ""
    # the `_` prefix of the documentation where rustc would not lex the text as wished
    if hexf and (re.match(r"^0x[0-9a-fA-F_]*\.[0-9]", text) or text.startswith("0x.") or rng.chance(1, 10)):
        us = "_"
    sp = [piece("-")] if neg else ([piece("+")] if rng.chance(1, 8) else [])
    # pieces: the text is cut where spaces may appear without changing the reassembled text
    cuts = [text]
    if rng.chance(1, 4) and exp:
        m = re.search(r"[pPbB@]", text[2:] if hexf else text)
        if m and not hexf:
            pass
    pieces = sp + [piece(us + text, bool(sp) and rng.chance(1, 2))]
    return case("fbin", flags_str("s" if static else "", "e" if emb else ""), 0, ("-" if neg else "") + text, pieces)


def gen_fdec_case(rng, tier):
    static = rng.chance(2, 5)
    emb = rng.chance(1, 4)
    n = gen_mag(rng, tier)
    neg = rng.chance(1, 2)
    d = to_base(n, 10)
    if rng.chance(1, 5):
        d = d + "0" * rng.range(1, 12)
    if rng.chance(1, 8):
        d = "0" * rng.range(1, 3) + d
    form = rng.below(4)
    if form >= 1:
        a, b = split_point(rng, d)
        a, b = underscores(rng, a), underscores(rng, b, 0)
        body = a + "." + b if (a or b) else d
    else:
        body = underscores(rng, d)
    exp = ""
    if form >= 2 or rng.chance(1, 3):
        e = rng.choice([0, 1, -1, 7, -100, 1234, -60, rng.range(-100000, 100000)])
        exp = rng.choice(["e", "E", "@"]) + (rng.choice(["", "+"]) if e >= 0 else "") + str(e)
    text = body + exp
    sign = "-" if neg else ("+" if rng.chance(1, 8) else "")
    sp = [piece(sign)] if sign else []
    pieces = sp + [piece(text, bool(sp) and rng.chance(1, 2))]
    return case("fdec", flags_str("s" if static else "", "e" if emb else ""), 0, sign + text, pieces)


BAD_FLOAT = ["1.5e", "1..5", ".", "1.5.2", "--1", "-+1", "+-1", "1e5", "0x", "_", "__1", "1_", "1._5", "1.5e1_0", "1.5e+", "(1.5)", "1,5",
             "1.5 2", "0x1.8", "_0x1.8p3", "0x1p", "1b", "1 b 3", "1.5 e 3", "1 . 5", "12 .5", "0", "0.00", "-0", "-0.0", "000", "0e5", "0.0e-7",
             "1e99999999999999999999", "0x0p5", "0x.0", "5e-3", "1@5", "1.0@-5", "1p3", "0x1b3", "0b101", "0o17", "1e0x5", "~1", "1/2", "nan", "inf",
             # round 3: texts the lexer cuts in unexpected places (literal + suffix, `.` + ident, exponent sign as punct) and white space between the tokens
             "1.e5", "1 .5e3", "1. 5", "0x1.8p-3", "0x1 .8 p -3", "_0x1.8p-3", "1e 5", "1e+ 5", "1_000.5", "1__0", "5 e-3", "1.5e+3", "1.5e+", "1.5e", "12e", "1.5.e3",
             "0x1p+3", "0x1.p3", "0b2", "0o8", "1e5e5", "1.5 @ -3", "- 1.5", "+ 1.5", "-_1.5", "- _0x1p3", "1..5e3", "1.5ee3", "0x1e5", "0xep3", "9e", "00.50"]


def gen_bad_float(rng):
    t = rng.choice(BAD_FLOAT)
    op = rng.choice(["fbin", "fdec"])
    static = rng.chance(1, 3)
    toks = t.split(" ")
    pieces = [piece(x) for x in toks]
    joined = "".join(toks)
    if op == "fbin":
        # the macro strips one sign and one underscore itself
        s = joined
        sign = ""
        if s[:1] in "+-" and s[:1]:
            sign = "-" if s[0] == "-" else ""
            s = s[1:]
        if s[:1] == "_":
            s = s[1:]
        joined = sign + s
    return case(op, flags_str("s" if static else ""), 0, joined, pieces)


def gen_one(rng, tier):
    k = rng.below(100)
    if k < 30:
        return gen_int_case(rng, tier)
    if k < 36:
        return gen_bad_int(rng)
    if k < 54:
        return gen_rat_case(rng, tier)
    if k < 60:
        return gen_bad_rat(rng)
    if k < 76:
        return gen_fbin_case(rng, tier)
    if k < 94:
        return gen_fdec_case(rng, tier)
    return gen_bad_float(rng)


# digit texts that start like a radix prefix, with a `base N` suffix: values of radix N where `b`/`o`/`x` is a digit of N,
# compile errors where it is not (or where the pseudo prefix would be the only way to read them)
PREFIX_BASE = [("0b101", 16), ("0o17", 32), ("0x1f", 36), ("0b11", 12), ("0B11", 16), ("0o7", 25), ("0x0", 34), ("0b1_0", 36),
               ("0b100000000000000000000000000000001", 16), ("0x123456789abcdef0123456789", 36),
               ("0x10", 10), ("0b11", 2), ("0o17", 8), ("0b101", 11), ("0o17", 24), ("0x1f", 33), ("0x1f", 16), ("0b", 16), ("0x", 36)]


def gen_prefix_base(rng):
    """every entry of PREFIX_BASE in all of ubig!/ibig!/static_ubig!/static_ibig! (and two dashu:: paths), then as rbig! parts"""
    out = []
    for text, b in PREFIX_BASE:
        for flags in ("u", "us", "i", "is", "ue", "ise"):
            neg = "i" in flags and rng.chance(1, 2)
            sp = [piece("-")] if neg else []
            out.append(case("int", flags, b, ("-" if neg else "") + text, sp + [piece(text, bool(sp) and rng.chance(1, 2)), piece("base"), piece(str(b))]))
    for text, b in PREFIX_BASE[:8] + PREFIX_BASE[10:14]:
        for flags in ("-", "s", "x", "sx"):
            tilde = [piece("~")] if "x" in flags else []
            out.append(case("rat", flags, b, text + "/3", tilde + [piece(text), piece("/"), piece("3"), piece("base"), piece(str(b))]))
            out.append(case("rat", flags, b, "5/" + text, tilde + [piece("5"), piece("/"), piece(text), piece("base"), piece(str(b))]))
    return out


def gen_cases(rng, tier, n):
    out = gen_prefix_base(rng)
    # every hand-written bad token sequence once, in a fixed order, then the random mixture
    for i in range(len(BAD_INT)):
        out.append(gen_bad_int(FixedChoice(rng, i)))
    for i in range(len(BAD_RAT)):
        out.append(gen_bad_rat(FixedChoice(rng, i)))
    for i in range(len(BAD_FLOAT)):
        out.append(gen_bad_float(FixedChoice(rng, i)))
    while len(out) < n:
        out.append(gen_one(rng, tier))
    return out[:max(n, 1)]


class FixedChoice:
    """an rng whose first `choice` returns a fixed element (sweeps the hand-written lists)"""

    def __init__(self, rng, i):
        self.rng, self.i, self.used = rng, i, False

    def choice(self, xs):
        if not self.used:
            self.used = True
            return xs[self.i % len(xs)]
        return self.rng.choice(xs)

    def __getattr__(self, name):
        return getattr(self.rng, name)


# ------------------------------------------------------------------------------------------------
# crate phase: real macro invocations compiled by rustc against the working tree
# ------------------------------------------------------------------------------------------------
NCRATE = {"quick": 500, "thorough": 2000}

MAIN_HEAD = r'''#![allow(warnings)]
// generated by /verif/props/C20.py - one macro invocation per line, the line number identifies it
use dashu_float::{round::mode, DBig, FBig};
use dashu_int::{IBig, Sign, UBig, Word};
use dashu_ratio::{RBig, Relaxed};
type FBin = FBig<mode::Zero, 2>;
fn wh(neg: bool, w: &[Word]) -> String {
    let mut n = w.len();
    while n > 0 && w[n - 1] == 0 { n -= 1; }
    if n == 0 { return "0".to_string(); }
    let mut s = String::new();
    if neg { s.push('-'); }
    s.push_str(&format!("{:x}", w[n - 1]));
    for i in (0..n - 1).rev() { s.push_str(&format!("{:0width$x}", w[i], width = (Word::BITS / 4) as usize)); }
    s
}
fn hi(x: &IBig) -> String { let (s, w) = x.as_sign_words(); wh(s == Sign::Negative, w) }
fn hz(v: isize) -> String { if v < 0 { format!("-{:x}", (v as i128).unsigned_abs()) } else { format!("{:x}", v) } }
trait Show { fn show(&self) -> String; }
impl Show for UBig { fn show(&self) -> String { wh(false, self.as_words()) } }
impl Show for IBig { fn show(&self) -> String { hi(self) } }
impl Show for FBin { fn show(&self) -> String { format!("{} {} {:x}", hi(self.repr().significand()), hz(self.repr().exponent()), self.precision()) } }
impl Show for DBig { fn show(&self) -> String { format!("{} {} {:x}", hi(self.repr().significand()), hz(self.repr().exponent()), self.precision()) } }
impl Show for RBig { fn show(&self) -> String { format!("{} {}", hi(self.numerator()), wh(false, self.denominator().as_words())) } }
impl Show for Relaxed { fn show(&self) -> String { format!("{} {}", hi(self.numerator()), wh(false, self.denominator().as_words())) } }
impl<T: Show> Show for &T { fn show(&self) -> String { (**self).show() } }
fn p(id: u32, s: String) { println!("{} {}", id, s); }
fn main() {
'''

CRATE_TOML = '''[package]
name = "c20-literals"
version = "0.0.0"
edition = "2021"
publish = false

[workspace]

[dependencies]
dashu-base = { path = "@REPO@/base" }
dashu-int = { path = "@REPO@/integer" }
dashu-float = { path = "@REPO@/float" }
dashu-ratio = { path = "@REPO@/rational" }
dashu-macros = { path = "@REPO@/macros" }
dashu = { path = "@REPO@" }

[profile.dev]
opt-level = 0
debug = false
incremental = true
'''


def source_of(case_text):
    """the macro input of a case, as the harness assembles it from the pieces"""
    toks = case_text.split()[4:]
    src = ""
    for t in toks:
        text = bytes.fromhex(t[1:]).decode()
        if t[0].isupper() and src:
            src += " "
        src += text
    return src


def macro_of(case_text):
    op, flags = case_text.split()[:2]
    name = {"int": "ibig" if "i" in flags else "ubig", "fbin": "fbig", "fdec": "dbig", "rat": "rbig"}[op]
    if "s" in flags:
        name = "static_" + name
    return ("dashu::" if "e" in flags else "dashu_macros::") + name


def type_of(case_text, answer):
    op, flags = case_text.split()[:2]
    if op == "int":
        return "IBig" if "i" in flags else "UBig"
    if op == "fbin":
        return "FBin"
    if op == "fdec":
        return "DBig"
    return "Relaxed" if (" Re " in answer) else "RBig"


def answer_val(answer):
    """value tokens of a harness answer (between `val` and `rt`)"""
    t = answer.split()
    if "ok" not in t or "val" not in t:
        return None
    i = len(t) - 1 - t[::-1].index("val")
    j = len(t) - 1 - t[::-1].index("rt")
    return " ".join(t[i + 1:j])


def outer_line(span):
    """line in src/main.rs of the outermost macro call site of a rustc span"""
    while span.get("expansion"):
        span = span["expansion"]["span"]
    if span.get("file_name", "").endswith("main.rs"):
        return span.get("line_start")
    return None


def cargo_json(cmd, cwd, env, timeout):
    rc, out = core.run(cmd, cwd=cwd, env=env, timeout=timeout)
    errors = {}
    other = []
    for line in out.splitlines():
        if not line.startswith("{"):
            continue
        try:
            m = json.loads(line)
        except ValueError:
            continue
        if m.get("reason") != "compiler-message":
            continue
        msg = m["message"]
        if msg.get("level") != "error":
            continue
        text = msg.get("message", "")
        for c in msg.get("children", []):
            text += " | " + c.get("message", "")
        lines = set()
        for sp in msg.get("spans", []):
            if sp.get("is_primary"):
                ln = outer_line(sp)
                if ln:
                    lines.add(ln)
        if not lines and "aborting due to" not in text and "could not compile" not in text:
            other.append(text[:300])
        for ln in lines:
            errors.setdefault(ln, []).append(text[:300])
    return rc, errors, other, out


def extra_phase(tier, seed, exes, oracle):
    res = {"evaluations": 0, "hist": {}, "nontrivial": [], "samples": [], "failures": []}
    hist = res["hist"]

    def bump(k, n=1):
        hist[k] = hist.get(k, 0) + n

    word = TEMPLATES_STATUS.split(" ", 1)[0]
    bump("translator_c20_r3:LitTemplates:" + word)
    res["samples"].append({"fragment": "coq/gen/LitTemplates.v (tools/translate_c20_r3.py from macros/src/parse/{int,float,ratio}.rs)",
                           "status": TEMPLATES_STATUS,
                           "tied_by": "C20_templates_int, C20_templates_bytes, C20_templates_float, C20_templates_ratio, C20_templates_thresholds"
                           if word == "ok" else "correspondence run only (source not parsed; committed copy marked STALE)"})
    exe = exes.get("default")
    if exe is None or oracle is None:
        return res
    rng = core.Rng(seed).fork("c20-crate")
    n = NCRATE[tier]
    texts = []
    seen = set()
    pool = [l.strip() for l in open(os.path.join(core.ROOT, "corpus", "C20.txt")) if l.strip() and not l.startswith("#")]
    for t in pool[:17] + gen_cases(rng, tier, n):
        key = (macro_of(t), source_of(t))
        if key not in seen and "\n" not in key[1]:
            seen.add(key)
            texts.append(t)
    cases = list(enumerate(texts))
    answers = core.run_sharded(exe, cases, case_timeout=30)
    verdicts = core.run_sharded(oracle, [(i, "%s => %s" % (t, answers.get(i, "noanswer"))) for i, t in cases], case_timeout=60)
    items = []  # (line number, case, answer, expected value or None)
    body = []
    first_line = MAIN_HEAD.count("\n") + 1
    for i, t in cases:
        a = answers.get(i, "noanswer")
        v = verdicts.get(i, "noverdict").split()[0]
        if v == "fail" or v == "noverdict":
            res["failures"].append({"case": t, "impl": a, "oracle": verdicts.get(i), "phase": "crate literals through the front end", "replay": "./check C20 --replay <this file>"})
            continue
        if a.startswith("lexerr") or not a.startswith("toks"):
            bump("crate:skipped-lexerr")
            continue
        ln = first_line + len(body)
        mac, src = macro_of(t), source_of(t)
        val = answer_val(a)
        ty = type_of(t, a)
        shape_const = val is not None and (" ok c32 " in a or " ok fc32 0 " in a or " ok rc32 " in a)
        k = ln % 3
        if val is not None and "static_" in mac and k == 0:
            body.append("    { static S: &%s = %s!(%s); p(%d, S.show()); }" % (ty, mac, src, ln))
            bump("crate:form:static-item")
        elif shape_const and k != 1:
            body.append("    { const C: %s = %s!(%s); p(%d, C.show()); }" % (ty, mac, src, ln))
            bump("crate:form:const-item")
        else:
            body.append("    p(%d, (%s!(%s)).show());" % (ln, mac, src))
            bump("crate:form:expression")
        items.append((ln, t, a, val))
    main_all = MAIN_HEAD + "\n".join(body) + "\n}\n"
    key = core.sha(core.REPO)
    base = os.path.join(core.CACHE, "c20_crates", key)
    tdir = os.path.join(core.CACHE, "target", "c20crate-" + key)
    env = {"CARGO_NET_OFFLINE": "true", "CARGO_TARGET_DIR": tdir, "RUSTFLAGS": "-Awarnings"}

    def write_crate(name, main_src):
        d = os.path.join(base, name)
        os.makedirs(os.path.join(d, "src"), exist_ok=True)
        os.makedirs(os.path.join(d, ".cargo"), exist_ok=True)
        for path, txt in ((os.path.join(d, "Cargo.toml"), CRATE_TOML.replace("@REPO@", core.REPO).replace("c20-literals", "c20-" + name)),
                          (os.path.join(d, ".cargo", "config.toml"), "[net]\noffline = true\n"),
                          (os.path.join(d, "src", "main.rs"), main_src)):
            if not os.path.exists(path) or open(path).read() != txt:
                open(path, "w").write(txt)
        lock = os.path.join(core.ROOT, "harness", "Cargo.lock.in")
        if os.path.exists(lock) and not os.path.exists(os.path.join(d, "Cargo.lock")):
            shutil.copy(lock, os.path.join(d, "Cargo.lock"))
        return d

    with core.Lock("c20crate-" + key):
        # 1. everything at once: which invocations does rustc refuse, and why
        d1 = write_crate("check", main_all)
        rc, errors, other, out = cargo_json(["cargo", "check", "--offline", "--message-format=json"], d1, env, 1500)
        if rc != 0 and not errors:
            res["failures"].append({"phase": "crate check", "what": "cargo check failed without an error attributed to an invocation", "log": out[-1500:]})
            return res
        good = []
        for ln, t, a, val in items:
            errs = errors.get(ln, [])
            panicked = any("proc macro panicked" in e for e in errs)
            res["evaluations"] += 1
            if val is None:
                # the front end rejected the literal: the real macro must panic = compile error
                if panicked:
                    bump("crate:must-fail:macro-panic")
                    res["nontrivial"].append("crate " + macro_of(t) + " " + source_of(t))
                elif errs:
                    bump("crate:must-fail:other-compile-error")   # rustc's lexer / parser refused it first
                else:
                    res["failures"].append({"case": t, "impl": a, "phase": "crate check", "what": "%s!(%s) compiles although the macro front end rejects the literal" % (macro_of(t), source_of(t))})
            else:
                if not errs:
                    good.append((ln, t, a, val))
                elif panicked:
                    res["failures"].append({"case": t, "impl": a, "phase": "crate check", "what": "%s!(%s) is rejected by the compiled macro although the front end accepts it: %s" % (macro_of(t), source_of(t), errs[0])})
                elif any(("literal" in e or "digit" in e or "suffix" in e or "exponent" in e or "prefix" in e) for e in errs) and not any("evaluation" in e or "mismatched" in e for e in errs):
                    bump("crate:rustc-lexer-refuses")     # proc_macro2's fallback lexer is more liberal than rustc here
                else:
                    res["failures"].append({"case": t, "impl": a, "phase": "crate check", "what": "the expansion of %s!(%s) does not compile: %s" % (macro_of(t), source_of(t), errs[0])})
        # 2. the invocations that compile: build, run, compare with the front-end value (which the
        #    oracle has judged against the specification and the run-time parser)
        keep = set(ln for ln, _, _, _ in good)
        lines = main_all.split("\n")
        main_run = "\n".join(l if (idx + 1 < first_line or idx + 1 >= first_line + len(body) or (idx + 1) in keep) else "" for idx, l in enumerate(lines))
        d2 = write_crate("run", main_run)
        rc, errors2, other2, out2 = cargo_json(["cargo", "build", "--offline", "--message-format=json"], d2, env, 1500)
        if rc != 0:
            res["failures"].append({"phase": "crate build", "what": "the crate of accepted literals does not build", "log": (json.dumps(errors2) + " " + " ".join(other2))[:1500]})
            return res
        rc, out3 = core.run([os.path.join(tdir, "debug", "c20-run")], timeout=300)
        got = {}
        for l in out3.splitlines():
            sp = l.split(" ", 1)
            if sp[0].isdigit():
                got[int(sp[0])] = sp[1].strip() if len(sp) > 1 else ""
        if rc != 0:
            res["failures"].append({"phase": "crate run", "what": "the program of accepted literals exited with %d" % rc, "log": out3[-800:]})
        for ln, t, a, val in good:
            res["evaluations"] += 1
            g = got.get(ln)
            if g == val:
                bump("crate:value-agrees:" + t.split()[0])
                res["nontrivial"].append("crate " + macro_of(t) + " " + source_of(t))
            else:
                res["failures"].append({"case": t, "impl": a, "phase": "crate run", "what": "%s!(%s) built `%s`, the front end (and the specification) say `%s`" % (macro_of(t), source_of(t), g, val)})
        res["samples"].append({"crate": d2, "invocations": len(items), "compiled_and_run": len(good), "must_fail": len(items) - len(good)})
    return res
