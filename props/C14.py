"""C14 - cross-type numeric comparison and hashing agree with exact values."""
import os
import struct
import sys
from fractions import Fraction
import core
from core import hx, gen_int, gen_mag

# Regenerated fragment (round 3): the constants and table-like parts of the f32 estimators (nbits <= 24, ADJUST, the bound
# selection and the outward steps of Repr::log2_bounds, the arms of digits_ub, the hash modulus) are re-read from the
# sources into coq/gen/XLog2Params.v when this plug-in is imported, i.e. before the proof phase of every run.  Theorem
# C14_log2_params_tie proves the estimators rebuilt over the generated values equal to the hand-written model.  Unparseable
# source is not an alarm: the last good copy stays (marked STALE) and the status is reported in the evidence.
sys.path.insert(0, os.path.join(core.ROOT, "tools"))
try:
    import translate_c14_r3
    LOG2_PARAMS_STATUS = translate_c14_r3.generate(core.REPO, os.path.join(core.COQ, "gen"))
except Exception as _ex:
    LOG2_PARAMS_STATUS = "unparsed generator-failed: %s" % str(_ex)[:200]
# round 4: the impl tables (which NumOrd / NumHash / AbsOrd impls exist and what the one-call bodies forward to) -> coq/gen/XImplTable.v,
# tied by C14_impl_table_* / C14_impl_*_routes; the oracle looks the pair of every case up in the regenerated table.
try:
    import translate_c14_r4
    IMPL_TABLE_STATUS = translate_c14_r4.generate(core.REPO, os.path.join(core.COQ, "gen"))
except Exception as _ex:
    IMPL_TABLE_STATUS = "unparsed generator-failed: %s" % str(_ex)[:200]

if os.path.realpath(core.REPO) != os.path.realpath("/repo"):
    import atexit

    def _restore_params():
        for tr in ("translate_c14_r3", "translate_c14_r4"):
            try:
                sys.modules[tr].generate("/repo", os.path.join(core.COQ, "gen"))
            except Exception:
                pass

    atexit.register(_restore_params)


def _judge_extra(res, tag, exe, oracle, cases, timeout, mark=None):
    """run cases on one harness build, judge them with the oracle, book the verdicts into res"""
    answers = core.run_sharded(exe, cases, case_timeout=timeout)
    verdicts = core.run_sharded(oracle, [(i, "%s => %s" % (t, answers.get(i, "noanswer"))) for i, t in cases], case_timeout=max(timeout, 60))
    res["evaluations"] += len(cases)
    hist = res["hist"]
    bad = 0
    for i, t in cases:
        v = verdicts.get(i, "noverdict")
        toks = v.split()
        verdict = toks[0] if toks else "noverdict"
        kv = dict(x.split("=", 1) for x in toks[1:] if "=" in x)
        hist["%s:op:%s" % (tag, t.split(" ", 1)[0])] = hist.get("%s:op:%s" % (tag, t.split(" ", 1)[0]), 0) + 1
        if "asis" in kv:
            hist["%s:asis:%s" % (tag, kv["asis"])] = hist.get("%s:asis:%s" % (tag, kv["asis"]), 0) + 1
        if verdict == "pass":
            hist[tag + ":pass"] = hist.get(tag + ":pass", 0) + 1
            if kv.get("nt") == "1":
                res["nontrivial"].append(tag + " " + t)
        elif verdict == "skip":
            hist[tag + ":undecided"] = hist.get(tag + ":undecided", 0) + 1
        else:
            bad += 1
            if bad <= 3:
                res["failures"].append({"kind": tag + "-violation", "config": mark or "default", "case": t, "impl": answers.get(i, "noanswer")[:400], "oracle": v[:400],
                                        "replay": "build harness/src/bin/c14.rs with core.harness_build('c14', %r) and feed the case; judge with the c14 oracle" % (mark or "default")})
    return answers


LG_FULL = 1 << 24
LG_CHUNK = 1 << 16


def extra_phase(tier, seed, exes, oracle):
    word = LOG2_PARAMS_STATUS.split(" ", 1)[0]
    word4 = IMPL_TABLE_STATUS.split(" ", 1)[0]
    res = {
        "evaluations": 0,
        "hist": {"TRANSLATOR_C14:XLog2Params:" + word: 1, "TRANSLATOR_C14:XImplTable:" + word4: 1},
        "nontrivial": [],
        "samples": [{"fragment": "coq/gen/XLog2Params.v (tools/translate_c14_r3.py from base/src/math/log.rs, integer/src/log.rs, float/src/{log,repr}.rs, */third_party/num_order.rs)",
                     "status": LOG2_PARAMS_STATUS,
                     "tied_by": "C14_log2_params_tie" if word == "ok" else "correspondence run only (source not parsed; last good copy marked STALE)"},
                    {"fragment": "coq/gen/XImplTable.v (tools/translate_c14_r4.py from {integer,float,rational}/src/third_party/num_order.rs and src/cmp.rs)",
                     "status": IMPL_TABLE_STATUS,
                     "tied_by": "C14_impl_table_numord_exact, C14_impl_table_absord_exact, C14_impl_table_numhash_exact, C14_impl_numord_routes, C14_impl_absord_routes; the oracle looks every case up in the table"
                                if word4 == "ok" else "correspondence run only (source not parsed; last good copy marked STALE)"}],
        "failures": [],
    }
    exe = exes.get("default")
    timeout = CASE_TIMEOUT.get(tier, 30)
    # (a) the libm assumption lg_contract, checked EXHAUSTIVELY in the thorough tier: all 2^24 integers, f32::log2 of the machine against an
    # integer-arithmetic enclosure of log2 n (harness) and, for ten integers of every chunk, against the oracle's own enclosure
    if exe is not None:
        if tier == "thorough":
            chunks = [(k * LG_CHUNK + 1, (k + 1) * LG_CHUNK) for k in range(LG_FULL // LG_CHUNK)]
        else:
            rng = core.Rng((seed or 0) ^ 0x16C0)
            chunks = [(1, 4096), (LG_FULL - 4095, LG_FULL)] + [(lo, lo + 4095) for lo in [1 + rng.below(LG_FULL - 4096) for _ in range(14)]]
        cases = list(enumerate("lgchk %x %x" % c for c in chunks))
        before = len(res["failures"])
        _judge_extra(res, "LG_CONTRACT", exe, oracle, cases, max(timeout, 60))
        n_int = sum(hi - lo + 1 for lo, hi in chunks)
        ok = len(res["failures"]) == before
        res["hist"]["LG_CONTRACT:integers_checked"] = n_int
        res["hist"]["LG_CONTRACT:exhaustive(all 2^24)"] = 1 if (tier == "thorough" and ok) else 0
        res["samples"].append({"assumption": "lg_contract (f32::log2 of an integer in [1, 2^24] is finite and its f32 neighbours enclose log2 n)",
                               "checked": "%d integers in %d ranges%s, against an exact integer enclosure of log2 n (harness, 40 fraction bits, no undecided value allowed) and the oracle's own enclosure for 10 integers per range"
                                          % (n_int, len(chunks), " = ALL integers of [1, 2^24]" if tier == "thorough" else " (quick tier: two ends + 14 random windows; the thorough tier checks all 2^24)"),
                               "violations": 0 if ok else "see failures"})
    # (b) the 32-bit-word build (force_bits="32"): DoubleWord = u64, so u128 / i128 operands no longer fit the inline representation,
    # log2_bounds_large starts at 65 bits, usize stays 64 bits.  The harness reports its word size, the oracle runs the models with it.
    try:
        exe32, out = core.harness_build(HARNESS_BIN, "w32")
    except Exception as ex:
        exe32, out = None, str(ex)
    if exe32 is None:
        res["failures"].append({"kind": "w32-harness-build-failed", "detail": out[-800:]})
        return res
    rng = core.Rng((seed or 0) ^ 0x32323232)
    n = 2500 if tier == "quick" else 40000
    corpus = []
    cp = os.path.join(core.ROOT, "corpus", "C14.txt")
    if os.path.exists(cp):
        corpus = [l.strip() for l in open(cp) if l.strip() and not l.startswith("#")]
    texts = corpus + [w32_case(rng) for _ in range(n // 4)] + gen_cases(rng, tier, n - n // 4)
    _judge_extra(res, "W32", exe32, oracle, list(enumerate(texts)), timeout, mark="w32")
    res["samples"].append({"config": "w32 (--cfg force_bits=\"32\")", "cases": len(texts),
                           "what": "corpus + directed u128 / i128 / 65..128-bit operands against UBig / IBig / FBig / RBig (NumOrd, NumHash, AbsOrd, log2_bounds with 32-bit words) + the general generators"})
    return res


ID = "C14"
READY = True
ORACLE = "c14"
HARNESS_BIN = "c14"
NCASES = {"quick": 9000, "thorough": 200000}
CASE_TIMEOUT = {"quick": 30, "thorough": 120}

LEVEL_TEXT = ("Machine-checked Coq theorems (72 pinned): every NumOrd / AbsOrd body of the integer, float and rational crates (transcribed branch "
              "by branch: NaN/zero tests, sign filter, infinities, bit-length or log2-estimate filter, exact comparison after scaling) returns "
              "the order of the exact values, for all operands and for EVERY estimator that satisfies the soundness contract; the f32 "
              "arithmetic of the library's own estimators (EstimatedLog2::log2_bounds of the unsigned integers, rationals and floats, "
              "Repr::digits_ub; transcribed on Flocq's IEEE binary32) is PROVED to satisfy that contract modulo one assumption on libm "
              "(f32::log2 of an integer up to 2^24 is within one f32 step of the exact value), so NumOrd, AbsOrd and the same-base "
              "PartialOrd / Ord run with the library's RAW estimators return the exact order for integer parts of any size (multi-word "
              "estimator log2_bounds_large included; round 4: digits_ub of multi-word significands too), any exponent; the NumHash inputs "
              "of integers, floats, rationals (denominators that are multiples of 2^127-1 included) and of the primitives (num-order's own "
              "code, transcribed; round 4: its conventions for +-inf, NaN, -0.0 against dashu's infinite floats and zeros) equal one "
              "function of the exact value. Round 4: the IMPL TABLES (which NumOrd / NumHash / AbsOrd impls exist, what every one-call body "
              "forwards to) are regenerated from the sources on every run and proved to be exactly the pairs the model serves, each "
              "forwarding route being the model's entry. The transcriptions are tied to the code by a correspondence run judged against "
              "the extracted specification, including the bit patterns of log2_bounds, on a 64-bit-word and a 32-bit-word build.")
LEVEL_NOTE = ("Trusted: Coq kernel, Flocq's definition of binary32, extraction + FastZ.v, zarith, harness, the transcription of the bodies "
              "and of the estimators (compared on every run incl. the f32 bit patterns, asis=same/diff histogram; constants regenerated "
              "from the sources, C14_log2_params_tie; impl tables regenerated, C14_impl_*). ASSUMED about libm: lg_contract (one-step accuracy "
              "of f32::log2 on integers in [1, 2^24]; satisfiable: C14_libm_contract_inhabited; round 4: checked on the machine's libm "
              "against an exact integer enclosure of log2 n - EXHAUSTIVELY, all 2^24 integers, in the thorough tier, on random windows in the "
              "quick tier; recorded in the evidence as LG_CONTRACT:*). The error analysis of the two ADJUST products of log2_bounds_large is "
              "imported from C12 (Int/GrlLog2StdProof.v large_lower / large_upper); digits_ub in bases other than 2 is proved for significands "
              "of at most 2^24 digits (beyond that the rounding of `ub * LOG10_2` / `ub / log2(B)` would have to be absorbed by the slack of "
              "ADJUST, not analysed); next_up/next_down are modelled by Flocq's Bsucc/Bpred (the bit trick itself is compared, not proved).")
TECHNIQUE = "Coq proof of the transcribed comparison/hash bodies, of the f32 estimators (Flocq binary32) and of the regenerated impl tables against exact-value specifications + extracted-spec correspondence run on two word sizes + exhaustive check of the one libm assumption"
RULE = ("cases = {ord, abs, hash, cmp, est, ordf, absf, cmpf, lgchk} x every (left type, right type) pair of UBig, IBig, u8..u128/usize, "
        "i8..i128/isize, f32, f64, FBig and Repr in bases 2/3/10/16, RBig, Relaxed (pairs WITHOUT an impl included: the answer must be "
        "no-impl exactly when the regenerated table has no entry) x value classes {equal across types, neighbours differing "
        "in the last bit / last digit / numerator +-1, ratio 1 + 2^-k for k up to 40 (around the width of the f32 estimates), bit lengths at "
        "the filter thresholds 24+128 and 53+1024 +-1, floats below 1/2 against 0 and +-1, exact zero of every type against tiny positive / "
        "negative numbers of every other type (two power-of-two bases with different modes included), exponents +-10^6, 2^40 and the ends "
        "of the isize range (2^61, 2^62, 2^63-1) where scaling is impossible, exact path at |e| = 3..20 million for the bases 2 and 16, "
        "infinities, -0.0, NaN, subnormals, MAX/MIN of every primitive, u128 / i128 from 2^64 on against equal / truncated / neighbouring "
        "big numbers, multiples of 2^127-1 in numerators, denominators and exponents that are multiples of 127, same-base floats whose "
        "exponent difference is the digit count of a multi-word significand -2..+2}; est = log2_bounds / digits_ub of one operand with the "
        "libm values it used: zero, powers of two, <= 24 bits, 24-bit prefixes (all ones, 2^23, ties) with every shift, more than two words, "
        "float exponents around and far beyond 2^24 (where `exponent as f32` rounds), cancellation significand ~ base^j with exponent -j, "
        "rationals with nearly equal numerator and denominator; ordf/absf/cmpf = the comparison run on the transcribed f32 estimators; "
        "lgchk = lg_contract on a range of integers. The corpus, directed 65..128-bit cases and a share of the generators run a second "
        "time on the 32-bit-word build (W32:* in the histogram). non-trivial = the oracle evaluated the specification on operands that "
        "are not both zero; distinct = distinct case texts.")
EXPLANATION = ("Theorems (coq/props/C14.v): for sound estimators each transcribed body equals spec_cmp / spec_abs_cmp of the exact values; "
               "NaN gives None; the library's f32 estimators are sound (C14_f32_*), hence C14_num_ord_f32(_any) / C14_abs_ord_f32(_any) / "
               "C14_float_same_base_f32(_any); the hash inputs equal spec_hash of the exact value, hence equal values of different types hash "
               "equally, primitives included (C14_prim_int_hash, C14_prim_float_hash; specials: C14_prim_float_hash_inf/_nan/_zero, "
               "C14_inf_hash_agree) and denominators that are multiples of 2^127-1 (C14_ratio_hash_m127_reduced, C14_ratio_hash_any_form); "
               "the regenerated impl tables are exactly the expected pairs and every forwarding impl is the model's entry (C14_impl_*). Every "
               "generated case is judged against the extracted specification, the transcribed bodies and estimators are run alongside "
               "(asis=same|diff), on the default and on the 32-bit-word build.")
TRUSTED_BASE = [
    "Coq 8.16.1 kernel; Flocq 4.1 IEEE754.BinarySingleNaN as the meaning of f32 arithmetic (nearest-even +, -, *, /, conversion, successor, predecessor, truncation)",
    "extraction: ExtrOcamlBasic + ExtrOcamlZBigInt + coq/extract/FastZ.v directives; zarith 1.12; oracle/common.ml, oracle/driver_c14.ml (incl. the double-precision check of the libm assumption and of the enclosure of log2_bounds answers, and the arbitrary-precision enclosure of log2 n used for lgchk)",
    "harness/src/bin/c14.rs (values moved through raw words / to_bits; a recording Hasher captures the i128 fed by num_hash; the libm table of an operand is recomputed by the harness with f32::log2 on the arguments the std estimator uses, for the word size of the build; lgchk: bit-by-bit squaring enclosure of log2 n in u128)",
    "the transcription of the Rust bodies in coq/theories/Cross/XOrdModel.v, XDispatch.v, XLog2Model.v (f32 estimators), XPrimHashModel.v (num-order 1.2.0 src/hash.rs) - compared with the implementation on every run; constants regenerated by tools/translate_c14_r3.py, impl tables by tools/translate_c14_r4.py (the meaning of a one-call route, XImplModel.v ord_route_sem / abs_route_sem, is part of the transcription)",
    "UBig/IBig comparison, shifting, multiplication and remainder behave as on Z (C01, C02, C09); UBig::from / IBig::from / from_unsigned / from_signed preserve the value (C06; run on both word sizes here); FixedMersenneInt of num-modular computes in the field of 2^127-1",
]
ASSUMPTIONS = [
    "libm: f32::log2 of an integer n in [1, 2^24] is finite and its two f32 neighbours enclose log2 n (XLog2Flocq.lg_contract); everything around it in log2_bounds / digits_ub is proved; the general theorems hold for every sound estimator; the assumption is checked on this machine for every integer of the range in the thorough tier (LG_CONTRACT:* in the evidence)",
    "the f32-estimator instances (C14_num_ord_f32_any, C14_abs_ord_f32_any, C14_float_same_base_f32_any) cover integer parts of bit length below 2^62 (word size 32..64) and exponents within the isize range; digits_ub in a base other than 2 is proved for significands of at most 2^24 digits",
    "rationals have positive denominators, float bases are >= 2; exponent arithmetic is unbounded (Z) in the comparison models - the two places where the code left the isize range were repaired (F05, F06) and exponents up to +-(2^63-1) are generated; isize::MIN itself is not (hlib::isz cannot carry it)",
    "exact-path scaling by B^|e| is exercised up to |e| = 10^6 in every base and up to 2*10^7 in the bases 2 and 16 (beyond that the generator keeps the operands far enough apart for the filters to decide, as the real code would otherwise try to allocate the power); the theorems have no such bound",
    "NumHash of infinities and NaN is outside the property (no exact value); num-order's answers for them are transcribed and proved equal to dashu's for the infinities (C14_inf_hash_agree), compared on every run",
]

M127 = (1 << 127) - 1
FB = [2, 3, 10, 16]
UNS = {"pu8": 8, "pu16": 16, "pu32": 32, "pu64": 64, "pu128": 128, "pusize": 64}
SGN = {"pi8": 8, "pi16": 16, "pi32": 32, "pi64": 64, "pi128": 128, "pisize": 64}
INTS = ["u", "i"] + list(UNS) + list(SGN)
FK = ["f2", "f3", "f10", "f16"]
GK = ["g2", "g3", "g10", "g16"]
QK = ["q", "r"]
PF = ["s", "d"]


def f64_bits(x):
    return struct.unpack("<Q", struct.pack("<d", x))[0]


def f32_bits(x):
    return struct.unpack("<I", struct.pack("<f", x))[0]


def bits_f64(b):
    return struct.unpack("<d", struct.pack("<Q", b))[0]


def bits_f32(b):
    return struct.unpack("<f", struct.pack("<I", b))[0]


def to_float(v):
    try:
        return float(v)
    except OverflowError:
        return float("inf") if v > 0 else float("-inf")


def to_f32_bits(v):
    x = to_float(v)
    try:
        return f32_bits(x)
    except OverflowError:
        return 0x7f800000 if x > 0 else 0xff800000


def ilog(b, n):
    """floor(log_b n), n >= 1"""
    k = 0
    p = b
    while p <= n:
        p *= b
        k += 1
    return k


def enc_float(rng, base, v, digits):
    """(sig, exp) in the given base with about `digits` digits, nearest to v"""
    if v == 0:
        return 0, rng.choice([0, 0, 5, -7])
    a = abs(v)
    if a >= 1:
        e = ilog(base, a.numerator // a.denominator)
    else:
        e = -ilog(base, a.denominator // a.numerator + 1) - 1
    e = e - digits + 1
    sc = v / Fraction(base) ** e if e >= 0 else v * Fraction(base) ** (-e)
    sig = round(sc)
    return sig, e


def exact_float(base, v, limit):
    """(sig, exp) with sig * base^exp == v, or None"""
    k = 0
    x = Fraction(v)
    while x.denominator != 1:
        if k >= limit:
            return None
        x *= base
        k += 1
    return x.numerator, -k


def clamp(v, lo, hi):
    return max(lo, min(hi, v))


def enc(rng, kind, v, exact_only=False):
    """a token of the given kind whose value is v if representable, else close to v"""
    if kind == "u":
        return "u:%s" % hx(max(0, round(v)))
    if kind == "i":
        return "i:%s" % hx(round(v))
    if kind in UNS:
        return "%s:%s" % (kind, hx(clamp(round(v), 0, (1 << UNS[kind]) - 1)))
    if kind in SGN:
        b = SGN[kind]
        return "%s:%s" % (kind, hx(clamp(round(v), -(1 << (b - 1)), (1 << (b - 1)) - 1)))
    if kind in FK or kind in GK:
        base = int(kind[1:])
        ex = exact_float(base, v, 1200 if base == 2 else 300)
        if ex is None or (not exact_only and rng.chance(1, 6)):
            sig, e = enc_float(rng, base, v, rng.choice([1, 2, 3, 7, 17, 24, 40, 60]))
        else:
            sig, e = ex
            if rng.chance(1, 4):   # not normalised: Repr::new must strip it
                j = rng.range(1, 5)
                sig, e = sig * base ** j, e - j
        if kind in FK:
            return "%s:%x:%s:%s" % (kind, rng.choice([0, 1, 3, 10, 53, 200]), hx(sig), hx(e))
        return "%s:%s:%s" % (kind, hx(sig), hx(e))
    if kind in QK:
        n, d = v.numerator, v.denominator
        k = rng.choice([1, 1, 1, 2, 3, 4, 6, 10, 1 << 64, 3 ** 41]) if kind == "r" else rng.choice([1, 1, 5, 1 << 70])
        return "%s:%s:%s" % (kind, hx(n * k), hx(d * k))
    if kind == "d":
        return "d:%x" % f64_bits(to_float(v))
    if kind == "s":
        return "s:%x" % to_f32_bits(v)
    raise ValueError(kind)


def value_of(tok):
    """exact value of a token (Fraction) or None for non-finite"""
    f = tok.split(":")
    k = f[0]
    h = lambda s: int(s, 16)
    if k in ("u", "i") or k in UNS or k in SGN:
        return Fraction(h(f[1]))
    if k in FK or k in GK:
        sg, ex = (f[2], f[3]) if k in FK else (f[1], f[2])
        if sg in ("inf", "-inf"):
            return None
        e = h(ex)
        if abs(e) > 5000:
            return None
        return Fraction(h(sg)) * Fraction(int(k[1:])) ** e
    if k in QK:
        return Fraction(h(f[1]), h(f[2]))
    x = bits_f64(h(f[1])) if k == "d" else bits_f32(h(f[1]))
    if x != x or x in (float("inf"), float("-inf")):
        return None
    return Fraction(x)


def perturb(rng, tok):
    """a neighbour of the token: last bit / last digit / numerator or denominator +-1"""
    f = tok.split(":")
    k = f[0]
    h = lambda s: int(s, 16)
    dl = rng.choice([1, -1])
    if k in ("u",) or k in UNS:
        hi = (1 << UNS[k]) - 1 if k in UNS else None
        v = max(0, h(f[1]) + dl)
        return "%s:%s" % (k, hx(v if hi is None else min(v, hi)))
    if k == "i" or k in SGN:
        v = h(f[1]) + dl
        if k in SGN:
            b = SGN[k]
            v = clamp(v, -(1 << (b - 1)), (1 << (b - 1)) - 1)
        return "%s:%s" % (k, hx(v))
    if k in FK:
        if f[2] in ("inf", "-inf"):
            return tok
        return "%s:%s:%s:%s" % (k, f[1], hx(h(f[2]) + dl), f[3])
    if k in GK:
        if f[1] in ("inf", "-inf"):
            return tok
        return "%s:%s:%s" % (k, hx(h(f[1]) + dl), f[2])
    if k in QK:
        if rng.chance(1, 2):
            return "%s:%s:%s" % (k, hx(h(f[1]) + dl), f[2])
        return "%s:%s:%s" % (k, f[1], hx(max(1, h(f[2]) + dl)))
    b = h(f[1])
    top = (1 << 64) - 1 if k == "d" else (1 << 32) - 1
    return "%s:%x" % (k, clamp(b + dl, 0, top))


def ord_pair(rng):
    """(left kind, right kind) with a NumOrd impl"""
    r = rng.below(100)
    if r < 12:
        p = (rng.choice(["u", "i"]), rng.choice(INTS))
    elif r < 30:
        p = (rng.choice(["u", "i"]), rng.choice(PF))
    elif r < 40:
        fam = rng.choice([FK, GK])
        return (rng.choice(fam), rng.choice(fam))
    elif r < 52:
        p = (rng.choice(FK + GK), rng.choice(INTS))
    elif r < 68:
        p = (rng.choice(FK + GK), rng.choice(PF))
    elif r < 72:
        return rng.choice([("q", "r"), ("r", "q")])
    elif r < 80:
        p = (rng.choice(QK), rng.choice(INTS))
    elif r < 92:
        p = (rng.choice(QK), rng.choice(PF))
    else:
        p = (rng.choice(QK), rng.choice(FK))
    return p if rng.chance(1, 2) else (p[1], p[0])


def abs_pair(rng):
    r = rng.below(100)
    if r < 10:
        return (rng.choice(["u", "i"]), rng.choice(["u", "i"]))
    if r < 25:
        k = rng.choice(FK)
        return (k, k)
    if r < 50:
        p = (rng.choice(FK + GK), rng.choice(["u", "i"]))
    elif r < 62:
        return (rng.choice(QK), rng.choice(QK))
    elif r < 80:
        p = (rng.choice(QK), rng.choice(["u", "i"]))
    else:
        p = (rng.choice(QK), rng.choice(FK))
    return p if rng.chance(1, 2) else (p[1], p[0])


SPECIAL_D = [0x0, 0x8000000000000000, 0x7ff0000000000000, 0xfff0000000000000, 0x7ff8000000000000, 0xfff8000000000001, 0x7ff0000000000001,
             0x1, 0x8000000000000001, 0xfffffffffffff, 0x10000000000000, 0x7fefffffffffffff, 0xffefffffffffffff,
             0x3fe0000000000000, 0x3fdfffffffffffff, 0x3fd0000000000000, 0x3ff0000000000000, 0x3fefffffffffffff, 0xbfe0000000000000,
             0xbfd0000000000000, 0x3ddb7cdfd9d7bdbb, 0xbddb7cdfd9d7bdbb, 0x4340000000000000, 0x433fffffffffffff, 0x43e0000000000000,
             0x47f0000000000000, 0x47efffffffffffff]
SPECIAL_S = [0x0, 0x80000000, 0x7f800000, 0xff800000, 0x7fc00000, 0xffc00001, 0x7f800001, 0x1, 0x80000001, 0x7fffff, 0x800000,
             0x7f7fffff, 0xff7fffff, 0x3f000000, 0x3effffff, 0x3e800000, 0x3f800000, 0x3f7fffff, 0xbf000000, 0xbe800000, 0x2edbe6ff,
             0xaedbe6ff, 0x4b800000, 0x4b7fffff, 0x5f000000]


def gen_value(rng, tier):
    """an exact value (Fraction) from the classes of the rule"""
    r = rng.below(100)
    if r < 14:     # an f64 value
        if rng.chance(1, 3):
            b = rng.choice([x for x in SPECIAL_D if (x >> 52) & 0x7ff != 0x7ff])
        else:
            e = rng.choice([0, 1, 2, 1000, 1021, 1022, 1023, 1024, 1025, 1075, 1076, 1100, 2046, rng.below(2047)])
            b = (rng.below(2) << 63) | (e << 52) | rng.choice([0, 1, (1 << 52) - 1, rng.bits(52), 1 << 51])
        return Fraction(bits_f64(b))
    if r < 24:     # an f32 value
        if rng.chance(1, 3):
            b = rng.choice([x for x in SPECIAL_S if (x >> 23) & 0xff != 0xff])
        else:
            e = rng.choice([0, 1, 2, 120, 125, 126, 127, 128, 150, 151, 254, rng.below(255)])
            b = (rng.below(2) << 31) | (e << 23) | rng.choice([0, 1, (1 << 23) - 1, rng.bits(23), 1 << 22])
        return Fraction(bits_f32(b))
    if r < 40:     # integers: small, primitive limits, big
        k = rng.below(8)
        if k == 0:
            return Fraction(rng.choice([0, 1, -1, 2, -2, 3, 5, -5, 10, 255, 256, -128, 127]))
        if k == 1:
            w = rng.choice([8, 16, 32, 64, 128])
            return Fraction(rng.choice([(1 << w) - 1, 1 << w, (1 << (w - 1)) - 1, -(1 << (w - 1)), (1 << (w - 1)), -(1 << (w - 1)) - 1]))
        if k == 2:   # bit lengths at the thresholds of the float filters
            nb = rng.choice([23, 24, 25, 52, 53, 54, 127, 128, 129, 151, 152, 153, 154, 1023, 1024, 1025, 1076, 1077, 1078, 1079])
            m = rng.choice([1 << (nb - 1), (1 << nb) - 1, (1 << (nb - 1)) | rng.bits(nb - 1), ((1 << 24) - 1) << (nb - 24) if nb >= 24 else 1,
                            ((1 << 53) - 1) << (nb - 53) if nb >= 53 else 1])
            return Fraction(m if rng.chance(1, 2) else -m)
        if k == 3:   # around multiples of the hash modulus
            return Fraction(rng.choice([1, 2, 3, 1 << 127, rng.bits(130)]) * M127 * rng.choice([1, -1]) + rng.choice([0, 0, 1, -1]))
        return Fraction(gen_int(rng, tier))
    if r < 52:     # dyadic m * 2^k
        m = rng.choice([1, 3, 5, rng.bits(24) | 1, rng.bits(53) | 1, rng.bits(70) | 1, gen_mag(rng, rng.range(1, 4)) | 1])
        k = rng.choice([-1, -2, -3, -10, -24, -53, -64, -127, -128, -149, -150, -254, -1022, -1074, 1, 10, 64, 100, 127, 128, 254, 900, 1000])
        v = Fraction(m) * Fraction(2) ** k
        return v if rng.chance(1, 2) else -v
    if r < 62:     # decimal / ternary fractions
        b = rng.choice([10, 10, 3, 16])
        m = rng.choice([1, 7, rng.bits(20) + 1, rng.bits(64) + 1, rng.bits(200) + 1])
        k = rng.choice([-1, -2, -5, -10, -20, -40, -100, 1, 5, 22, 23, 40, 100])
        v = Fraction(m) * Fraction(b) ** k
        return v if rng.chance(1, 2) else -v
    if r < 72:     # below 1/2 (the bit-length filter sees a negative length)
        v = Fraction(rng.choice([1, 1, 3, 7, rng.bits(30) + 1]), rng.choice([2, 3, 4, 5, 8, 10, 10 ** 10, 1 << 60, 1 << 200, 3 ** 50]))
        return v if rng.chance(2, 3) else -v
    # general rationals
    n = gen_mag(rng, rng.choice([1, 1, 2, 3, 5])) * rng.choice([1, -1])
    d = rng.choice([1, 2, 3, 7, 10, 1 << 64, (1 << 64) - 1, M127, 2 * M127, M127 * M127, gen_mag(rng, rng.choice([1, 2, 3])), rng.bits(40) + 1])
    if rng.chance(1, 6):
        n = rng.choice([M127, M127 + 1, M127 - 1, 3 * M127]) * rng.choice([1, -1])
    return Fraction(n, max(1, d))


def near(rng, v):
    """a value at a tiny relative distance from v (around and inside the width of the f32 estimates)"""
    if v == 0:
        return Fraction(rng.choice([1, -1]), rng.choice([2, 3, 10 ** 10, 1 << 80]))
    k = rng.choice([1, 2, 5, 10, 15, 18, 20, 21, 22, 23, 24, 25, 26, 30, 40, 60, 100])
    return v * (1 + Fraction(rng.choice([1, -1]), 1 << k))


def special_tok(rng, kind):
    if kind == "d":
        return "d:%x" % rng.choice(SPECIAL_D)
    if kind == "s":
        return "s:%x" % rng.choice(SPECIAL_S)
    if kind in FK:
        return "%s:%x:%s:0" % (kind, rng.choice([0, 5]), rng.choice(["inf", "-inf", "0"]))
    if kind in GK:
        return "%s:%s:0" % (kind, rng.choice(["inf", "-inf", "0"]))
    if kind in UNS:
        return "%s:%s" % (kind, hx(rng.choice([0, 1, (1 << UNS[kind]) - 1])))
    if kind in SGN:
        b = SGN[kind]
        return "%s:%s" % (kind, hx(rng.choice([0, -1, (1 << (b - 1)) - 1, -(1 << (b - 1))])))
    if kind in QK:
        return "%s:%s:%s" % (kind, hx(rng.choice([0, 1, -1, M127, -M127])), hx(rng.choice([1, 1, M127, 7])))
    return "%s:%s" % (kind, hx(rng.choice([0, 1, 5] if kind == "u" else [0, 1, -1, 5, -5])))


def huge_tok(rng, kind, very=True):
    base = int(kind[1:])
    sig = rng.choice([1, -1, 7, -3, rng.bits(60) + 1, -(rng.bits(60) + 1)])
    es = [10 ** 6, -10 ** 6, 999999, -999983]
    if very:
        es += [1 << 40, -(1 << 40), (1 << 40) + 127, -127 * (1 << 30)]
        # the ends of the isize range: bit_len(B) * exponent, exponent + digits and -exponent leave it
        es += [1 << 61, -(1 << 61), (1 << 61) - 1, (1 << 62) + 5, -(1 << 62) - 5, (1 << 63) - 1, -(1 << 63) + 1]   # isize::MIN itself cannot be passed by the shared harness (hlib::isz)
        if sig % base == 0:
            sig += 1    # Repr::new must not have to move a digit into an exponent at the end of the range
    e = rng.choice(es)
    if kind in FK:
        return "%s:%x:%s:%s" % (kind, rng.choice([0, 3]), hx(sig), hx(e))
    return "%s:%s:%s" % (kind, hx(sig), hx(e))


def end_of_range(tok):
    """a float token whose exponent was moved to the end of the isize range: Repr::new must not have to move a digit of the
    significand into the exponent there (that overflow belongs to the constructor, not to the comparison)"""
    f = tok.split(":")
    base = int(f[0][1:])
    sg = int(f[-2], 16)
    if sg % base == 0:
        sg += 1
    f[-2] = hx(sg)
    return ":".join(f)


def gen_pair(rng, tier, ka, kb):
    r = rng.below(100)
    if r < 8:
        return special_tok(rng, ka), special_tok(rng, kb)
    if r < 14:
        v = gen_value(rng, tier)
        return (special_tok(rng, ka), enc(rng, kb, v)) if rng.chance(1, 2) else (enc(rng, ka, v), special_tok(rng, kb))
    v = gen_value(rng, tier)
    a = enc(rng, ka, v)
    va = value_of(a)
    if va is None:
        va = v
    s = rng.below(10)
    if s < 4:        # the same value on the other side when representable
        b = enc(rng, kb, va, exact_only=True)
    elif s < 6:      # a neighbour in the other type's grid
        b = perturb(rng, enc(rng, kb, va, exact_only=True))
    elif s < 8:      # a tiny relative distance
        b = enc(rng, kb, near(rng, va))
    elif s < 9:      # factor about 2 (where the estimates stop overlapping)
        b = enc(rng, kb, va * rng.choice([2, Fraction(1, 2), Fraction(3, 2), Fraction(2, 3), -1, Fraction(33, 32), Fraction(17, 16)]))
    else:
        b = enc(rng, kb, gen_value(rng, tier))
    if rng.chance(1, 10):
        a = perturb(rng, a)
    return a, b


def gen_est(rng, tier):
    """one operand for the f32 estimators: every branch of impl_log2_bounds_for_uint (zero, power of two, <= 24 bits,
    longer: the truncation to 24 bits and the shift addition), log2_bounds_large, the float estimator with exponents
    around and far beyond 2^24 (where `exponent as f32` rounds) and with cancellation, the rational one"""
    r = rng.below(100)
    if r < 30:
        kind = rng.choice(["u", "i"])
        c = rng.below(8)
        if c == 0:
            v = rng.choice([0, 1, 2, 3, 5, 7, 10, 255, 256])
        elif c == 1:
            nb = rng.choice([2, 8, 23, 24, 25, 26, 31, 32, 33, 63, 64, 65, 100, 127, 128])
            v = rng.choice([1 << (nb - 1), (1 << nb) - 1, (1 << (nb - 1)) + 1, (1 << (nb - 1)) | rng.bits(nb - 1)])
        elif c == 2:    # 24-bit prefix patterns: all ones (shifted + 1 = 2^24), 2^23, ties
            nb = rng.range(25, 128)
            pre = rng.choice([(1 << 24) - 1, 1 << 23, (1 << 23) + 1, (1 << 24) - 2, (1 << 23) | rng.bits(23)])
            v = (pre << (nb - 24)) | rng.choice([0, 1, (1 << (nb - 24)) - 1, rng.bits(nb - 24)])
        elif c == 3:    # more than two words: log2_bounds_large
            nb = rng.choice([129, 130, 191, 192, 193, 256, 1000, 5000, rng.range(129, 3000)])
            v = (1 << (nb - 1)) | rng.bits(nb - 1)
            if rng.chance(1, 4):
                v = 1 << (nb - 1)
        else:
            v = gen_int(rng, tier)
        if kind == "u":
            v = abs(v)
        elif rng.chance(1, 2):
            v = -v
        return "%s:%s" % (kind, hx(v))
    if r < 75:
        kind = rng.choice(FK + GK)
        base = int(kind[1:])
        c = rng.below(10)
        if c == 0:
            return special_tok(rng, kind)
        sig = rng.choice([1, 3, 7, 99999, rng.bits(24) + 1, rng.bits(60) + 1, rng.bits(100) + 1, rng.bits(127) + 1, gen_mag(rng, rng.choice([1, 2, 3, 5]))])
        if c == 1:      # cancellation: significand about base^j, exponent -j
            j = rng.range(1, 38 if base == 10 else 60)
            sig = base ** j + rng.choice([1, -1, rng.bits(8) + 1, -(rng.bits(8) + 1)])
            e = -j + rng.choice([0, 0, 0, 1, -1])
        elif c < 4:     # the exponent no longer converts exactly
            e = rng.choice([(1 << 24) + rng.bits(20), (1 << 24) + 1, (1 << 24) - 1, 1 << 24, (1 << 25) + 2, (1 << 25) + rng.bits(24), (1 << 26) - 2,
                            rng.bits(40) + (1 << 24), rng.bits(62) + (1 << 24), (1 << 62) + rng.bits(60), (1 << 63) - 1 - rng.below(4)])
            if rng.chance(1, 2):
                e = -e
        else:
            e = rng.choice([0, 1, -1, 5, -5, rng.range(-60, 60), rng.range(-2000, 2000), rng.range(-(1 << 24), 1 << 24)])
        if sig % base == 0:
            sig += 1
        if rng.chance(1, 3):
            sig = -sig
        if kind in FK:
            return "%s:%x:%s:%s" % (kind, rng.choice([0, 3, 50]), hx(sig), hx(e))
        return "%s:%s:%s" % (kind, hx(sig), hx(e))
    kind = rng.choice(QK)
    n = rng.choice([0, 1, -1, 3, rng.bits(24) + 1, rng.bits(64) + 1, rng.bits(127) + 1, gen_mag(rng, rng.choice([1, 2, 3, 4]))]) * rng.choice([1, -1])
    d = rng.choice([1, 2, 3, 7, rng.bits(24) + 1, rng.bits(64) + 1, rng.bits(127) + 1, gen_mag(rng, rng.choice([1, 2, 3]))])
    if rng.chance(1, 4) and n:     # cancellation: numerator and denominator nearly equal
        d = abs(n) + rng.choice([1, -1, 2, 1 << 20])
    return "%s:%s:%s" % (kind, hx(n), hx(max(1, d)))


def small_tok(tok):
    """does every integer part of the token fit a double word (the domain of the f32 estimator theorems)"""
    f = tok.split(":")
    k = f[0]
    h = lambda s: abs(int(s, 16)) if s not in ("inf", "-inf") else 0
    if k in ("u", "i") or k in UNS or k in SGN:
        return h(f[1]) < (1 << 128)
    if k in FK:
        return h(f[2]) < (1 << 128)
    if k in GK:
        return h(f[1]) < (1 << 128)
    if k in QK:
        return h(f[1]) < (1 << 128) and h(f[2]) < (1 << 128)
    return True


def w32_case(rng):
    """operands between the double word of the 32-bit-word build (u64) and of the 64-bit-word build (u128): u128 / i128 primitives
    from 2^64 on and big integers of 65..128 bits, against every partner type; equal values, the low 64 bits only (what a truncation
    to u64 would leave), neighbours, far apart"""
    v = rng.choice([1 << 64, (1 << 64) + 7, 1 << 100, (1 << 128) - 1, 1 << 127, (1 << 127) - 1, rng.bits(128) | (1 << 64),
                    (rng.bits(64) << 64) | rng.bits(64), (1 << 64) | rng.bits(20), (1 << 70), (rng.bits(30) + 1) << 64])
    signed = rng.chance(1, 3)
    if signed:
        v = (v % (1 << 127)) | (1 << 64)
        if rng.chance(1, 2):
            v = -v
    prim = ("pi128:%s" if signed else "pu128:%s") % hx(v)
    lowv = (abs(v) % (1 << 64)) * (1 if v >= 0 else -1)
    pv = rng.choice([v, v, lowv, v + 1, v - 1, v * 8, v >> 30, (1 << 70) * (1 if v >= 0 else -1), lowv + (1 << 64) * (1 if v >= 0 else -1)])
    r = rng.below(12)
    if r < 5:
        kb = rng.choice(["u", "i"])
        if kb == "u":
            pv = abs(pv)
        b = "%s:%s" % (kb, hx(pv))
        return "ord %s %s" % ((b, prim) if rng.chance(1, 2) else (prim, b))
    if r < 8:
        kb = rng.choice(FK + GK + QK)
        b = enc(rng, kb, Fraction(pv), exact_only=True)
        return "%s %s %s" % (rng.choice(["ord", "ord", "ordf"]), *((b, prim) if rng.chance(1, 2) else (prim, b)))
    if r < 10:
        return "hash %s" % rng.choice([prim, "u:%s" % hx(abs(v)), "i:%s" % hx(v), enc(rng, rng.choice(FK + QK), Fraction(v), exact_only=True)])
    if r == 10:
        ka = rng.choice(["u", "i"])
        a = "%s:%s" % (ka, hx(abs(v) if ka == "u" else v))
        b = enc(rng, rng.choice(FK + GK + QK + ["u", "i"]), Fraction(abs(pv) if rng.chance(1, 2) else pv), exact_only=True)
        if b.startswith("u:-"):
            b = "u:" + b[3:]
        return "%s %s %s" % (rng.choice(["abs", "absf"]), *((a, b) if rng.chance(1, 2) else (b, a)))
    return "est %s" % rng.choice(["u:%s" % hx(abs(v)), "i:%s" % hx(v), "q:%s:%s" % (hx(v), hx(abs(pv) | 1)), "g10:%s:%s" % (hx(v | 1), hx(rng.range(-40, 40)))])


def zero_tiny_case(rng):
    """exact zero of one type against a tiny positive / negative number of another, every pair of the impl table and both orders;
    floats of two power-of-two bases and different rounding modes included (a top-bit shortcut must not take zero for 2^0)"""
    ka, kb = ord_pair(rng) if rng.chance(1, 2) else (rng.choice(["f2", "f16", "g2", "g16"]), rng.choice(["f2", "f16", "g2", "g16"]))
    if ka[0] != kb[0] and ka[0] in "fg" and kb[0] in "fg":
        kb = ka[0] + kb[1:]
    zero = {"u": "u:0", "i": "i:0", "q": "q:0:1", "r": "r:0:1", "d": rng.choice(["d:0", "d:8000000000000000"]), "s": rng.choice(["s:0", "s:80000000"])}
    def zt(k):
        if k in zero:
            return zero[k]
        if k in UNS or k in SGN:
            return "%s:0" % k
        if k in FK:
            return "%s:%x:0:0" % (k, rng.choice([0, 3, 53]))
        return "%s:0:0" % k
    def tiny(k):
        sg = rng.choice([1, 1, -1])
        if k in FK or k in GK:
            base = int(k[1:])
            m = rng.choice([1, 3, 5, 7, rng.bits(20) * base + 1])
            e = -rng.choice([1, 2, 3, 10, 40, 127, 1000, 10 ** 6])
            while base ** (-e) <= 2 * m and e > -2000:
                e -= 1
            return ("%s:%x:%s:%s" % (k, rng.choice([0, 3]), hx(sg * m), hx(e))) if k in FK else "%s:%s:%s" % (k, hx(sg * m), hx(e))
        if k in QK:
            return "%s:%s:%s" % (k, hx(sg * rng.choice([1, 3, 7])), hx(rng.choice([8, 10, 1 << 70, 3 ** 50, 10 ** 30])))
        if k == "d":
            return "d:%x" % (((1 if sg < 0 else 0) << 63) | rng.choice([1, 0xfffffffffffff, 0x10000000000000, 0x3fd0000000000000, 0x3fdfffffffffffff, 0x3c90000000000000, 0x0010000000000001]))
        if k == "s":
            return "s:%x" % (((1 if sg < 0 else 0) << 31) | rng.choice([1, 0x7fffff, 0x800000, 0x3e800000, 0x3effffff, 0x2edbe6ff, 0x00800001]))
        return None
    a, b = zt(ka), tiny(kb)
    if b is None:     # the partner is an integer type: no tiny value, swap the roles
        a, b = zt(kb), tiny(ka)
        if b is None:
            a, b = "u:0", "d:1"
        return "ord %s %s" % (b, a) if rng.chance(1, 2) else "ord %s %s" % (a, b)
    return "ord %s %s" % ((a, b) if rng.chance(1, 2) else (b, a))


def same_base_large_case(rng):
    """PartialOrd / Ord / AbsOrd of two floats of one base where Repr::digits_ub of a MULTI-WORD significand decides:
    exponent difference = number of digits of the long significand + {-2, -1, 0, 1}"""
    ka = rng.choice(FK)
    base = int(ka[1:])
    nd = rng.choice([40, 41, 60, 100, 200, 617, 1234, rng.range(39, 2500)])
    long_sig = base ** (nd - 1) * rng.choice([1, 1, base - 1, rng.range(1, base - 1) if base > 2 else 1]) + rng.choice([0, 1, rng.bits(64), base ** (nd - 1) - 1])
    while long_sig % base == 0:
        long_sig += 1
    D = ilog(base, long_sig) + 1
    short = rng.choice([1, base - 1, base + 1, rng.bits(30) | 1, long_sig // base ** (D - 3)])
    while short % base == 0:
        short += 1
    ds = ilog(base, short) + 1
    e2 = rng.choice([0, -5, 7, -D, rng.range(-3000, 3000)])
    e1 = e2 + D - ds + rng.choice([-2, -1, 0, 0, 1, 2])
    s1 = short * rng.choice([1, 1, -1])
    s2 = long_sig * rng.choice([1, 1, -1])
    a = "%s:%x:%s:%s" % (ka, rng.choice([0, 3]), hx(s1), hx(e1))
    b = "%s:%x:%s:%s" % (ka, rng.choice([0, 3]), hx(s2), hx(e2))
    op = rng.choice(["cmp", "cmpf", "cmpf", "abs", "absf", "absf"])
    return "%s %s %s" % ((op, a, b) if rng.chance(1, 2) else (op, b, a))


ALLK = INTS + FK + GK + QK + PF


def gen_cases(rng, tier, n):
    out = []
    while len(out) < n:
        k = rng.below(124)
        if k >= 120:
            out.append(w32_case(rng))
            continue
        if k >= 116:
            out.append(zero_tiny_case(rng))
            continue
        if k >= 113:
            out.append(same_base_large_case(rng))
            continue
        if k == 112:
            if rng.chance(1, 8):
                lo = 1 + rng.below((1 << 24) - 512)
                out.append("lgchk %x %x" % (lo, lo + 511))
            else:
                # any pair of kinds: the answer is `err no-impl` exactly when the regenerated impl table has no entry
                ka, kb = rng.choice(ALLK), rng.choice(ALLK)
                v = gen_value(rng, tier)
                out.append("%s %s %s" % (rng.choice(["ord", "ord", "abs"]), enc(rng, ka, v), enc(rng, kb, v if rng.chance(1, 2) else gen_value(rng, tier))))
            continue
        if k >= 100:
            out.append("est %s" % gen_est(rng, tier))
            continue
        if k == 99 and rng.chance(1, 3 if tier == "thorough" else 12):
            # the exact path far beyond |e| = 10^6: bases 2 and 16 scale by shifting, so equal and neighbouring values
            # with exponents of several million can be materialised by the library and by the oracle
            e4 = rng.choice([750001, 2500000, 5000000]) * rng.choice([1, -1])     # exponent in base 16; 4 * e4 in base 2
            sig = rng.choice([1, 3, 5, 7, 255, rng.bits(24) | 1, rng.bits(60) | 1]) * rng.choice([1, -1])
            ka, kb = rng.choice([("g2", "g16"), ("g16", "g2"), ("f2", "f16"), ("g2", "g2"), ("f16", "f16"), ("f2", "i"), ("f16", "q")])
            def tk(kind, sg):
                base = int(kind[1:]) if kind[0] in "fg" else 0
                if base:
                    ee = e4 if base == 16 else 4 * e4
                    return ("%s:0:%s:%s" if kind[0] == "f" else "%s:%s:%s") % (kind, hx(sg), hx(ee))
                if kind == "i":
                    return "i:%s" % hx(sg << (4 * e4) if e4 > 0 else sg)
                return "q:%s:%s" % ((hx(sg << (4 * e4)), "1") if e4 > 0 else (hx(sg), hx(1 << (-4 * e4))))
            sb = sig + rng.choice([0, 0, 2, -2]) if sig % 2 else sig
            if kb == "i" and e4 < 0:
                ka, kb = "f2", "q"
            out.append("%s %s %s" % ("ord", tk(ka, sig), tk(kb, sb)))
            continue
        if k < 58:
            ka, kb = ord_pair(rng)
            a, b = gen_pair(rng, tier, ka, kb)
            out.append("ord %s %s" % (a, b))
        elif k < 74:
            ka, kb = abs_pair(rng)
            a, b = gen_pair(rng, tier, ka, kb)
            out.append("abs %s %s" % (a, b))
        elif k < 78:
            ka = rng.choice(FK)
            if rng.chance(1, 4):
                # both ends of the exponent range: repr_cmp_same_base adds a digit count to an exponent
                top = (1 << 63) - 1
                e1 = rng.choice([top, top - 1, 1 << 62, -top, -(1 << 62)])
                e2 = -e1 if rng.chance(1, 2) else e1 - rng.choice([0, 1, 2, 5]) * (1 if e1 > 0 else -1)
                sg = lambda: rng.choice([1, -1, 7, -7, 11, -13, 49, 77, 1001, -1001, 7 ** 30])   # no factor 2, 3, 5: nothing to normalise
                a = "%s:%x:%s:%s" % (ka, rng.choice([0, 3]), hx(sg()), hx(e1))
                b = "%s:%x:%s:%s" % (ka, rng.choice([0, 3]), hx(sg()), hx(e2))
                out.append("%s %s %s" % (rng.choice(["abs", "cmp"]), a, b))
                continue
            a, b = gen_pair(rng, tier, ka, ka)
            out.append("cmp %s %s" % (a, b))
        elif k < 82:
            # huge exponents: one side cannot be materialised; the partner is far away so that no scaling is needed
            ka = rng.choice(FK + GK)
            a = huge_tok(rng, ka)
            fam = FK if ka in FK else GK
            kb = rng.choice(INTS + PF + ([ka] if rng.chance(1, 2) else fam) + (QK if ka in FK else []))
            if kb in FK or kb in GK:
                if kb == ka and rng.chance(1, 2):
                    # same base: 10^6 digits can still be scaled (slowly); beyond that only when the signs of the exponents differ
                    a = huge_tok(rng, ka, very=False)
                    b = huge_tok(rng, kb, very=False)
                elif kb == ka:
                    # the two ends of the exponent range (estimates decide; same-base AbsOrd/Ord add digits to an exponent)
                    top = (1 << 63) - 1
                    e1 = rng.choice([top, top - 1, 1 << 62, -top, -(1 << 62)])
                    e2 = -e1
                    if ka in FK and rng.chance(1, 3):
                        e2 = e1 - rng.choice([0, 1, 2, 5]) * (1 if e1 > 0 else -1)
                    f = a.split(":")
                    f[-1] = hx(e1)
                    a = end_of_range(":".join(f))
                    f = huge_tok(rng, kb, very=False).split(":")
                    f[-1] = hx(e2)
                    b = end_of_range(":".join(f))
                    if ka in FK and abs(e1 - e2) < 10:
                        out.append("%s %s %s" % (rng.choice(["abs", "cmp"]), a, b))   # NumOrd would have to scale by B^e
                        continue
                else:
                    b = enc(rng, kb, gen_value(rng, tier))
            else:
                b = enc(rng, kb, gen_value(rng, tier)) if rng.chance(2, 3) else special_tok(rng, kb)
            op = "ord"
            if rng.chance(1, 4) and (kb in ("u", "i") or kb in QK and ka in FK or kb == ka and ka in FK):
                op = "abs"
            out.append("%s %s %s" % ((op, a, b) if rng.chance(1, 2) else (op, b, a)))
        else:
            kind = rng.choice(INTS + FK + GK + QK + PF)
            r = rng.below(10)
            if r == 0:
                t = special_tok(rng, kind)
            elif r == 1 and (kind in FK or kind in GK):
                t = huge_tok(rng, kind)
            else:
                t = enc(rng, kind, gen_value(rng, tier), exact_only=rng.chance(2, 3))
                if (kind in FK or kind in GK) and rng.chance(1, 5):
                    # exponents that are multiples of 127 (2^127 = 1 in the hash field)
                    f = t.split(":")
                    f[-1] = hx(rng.choice([127, -127, 254, -254, 126, -126, 128, -128, -1, 127 * 9, -127 * 9]))
                    t = ":".join(f)
            out.append("hash %s" % t)
    # a share of the comparison cases also carries the libm table: the oracle then runs the bodies on the transcribed f32 estimators
    res = []
    for c in out:
        f = c.split(" ")
        if f[0] in ("ord", "abs", "cmp") and rng.chance(1, 3) and len(c) < 4000:
            res.append(" ".join([f[0] + "f"] + f[1:]))
        else:
            res.append(c)
    return res
