"""C10 - rounding to integers or to fewer digits picks the mathematically right neighbour."""
import os
import sys
import core
from core import hx

# coq/gen/RatioSmall.v (the six bodies of rational/src/round.rs impl Repr) and coq/gen/RoundPrimGen.v (Round::round_fract /
# round_ratio with the conditions of their assertions, Repr::smaller_than_one, the rounds-to-zero test of FBig::round) are
# regenerated from the Rust sources when this plug-in is imported, i.e. before the proof phase of every run.
# C10_rat_generated_bodies/_spec, C10_round_fract_generated, C10_round_fract_assertion_generated, C10_round_ratio_generated,
# C10_small_tests_generated prove the models equal to them; the oracle evaluates the regenerated bodies for the fidelity
# statistic of the rational cases and of round_fract_any / round_ratio_any.  Unparseable source is not an alarm: the previous
# copy stays (marked STALE), the status goes into the evidence and the correspondence run alone ties the models.
sys.path.insert(0, os.path.join(core.ROOT, "tools"))
try:
    import translate_c10_r3
    GEN_STATUS = translate_c10_r3.generate(core.REPO, os.path.join(core.COQ, "gen"))
except Exception as _ex:  # the generator itself broke: same fallback as an unparseable source
    GEN_STATUS = {"RatioSmall.v": "unparsed generator-failed: %s" % str(_ex)[:200],
                  "RoundPrimGen.v": "unparsed generator-failed: %s" % str(_ex)[:200]}

# round 4: coq/gen/RoundOpsGen.v - the BODIES of FBig::{trunc, split_at_point, split_at_point_internal, fract, ceil, floor, round}
# (round_ops.rs) and FBig::to_int / Repr::to_int (convert.rs), proved equal to the entry-point models
# (C10_entry_point_bodies_generated); the oracle evaluates them for the fidelity statistic of the float cases.
try:
    import translate_c10_r4
    GEN_STATUS.update(translate_c10_r4.generate(core.REPO, os.path.join(core.COQ, "gen")))
except Exception as _ex:
    GEN_STATUS["RoundOpsGen.v"] = "unparsed generator-failed: %s" % str(_ex)[:200]

GEN_TIED = {
    "RoundOpsGen.v": ("float/src/round_ops.rs FBig::{trunc, split_at_point(_internal), fract, ceil, floor, round}, convert.rs FBig::to_int, Repr::to_int, with_precision's condition, repr.rs Context::repr_round(_ref)",
                      "C10_entry_point_bodies_generated, C10_digit_removal_generated"),
    "RatioSmall.v": ("rational/src/round.rs impl Repr", "C10_rat_generated_bodies, C10_rat_generated_spec"),
    "RoundPrimGen.v": ("float/src/round.rs Round::{round_fract, round_ratio} incl. the repaired assertions (F04, F05), repr.rs smaller_than_one, round_ops.rs FBig::round",
                       "C10_round_fract_generated, C10_round_fract_assertion_generated, C10_round_ratio_generated, C10_small_tests_generated"),
}


def extra_phase(tier, seed, exes, oracle):
    hist, samples = {}, []
    for fname in sorted(GEN_STATUS):
        st = GEN_STATUS[fname]
        word = st.split(" ", 1)[0]
        hist["translator_c10:%s:%s" % (fname[:-2], word)] = 1
        src, thms = GEN_TIED.get(fname, ("?", "?"))
        samples.append({"fragment": "coq/gen/%s (tools/translate_c10_%s.py from %s)" % (fname, "r4" if fname == "RoundOpsGen.v" else "r3", src), "status": st,
                        "tied_by": thms if word == "ok" else "correspondence run only (source not parsed; previous copy marked STALE)"})
    return {"evaluations": 0, "hist": hist, "nontrivial": [], "samples": samples, "failures": []}


ID = "C10"
READY = True
ORACLE = "c10"
HARNESS_BIN = "c10"
NCASES = {"quick": 14000, "thorough": 300000}
CASE_TIMEOUT = {"quick": 30, "thorough": 120}
MODES = ["Zero", "Away", "Up", "Down", "HalfEven", "HalfAway"]
BASES = [2, 2, 3, 8, 10, 10, 10, 16, 36]

LEVEL_TEXT = ("Coq theorems for all inputs (100 pinned; every base B >= 2, every float, every digits_ub that never under-estimates): the as-is models "
              "of FBig::{trunc,floor,ceil,round,fract,split_at_point,to_int,with_precision}, Repr::to_int, split_at_point_internal / "
              "smaller_than_one return the neighbour of the exact value their definition names (spec_round under Zero/Down/Up/HalfAway/"
              "the type's mode), trunc + fract = x with |fract| < 1 and the sign of x, the Exact/NoOp/AddOne/SubOne flag is the true "
              "difference to the truncated value, round_fract's debug assertion holds at every call site; the rational "
              "ceil/floor/trunc/round/fract/split_at_point likewise (and the roundings depend on the value only, not on the reduction); "
              "round_fract/round_ratio equal spec_round for all six modes through the rounding tables regenerated from "
              "float/src/round.rs; the base-10 / power-of-two digit splitting of utils.rs equals truncating division by B^k. "
              "Round 3: (1) the PUBLIC entry points from assert_finite on (infinities = the documented panic; with_precision reaches the "
              "finiteness test only when it rounds; same-base conversion maps them to themselves) over ANY implementation rf of round_fract "
              "that agrees with the exact comparison below K digits (C10_entry_points, C10_with_precision_full) - and the f32 pre-filter of the "
              "code, with Flocq's binary32 arithmetic and any sound log2 bounds, IS such an implementation for K = 2^24 (C03's theorem cited: "
              "C10_f32_filter_admissible, C10_round_fract_flocq32, C10_to_int_f32), so the filter is no longer 'compared only'; "
              "(2) the six bodies of rational/src/round.rs, Round::round_fract / round_ratio with the conditions of their assertions, "
              "Repr::smaller_than_one and the rounds-to-zero test of FBig::round are REGENERATED from the Rust sources on every run "
              "(coq/gen/RatioSmall.v, RoundPrimGen.v) and proved equal to the models / the specification; (3) compositions: with_rounding + "
              "with_precision and with_base_and_precision to the same base are ONE rounding (new mode resp. any old precision); "
              "with_precision twice is two single roundings; for the four directed modes x.with_precision(np1).with_precision(np2), np2 <= np1, "
              "is the very float x.with_precision(np2) returns (same significand and exponent through the carry of the first rounding and the "
              "normalisation in between: C10_with_precision_twice_directed_eq; at integer level for any two positions: "
              "C10_directed_rounding_twice), NOT for the nearest modes (witnesses); (4) the primitives on arbitrary input: "
              "inside the precondition = specification, outside = assertion panic, precision 0 admits only a zero fraction, zero low part = NoOp, "
              "round_ratio's assertion is weaker than its documentation (|num| = |den| passes: right for the nearest modes, wrong for the "
              "directed ones - refuted by witness; documented precondition |num/den| < 1); a release build of round_fract answers outside the "
              "precondition (witness); (5) to_int: e >= 0 returns s * B^e (>= B^e: the documented allocation is the size of the result), e < 0 "
              "never exceeds |s|; with one zero digit after the point the six roundings depend on the sign only (C10_int_spec_tiny: the "
              "oracle's specification where B^(-e) cannot be formed). "
              "Round 4: (6) the debug assertion of round_fract formed B^precision before looking at the fraction, so FBig::to_int of a float far "
              "below one did not return / ran out of memory / panicked in builds with debug assertions (F04, repaired in /repo 0cb53f5: bit "
              "lengths first): the repaired assertion is the SAME condition for every input, any usize::MAX, any base >= 2 "
              "(C10_assertion_repair_same_condition, C10_round_fract_debug_repaired; regenerated from the source), the power is formed only when "
              "precision < bit_len(fract) and then has fewer than twice its bits, before the repair it had more than `precision` bits whatever the "
              "fraction (C10_assertion_cost, witness C10_assertion_cost_refuted); FBig::to_int with it is the specification at EVERY exponent "
              "(C10_to_int_any_exponent: no bound on the digit count; far below one half the primitive needs no power: "
              "C10_round_fract_far_below_half); (7) round_ratio's assertion admitted |num| = |den| against its documentation (F05, repaired in "
              "/repo 0c09fb1: is_lt): now the assertion IS the documented precondition and every answer is the specification's adjustment for "
              "all six modes (C10_round_ratio_repaired), the behaviour changed at |num| = |den| only, and every shape of argument the workspace "
              "passes (remainders, scaled remainders) satisfies it (C10_round_ratio_callers_pass); (8) the f32 pre-filter with 2^24 AND MORE digits: "
              "`precision as f32` is rounded there, and the coarse tests stay sound because the two ADJUST products of log2_bounds_large leave slack "
              "((1+u)^3 (1-4u) < 1-u, u = 2^-24): proved for Flocq's binary32 arithmetic, TypedReprRef::log2_bounds computed from ANY sound "
              "double-word bounds, every digit count, fractions of fewer than 2^34 bits (C10_f32_filter_large_abstract, "
              "C10_log2_bounds_large_slack, C10_f32_filter_all_digit_counts; composed with the entry points: C10_to_int_f32_any_exponent, "
              "C10_with_precision_f32_any); (9) Round::Reverse (table regenerated by C11, cited): a directed mode "
              "and its reverse return floor and ceiling of the exact value, a nearest mode is its own reverse (C10_reverse_mode_brackets); "
              "(10) the BODIES of FBig::{trunc, split_at_point, split_at_point_internal, fract, ceil, floor, round}, FBig::to_int, Repr::to_int, "
              "Context::repr_round / repr_round_ref and the condition under which with_precision rounds are regenerated from round_ops.rs / convert.rs / "
              "repr.rs on every run (coq/gen/RoundOpsGen.v) and proved equal to the entry-point models for every input, infinities included "
              "(C10_entry_point_bodies_generated, C10_digit_removal_generated); (11) the precision attached to every result follows the documented "
              "rule - an integer keeps it, otherwise the digits after the radix point are subtracted (saturating) or the result is a shortcut constant "
              "with precision 0, the fraction carries its digit count (C10_result_precisions; the oracle checks it on every answer). "
              "Every implementation answer is decided against the extracted specification.")
LEVEL_NOTE = ("Trusted: Coq kernel, translators (tools/translate.py: round_low_part bodies; tools/translate_c10_r3.py: rational round.rs bodies, "
              "round_fract / round_ratio bodies and assertions, smaller_than_one, FBig::round threshold - status in the evidence), extraction + FastZ.v, "
              "zarith, harness. IBig arithmetic below the float/rational layer is Z arithmetic (C01/C02/C09) and isize exponent arithmetic is Z "
              "arithmetic (one overflow found at isize::MIN and repaired, F03); digits_ub enters only through the contract 'never under-estimates' "
              "(C12 log2_bounds). The f32 pre-filter inside round_fract is covered by theorem for every digit count (below 2^24: C03's "
              "round_fract_flocq32 cited; from 2^24 on: C10_f32_filter_all_digit_counts, for fractions of fewer than 2^34 bits = 2 GiB, with "
              "64-bit words); its hypotheses are the soundness of the double-word and Word log2 bounds (C12/C14); FBig::to_int and with_precision are composed with it (C10_to_int_f32_any_exponent, C10_with_precision_f32_any: the primitive as "
              "written, any exponent / any number of removed digits, significands below 2^34 bits), ceil/floor/round never hand the primitive more digits "
              "than the significand has plus two and keep the K-form of round 3. "
              "The run reaches 2^24 .. 2^27 binary digits next to the tie in every tier (op round_fract_half) and bases 3/10/16/36 at 2^24 digits in "
              "the thorough tier. Still only compared: fractions of 2^34 bits and more (second-order rounding terms exceed the 0.001 margin of the literals: neither proved nor "
              "refuted, not reachable in the sandbox). Five defects were repaired in /repo (findings/C10.json F01 = DESIGN 5.1 #20, F02, F03 = "
              "isize::MIN negation, F04 = cost of the debug assertion, F05 = round_ratio's assertion); F01/F02 are refuted in Coq on the pinned model, "
              "F04 by its cost model, F05 by C10_round_ratio_boundary_directed_refuted on the model before the repair (round_ratio_pub, kept). "
              "The two statements that tie the regenerated assertion conditions to the models were restated for the repaired source "
              "(C10_round_fract_assertion_generated now takes 2 <= B and usize::MAX; C10_round_ratio_generated names round_ratio_pre4).")
TECHNIQUE = ("Coq proof (as-is models from the finiteness assertion on = spec_round; f32 filter by C03's Flocq theorem below 2^24 digits and by "
             "the slack of log2_bounds_large beyond; rounding tables, rational bodies, primitive bodies and (repaired) assertions regenerated from "
             "source) + extracted-spec correspondence run")
RULE = ("cases = FBig op {trunc,floor,ceil,round,fract,split,to_int,repr_to_int,with_precision} x base {2,3,8,10,16,36} x six modes x "
        "precision {0 (unlimited),1,2,3,4,5,7,10,17,40} x significand digits {1,2,p-1,p} x position of the radix point "
        "{integer, inside the digits at every offset, exactly at the top digit, 1,2,3,5,50,700 leading zeros} x digit patterns "
        "{exact half, half +-1 unit, all B-1 (carry), 1, 10..0, even/odd integer part, random} x sign; infinities at every entry point; "
        "exponents 5000..65537 (10^6 thorough) both ways for to_int, radix point 4001/6000 digits inside a long significand; "
        "exponents -10^7, -2^40, -(2^63-1), isize::MIN for every entry point (to_int included since F04); "
        "with_precision twice (second cut landing on a tie / carry of the first), with_rounding + with_precision (6 x 6 modes), "
        "with_base_and_precision to the same base; rationals {RBig, Relaxed} x {integers, ties n/2, |x|<1, planted common factors, "
        "multi-word}; the two primitives exhaustively for bases 2,3,10 (all fractions of up to 4/3/2 digits, integers -2..2, all modes; "
        "all ratios with |den| <= 8, both signs of den), randomly for large operands, and on arbitrary input (fraction = B^k, B^k +- 1, "
        "2 B^k, precision 0; den = 0, |num| = |den| (must be refused since F05), |num| > |den|; digit counts 2^24+1 .. usize::MAX with a short "
        "fraction, the size test of the repaired assertion at bit_len = k * floor(log2 B) -1/0/+1); to_int at exponents -10^7 .. isize::MIN (F04); "
        "fractions B^k / 2 + delta with k = 2^24 .. 2^27 digits (base 2; bases 3, 10, 16, 36 in the thorough tier). non-trivial = the value has a fractional part (a rounding decision "
        "was made); counted by the oracle over distinct case texts.")
EXPLANATION = ("Each answer is compared with the Coq specification: int_spec (spec_round of s*B^e under Zero/Down/Up/HalfAway or the "
               "type's mode; int_tiny where the power cannot be formed), fract_sig_spec (x - trunc x), to_int_spec / with_precision_spec (value "
               "and the flag relative to the truncated value), spec_round for rationals and for round_fract/round_ratio; infinities must give the "
               "documented panic; outside the primitives' preconditions the assertion must fire; a directed-mode with_precision chain must equal "
               "the single rounding. Result precisions must keep the value legal (digits <= precision or unlimited) and follow the documented rule (C10_result_precisions). Model fidelity is measured "
               "against the as-is entry points (*_full, under both admissible digits_ub instances) and, for the rationals and the primitives on "
               "arbitrary input, against the bodies and assertion conditions regenerated from the Rust sources (to_int against to_int_full4 with the "
               "sizes-first primitive round_fract_sz, which forms no power far below one half). At |num| = |den| round_ratio must refuse (F05).")
TRUSTED_BASE = [
    "Coq 8.16.1 kernel; Flocq (binary32 rounding, relative_error_N_FLT) through C03's theorem round_fract_flocq32 and Float/FilterLargeProof.v",
    "tools/translate_c10_r4.py renders the bodies of the nine entry points, repr_round(_ref) and with_precision's condition (fixed table of library calls: shr_digits = truncating division by B^k, split_digits(_ref) = Model.split_digits, shl_digits = multiplication by B^k - proved for base 10 / powers of two in RoundOpsDigits.v -, Repr::new = normalize, Context::new(p) = p, saturating_sub, Repr::digits = dlen, Repr::is_zero, Repr::sign, Context::is_limited)",
    "tools/translate.py renders the six round_low_part bodies of float/src/round.rs faithfully; tools/translate_c10_r3.py renders the bodies of rational/src/round.rs impl Repr, Round::round_fract / round_ratio and their assertion conditions, Repr::smaller_than_one and FBig::round's zero test (IBig / and % as Z.quot / Z.rem, a closure called once as its block, the two f32 tests as abstract predicates, IBig/Word::bit_len and usize::saturating_mul as fixed Gallina text) - status in the evidence",
    "extraction: ExtrOcamlBasic + ExtrOcamlZBigInt + coq/extract/FastZ.v directives; zarith 1.12; oracle/driver_c10.ml",
    "harness/src/bin/c10.rs and hlib (values moved through raw words, Repr::new, Context::new, FBig::from_repr, RBig/Relaxed::from_parts; round_fract_half builds B^k / 2 + delta with UBig::pow and a shift)",
    "IBig arithmetic below the float and rational layers behaves as Z (C01, C02, C09); Repr::digits_ub never under-estimates and UBig/Word::log2_bounds are sound (C12)",
]
ASSUMPTIONS = [
    "floats are legal: digits <= context precision, or the precision is 0 (unlimited); infinities are covered as the documented panic class",
    "primitives inside their documented precondition (|fract| < B^digits, |num| < |den|, den != 0) meet the specification; outside it only the assertion / the as-is model is checked",
    "fractions of fewer than 2^34 bits and 64-bit words for the theorem about the f32 pre-filter from 2^24 digits on (below 2^24 digits: any size)",
    "FBig::to_int with a non-negative exponent is run up to about 10^6 (memory of the exact integer); every entry point down to isize::MIN",
]


def ndigits(v, b):
    v = abs(v)
    d = 0
    while v:
        v //= b
        d += 1
    return d


def fcase(op, b, mode, p, s, e, *more):
    return "%s %x %s %x %s %s%s" % (op, b, mode, p, hx(s), hx(e), "".join(" %x" % m for m in more))


def digits_pattern(rng, b, n):
    """an n-digit string (as an integer < b^n, leading zeros allowed) from the edge patterns of a fraction"""
    if n <= 0:
        return 0
    full = b ** n
    half = full // 2
    k = rng.below(12)
    if k == 0:
        return half                      # exact half (even bases) / just below (odd)
    if k == 1:
        return half + 1
    if k == 2:
        return max(0, half - 1)
    if k == 3:
        return full - 1                  # .999..
    if k == 4:
        return 1                         # .000..1
    if k == 5:
        return b ** (n - 1)              # .1
    if k == 6:
        return (b // 2) * b ** (n - 1) + rng.below(b ** (n - 1)) if n > 1 else b // 2
    if k == 7:
        return 0
    return rng.below(full)


def int_pattern(rng, b, n):
    """an integer part with exactly n digits"""
    if n <= 0:
        return 0
    lo, hi = b ** (n - 1), b ** n - 1
    k = rng.below(8)
    if k == 0:
        return hi                        # carry into a new digit
    if k == 1:
        return lo
    if k == 2:
        return min(hi, lo + 1)
    if k == 3:
        return max(lo, hi - 1)
    return rng.range(lo, hi)


def gen_float_value(rng, tier, b, p):
    """(significand, exponent) with at most p digits (p = 0: any) in every position class of the radix point"""
    if p == 0:
        d = rng.choice([1, 2, 3, 5, 9, 20, 45])
    else:
        d = max(1, min(p, rng.choice([1, 2, p - 1, p, p, p])))
    k = rng.below(100)
    if k < 8:
        # integer
        s = int_pattern(rng, b, d)
        e = rng.choice([0, 0, 1, 2, 5, 40])
    elif k < 45 and d >= 2:
        # radix point inside the digits
        f = rng.choice([1, 1, 2, d - 1, d - 1, rng.range(1, d - 1)])
        f = max(1, min(d - 1, f))
        s = int_pattern(rng, b, d - f) * b ** f + digits_pattern(rng, b, f)
        e = -f
    elif k < 65:
        # |x| in [1/B, 1): radix point exactly at the top digit
        f = d
        s = digits_pattern(rng, b, f)
        if s == 0:
            s = b ** f // 2 if b ** f // 2 > 0 else 1
        e = -f
    else:
        # leading zeros after the radix point: 1, 2, 3 ... more than the precision ... far
        z = rng.choice([1, 1, 2, 2, 2, 3, 3, 4, 5, max(1, p - d), max(1, p - d + 1), p + 1, p + 2, 50, 700 if tier == "quick" else 2500])
        kk = rng.below(6)
        if kk == 0:
            s = b ** d - 1
        elif kk == 1:
            s = (b ** d) // 2 + rng.choice([0, 1, -1]) if d > 1 else max(1, b // 2)
        elif kk == 2:
            s = 1
        else:
            s = int_pattern(rng, b, d)
        if s <= 0:
            s = 1
        e = -(d + z)
    if s == 0 and rng.chance(3, 4):
        s = 1
    if rng.chance(1, 2):
        s = -s
    if rng.chance(1, 150):
        s = 0
    return s, e


FLOAT_OPS = ["trunc", "floor", "ceil", "round", "round", "fract", "split", "to_int", "to_int", "to_int", "repr_to_int"]
ALL_FLOAT_OPS = ["trunc", "floor", "ceil", "round", "fract", "split", "to_int", "repr_to_int"]


def gen_inf(rng, tier):
    """infinities at every entry point (documented panic; with_precision / same-base conversion as they are)"""
    b = rng.choice(BASES)
    p = precisions(rng, tier)
    sig = rng.choice(["inf", "-inf"])
    k = rng.below(10)
    if k < 6:
        return "%s %x %s %x %s 0" % (rng.choice(ALL_FLOAT_OPS), b, rng.choice(MODES), p, sig)
    np_ = rng.choice([0, 1, 2, max(0, p - 1), p, p + 1, 40])
    return "%s %x %s %x %s 0 %x" % (rng.choice(["with_precision", "with_precision", "wbp_same"]), b, rng.choice(MODES), p, sig, np_)


def gen_to_int_huge(rng, tier):
    """to_int / repr_to_int far from the radix point: e >= 0 allocates the result (s * B^e), e << 0 takes the
    smaller_than_one path with a digit count of the fraction in the hundred thousands (round_fract's debug assertion and,
    where the f32 filter does not decide, the exact comparison raise B to it)"""
    b = rng.choice(BASES)
    p = rng.choice([0, 1, 3, 17, 40])
    d = rng.choice([1, 2, 3, 5, 9, 20]) if p == 0 else max(1, min(p, rng.choice([1, 2, p])))
    s = int_pattern(rng, b, d)
    if s % b == 0:
        s += 1
    if rng.chance(1, 2):
        s = -s
    big = [5000, 20000, 65537] if tier == "quick" else [5000, 20000, 65537, 300000, 1000000]
    k = rng.below(4)
    if k == 0:
        e = rng.choice(big)                      # a huge integer
    elif k == 1:
        e = -rng.choice(big)                     # far below one: small path
    elif k == 2:
        e = -(d + rng.choice([4001, 9000]))      # small path, just a few thousand zeros
    else:
        # a long significand whose radix point sits thousands of digits inside it
        f = rng.choice([4001, 6000])
        s = int_pattern(rng, b, d) * b ** f + digits_pattern(rng, b, f)
        if s % b == 0:
            s += 1
        e = -f
        p = 0
    return fcase(rng.choice(["to_int", "to_int", "repr_to_int"]), b, rng.choice(MODES), p, s, e)


def gen_tiny(rng, tier):
    """exponents whose power of the base cannot be formed (down to isize::MIN): every entry point that does not reach
    round_fract's debug assertion (to_int does: it raises the base to the digit count in builds with debug assertions)"""
    b = rng.choice(BASES)
    p = rng.choice([0, 0, 1, 2, 3, 17, 40])
    d = rng.choice([1, 2, 3, 5, 9, 20]) if p == 0 else max(1, min(p, rng.choice([1, 2, p])))
    s = int_pattern(rng, b, d)
    if s % b == 0:
        s += 1
    if rng.chance(1, 2):
        s = -s
    e = rng.choice(["-%x" % (10 ** 7), "-%x" % (2 ** 40 + 1), "-%x" % (2 ** 63 - 1), "-%x" % (2 ** 63 - 2 - d), "min", "min", "min"])
    # to_int too since F04 (/repo 0cb53f5): the debug assertion of round_fract no longer raises the base to the digit count
    op = rng.choice(["trunc", "floor", "ceil", "round", "fract", "fract", "split", "repr_to_int", "to_int", "to_int", "to_int"])
    return "%s %x %s %x %s %s" % (op, b, rng.choice(MODES), p, hx(s), e)


def gen_compose(rng, tier):
    """with_precision twice, with_rounding + with_precision, conversion to the same base"""
    b = rng.choice(BASES)
    p = precisions(rng, tier)
    d = rng.choice([2, 3, 5, 9, 20, 45]) if p == 0 else max(1, min(p, rng.choice([2, 3, p - 1, p, p, p])))
    k = rng.below(10)
    mode = rng.choice(MODES)
    e = rng.choice([0, 0, 1, -1, -d, 7, -30, 300, -300])
    if k < 5:
        # two cuts: np2 <= np1 < d mostly; patterns that make the first rounding land on a tie / carry of the second
        np1 = max(1, rng.choice([d - 1, d - 1, d - 2, d // 2 + 1, d, d + 1]))
        np2 = max(0, rng.choice([np1 - 1, np1 - 1, np1 - 2, 1, np1, np1 + 1, 0]))
        keep2 = max(1, min(np2 if np2 > 0 else np1, d))
        mid = max(0, min(np1, d) - keep2)
        low = max(0, d - keep2 - mid)
        t = rng.choice([0, 0, 0, 0, 1, 1, 2, 3, 4, 5])
        if t == 0 and mid > 0 and low > 0:
            # ...4|4 9..9 -> first rounding gives ...45 (tie of the second)
            midv = (b ** mid) // 2 - 1 if b % 2 == 0 else (b ** mid) // 2
            s = (int_pattern(rng, b, keep2) * b ** mid + max(0, midv)) * b ** low + (b ** low - 1 - rng.below(2))
        elif t == 1 and mid > 0 and low > 0:
            s = (int_pattern(rng, b, keep2) * b ** mid + (b ** mid) // 2) * b ** low + rng.choice([0, 1, b ** low - 1])
        elif t == 2:
            s = b ** d - 1 - rng.below(3)            # 99..9: carries through both cuts
        else:
            s = int_pattern(rng, b, keep2) * b ** (mid + low) + digits_pattern(rng, b, mid + low)
        if s <= 0:
            s = 1
        if rng.chance(1, 2):
            s = -s
        return fcase("wp2", b, mode, p, s, e, np1, np2)
    np_ = max(0, rng.choice([0, 1, 2, d - 2, d - 1, d - 1, d, d + 1, p, p + 1]))
    keep = min(d, np_) if np_ > 0 else d
    drop = d - keep
    s = int_pattern(rng, b, keep) * b ** drop + digits_pattern(rng, b, drop) if drop > 0 else int_pattern(rng, b, d)
    if rng.chance(1, 2):
        s = -s
    if k < 8:
        return "wr_wp %x %s %s %x %s %s %x" % (b, mode, rng.choice(MODES), p, hx(s), hx(e), np_)
    return fcase("wbp_same", b, mode, p, s, e, np_)


def gen_prim_any(rng, tier):
    """the two primitives on arbitrary input: inside / at the edge of / outside their preconditions"""
    mode = rng.choice(MODES)
    i = rng.choice([0, 0, 1, -1, 2, -2, 3, -3, 2 ** 64, -(2 ** 64), rng.bits(70), -rng.bits(70)])
    t = rng.below(10)
    if t < 2:
        # the repaired debug assertion of round_fract (F04): digit counts up to usize::MAX with a short fraction (sizes
        # decide, no power), and the boundary of the size test blen(f) <= k * floor(log2 B) at -1/0/+1 (power formed)
        b = rng.choice(BASES)
        kb = b.bit_length() - 1
        if rng.chance(1, 2):
            k = rng.choice([2 ** 24 + 1, 2 ** 32, 2 ** 40 + 7, 2 ** 63 - 1, 2 ** 63, 2 ** 64 - 1, (2 ** 64 - 1) // kb, min(2 ** 64 - 1, (2 ** 64 - 1) // kb + 1)])
            f = rng.choice([1, 2, b - 1, b, rng.bits(64), rng.bits(200), 2 ** 127, 2 ** 128 + 1])
        else:
            k = rng.choice([1, 2, 3, 5, 20, 64, 200])
            f = rng.choice([2 ** (k * kb) - 1, 2 ** (k * kb), 2 ** (k * kb) + 1, 2 ** (k * kb - 1), b ** k - 1, b ** k, b ** k + 1,
                            b ** k // 2, b ** k // 2 + 1, 2 ** (k * kb + 1) - 1])
        if rng.chance(1, 2):
            f = -f
        return "round_fract_any %x %s %s %s %x" % (b, mode, hx(i), hx(f), k)
    if t < 6:
        b = rng.choice(BASES)
        k = rng.choice([0, 0, 0, 1, 1, 2, 3, 5, 20, 64])
        full = b ** k
        f = rng.choice([0, 1, full - 1, full, full + 1, full // 2, full // 2 + 1, 2 * full, full * b, rng.below(2 * full + 2)])
        if rng.chance(1, 2):
            f = -f
        return "round_fract_any %x %s %s %s %x" % (b, mode, hx(i), hx(f), k)
    d = rng.choice([0, 1, 1, 2, 3, 4, 6, 10, 2 ** 64, 2 ** 64 + 1, 2 ** 128, rng.bits(100) + 2])
    n = rng.choice([0, 1, d, d, d + 1, d - 1 if d > 0 else 0, d // 2, 2 * d, rng.below(2 * d + 2)])
    if rng.chance(1, 2):
        n = -n
    if rng.chance(1, 2):
        d = -d
    return "round_ratio_any %s %s %s %s" % (mode, hx(i), hx(n), hx(d))



def gen_half_large(rng, tier):
    """fractions next to B^k / 2 with k >= 2^24 digits (built by the harness): `precision as f32` is rounded there and the
    f32 pre-filter of round_fract relies on the slack of log2_bounds_large (C10_f32_filter_all_digit_counts); base 2 is
    cheap (a shift), the other bases cost seconds per case and come in the thorough tier only"""
    mode = rng.choice(MODES)
    i = rng.choice([0, 1, -1, 2, -2, 7])
    delta = rng.choice([0, 0, 1, -1, 2, -2, 1 << 64, -(1 << 64), rng.bits(100), -rng.bits(100)])
    sg = rng.choice("+-")
    if tier == "thorough" and rng.chance(1, 3):
        b = rng.choice([3, 10, 16, 36])
        k = rng.choice([2 ** 24, 2 ** 24 + 1, 2 ** 24 + 3])
    else:
        b = 2
        k = rng.choice([2 ** 24 - 1, 2 ** 24, 2 ** 24 + 1, 2 ** 24 + 3, 2 ** 25 + 1, 2 ** 25 + 2, 2 ** 26 + 5, 2 ** 27 + 11, 33554435, 50331653])
    return "round_fract_half %x %s %s %x %s %s" % (b, mode, hx(i), k, hx(delta), sg)


def precisions(rng, tier):
    c = [0, 0, 1, 1, 1, 2, 2, 2, 3, 3, 4, 5, 7, 10, 17, 40]
    if tier == "thorough":
        c += [100, 300, 1000]
    return rng.choice(c)


def gen_float(rng, tier):
    b = rng.choice(BASES)
    p = precisions(rng, tier)
    s, e = gen_float_value(rng, tier, b, p)
    return fcase(rng.choice(FLOAT_OPS), b, rng.choice(MODES), p, s, e)


def gen_with_precision(rng, tier):
    b = rng.choice(BASES)
    p = precisions(rng, tier)
    d = rng.choice([1, 2, 3, 5, 9, 20, 45]) if p == 0 else max(1, min(p, rng.choice([1, 2, p - 1, p, p, p])))
    np_ = max(0, rng.choice([0, 1, 1, 2, d - 2, d - 1, d - 1, d - 1, d, d + 1, p - 1, p, p + 1, max(1, d // 2)]))
    keep = min(d, np_) if np_ > 0 else d
    drop = d - keep
    if drop > 0:
        s = int_pattern(rng, b, keep) * b ** drop + digits_pattern(rng, b, drop)
    else:
        s = int_pattern(rng, b, d)
    if rng.chance(1, 2):
        s = -s
    if rng.chance(1, 100):
        s = 0
    e = rng.choice([0, 0, 1, -1, -d, 7, -30, 300, -300])
    return fcase("with_precision", b, rng.choice(MODES), p, s, e, np_)


def gen_rat(rng, tier):
    k = rng.below(10)
    if k < 4:
        d = rng.choice([1, 2, 2, 3, 4, 6, 7, 10, 16, 100, 2 ** 64, 2 ** 64 + 2, 2 ** 127, 3 ** 50])
        n = rng.choice([0, 1, d // 2, d // 2 + 1, max(0, d // 2 - 1), d - 1, d, d + 1, 3 * d // 2, 3 * d // 2 + 1, 5 * d // 2, 7 * d, rng.below(4 * d + 1)])
    elif k < 7:
        d = abs(core.gen_int(rng, tier, signed=False)) or 1
        n = abs(core.gen_int(rng, tier, signed=False))
        t = rng.below(5)
        if t == 0:
            n = n * d                         # an integer
        elif t == 1 and d % 2 == 0:
            n = (2 * rng.below(1000) + 1) * (d // 2)   # a tie
        elif t == 2:
            n = n * d + rng.choice([1, d - 1, d // 2, d // 2 + 1])
    else:
        d = rng.range(1, 40)
        n = rng.range(0, 5 * d)
    if rng.chance(1, 3):
        g = rng.choice([2, 3, 4, 6, 2 ** 64, 10 ** 20])   # planted common factor
        n, d = n * g, d * g
    if rng.chance(1, 2):
        n = -n
    op = rng.choice(["trunc", "floor", "ceil", "round", "round", "fract", "split"])
    return "%s%s %s %s" % (rng.choice("rx"), op, hx(n), hx(d))


def gen_prim(rng, tier):
    mode = rng.choice(MODES)
    i = rng.choice([0, 0, 1, -1, 2, -2, 3, -3, 2 ** 64, -(2 ** 64), 2 ** 64 - 1, -(2 ** 64 - 1), rng.bits(70), -rng.bits(70)])
    if rng.chance(1, 2):
        b = rng.choice(BASES)
        k = rng.choice([0, 1, 2, 3, 5, 19, 20, 39, 64, 200])
        f = digits_pattern(rng, b, k)
        if rng.chance(1, 2):
            f = -f
        return "round_fract %x %s %s %s %x" % (b, mode, hx(i), hx(f), k)
    d = rng.choice([1, 2, 3, 4, 6, 10, 2 ** 64, 2 ** 64 + 1, 2 ** 64 + 2, 2 ** 128, rng.bits(100) + 2])
    n = rng.choice([0, 1, d // 2, d // 2 + 1, max(0, d // 2 - 1), d - 1, rng.below(d)])
    if n >= d:
        n = d - 1
    if rng.chance(1, 2):
        n = -n
    if rng.chance(1, 2):
        d = -d
    return "round_ratio %s %s %s %s" % (mode, hx(i), hx(n), hx(d))


def exhaustive_prims():
    out = []
    ints = [-2, -1, 0, 1, 2]
    for b, kmax in ((2, 4), (3, 3), (10, 2)):
        for k in range(0, kmax + 1):
            lim = b ** k
            for f in range(-lim + 1, lim):
                for i in ints:
                    for m in MODES[:6]:
                        out.append("round_fract %x %s %s %s %x" % (b, m, hx(i), hx(f), k))
    for d in range(1, 9):
        for sd in (1, -1):
            for n in range(-d + 1, d):
                for i in ints:
                    for m in MODES:
                        out.append("round_ratio %s %s %s %s" % (m, hx(i), hx(n), hx(sd * d)))
    return out


def valid(text):
    """the property's premise; also used by the shrinker"""
    t = text.split()
    op = t[0]
    if op == "round_fract":
        b, k = int(t[1], 16), int(t[5], 16)
        return abs(core.unhx(t[4])) < b ** k
    if op == "round_ratio":
        n, d = core.unhx(t[3]), core.unhx(t[4])
        return d != 0 and abs(n) < abs(d)
    if op in ("round_fract_any", "round_ratio_any", "round_fract_half"):
        return True
    if op[0] in "rx" and op not in ("round", "repr_to_int"):
        return core.unhx(t[2]) > 0
    if op == "wr_wp":
        t = t[:2] + t[3:]
    if t[4] in ("inf", "-inf"):
        return True
    b, p = int(t[1], 16), int(t[3], 16)
    s = core.unhx(t[4])
    while s != 0 and s % b == 0:
        s //= b
    return p == 0 or ndigits(s, b) <= p


def gen_cases(rng, tier, n):
    out = exhaustive_prims()
    seen = set(out)
    tries = 0
    total = len(out) + n
    while len(out) < total and tries < 10 * n + 1000:
        tries += 1
        k = rng.below(100)
        if k < 50:
            c = gen_float(rng, tier)
        elif k < 61:
            c = gen_with_precision(rng, tier)
        elif k < 73:
            c = gen_rat(rng, tier)
        elif k < 80:
            c = gen_prim(rng, tier)
        elif k < 90:
            c = gen_compose(rng, tier)
        elif k < 96:
            c = gen_prim_any(rng, tier)
        elif k < 98:
            c = gen_inf(rng, tier)
        elif k < 99:
            c = gen_tiny(rng, tier)
        elif rng.chance(1, 12 if tier == "quick" else 10):
            c = gen_half_large(rng, tier)
        else:
            c = gen_to_int_huge(rng, tier)
        if c in seen or not valid(c):
            continue
        seen.add(c)
        out.append(c)
    return out
