"""C05 - equality, ordering and hashing follow the mathematical value in every type."""
import os
import sys
import core
from core import hx, gen_int, gen_mag

# coq/gen/CmpGen.v (the whole bodies of FBig::eq, repr_cmp_same_base, rational repr_eq / repr_cmp, RBig::eq / abs_eq / hash,
# the const ABS and arguments of every forwarding impl, the derive lists) and coq/gen/DigitsEstGen.v (the arms of
# Repr::digits_ub / digits_lb) are regenerated from the Rust sources when this plug-in is imported, i.e. before the proof
# phase of every run.  Float/FloatOrdDispatch.v, Ratio/RatioOrdGen.v, Float/DigitsUbProof.v prove C05's theorems over the
# generated definitions and the oracle replays the generated bodies (asis).  Unparseable source is not an alarm: the
# previous copy stays (marked STALE), the status goes into the evidence and the correspondence run alone ties the models.
sys.path.insert(0, os.path.join(core.ROOT, "tools"))
try:
    import translate_c05_r3
    GEN_STATUS = translate_c05_r3.generate(core.REPO, os.path.join(core.COQ, "gen"))
except Exception as _ex:  # the generator itself broke: same fallback as an unparseable source
    GEN_STATUS = {"CmpGen": "unparsed generator-failed: %s" % str(_ex)[:200], "DigitsEstGen": "unparsed generator-failed"}

# round 4: coq/gen/HashGen.v (Repr::hash order, Sign discriminants, derive lists, TypedReprRef::cmp, IBig::cmp, the table of
# comparison impls of integer/src/cmp.rs) - proved equal to the models in Int/HashSeqProofs.v, replayed by the oracle
try:
    import translate_c05_r4
    GEN_STATUS.update(translate_c05_r4.generate(core.REPO, os.path.join(core.COQ, "gen")))
except Exception as _ex:
    GEN_STATUS["HashGen"] = "unparsed generator-failed: %s" % str(_ex)[:200]

GEN_TIES = {
    "HashGen": "C05_repr_hash_gen_is_model, C05_sign_disc_gen_is_model, C05_int_derive_lists, C05_typed_cmp_gen_is_model, "
               "C05_ibig_cmp_gen_is_model, C05_int_cmp_impl_table",
    "CmpGen": "C05_fbig_eq_gen_is_model, C05_repr_cmp_gen_is_model, C05_q_repr_eq_gen_is_model, C05_q_repr_cmp_gen_is_model, "
              "C05_rbig_gen_is_model, C05_derive_lists, C05_no_structural_hash, C05_fbig_ord_any_context, C05_relaxed_by_value",
    "DigitsEstGen": "C05_digits_ub_contract, C05_digits_ub_hypothesis, C05_digits_ub32_is_gen, C05_float_cmp_with_f32_estimate",
}


def extra_phase(tier, seed, exes, oracle):
    hist, samples = {}, []
    for name in sorted(GEN_STATUS):
        st = GEN_STATUS[name]
        word = st.split(" ", 1)[0]
        hist["TRANSLATOR_C05:%s:%s" % (name, word)] = 1
        samples.append({"fragment": ("coq/gen/%s.v (tools/translate_c05_r4.py from integer/src/repr.rs, cmp.rs, ubig.rs, ibig.rs, base/src/sign.rs)" % name)
                                    if name == "HashGen" else
                                    "coq/gen/%s.v (tools/translate_c05_r3.py from float/src/cmp.rs, float/src/repr.rs, "
                                    "rational/src/cmp.rs, rational/src/rbig.rs)" % name,
                        "status": st,
                        "tied_by": GEN_TIES[name] if word == "ok" else "correspondence run only (source not parsed; previous copy marked STALE)"})
    res = {"evaluations": 0, "hist": hist, "nontrivial": [], "samples": samples, "failures": []}
    w32_phase(tier, seed, oracle, res)
    return res


def w32_phase(tier, seed, oracle, res):
    """round 4: the integer-level cases (values along routes with their Hash call sequences, every comparison impl, single
    operations with their layout, radix parsing) on the force_bits="32" build: the theorems are for every word size, the
    hash call sequence DEPENDS on it (C05_hash_depends_on_word_size) - the oracle evaluates the same extracted models at
    w = 32 (the harness marks its answers W20)."""
    global W
    try:
        exe, out = core.harness_build(HARNESS_BIN, "w32")
    except Exception as ex:
        exe, out = None, str(ex)
    if exe is None:
        res["failures"].append({"kind": "w32-harness-build-failed", "detail": (out or "")[-800:]})
        return
    rng = core.Rng((seed or 0) ^ 0x32053205)
    n = 500 if tier == "quick" else 12000
    W = 32
    try:
        cases = []
        while len(cases) < n:
            k = rng.below(10)
            cases.append(int_case(rng, tier) if k < 5 else rat_case(rng, tier) if k < 7 else iop_case(rng, tier) if k < 9 else ipar_case(rng, tier))
    finally:
        W = 64
    cases = list(enumerate(W32_CORPUS + cases))
    timeout = CASE_TIMEOUT.get(tier, 30)
    answers = core.run_sharded(exe, cases, case_timeout=timeout)

    def marked(ans):  # panics carry no word-size mark (the shared line protocol writes them): this run knows its build
        return ans if ans.split()[-1:] == ["W20"] or not ans.startswith("panic") else ans + " W20"
    verdicts = core.run_sharded(oracle, [(i, "%s => %s" % (t, marked(answers.get(i, "noanswer")))) for i, t in cases], case_timeout=max(timeout, 60))
    res["evaluations"] += len(cases)
    hist = res["hist"]
    for i, t in cases:
        v = verdicts.get(i, "noverdict")
        toks = v.split()
        verdict = toks[0] if toks else "noverdict"
        kv = dict(x.split("=", 1) for x in toks[1:] if "=" in x)
        op = t.split(" ", 1)[0]
        hist["W32:op:" + op] = hist.get("W32:op:" + op, 0) + 1
        if "asis" in kv:
            hist["W32:asis:" + kv["asis"]] = hist.get("W32:asis:" + kv["asis"], 0) + 1
        if kv.get("nt", "1") == "1" and verdict == "pass":
            res["nontrivial"].append("w32 " + t)
        ans = answers.get(i, "")
        bad = None
        if verdict not in ("pass", "skip"):
            bad = "verdict " + v[:200]
        elif kv.get("asis") == "diff":
            bad = "model (w = 32) differs from the implementation"
        elif ans.startswith("ok") and ans.split()[-1] != "W20":
            bad = "answer not marked W20: the harness was not built with 32-bit words"
        if bad and len(res["failures"]) < 5:
            res["failures"].append({"kind": "w32", "config": "w32", "case": t[:2000], "impl": ans[:2000], "oracle": v[:300], "why": bad})
    res["samples"].append({"w32_cases": len(cases), "asis_same": hist.get("W32:asis:same", 0), "asis_diff": hist.get("W32:asis:diff", 0)})


# 32-bit corpus: 2^32 needs two words there (one on 64 bits: the hash call sequences differ), 2^64 is the inline/heap border
W32_CORPUS = [
    "uint 2 100000000 words 0 100000000 shlr 20",
    "uint 2 ffffffffffffffff ones 40 10000000000000000 addsub 1",
    "int 2 -10000000000000000 parts 0 -ffffffffffffffff addsub -1",
    "rbig 2 100000001 10000000000000001 parts 0 100000001 10000000000000001 scaled 3",
    "rlx 2 0 7 sub_int 1 0 1 parts 0",
    "iop gcd 1000000000000000000000000 -10000000000000000",
    "iop sqrtrem ffffffffffffffffffffffffffffffff 0",
    "iop pow -100000001 5",
    "ipar i a x2d31383434363734343037333730393535313631365f30",
]


ID = "C05"
READY = True
ORACLE = "c05"
HARNESS_BIN = "c05"
NCASES = {"quick": 8500, "thorough": 170000}
CASE_TIMEOUT = {"quick": 30, "thorough": 90}
SHRINK = False  # the values of a case are tied to their route parameters (ones n, masks, ...): shrinking one breaks the case

LEVEL_TEXT = ("Machine-checked Coq theorems over faithful models of the comparison code: (integers) on canonical representations "
              "Repr == is equality of values, the TypedReprRef order with its Small<Large shortcut is Z.compare, Equal iff ==, equal "
              "values feed the hasher the same input, and every constructor (from_word/from_dword/from_buffer/ones/neg/with_sign/"
              "clone/clone_from/from_ref) returns a canonical representation; the as-is operator models proved exact elsewhere (C01: "
              "IBig + - * sqr cubic and UBig - in every ownership form; C09: & | ^ and_not << >> set_bit clear_bit), composed with "
              "Repr::as_sign_typed / from_typed / with_sign, return a canonical representation of the right value for every word size "
              ">= 8 and all operands (C01's signed results are never a negative zero, so the stored sign is the computed one); any "
              "integer computed at value level and stored through from_buffer/with_sign is canonical; all of it lifted by induction to every finite history mixing constructors, copies, sign changes, "
              "in-place updates and arithmetic (any two values of such a history compare, equal and hash by value); (floats) "
              "repr_cmp_same_base with its digit shortcut equals the order of the values for all bases, precisions and "
              "admissible digit estimates (the precision shortcut of the pinned tree, unsound for significands with precision+2 or more "
              "digits, is modelled separately, refuted, and was repaired), == is value equality on normalised representations, "
              "normalize establishes the invariant for every base (all three branches; proved equal to C03's model of Repr::new), the "
              "specification order is a total order; every modelled producer returns a normalised representation for every base, "
              "precision, mode and input - Repr::new, Context::repr_round, FromStr (C08's parser model, every accepted text), Context::convert_base on all its modelled routes (same base, power-up, "
              "power-down, multiplication, division by repr_div and by the long division: C08's model), with_precision (C08's and "
              "C10's models), Context::mul/sqr/cubic (C03), trunc/fract/split_at_point/ceil/floor/round (C10), negation, the "
              "infinities - hence == is value equality and cmp = Equal iff == on anything they return (C05_float_eq_sound_on_producers); "
              "(rationals) repr_eq/repr_cmp with their bit-length filters equal cross multiplication (the second filter of repr_cmp is "
              "proved dead code), RBig's structural ==/Hash is sound on reduced fractions. ROUND 3: (integers) the rest of the operator "
              "surface at Repr level - DivRem/Div/Rem of magnitudes through C02's TRANSCRIBED kernels (two-word primitives, by word, by "
              "double word, Knuth D, Burnikel-Ziegler over C01's multiplier; nothing assumed), the seven signed division forms through the "
              "regenerated sign tables (panic exactly on a zero divisor), & | ^ ! << >> on IBig of either sign (C09's as-is kernels) - "
              "return a canonical representation of the value the property demands for every word size >= 8 and all operands; a "
              "canonical value is inline exactly when its magnitude fits a double word; the history theorem now ranges over all of "
              "these (C05_full_history_values_compare: ==, cmp, abs_cmp, abs_eq, hash input by value for any two values of any finite "
              "history); (floats) Context::add/sub and the four operator bodies, div, inv, sqrt, FBig * /, FBig op primitive (C03's "
              "models) end in Repr::new, which is idempotent on normalised pairs: their results are normalised, two routes to one finite "
              "value give the SAME Repr; the whole bodies of FBig::eq and repr_cmp_same_base are REGENERATED from float/src/cmp.rs on "
              "every run and proved equal to the as-is models for all inputs, with the const ABS and the arguments of every forwarding "
              "impl: PartialOrd between any two rounding modes, Ord, AbsOrd of FBig and Ord of Repr read only the two Reprs, so they are "
              "the value order for any precisions and modes (C05_fbig_ord_any_context, C05_fbig_cmp_ignores_context); FBig and Relaxed "
              "have no Hash impl (regenerated fact; NumHash is C14's); (rationals) repr_eq, repr_cmp, RBig::eq/abs_eq/hash regenerated "
              "whole and proved equal to the models; Relaxed (derives ==/Ord from Repr) compares by value on ANY representation "
              "(= Qeq_bool / Qcompare, invariant under scaling by a common factor), RBig's structural == agrees with it on reduced "
              "fractions, Equal iff ==, equal values hash alike; (digit estimate) the hypothesis |sig| < B^(digits_ub+1) of the float "
              "theorems is now a THEOREM for the f32 code of Repr::digits_ub (arms regenerated from float/src/repr.rs, Flocq binary32 "
              "multiplication/division, saturating cast): for EVERY log2 estimator meeting C12's contract (finite upper bound >= log2|sig|, "
              "base lower bound in [1/2, log2 B]) and every significand below B^(2^24), even |sig| < B^digits_ub "
              "(core::f32::consts::LOG10_2 >= log10 2 proved with CoqInterval's exp on plain Z); hence repr_cmp_same_base run with that "
              "estimate is the value order (C05_float_cmp_with_f32_estimate). The models are tied to the code by a "
              "correspondence run that reads the real layout through a hook, checks canonical layout / normalisation / reducedness of "
              "every value built (the booleans evaluated are proved equivalent to the invariants) and replays the extracted models. "
              "ROUND 4: (integers) gcd, gcd_ext, sqrt, sqrt_rem, nth_root, pow and from_str_radix at Repr level: the dispatch of "
              "gcd_ops.rs / root_ops.rs on the typed view, the reduction of a large operand by a word / double word (Bezout identity "
              "of gcd_ext_word / gcd_ext_dword proved), the signs of IBig::gcd_ext / nth_root, composed with C12's as-is models (Lehmer "
              "gcd and extended gcd, the Karatsuba square root with its pre/post shift, Newton, the primitive u8..u128 routines), C01's "
              "WORD-LEVEL model of pow.rs (total: never fails) and C07's word-level parser, return a canonical representation of the "
              "gcd / Bezout cofactors / root (certificate) / power / parsed value for every word size >= 8 (sqrt: the widths 8..64 the "
              "primitive routines exist for); the history theorem ranges over these too (C05_producer_history_values_compare); the "
              "bodies of TypedReprRef::cmp (with the Small < Large shortcut) and IBig::cmp, the order of the fields Repr::hash feeds, the "
              "discriminants of Sign, the derive lists of UBig / IBig / Sign and the table of comparison impls of integer/src/cmp.rs are "
              "REGENERATED on every run and proved equal to the models: UBig and IBig have no == / < / cmp against each other or against "
              "primitives, every mixed AbsOrd / AbsEq impl reads the two magnitudes only; (hashing) Hash::hash of UBig / IBig / RBig as "
              "the sequence of Hasher calls - write_isize(discriminant of the sign), write_usize(number of words: the length prefix of a "
              "slice), ONE write of all words in native byte order, numerator then denominator for RBig: equal values make identical "
              "call sequences, so ANY hasher (any state type and methods, any starting state) ends in the same state and hash, for "
              "every word size and both byte orders; the sequence determines the value; and it DEPENDS ON THE WORD SIZE - for every "
              "non-zero value the sequences of two builds with different word sizes differ (C05_hash_depends_on_word_size): the hash "
              "of a big integer is not a cross-build constant (nor byte-order independent); (floats) the replayed producer of Context::"
              "add/sub/mul/div/inv/sqrt/sqr/cubic now IS C03's model of the repaired code with every Repr::new (C05_fprod_is_c03_model; "
              "the private Context::div model of round 3 is dropped), and C11's as-is models of powi, exp, exp_m1, ln, ln_1p, powf "
              "return normalised representations for every base, precision, mode, operand, fuel and f32 estimate layer "
              "(C05_float_elem_normalized), so == / cmp follow the value on everything they return (C05_float_eq_sound_on_producers3).")
LEVEL_NOTE = ("Trusted: Coq kernel, extraction (FastZ.v), zarith, the harness and the thin OCaml driver. Modelled, not verified: the Rust "
              "sources. Only compared at run time, not proved: (a) integer results of byte conversion, ilog / remove, the modular ring, and "
              "the buffer a gcd / root / division leaves WORD BY WORD: gcd, gcd_ext, sqrt, sqrt_rem, nth_root, from_str_radix, division and the "
              "signed bit operators reach the Repr through the generic last step (store_fit = from_buffer + with_sign on the value the cited "
              "as-is model returns) - their canonicity is a theorem, the value is the cited theorem of C12 / C07 / C02 / C09, stated for the "
              "answers the models give (C12's models are partial: `= Ok r` is a premise; pow is total); the op `iop` / `ipar` compares value, "
              "length and inline flag of every output with the composed model on each run, on the 64-bit and on the force_bits=32 build; "
              "coefficient ranges of the primitive gcd_ext (SignedDoubleWord) are not modelled; "
              "(b) f32/f64 and rational sources of floats (normalisation checked per case on their routes); that the pair C03's model "
              "returns is what the code hands to Repr::new is compared, not proved: the op `fprod` replays fprod_asis (C03's models of the "
              "repaired Context::add/sub/mul/div/inv/sqr/cubic and of sqrt with every Repr::new inside; proved normalised, and proved to "
              "be C03's model itself on stored operands) with the digit estimates the run reports and compares significand, exponent and "
              "flag with the Repr the library returned - fidelity 100 %; exp / ln / powi / powf: C11's check establishes the fidelity of "
              "Float/ElemAsis.v, here their results are proved normalised and each case on these routes is checked for normalisation; the "
              "ln/exp route of convert_base (|exponent| > 38) is C08's model, not cited here; (c) the log2 estimators themselves (C12's "
              "property; the op `dub` checks the two hypotheses of C05_digits_ub_contract on the reported f32 estimates of every case) and "
              "significands of B^(2^24) or more; (d) hashing: that core's `impl Hash for [u64]` is write_length_prefix (= write_usize) plus ONE "
              "write of the native-endian bytes and that derive(Hash) on Sign hashes the discriminant as isize are facts of the Rust "
              "standard library, transcribed in Int/HashSeqModel.v and compared on every uint / int / rbig case with a recording Hasher "
              "that overrides EVERY method of the trait (64-bit and 32-bit words, little endian only: the big-endian branch of the model is "
              "never run). Regenerated bodies: if float/src/cmp.rs, float/src/repr.rs, rational/src/cmp.rs, integer/src/cmp.rs or "
              "integer/src/repr.rs is rewritten outside the translators' grammar the last good copy of coq/gen/CmpGen.v / DigitsEstGen.v / "
              "HashGen.v is kept (status `unparsed` in the evidence) and the correspondence run alone ties the models. No open finding: "
              "ones(2*word bits) on the heap and the float precision shortcut were repaired in /repo.")
TECHNIQUE = ("Coq proof over as-is models of the comparison/representation/hashing code (comparison bodies of all three crates, the Hash "
             "field order and the digit-estimate arms regenerated from the Rust source on every run) + extracted-model correspondence run "
             "with layout hook and recording Hasher, on 64-bit and 32-bit word builds")
RULE = ("cases = 2 or 3 values each produced along a route (from_words, padded words, +/- cancel in three operator forms, shifts, "
        "mul/div, div_rem, rem, clone, clone_from into larger/smaller buffers, bytes, radix text, ones, primitives, via IBig, bit set/clear, "
        "split_bits, masks; floats: from_repr, from_parts, scaled significands, with_precision, arithmetic at unlimited precision, "
        "convert_int, infinities, base conversions for every class of base pair (source a proper power of the target: 4,8,16,32->2, "
        "9,27->3, 100,1000->10, 256->16 with significands divisible by the target but not the source base; target a power of the "
        "source; same base; unrelated) x every public route (with_base, with_base_and_precision, to_binary, to_decimal) x "
        "precisions around the exact digit count and unlimited, each compared with the same value built directly, a second "
        "conversion route and neighbours; producers whose raw result carries trailing digits (cofactor products, exact "
        "quotients and roots, trunc/floor/ceil/round/split/fract of x + fraction, parsing with trailing zeros, f32/f64, integers, "
        "RBig::to_float) and really rounded + - * / sqr cubic sqrt powi inv exp ln_1p results (invariants and comparisons only); rationals: from_parts, signed, const, scaled by a common factor, arithmetic, "
        "canonicalize) x value classes {0, 1, 2, 3, 4, threshold+-1 words, 2^64k +- 1, all-ones} x relations {same value, +-1, negated, "
        "other length, shortcut boundaries exp+precision+{-1..2}, exp+digits+{-1..1}, bit-length filter edges} x all pairs compared with "
        "every impl (==, !=, cmp, partial_cmp, <, <=, >, >=, abs_cmp, abs_eq, mixed IBig/UBig and RBig/Relaxed forms, Hash input). "
        "Round 3: op iop = one operation (IBig / % div_rem and the Euclidean forms, UBig div_rem/div/rem, & | ^ in the four ownership "
        "forms, ! on value and reference, >> << on value and reference) x operands {edges, 1..5 words, either sign} x relations "
        "{zero divisor, quotient of exactly 2/3 words, exact and nearly exact division, equal / negated / complemented operands, masks at "
        "word boundaries, shifts down to exactly 2/3 words and past the top bit}: value against the specification, layout canonical, and "
        "value/length/inline flag against the composed Repr-level model; op dub = Repr::digits_ub / digits_lb for bases 2, 3, 7, 10, 16, "
        "100, 65535 x significands {B^k - 1, B^k, B^k + 1 for k up to 3000 (20000 thorough), 1..40 random words, 2^k +- 1}: "
        "|sig| < B^digits_ub, digits_lb <= digits, the reported estimates meet the contract, and the regenerated arms on Flocq's binary32 "
        "reproduce digits_ub bit for bit; op fprod = Context::<mode>::new(p).{add, sub, mul, div, inv, sqrt, sqr, cubic} on normalised "
        "Reprs for bases 2, 3, 10, 16 x six modes x precisions {0, 1, 2, digits-3..digits+1, 2 digits+1, random} x operand relations "
        "{sums/differences ending in zero digits, cancellation, far apart (digit-estimate branch), zero/one, cofactor products, perfect "
        "squares, negative radicand, zero divisor, precision 0}: result normalised with canonical significand, and significand, "
        "exponent, flag equal to the replayed model. "
        "Round 4: iop also = gcd, gcd_ext (UBig and IBig forms) x {inline x inline, large x word, large x double word, large x large, "
        "common factors, equal / zero operands, gcd(0,0)}, sqrt / sqrt_rem next to perfect squares of 1..8 words and of a negative "
        "number, nth_root for n in {0, 1, 2, 3, 5, 7, 10, 64, 65, 200} incl. bit length <= n and negative operands, pow of word / double-"
        "word / large bases with trailing zero bits: value (gcd_ext: gcd + Bezout identity), canonical layout, value/length/inline flag "
        "against the composed model; op ipar = from_str_radix for radices 2..36 x digit counts around word and chunk borders, leading "
        "zeros, underscores, sign, upper case, error texts; rationals: Relaxed (and RBig) values - above all ZEROS - out of the mixed "
        "operators Relaxed +- UBig/IBig in every operand order and ownership, which keep the denominator (0/5, 0/7, 0/(2^64+1), squares "
        "of such zeros), compared with Relaxed::ZERO, with each other and with +-1/d; fprod with a zero first operand (0 - x rounds -x); "
        "extra phase: 500 (thorough 12000) uint / int / rbig / rlx / iop / ipar cases on the force_bits=32 build, the same extracted "
        "models evaluated at w = 32 (hash call sequences with 4-byte words and 32-bit boundaries). "
        "A case is non-trivial when the oracle checked layout, value and every pair answer; distinct = distinct case texts.")
EXPLANATION = ("Theorems (coq/props/C05.v) are about models transcribed from integer/src/{repr,cmp,buffer}.rs, float/src/{cmp,repr,utils}.rs, "
               "rational/src/cmp.rs. Each run builds values along many routes in the real library, reads capacity/len/inline through "
               "dashu_int::verif_hooks::repr_layout_*, checks the canonical-layout invariant, the value, and every comparison/hash-input "
               "answer against the value-level specification; the extracted as-is models are replayed on the reported representation "
               "(model_fidelity). coq/theories/Int/ReprOrdArith.v and Float/FloatOrdProducers.v import the operator / producer models "
               "of C01, C09, C03, C08, C10 and prove that their results satisfy the invariants the comparison theorems need. Round 3: "
               "Int/ReprOrdArith2.v (division through C02's transcribed kernels and sign tables, signed bit operators and shifts of C09), "
               "Float/FloatOrdProducers2.v (add/sub/div/inv/sqrt and the operator bodies of C03), Float/FloatOrdDispatch.v and "
               "Ratio/RatioOrdGen.v (theorems over coq/gen/CmpGen.v, the comparison bodies regenerated from float/src/cmp.rs and "
               "rational/src/cmp.rs by tools/translate_c05_r3.py at plug-in import; the oracle replays these generated bodies), "
               "Float/DigitsUbProof.v + Float/Log10Const.v (the f32 digit estimate, arms regenerated into coq/gen/DigitsEstGen.v, "
               "binary32 arithmetic = Flocq's, Cross/XLog2Model.v). Round 4: Int/ReprOrdArith3Model.v + ReprOrdArith3.v (gcd, gcd_ext, roots, pow, "
               "radix parsing over the models of C12 Int/Grl*.v, C01 Int/RingPowW.v, C07 Int/IoBigModel.v), Int/HashSeqModel.v + HashSeqProofs.v "
               "(call sequence of Hash::hash, any Hasher, word-size dependence; theorems over coq/gen/HashGen.v, regenerated by "
               "tools/translate_c05_r4.py from integer/src/{repr,cmp,ubig,ibig}.rs and base/src/sign.rs), Float/FloatOrdProducers3.v (the "
               "replayed producer = C03's Float/FixModel.v models; C11's Float/ElemAsis.v producers normalised).")
TRUSTED_BASE = [
    "Coq 8.16.1 kernel (coqc); vm_compute only in closed examples and the refutation witnesses",
    "extraction: ExtrOcamlBasic + ExtrOcamlZBigInt + coq/extract/FastZ.v; OCaml 4.13.1 + zarith 1.12; oracle/common.ml, oracle/driver_c05.ml",
    "Rust harness harness/src/bin/c05.rs incl. its recording Hasher (records write/write_usize/write_isize calls; no hash value is computed)",
    "hook dashu_int::verif_hooks::repr_layout_ubig/ibig (cfg dashu_verif) reports the capacity field, length and inline flag faithfully",
    "IBig arithmetic used inside float/rational comparison (shl_digits, products) is taken at its Z meaning (C01/C09)",
    "the as-is operator / producer models of C01 (Int/RingOps.v), C09 (Int/BitsKernels.v), C03 (Float/Model.v), C08 (Float/TextIoModel.v), "
    "C10 (Float/RoundOpsModel.v) are those properties' transcriptions of the Rust code; their fidelity is established by those checks",
    "Repr::digits_ub bounds the significand (|sig| < B^(digits_ub+1), hypothesis of the float theorems): proved for the f32 code "
    "(C05_digits_ub_contract) relative to the contract of the log2 estimators (C12: upper bound of the significand >= log2|sig|, lower "
    "bound of the base in [1/2, log2 B]) for |sig| < B^(2^24); the oracle still asserts it on the estimate reported for every float of every run "
    "and checks the contract on the f32 estimates reported by the op dub",
    "f32 arithmetic of digits_ub = Flocq's binary32 (Bmult, Bdiv, mode_NE; Cross/XLog2Model.v of C14); `as usize` = truncation "
    "toward zero, saturating; usize is 64 bits",
    "tools/translate_c05_r3.py (tokenizer/parser of tools/translate.py + a typed continuation-style emitter; `as T` casts are dropped: "
    "exponents and digit counts are read as integers) -> coq/gen/CmpGen.v, coq/gen/DigitsEstGen.v at plug-in import; reports unparsed "
    "and keeps the last good copy when the source is rewritten; the reading of the method / field atoms (is_infinite, sign, cmp, abs_cmp, "
    "bit_len, abs_diff, shl_digits, Sign * Ordering ...) as their Gallina counterparts is a fixed table in that script",
    "the Rust standard library facts behind Int/HashSeqModel.v: `impl Hash for [T]` = write_length_prefix(len) (default: write_usize) + "
    "T::hash_slice, which for u32/u64 is one Hasher::write of the slice's bytes in native order; derive(Hash) on a field-less enum "
    "hashes the discriminant as isize; derive(Hash) on a one-field tuple struct hashes the field (rustc 1.95; compared on every run)",
    "tools/translate_c05_r4.py (regular expressions over the comment-stripped source; anything outside the expected shapes is `unparsed`) "
    "-> coq/gen/HashGen.v at plug-in import",
    "the as-is models of C12 (Int/GrlModel.v, GrlLehmer.v, GrlKsqrt.v, GrlPrimRoot.v), C01 (Int/RingPowW.v) and C07 (Int/IoBigModel.v) are "
    "those properties' transcriptions; rem_by_word / rem_by_dword inside gcd_large_dword and the quotient of gcd_ext_word are taken at "
    "their Z meaning (C02); C03's Float/FixModel.v and C11's Float/ElemAsis.v likewise",
    "the as-is division kernels and sign tables of C02 (Int/DivSrcInst.v, Int/DivSpec.v) and the signed bit / shift kernels of C09 "
    "(Int/BitsKernels.v) are those properties' transcriptions; C03's Float/AddModel.v, Float/DivMulModel.v likewise",
]
ASSUMPTIONS = [
    "64-bit and 32-bit words in the correspondence run, little-endian target (the integer theorems hold for every word size w >= 8, the "
    "hash theorems for both byte orders)",
    "exponents and precisions stay far below isize::MAX (the additions exp + precision in repr_cmp_same_base do not overflow)",
    "capacities below Buffer::MAX_CAPACITY (the .min(MAX_CAPACITY) in default_capacity is not modelled)",
]

W = 64
EDGE = [0, 1, 2, (1 << 63), (1 << 64) - 1, 1 << 64, (1 << 64) + 1, (1 << 127), (1 << 128) - 1, 1 << 128, (1 << 128) + 1,
        (1 << 128) + (1 << 64), (1 << 192) - 1, 1 << 192, (1 << 192) + 1, (1 << 256) - 1]


def base_value(rng, tier):
    k = rng.below(10)
    if k < 3:
        return rng.choice(EDGE)
    if k < 6:
        n = rng.choice([1, 2, 2, 3, 3, 4])
        return gen_mag(rng, n)
    return abs(gen_int(rng, tier, signed=False))


def related(rng, v, signed):
    """a second value in an interesting relation to v"""
    k = rng.below(12)
    if k < 5:
        r = v
    elif k == 5:
        r = v + 1
    elif k == 6:
        r = v - 1
    elif k == 7:
        r = v ^ (1 << (W * rng.below(max(1, (abs(v).bit_length() + W - 1) // W)))) if v >= 0 else -((-v) ^ 1)
    elif k == 8:
        r = v >> W if v >= 0 else -((-v) >> W)
    elif k == 9:
        r = v << W
    elif k == 10:
        r = -v
    else:
        r = gen_int(rng, "quick")
    if not signed:
        r = abs(r)
    return r


def big_param(rng):
    return rng.choice([1, 2, 3, (1 << 64) - 1, 1 << 64, (1 << 64) + 1, (1 << 128) - 1, 1 << 128, (1 << 128) + 1, 1 << 192,
                       gen_mag(rng, 3), gen_mag(rng, 4), gen_mag(rng, rng.choice([1, 2, 5, 9]))])


def route_u(rng, v):
    nb = v.bit_length()
    hi_pos = [nb, nb + 1, 64, 65, 127, 128, 129, 191, 192, 193, 200, nb + 64]
    hi_pos = [p for p in hi_pos if p >= nb]
    routes = ["words", "padded", "addsub", "addsub_ref", "addsub_assign", "subadd", "shlr", "shlr_assign", "muldiv", "muldiv_assign",
              "divrem", "rem", "clone", "clonefrom_big", "clonefrom_small", "bytes_le", "bytes_be", "radix", "ibig", "negneg",
              "unsigned_abs", "setclr", "split_lo", "split_hi", "and", "xorxor", "orandnot", "addsub_top"]
    if v < (1 << 128):
        routes += ["prim", "prim"]
    if v < (1 << (2 * W)):
        routes += ["dword", "dword"]
    if v & (v + 1) == 0:
        routes += ["ones"] * 8
    r = rng.choice(routes)
    if r == "padded":
        p = rng.choice([1, 2, 3, 5])
    elif r in ("addsub", "addsub_ref", "addsub_assign", "subadd"):
        p = big_param(rng)
    elif r == "addsub_top":
        # the sum is exactly a power of 2^64: the carry creates a new word, the difference drops it again
        r = rng.choice(["addsub", "addsub_assign", "subadd"])
        n = (nb + W - 1) // W + rng.choice([0, 1, 2])
        p = (1 << (W * max(n, 1))) - v
    elif r in ("shlr", "shlr_assign", "split_hi"):
        p = rng.choice([1, 63, 64, 65, 127, 128, 129, 192, 200])
    elif r in ("muldiv", "muldiv_assign"):
        p = big_param(rng)
    elif r == "divrem":
        p = max(2, big_param(rng))
    elif r == "rem":
        p = (1 << (nb + rng.choice([0, 1, 64]))) + 1
    elif r == "clonefrom_big":
        p = rng.choice([1, 2, 3, 8, 40])
    elif r == "clonefrom_small":
        p = rng.choice([0, 5, 1 << 64, gen_mag(rng, 3), gen_mag(rng, 4)])
    elif r == "bytes_be":
        p = rng.choice([0, 1, 7, 8, 9])
    elif r == "radix":
        p = rng.choice([2, 3, 8, 10, 16, 36])
    elif r == "ones":
        p = nb
    elif r in ("setclr", "orandnot", "split_lo", "and"):
        p = rng.choice(hi_pos)
    elif r == "xorxor":
        p = big_param(rng)
    else:
        p = 0
    return r, p


def route_i(rng, v):
    routes = ["parts", "addsub", "addsub_ref", "addsub_assign", "subadd", "shlr", "muldiv", "muldiv_assign", "negneg", "negneg_ref",
              "clone", "clonefrom_big", "clonefrom_small", "radix", "notnot", "xorxor", "abs_sign", "into_parts", "mulsign", "signum",
              "ubig_sub", "cancel", "neg_zero_parts", "mul_neg_zero", "div_to_zero", "addsub_top"]
    if abs(v) < (1 << 127):
        routes += ["prim", "prim"]
    r = rng.choice(routes)
    sg = rng.choice([1, -1])
    if r in ("addsub", "addsub_ref", "addsub_assign", "subadd", "ubig_sub", "cancel", "xorxor", "mul_neg_zero", "div_to_zero"):
        p = sg * big_param(rng)
    elif r == "addsub_top":
        r = rng.choice(["addsub", "addsub_assign", "subadd"])
        n = (abs(v).bit_length() + W - 1) // W + rng.choice([0, 1])
        t = 1 << (W * max(n, 1))
        p = (t - v) if r != "subadd" else (v + t)
        if rng.chance(1, 2):
            p = (-t - v) if r != "subadd" else (v - t)
    elif r in ("muldiv", "muldiv_assign"):
        p = sg * big_param(rng)
    elif r == "shlr":
        p = rng.choice([1, 63, 64, 65, 127, 128, 129, 192])
    elif r == "clonefrom_big":
        p = rng.choice([1, 2, 3, 8, 40])
    elif r == "clonefrom_small":
        p = sg * rng.choice([0, 5, 1 << 64, gen_mag(rng, 3), gen_mag(rng, 4)])
    elif r == "radix":
        p = rng.choice([2, 3, 10, 16, 36])
    else:
        p = 0
    return r, p


def int_case(rng, tier):
    signed = rng.chance(1, 2)
    k = 3 if rng.chance(1, 4) else 2
    v = base_value(rng, tier)
    if signed and rng.chance(1, 2):
        v = -v
    vals = [v]
    while len(vals) < k:
        vals.append(related(rng, rng.choice(vals), signed))
    toks = ["int" if signed else "uint", "%x" % k]
    for x in vals:
        r, p = (route_i if signed else route_u)(rng, x)
        toks += [hx(x), r, hx(p)]
    return " ".join(toks)


# ------------------------------------------------------------------------------------------------ floats
BASES = {2: "2", 3: "3", 10: "a", 16: "10"}
MODES = ["Zero", "Away", "Up", "Down", "HalfEven", "HalfAway"]


def ndig(b, m):
    m = abs(m)
    d = 0
    while m:
        m //= b
        d += 1
    return d


def norm(b, s, e):
    if s == 0:
        return 0, 0
    while s % b == 0:
        s //= b
        e += 1
    return s, e


def prime_power(b):
    """(q, k) with b = q^k, k > 1, else None"""
    q = min(f for f in range(2, b + 1) if b % f == 0)
    k, x = 0, 1
    while x < b:
        x *= q
        k += 1
    return (q, k) if x == b and k > 1 else None


def gen_sig(rng, b):
    k = rng.below(8)
    pp = prime_power(b)
    if pp and rng.chance(1, 3):
        # b = q^k: significands q^j * m with 0 < j < k are normalised, but their squares / cubes / products are not
        q, kk = pp
        m = rng.choice([1, 1, 3, 5, rng.bits(rng.range(1, 40)) * 2 + 1])
        while m % q == 0:
            m += 1
        s = q ** rng.range(1, kk) * m
    elif k == 0:
        s = rng.choice([1, 2, b - 1, b + 1, b * b - 1])
    elif k == 1:
        s = b ** rng.range(1, 40) + rng.choice([1, -1])
    elif k == 2:
        s = gen_mag(rng, rng.choice([1, 2, 2, 3, 3]))
    elif k == 3:
        s = rng.bits(rng.range(1, 20)) + 1
    else:
        s = rng.bits(rng.range(1, 130)) + 1
    if s % b == 0:
        s += 1
    return s


def flt_value(rng, b):
    """(sig, exp, prec, route, param) with sig normalised, prec >= digits or 0"""
    s = gen_sig(rng, b) * rng.choice([1, 1, -1])
    e = rng.choice([0, 0, 1, -1, 5, -5, 38, 39, -38, -39, 100, -100, rng.range(-300, 300)])
    d = ndig(b, s)
    prec = rng.choice([0, d, d, d + 1, d + 7, 2 * d + 1, max(100, d)])
    return s, e, prec


def flt_route(rng, b, s, e, prec):
    d = ndig(b, s)
    routes = ["repr", "repr", "parts", "parts_scaled", "repr_scaled", "clone", "negneg", "shlr", "addsub0", "mul1", "muldiv0",
              "rounding", "withprec", "withprec_up", "same_p"]
    if 0 <= e <= 60:
        routes += ["convint", "fromint"]
    # producers whose raw result carries trailing base-B digits (must come back normalised), other sources of floats,
    # really rounded arithmetic (PRODUCERS: every public operation that builds a Repr)
    prod = ["mulfac", "muldivx", "divself", "sqrsqrt", "powi1", "fromstr", "ratfloat"]
    if 0 <= e <= 60:
        prod += ["addtrunc", "addfloor", "subceil", "addround", "splitpoint"]
        v = s * b ** e
        if s > 0:
            prod.append("fromubig")
        if 0 <= v < (1 << 64):
            prod.append("fromu64")
        if -(1 << 63) <= v < (1 << 63):
            prod.append("fromi64")
    if e + d <= 0:
        prod.append("addfract")
    if b == 2 and abs(s) < (1 << 53) and -1000 <= e and e + d <= 1000:
        prod += ["fromf64", "fromf64", "reprf64"]
    if b == 2 and abs(s) < (1 << 24) and -120 <= e and e + d <= 120:
        prod += ["fromf32", "fromf32", "reprf32"]
    rounded = ["r_add", "r_sub", "r_aeq", "r_seq", "r_aeq", "r_seq", "r_mul", "r_mul", "r_div", "r_sqr", "r_cubic", "r_sqr", "r_cubic", "r_sqrt",
               "r_inv", "r_exp", "r_ln1p", "r_ctxaeq", "r_ctxseq", "r_ctxadd0", "r_ctxsub0", "r_ctxdiv1", "r_ctxmul1", "r_ctxpowi1"]
    if d <= 12:
        rounded.append("r_powi")
    k = rng.below(10)
    r = rng.choice(routes if k < 4 else prod if k < 7 else rounded)
    p = 0
    if r == "muldivx":
        p = rng.choice([1, 3, 7, b, b + 1, b * b, 6, (1 << 64) + 1, abs(s)])
    elif r == "fromstr":
        p = rng.choice([0, 0, 1, 2, 5])
    elif r == "addfract":
        p = rng.choice([0, 1, 5])
    elif r in ("r_add", "r_sub"):
        # the second significand one digit position below / above: sums that are powers of the base, cancellations
        sg = 1 if s > 0 else -1
        p = rng.choice([1, -1, b ** (d + 1) - abs(s) * b, -(b ** (d + 1) - abs(s) * b), b - 1, gen_sig(rng, b), -gen_sig(rng, b)]) if r == "r_add" \
            else rng.choice([1, -1, sg, sg * (b - 1), gen_sig(rng, b) % (b ** d) + 1])
        if p == 0:
            p = 1
    elif r in ("r_aeq", "r_seq", "r_ctxaeq", "r_ctxseq"):
        # same exponent, the sum / difference ends in zero digits (or cancels completely)
        t = ((-s) if r.endswith("aeq") else s) % b
        p = rng.choice([t, t + b, t + b * b * 7, t + b * (b ** d - 1)])
        if r.endswith("seq") and rng.chance(1, 6):
            p = s
        if r.endswith("aeq") and rng.chance(1, 6):
            p = -s
    elif r == "r_mul":
        f = min(q for q in range(2, b + 1) if b % q == 0)
        p = rng.choice([b // f if b // f > 1 else 3, f, b - 1, b + 1, gen_sig(rng, b), b ** d - 1])
    elif r == "r_div":
        p = rng.choice([3, 7, b + 1, b - 1 if b > 2 else 5, abs(s), gen_sig(rng, b)])
    elif r == "r_powi":
        p = rng.choice([2, 3, 5])
    elif r in ("r_exp", "r_ln1p"):
        p = d + rng.choice([1, 2, 5])
    elif r.startswith("r_ctx") and not r.endswith("eq"):
        p = rng.choice([1, 1, 2, 3, d - 1 if d > 1 else 1])
    if r in ("r_add", "r_sub", "r_aeq", "r_seq", "r_mul", "r_div"):
        r += rng.choice(["", "_vr", "_rv", "_rr"])  # the four ownership forms are separate operator bodies
    if r[:5] in ("r_add", "r_sub", "r_aeq", "r_seq", "r_mul", "r_div") or r in prod or r in rounded:
        if r in ("fromf64", "reprf64"):
            prec = 53
        elif r in ("fromf32", "reprf32"):
            prec = 24
        return prec, r, p
    if r == "parts_scaled":
        p = rng.choice([1, 2, 3, 17])
    elif r == "repr_scaled":
        p = rng.choice([1, 2, 5])
        if prec != 0:
            prec = max(prec, d + p)
    elif r == "shlr":
        p = rng.choice([1, -1, 7, 100, -100])
    elif r == "addsub0":
        p = rng.choice([1, -1, 3, (1 << 70) + 1, -(1 << 130) - 7])
    elif r == "muldiv0":
        p = rng.choice([1, 2, 9])
    elif r == "withprec_up":
        p = rng.choice([1, 2, 50])
        if prec == 0:
            prec = d  # from unlimited precision, with_precision(p) would round: start from exactly d digits instead
    elif r == "same_p":
        p = rng.choice([0, d, d + 3])
    elif r == "fromint":
        prec = 0
    elif r == "withprec" and rng.chance(1, 3) and d > 1:
        prec = max(1, d - rng.choice([1, 2]))  # really rounds: only the invariants are checked then
    return prec, r, p


def flt_related(rng, b, s, e, prec):
    """second operand relative to (s, e, prec): same value, neighbours, shortcut boundaries"""
    d = ndig(b, s)
    k = rng.below(14)
    if k < 4:
        return s, e
    if k == 4:
        return norm(b, s + rng.choice([1, -1]), e)
    if k == 5:
        return norm(b, -s, e)
    if k == 6:
        # same leading digits, different length
        return norm(b, s * b ** 3 + rng.choice([1, -1, 0]), e - 3)
    if k == 7:
        # case 4 boundary: exponent = exp + precision + {-1, 0, 1, 2}
        t = rng.choice([1, b - 1, b + 1]) * rng.choice([1, -1])
        return norm(b, t, e + (prec if prec else d) + rng.choice([-1, 0, 1, 2]))
    if k == 8:
        # case 5 boundary: exponent = exp + digits + {-1, 0, 1}
        t = rng.choice([1, b - 1, b + 1]) * (1 if s > 0 else -1)
        return norm(b, t, e + d + rng.choice([-2, -1, 0, 1]))
    if k == 9:
        # the mirror: the other operand far below
        t = gen_sig(rng, b) * (1 if s > 0 else -1)
        dt = ndig(b, t)
        return norm(b, t, e - dt + rng.choice([-2, -1, 0, 1]))
    if k == 10:
        return 0, 0
    if k == 11:
        # exactly B^j apart
        return norm(b, s, e + rng.choice([1, -1]))
    s2, e2, _ = flt_value(rng, b)
    return s2, e2


def flt_case(rng, tier):
    b = rng.choice([2, 2, 10, 10, 16, 16, 3])
    k = 3 if rng.chance(1, 4) else 2
    s, e, prec = flt_value(rng, b)
    vals = [(s, e, prec)]
    while len(vals) < k:
        s0, e0, p0 = rng.choice(vals)
        s1, e1 = flt_related(rng, b, s0, e0, p0)
        d1 = ndig(b, s1)
        vals.append((s1, e1, rng.choice([0, max(d1, 1), d1 + 1, d1 + 5, 2 * d1 + 3, p0 if p0 >= d1 else d1])))
    toks = ["flt", BASES[b], "%x" % k]
    for (s1, e1, p1) in vals:
        m = rng.choice(MODES)
        if rng.chance(1, 12):
            # an infinity
            inf = rng.choice(["inf", "-inf"])
            toks += [m, inf, "0", "%x" % max(p1, 1), rng.choice(["repr", "clone", "const_inf", "rounding"]), "0"]
            continue
        if s1 == 0:
            toks += [m, "0", "0", "%x" % p1, rng.choice(["repr", "parts", "clone", "negneg", "addsub0", "mul1", "fromint", "shlr"]), "1"]
            continue
        p1, r, p = flt_route(rng, b, s1, e1, p1)
        if ((r.startswith("r_ctx") and not r.endswith("eq")) or r == "withprec") and rng.chance(1, 2):
            # all digits b-1: dropping digits carries into a power of the base, which must be re-normalised
            s1 = (b ** rng.range(2, 30) - 1) * (1 if s1 > 0 else -1)
            if r == "withprec":
                p1 = max(1, ndig(b, s1) - rng.choice([1, 2, 5]))
        toks += [m, hx(s1), hx(e1), "%x" % p1, r, hx(p)]
    return " ".join(toks)


# conversion source bases per target base: proper power of the target (power-down shortcut: the significand is carried
# over, so one divisible by the target base but not by the source base must be re-normalised), target a proper power of
# the source (power-up), same base, unrelated (multiplication / division / exp-ln routes) - must match arms! in c05.rs
CONV = {2: [4, 8, 16, 32, 10, 3, 2], 3: [9, 27, 10, 2, 3], 10: [100, 1000, 2, 16, 3, 10], 16: [2, 4, 256, 8, 10, 16]}


def is_pow(a, b):
    """a = b^n with n > 1"""
    x = b * b
    while x < a:
        x *= b
    return x == a


def exact_in_base(sb, s, e, b):
    """(sig, exp) normalised in base b of s * sb^e when one base is a power of the other or e >= 0, else None"""
    if sb == b:
        return norm(b, s, e)
    if is_pow(sb, b):
        n = 0
        x = 1
        while x < sb:
            x *= b
            n += 1
        return norm(b, s, e * n)
    if is_pow(b, sb):
        n = 0
        x = 1
        while x < b:
            x *= sb
            n += 1
        q, r = e // n, e % n
        return norm(b, s * sb ** r, q)
    if e >= 0:
        return norm(b, s * sb ** e, 0)
    return None


def flt_conv_case(rng, tier):
    """values that went through a base conversion (every class of base pair x every public route), compared with the
    same value built directly in the target base, with a second conversion route, and with neighbours"""
    import math
    b = rng.choice([2, 2, 3, 10, 10, 16])
    sb = rng.choice(CONV[b])
    lossless = sb == b or is_pow(sb, b) or is_pow(b, sb)
    s = gen_sig(rng, sb)
    if is_pow(sb, b) and rng.chance(2, 3):
        # divisible by the target base, not by the source base
        t = s * b ** rng.range(1, 6)
        while t % sb == 0:
            t //= b
        s = t
    elif not lossless and rng.chance(1, 3):
        # trailing target-base digits that only appear after the conversion
        s = gen_sig(rng, sb) * b ** rng.range(1, 4)
        if s % sb == 0:
            s += 1
    s *= rng.choice([1, -1])
    d = ndig(sb, s)
    e = rng.choice([0, 1, 2, 3, 5, 20, 30, 38, rng.range(0, 38), -1, -2, -3, -5, 39, 60, -39, -60])
    prec = rng.choice([d, d, d + 2, 2 * d] + ([0] if lossless else []))
    ex = exact_in_base(sb, s, e, b)
    dd = ndig(b, ex[0]) if ex else max(1, int(d * math.log(sb, b)) + 1)
    apis = ["wb", "wbp", "wbp"] + (["tb"] if b == 2 else []) + (["td"] if b == 10 else [])
    if sb == b:
        apis = ["wbp"] if prec == 0 else ["wb", "wbp"]

    def one(api):
        pp = prec
        if api != "wbp" and not lossless:
            pp = max(prec, 5)  # below that the target precision would be 0 (documented panic for inexact conversions)
        p = rng.choice([dd, dd, dd + 1, dd + 3, 2 * dd, max(1, dd - 1), max(1, dd - 3), 1, 2] + ([0] if lossless else []))
        return [rng.choice(MODES), hx(s), hx(e), "%x" % pp, "%s_%x" % (api, sb), hx(p if api == "wbp" else 0)]

    vals = [one(rng.choice(apis))]
    mag = (math.log(abs(s), b) + e * math.log(sb, b))  # log_b |value|
    m = int(math.floor(mag))
    k = rng.below(10)
    if ex and k < 5:
        # the same value built directly
        s2, e2 = ex
    elif k < 8:
        t = rng.choice([1, b - 1, b + 1, b * b + 1]) * (1 if s > 0 else -1) * rng.choice([1, 1, 1, -1])
        e2 = m + rng.choice([-40, -10, -3, -2, -1, 0, 1, 2, 3, 10, 40]) if rng.chance(2, 3) else rng.range(min(e, m) - 3, max(e, m) + 3)
        s2, e2 = norm(b, t, e2)
    else:
        s2, e2 = (norm(b, ex[0] + rng.choice([1, -1]), ex[1]) if ex else norm(b, gen_sig(rng, b), m))
    d2 = ndig(b, s2)
    vals.append([rng.choice(MODES), hx(s2), hx(e2), "%x" % rng.choice([d2, d2 + 3, max(20, d2), 0]), rng.choice(["repr", "repr", "parts"]), "0"])
    if rng.chance(1, 3):
        vals.append(one(rng.choice(apis)))  # a second conversion route of the same source
    if rng.chance(1, 2):
        vals.reverse()
    toks = ["flt", BASES[b], "%x" % len(vals)]
    for v in vals:
        toks += v
    return " ".join(toks)


# ------------------------------------------------------------------------------------------------ rationals
def rat_value(rng):
    k = rng.below(8)
    if k == 0:
        n = rng.choice([0, 1, -1, 2, -2])
        d = rng.choice([1, 1, 2, 3, (1 << 64) + 1])
        if n == 0:
            d = 1
    elif k == 1:
        n = gen_int(rng, "quick") or 1
        d = 1
    elif k < 5:
        n = (rng.bits(rng.range(1, 70)) + 1) * rng.choice([1, -1])
        d = rng.bits(rng.range(1, 70)) + 1
    else:
        n = gen_mag(rng, rng.choice([1, 2, 3, 4])) * rng.choice([1, -1])
        d = gen_mag(rng, rng.choice([1, 2, 3, 4]))
    return n, d


def rat_related(rng, n, d):
    k = rng.below(12)
    if k < 4:
        return n, d
    if k == 4:
        return n + 1, d
    if k == 5:
        return n, d + 1
    if k == 6:
        return -n, d
    if k == 7:
        # bit-length filter edges: about 2x / 4x apart
        return n * rng.choice([2, 3, 4, 5]), d
    if k == 8:
        return n, d * rng.choice([2, 3, 4, 5])
    if k == 9:
        # very close: (n*t + 1) / (d*t)
        t = rng.bits(rng.range(1, 80)) + 2
        return n * t + rng.choice([1, -1]), d * t
    if k == 10:
        return 0, 1
    return rat_value(rng)


MIXED_X = ["sub_int", "sub_int_ref", "sub_int_rv", "int_sub", "add_int", "int_add", "sub_ubig", "ubig_sub", "add_ubig", "sub_int_neg",
           "sub_int_clone"]
MIXED_Q = ["sub_int", "sub_int_ref", "int_sub", "add_int", "int_add", "sub_ubig", "ubig_sub", "relax_sub_int_canon"]
ZERO_DENS = [5, 7, 9, 3, 15, 21, 1, 6, 12, (1 << 64) + 1, (1 << 64) - 1, (1 << 130) + 1, (1 << 63) + 1, 0xffff_ffff, 25]


def mixed_param(rng, route):
    p = rng.choice([1, 2, 3, 7, 255, (1 << 64) + 1, (1 << 64) - 1, gen_mag(rng, 2), gen_mag(rng, 3)])
    if "ubig" not in route and rng.chance(1, 2):
        p = -p
    return p


def rat_mixed_case(rng, tier):
    """round 4: values - above all ZEROS - that come out of the mixed operators Relaxed (+|-) UBig/IBig, which keep the
    denominator (Relaxed 7/7 - 1 = 0/7, 5 - 25/5 = 0/5, -21/7 + 3 = 0/7): zeros with a denominator other than 1 (odd and
    >= 5, so that reduce2 of the constructor leaves it alone), two zeros whose denominators differ by two or more bits,
    against Relaxed::ZERO, against +-1/d, and the same histories on RBig (which must stay reduced)."""
    rb = rng.chance(1, 4)
    k = 3 if rng.chance(1, 3) else 2
    vals = []
    zero = rng.chance(3, 4)
    for i in range(k):
        d = rng.choice(ZERO_DENS)
        if zero and (i == 0 or rng.chance(3, 4)):
            n = 0
        elif rng.chance(1, 2):
            n = rng.choice([1, -1, 2, -2]) * (1 if rng.chance(1, 2) else d)
        else:
            n, d = rat_value(rng)
        r = rng.choice(MIXED_Q if rb else MIXED_X + (["sub_int_sqr"] if n == 0 else []))
        if rng.chance(1, 6):
            r = "parts"
        vals.append((n, d, r, mixed_param(rng, r) if r != "parts" else 0))
    toks = ["rbig" if rb else "rlx", "%x" % k]
    for (n, d, r, p) in vals:
        toks += [hx(n), hx(d), r, hx(p)]
    return " ".join(toks)


def rat_case(rng, tier):
    if rng.chance(1, 5):
        return rat_mixed_case(rng, tier)
    rb = rng.chance(1, 2)
    k = 3 if rng.chance(1, 4) else 2
    vals = [rat_value(rng)]
    while len(vals) < k:
        vals.append(rat_related(rng, *rng.choice(vals)))
    toks = ["rbig" if rb else "rlx", "%x" % k]
    for (n, d) in vals:
        if rb:
            routes = ["parts", "signed", "scaled", "scaled", "addsub", "addsub_int", "muldiv", "negneg", "clone", "relax_canon",
                      "relax_scaled_canon", "into_parts"]
            if n != 0:
                routes.append("sqr_div")
        else:
            routes = ["parts", "signed", "scaled", "scaled", "addsub", "muldiv", "negneg", "clone", "relax", "as_relaxed"]
        if abs(n) < (1 << (2 * W)) and d < (1 << (2 * W)):
            routes += ["const", "const"]
        routes += ["sub_int", "int_sub", "add_int"] + ([] if rb else ["int_add", "sub_ubig", "sub_int_neg"])
        r = rng.choice(routes)
        p = 0
        if r in MIXED_X:
            p = mixed_param(rng, r)
        if r in ("scaled", "relax_scaled_canon"):
            p = rng.choice([1, 2, 3, 6, 12, 1 << 64, (1 << 64) + 1, gen_mag(rng, 2), gen_mag(rng, 3)])
            # the unreduced input of the harness is (n*p, d*p): keep p odd sometimes so that Relaxed stays unreduced
        elif r in ("addsub", "muldiv", "addsub_int"):
            p = rng.choice([1, -1, 3, -7, (1 << 64) + 1, -gen_mag(rng, 3), gen_mag(rng, 2)])
        # the fraction handed to the constructor is itself often unreduced
        if r in ("parts", "signed", "clone", "negneg", "relax_canon", "relax", "as_relaxed", "into_parts") and rng.chance(1, 2):
            t = rng.choice([2, 3, 5, 6, 9, 1 << 64, (1 << 64) - 1])
            n, d = n * t, d * t
            if r == "const" and (abs(n) >= (1 << (2 * W)) or d >= (1 << (2 * W))):
                r = "parts"
        toks += [hx(n), hx(d), r, hx(p)]
    return " ".join(toks)


# ------------------------------------------------------------------------------------------------ round 3
IOPS4 = ["gcd", "ugcd", "gcdext", "ugcdext", "sqrt", "sqrtrem", "nthroot", "unthroot", "pow", "upow"]


def iop4_case(rng, tier, op):
    """round 4: gcd / gcd_ext (inline x inline, large x word, large x double word, large x large; common factors, equal and
    zero operands), square roots next to perfect squares of 1..8 words, n-th roots incl. n = 1, 2, bit length <= n, powers of
    word / double-word / large bases with trailing zero bits"""
    wb = W
    if op in ("gcd", "ugcd", "gcdext", "ugcdext"):
        k = rng.below(10)
        g = rng.choice([1, 1, 2, 3, (1 << wb) - 1, (1 << wb) + 1, gen_mag(rng, rng.choice([1, 2, 3]))])
        a = g * (gen_mag(rng, rng.choice([1, 1, 2, 2, 3, 4, 6])) >> rng.choice([0, 0, 7, wb // 2]))
        if k < 2:
            b = g * rng.choice([1, 2, 3, (1 << wb) - 1, rng.bits(wb) + 1])             # a word
        elif k < 4:
            b = g * (rng.bits(2 * wb) | (1 << (2 * wb - 1))) >> rng.choice([0, 1, wb - 1])  # a double word
        elif k == 4:
            b = rng.choice([0, a, a + 1, 2 * a, 1])
        elif k == 5:
            a, b = rng.choice([(0, 0), (0, g), (g, 0)])
        else:
            b = g * gen_mag(rng, rng.choice([1, 2, 3, 3, 4, 5, 8]))
        if op in ("gcdext", "ugcdext") and rng.chance(1, 3):
            # gcd_ext_word / gcd_ext_dword with a ZERO cofactor of the primitive step (the remainder of the large operand divides
            # the small one: s = 0, the sign of the rebuilt cofactor comes from -t), and with remainder 0 / 1
            small = rng.choice([6, 12, 3 << (wb - 2), rng.bits(wb - 2) * 2 + 2]) if rng.chance(1, 2) else \
                (rng.bits(2 * wb - 2) | (1 << wb)) * 2
            divs = [d for d in (1, 2, 3, small // 2, small // 3 if small % 3 == 0 else 1, small) if d and small % d == 0]
            rem = rng.choice(divs) % small
            a = gen_mag(rng, rng.choice([3, 3, 4, 7])) // small * small + rem
            b = small
        if rng.chance(1, 2):
            a, b = b, a
        return "iop %s %s %s" % (op, hx(a * rng.choice([1, -1])), hx(b * rng.choice([1, -1])))
    if op in ("sqrt", "sqrtrem"):
        r = gen_mag(rng, rng.choice([1, 1, 2, 2, 3, 4])) >> rng.choice([0, 1, wb // 2, wb - 1])
        a = rng.choice([r * r, r * r - 1, r * r + 1, r * r + 2 * r, gen_mag(rng, rng.choice([1, 2, 3, 4, 5, 8])), 0, 1, 2, 3])
        a = abs(a)
        if op == "sqrt" and rng.chance(1, 12):
            a = -a - 1  # documented panic
        return "iop %s %s 0" % (op, hx(a))
    if op in ("nthroot", "unthroot"):
        n = rng.choice([0, 1, 2, 2, 3, 3, 5, 7, 10, 64, 65, 200])
        r = rng.bits(rng.range(1, 70)) + 1
        a = rng.choice([r ** n if 0 < n <= 10 else r, (r ** n - 1) if 0 < n <= 10 else r + 1, gen_mag(rng, rng.choice([1, 2, 3, 4])),
                        0, 1, (1 << n) - 1 if n < 300 else 1, 1 << n if n < 300 else 2])
        if rng.chance(1, 3):
            a = -a
        return "iop %s %s %s" % (op, hx(a), hx(n))
    # pow
    k = rng.below(8)
    e = rng.choice([0, 1, 2, 3, 3, 4, 5, 7, 10, 16, 33])
    if k < 3:
        a = rng.choice([2, 3, 10, (1 << wb) - 1, rng.bits(wb - 1) + 2])
    elif k < 5:
        a = rng.bits(2 * wb - 1) | (1 << wb)
    elif k == 5:
        a = rng.choice([0, 1])
    else:
        a = gen_mag(rng, rng.choice([3, 4]))
        e = rng.choice([0, 1, 2, 3, 5])
    if rng.chance(1, 2):
        a <<= rng.choice([1, 5, wb, wb + 3])  # the trailing zero bits are split off and shifted back in
    return "iop %s %s %s" % (op, hx(a * rng.choice([1, -1])), hx(e))


def ipar_case(rng, tier):
    """from_str_radix: digit counts around the word / chunk borders of the parser, leading zeros, underscores, a sign, and the
    error texts (no digits, a digit outside the radix)"""
    radix = rng.choice([2, 3, 8, 10, 10, 16, 16, 36, 7, 32])
    v = rng.choice([0, 1, rng.bits(rng.range(1, 64)), gen_mag(rng, rng.choice([1, 2, 2, 3, 3, 4, 8])),
                    (1 << (W * rng.choice([1, 2, 3]))) + rng.choice([-1, 0, 1]), gen_mag(rng, rng.choice([20, 40]))])
    digs = "0123456789abcdefghijklmnopqrstuvwxyz"
    t, x = "", v
    while x:
        t = digs[x % radix] + t
        x //= radix
    t = t or "0"
    if rng.chance(1, 3):
        t = "0" * rng.choice([1, 5, 40]) + t
    if rng.chance(1, 3):
        i = rng.below(len(t)) + 1
        t = t[:i] + "_" + t[i:]
    if rng.chance(1, 4):
        t = t.upper()
    ty = rng.choice(["u", "i"])
    if rng.chance(1, 3):
        t = rng.choice(["+", "-"] if ty == "i" else ["+"]) + t
    if rng.chance(1, 20):
        t = rng.choice(["", "-", "_", t + "z", t + digs[radix] if radix < 36 else t + "!"])
    return "ipar %s %x x%s" % (ty, radix, t.encode().hex())


IOPS = ["div", "rem", "divrem", "diveu", "remeu", "divremeu", "udivrem", "udiv", "urem",
        "and_vv", "and_vr", "and_rv", "and_rr", "or_vv", "or_vr", "or_rv", "or_rr", "xor_vv", "xor_vr", "xor_rv", "xor_rr",
        "not", "notref", "shr", "shrref", "shl", "shlref"]


def iop_operand(rng, tier):
    k = rng.below(10)
    if k < 3:
        v = rng.choice(EDGE)
    elif k < 7:
        v = gen_mag(rng, rng.choice([1, 2, 2, 3, 3, 4, 5]))
    else:
        v = abs(gen_int(rng, tier, signed=False))
    return v * rng.choice([1, -1])


def iop_case(rng, tier):
    """one operation; the operands sit at the inline/heap boundary, results cross it in both directions"""
    if rng.chance(1, 3):
        return iop4_case(rng, tier, rng.choice(IOPS4))
    op = rng.choice(IOPS)
    a = iop_operand(rng, tier)
    if op.startswith("sh") :
        b = rng.choice([0, 1, 63, 64, 65, 127, 128, 129, 191, 192, 200, rng.below(300)])
        if op.startswith("shr") and rng.chance(1, 3):
            # exactly down to two / three words, and all bits out (-1 resp. 0 remain)
            b = max(0, abs(a).bit_length() - rng.choice([128, 129, 127, 64, 1, 0, -1]))
        return "iop %s %s %s" % (op, hx(a), hx(b))
    k = rng.below(12)
    if op in ("div", "rem", "divrem", "diveu", "remeu", "divremeu", "udivrem", "udiv", "urem"):
        if k == 0:
            b = 0  # documented panic
        elif k < 3:
            # quotient of exactly 2 / 3 words, remainder dropping below the divisor's length
            b = (abs(a) >> rng.choice([128, 127, 129, 64, 192])) or 1
            b *= rng.choice([1, -1])
        elif k < 5:
            q = iop_operand(rng, tier)
            b = rng.choice([1, -1]) * (gen_mag(rng, rng.choice([1, 2, 3])))
            a = q * b + rng.choice([0, 0, 1, -1, abs(b) - 1])  # exact and nearly exact divisions
        elif k == 5:
            b = a * rng.choice([1, -1])
        elif k == 6:
            b = rng.choice([1, -1, 2, -2, (1 << 64), -(1 << 64), (1 << 128), (1 << 64) - 1])
        else:
            b = iop_operand(rng, tier) or 1
        return "iop %s %s %s" % (op, hx(a), hx(b))
    # bit operators: results that shrink (and), cancel (xor with itself / complement), grow by a carry of the two's
    # complement (or / and of negative numbers at a word boundary)
    if k < 2:
        b = a
    elif k < 4:
        b = -a
    elif k < 6:
        b = ~a
    elif k < 8:
        b = rng.choice([1, -1]) * ((1 << rng.choice([64, 128, 192])) - rng.choice([0, 1]))
    else:
        b = iop_operand(rng, tier)
    return "iop %s %s %s" % (op, hx(a), hx(b))


DUB_BASES = {2: "2", 3: "3", 7: "7", 10: "a", 16: "10", 100: "64", 65535: "ffff"}


def dub_case(rng, tier):
    """significands at every digit-count boundary B^k - 1, B^k, B^k + 1 and random ones of 1..40 words"""
    b = rng.choice([2, 3, 7, 10, 10, 16, 100, 65535])
    k = rng.below(10)
    if k < 5:
        e = rng.choice([1, 2, 3, 5, 8, 9, 10, 19, 20, 38, 39, 77, 100, rng.range(1, 400), rng.range(400, 3000 if tier == "quick" else 20000)])
        s = b ** e + rng.choice([-1, 0, 1, 1, rng.below(1000)])
        if s % b == 0:
            s += 1  # Repr::new would strip the digits
    elif k < 8:
        s = gen_mag(rng, rng.choice([1, 1, 2, 2, 3, 4, 8, 40])) | 1
        if s % b == 0:
            s += 2
    else:
        s = (1 << rng.range(1, 2600)) + rng.choice([-1, 1])
        if s % b == 0:
            s += 2 if b != 2 else 1
    if s % b == 0:
        s = s * b + 1
    return "dub %s %s" % (DUB_BASES[b], hx(s * rng.choice([1, -1])))


FOPS = ["add", "add", "sub", "sub", "mul", "div", "div", "inv", "sqrt", "sqrt", "sqr", "cubic"]


def fprod_case(rng, tier):
    """Context::op on two normalised Reprs: exact results that end in zero digits (must be stripped), cancellations,
    far-apart operands (the digit-estimate branch), perfect squares, panics"""
    b = rng.choice([2, 2, 10, 10, 16, 3])
    op = rng.choice(FOPS)
    s1, e1, _ = flt_value(rng, b)
    d1 = ndig(b, s1)
    k = rng.below(10)
    if k < 2:
        s2, e2 = norm(b, (b ** rng.range(1, 6)) * rng.choice([1, 3, 7]) - (s1 % b) if op == "add" else s1 + b ** rng.range(1, 4) * (s1 % b or 1), e1)
    elif k < 4:
        s2, e2 = flt_related(rng, b, s1, e1, d1)
    elif k == 4:
        s2, e2 = norm(b, gen_sig(rng, b), e1 + rng.choice([-1, 1]) * (d1 + rng.choice([0, 1, 2, 3, 30])))
    elif k == 5:
        s2, e2 = rng.choice([(0, 0), (1, 0), (-1, 0), norm(b, s1, e1)])
    else:
        s2, e2, _ = flt_value(rng, b)
    if s2 == 0:
        e2 = 0
    if op in ("add", "sub") and rng.chance(1, 10):
        s1, e1 = 0, 0  # 0 - x: the repaired Context::sub rounds -x in the mode of the context (C03's ctx_sub_n)
    if op == "sqrt":
        if rng.chance(1, 2):
            r = gen_sig(rng, b) % (b ** 12) or 1
            s1, e1 = norm(b, r * r * rng.choice([1, b * b]), 2 * rng.range(-20, 20))
        elif rng.chance(1, 8):
            s1 = -abs(s1)  # documented panic
        else:
            s1 = abs(s1)
        d1 = ndig(b, s1)
    if op in ("mul", "sqr", "cubic") and rng.chance(1, 2):
        # cofactors: the product is a power of the base times something (trailing zeros to strip)
        pp = prime_power(b)
        f = min(q for q in range(2, b + 1) if b % q == 0)
        s1, e1 = norm(b, f ** rng.range(1, 5) * rng.choice([1, 3]), e1)
        s2, e2 = norm(b, (b // f if b // f > 1 else f) ** rng.range(1, 5) * rng.choice([1, 7]), e2)
        d1 = ndig(b, s1)
    p = rng.choice([0, 1, 2, d1, d1, d1 + 1, max(1, d1 - 1), max(1, d1 - 3), 2 * d1 + 1, rng.range(1, 40)])
    if op in ("div", "inv", "sqrt") and not rng.chance(1, 10):
        p = max(p, 1)
    return "fprod %s %s %s %x %s %s %s %s" % (BASES[b], rng.choice(MODES), op, p, hx(s1), hx(e1), hx(s2), hx(e2))


def gen_cases(rng, tier, n):
    out = []
    while len(out) < n:
        k = rng.below(130)
        if k >= 124:
            out.append(ipar_case(rng, tier) if k < 126 else iop4_case(rng, tier, rng.choice(IOPS4)))
        elif k >= 116:
            out.append(fprod_case(rng, tier))
        elif k >= 108:
            out.append(dub_case(rng, tier))
        elif k >= 100:
            out.append(iop_case(rng, tier))
        elif k < 50:
            out.append(int_case(rng, tier))
        elif k < 68:
            out.append(flt_case(rng, tier))
        elif k < 82:
            out.append(flt_conv_case(rng, tier))
        else:
            out.append(rat_case(rng, tier))
    return out
