"""C08 - float text I/O is lossless and base/precision changes are faithfully rounded."""
import math
import os
from math import gcd
import sys

import core
from core import hx

# The constants / formulas of float/src/convert.rs the models read (THRESHOLD_SMALL_EXP, the work precision of the
# ln/exp route of convert_base, the f32 formula of with_base's precision, the precision of the context of
# TryFrom<f32/f64>) are regenerated into coq/gen/ConvBaseGen.v when this plug-in is imported, i.e. before the proof
# phase of every run.  Float/LargeExpAsis.v and Float/ConvBaseGenProof.v are stated over the regenerated definitions:
# an edit of the source breaks a proof obligation (C08_gen_*).  Unparseable source is not an alarm: the last good
# copy stays (marked STALE), the status is reported in the evidence, the correspondence run alone ties the model.
sys.path.insert(0, os.path.join(core.ROOT, "tools"))
try:
    import translate_c08_r3
    CONV_GEN_STATUS = translate_c08_r3.generate(core.REPO, os.path.join(core.COQ, "gen"))
except Exception as _ex:  # the generator itself broke: same fallback as an unparseable source
    CONV_GEN_STATUS = "unparsed generator-failed: %s" % str(_ex)[:200]
# round 4: the rounding prefixes of fmt_round / fmt_round_scientific, the table of impl_fmt_with_base!, the scale-marker
# table of the parser, the loop body of utils::common_root and the common-root branch of convert_base
# (coq/gen/ConvBaseGen4.v; theorems C08_gen4_* of Float/ConvBaseGen4Proof.v are stated over these definitions)
try:
    import translate_c08_r4
    CONV_GEN4_STATUS = translate_c08_r4.generate(core.REPO, os.path.join(core.COQ, "gen"))
except Exception as _ex:
    CONV_GEN4_STATUS = "unparsed generator-failed: %s" % str(_ex)[:200]
# round 5: the retry loop of the repaired ln/exp route (work precision with extra digits, padding of the interval ends,
# next number of extra digits, window of the exact fallback) -> coq/gen/ConvBaseGen5.v (theorems C08_gen5_*)
try:
    import translate_c08_r5
    CONV_GEN5_STATUS = translate_c08_r5.generate(core.REPO, os.path.join(core.COQ, "gen"))
except Exception as _ex:
    CONV_GEN5_STATUS = "unparsed generator-failed: %s" % str(_ex)[:200]

# a run against a scratch checkout (VERIF_REPO) must not leave its formulas in the tree for other builds
if os.path.realpath(core.REPO) != os.path.realpath("/repo"):
    import atexit

    def _restore_conv_gen():
        try:
            translate_c08_r3.generate("/repo", os.path.join(core.COQ, "gen"))
        except Exception:
            pass
        try:
            translate_c08_r4.generate("/repo", os.path.join(core.COQ, "gen"))
        except Exception:
            pass
        try:
            translate_c08_r5.generate("/repo", os.path.join(core.COQ, "gen"))
        except Exception:
            pass

    atexit.register(_restore_conv_gen)


def extra_phase(tier, seed, exes, oracle):
    word = CONV_GEN_STATUS.split(" ", 1)[0]
    word4 = CONV_GEN4_STATUS.split(" ", 1)[0]
    word5 = CONV_GEN5_STATUS.split(" ", 1)[0]
    return {
        "evaluations": 0,
        "hist": {"translator_c08:ConvBaseGen:" + word: 1, "translator_c08:ConvBaseGen4:" + word4: 1,
                 "translator_c08:ConvBaseGen5:" + word5: 1},
        "nontrivial": [],
        "samples": [{"fragment": "coq/gen/ConvBaseGen.v (tools/translate_c08_r3.py from float/src/convert.rs)",
                     "status": CONV_GEN_STATUS,
                     "tied_by": "C08_gen_* (Float/ConvBaseGenProof.v) and the as-is model Float/LargeExpAsis.v" if word == "ok"
                     else "correspondence run only (source not parsed; last good copy marked STALE)"},
                    {"fragment": "coq/gen/ConvBaseGen4.v (tools/translate_c08_r4.py from float/src/fmt.rs, parse.rs, utils.rs, convert.rs)",
                     "status": CONV_GEN4_STATUS,
                     "tied_by": "C08_gen4_* (Float/ConvBaseGen4Proof.v): generated rounding prefixes / format table / marker table / "
                                "common_root loop body / common-root branch = the hand-written models" if word4 == "ok"
                     else "correspondence run only (source not parsed; last good copy marked STALE)"},
                    {"fragment": "coq/gen/ConvBaseGen5.v (tools/translate_c08_r5.py from float/src/convert.rs)",
                     "status": CONV_GEN5_STATUS,
                     "tied_by": "C08_gen5_* (Float/LargeExpAsis5Proof.v) and the as-is model Float/LargeExpAsis5.v (retry loop of the ln/exp route)" if word5 == "ok"
                     else "correspondence run only (source not parsed; last good copy marked STALE)"}],
        "failures": [],
    }


ID = "C08"
READY = True
ORACLE = "c08"
HARNESS_BIN = "c08"
NCASES = {"quick": 16000, "thorough": 150000}
CASE_TIMEOUT = {"quick": 30, "thorough": 120}
MODES = ["Zero", "Away", "Up", "Down", "HalfEven", "HalfAway"]
BASES = [2, 2, 3, 8, 10, 10, 16, 36]
TARGETS = [2, 3, 10, 16]
# base pairs of the base-change operations (source -> targets), the same table as harness/src/bin/c08.rs
CONV_PAIRS = {
    2: [2, 3, 4, 5, 6, 8, 10, 16, 32],
    3: [2, 3, 9, 10, 16, 27],
    4: [2, 3, 4, 8, 10, 16, 32],
    5: [2, 3, 5, 10, 16, 25],
    6: [2, 3, 6, 10, 36],
    7: [2, 3, 10, 16],
    8: [2, 3, 4, 8, 10, 16, 32],
    9: [2, 3, 9, 10, 27],
    10: [2, 3, 5, 10, 16, 100],
    16: [2, 3, 4, 8, 10, 16, 32],
    25: [2, 5, 10, 25],
    27: [2, 3, 9, 10, 27],
    32: [2, 4, 8, 10, 16, 32],
    36: [2, 3, 6, 10, 16, 36],
    100: [2, 3, 10, 100],
}


def exact_log(n, b):
    """k >= 1 with n = b^k, else 0"""
    k, v = 0, 1
    while v < n:
        v *= b
        k += 1
    return k if v == n and k >= 1 else 0


def root_of(b):
    """smallest r with b = r^k"""
    for r in range(2, b + 1):
        if exact_log(b, r):
            return r
    return b


def pair_class(b, nb):
    if b == nb:
        return "same"
    if exact_log(nb, b) > 1:
        return "up"
    if exact_log(b, nb) > 1:
        return "down"
    if root_of(b) == root_of(nb):
        return "root"
    return "other"


PAIRS_BY_CLASS = {}
for _b, _l in sorted(CONV_PAIRS.items()):
    for _nb in _l:
        PAIRS_BY_CLASS.setdefault(pair_class(_b, _nb), []).append((_b, _nb))

LEVEL_TEXT = ("Coq theorems for all inputs (107 pinned): (1) the as-is model of the float parser (Repr::from_str_native transcribed on byte lists: sign, rfind of "
              "the scale marker, isize scale, point, hexadecimal form, digit counting, final normalisation; UBig::from_str_radix at its C07 "
              "specification) returns exactly the written value and the number of written digits on every text the documented grammar accepts "
              "(parse_spec = the grammar read left to right), and accepts nothing else: parse_asis = Ok v <-> parse_spec = Some v for every byte string and every base 2..36; "
              "FromStr for FBig = from_str_native with the regenerated context rule (C08_fbig_from_str_iff); (2) the as-is model of Display (fmt_round: rounding by round_fract, digit string, "
              "cut at the point, zero filling) and of LowerExp/UpperExp (fmt_round_scientific incl. the renormalised carry) print exactly the "
              "specified text, whose rounding is spec_round (T_round over the regenerated tables) - since round 3 the WHOLE text: the width the code computes from the parts it prints equals "
              "the length of sign + body and the padding is pad_spec (core::fmt's convention) for every width, fill, alignment, sign and zero flag (C08_display_full_text_asis_spec, "
              "C08_sci_full_text_asis_spec; true after the repair F08); (3) printing without options and parsing the text gives the same normalised float back, on the specification and on the "
              "as-is models; (4) with_precision (as-is) = specification, which errs by less than one unit of the last kept digit, at most half "
              "in the nearest modes, on the side of the mode, with a truthful Exact/Inexact flag and p digits; (5) the routes of "
              "convert_base without logarithm (same base, power-related bases, exact power for 0 <= e <= 38, exact long division) return the specification "
              "rounding of the exact value; the precision rule NewB^p' <= B^p < NewB^(p'+1); ilog_exact; (6) round 3, the ln/exp route AS IT IS (Float/LargeExpAsis.v: the code transcribed on the C11 as-is "
              "models of Context::ln / ln_base / exp, FBig multiplication and div_rem_euclid; work precision regenerated from the source): the inputs that take it, the answer is ONE specification rounding of "
              "significand * exp(rem) * NB^q, the Euclidean step is exact and its remainder one convert_int rounding; if ln, ln_base and exp err by at most k units in the last place of the work precision, "
              "|R - V| <= (NB^(1-p)(1+eps)+eps)|V| with eps <= 18 k log2up(NB) NB^(1-2p) for EVERY exponent whenever 16 k log2up(NB) <= NB^(2p-1) (C08_convert_large_route_error_fixed, after the repair F07), "
              "and since the guard digits of the repair F11 (round 4: NB^g > 2^20) for EVERY p >= 1 with eps <= 18 k log2up(NB) NB^(1-2p) / 2^20 (C08_convert_large_route_error_guarded); "
              "(7) IEEE import = exact dyadic value of Flocq's binary32/binary64 with precision bit_len(mantissa) (regenerated); (8) with_base's precision as it is (two f32 bounds as dyadic numbers, IEEE "
              "division to nearest even, truncation): under the log2_bounds contract it is floor(lb/ub), or one more exactly when the division rounded a non-integer quotient up to an integer; NB^p' <= B^p in the "
              "first case, NB^(p'-1) <= B^p always; it is the maximal precision iff pmax * ub <= lb (C08_with_base_precision_closed); (9) FBig::from_parts_const (what the literal macros expand to): the digit "
              "loop = number of digits for every DoubleWord significand, non-power-of-two branch = specification (after the repair F09). Every implementation answer of all "
              "APIs in observe_at is decided by the extracted specifications / the contract checker. Round 4: (10) convert_base AS IT IS after the repairs 344196e (small negative exponent: padded exact "
              "division, one rounding) and F10 (bases with a common root: exact path through the root, utils::common_root = Euclid on the exponents, proved to end within its fuel, sound and complete) equals ONE "
              "specification of a base change on EVERY route without logarithm (convert_base_spec: the p-digit float the mode names for the exact value s * B^e, normal form, flag Exact iff nothing was lost; "
              "C08_convert_base4_spec; the specification is a function of the value only, C08_convert_value_spec_ratio; round_norm of any representation of a value is its specification, "
              "C08_round_norm_value_spec); the ln/exp route is left only for |e| > 38 between bases WITHOUT a common root (C08_convert_base4_large_no_common_root), and for 10 -> 2 a value on it is "
              "representable or a tie only beyond 90 bits (C08_decimal_binary_exact_needs_91_bits); (11) the radix-specific formats {:b} {:o} {:x} {:X} of FBig (mode of the type) and Repr (Zero) - "
              "fmt_round_scientific with the marker and the hexadecimal switch - print the specified WHOLE text: positional forms = the LowerExp text with the marker of the format, hexadecimal form of "
              "a binary float = significand spec_round-ed to 4p+4 bits, carry undone by four bits (C08_hex_rounded_spec, C08_radix_body_hex), padding with the 0x prefix after the sign "
              "(C08_radix_format_text_asis_spec); (12) regenerated on every run and proved equal to what the models use (C08_gen4_*): the rounding prefixes of fmt_round and fmt_round_scientific, the "
              "table of impl_fmt_with_base!, the scale-marker table of the parser, the loop body of common_root, the common-root branch of convert_base; "
              "(13) round 5, the ln/exp route after the repair of F05 (Float/LargeExpAsis5.v: retry loop over the guard digits; both ends A (1 -+ NB^-pad), pad = 2p + extra - 1, of the error interval of the "
              "approximant are rounded and the route returns only when they agree, flag included; otherwise convert_base_exact inside the window |e| / 128 <= max(bit_len s, (p+1) bit_len NB) + 1, another pass "
              "with doubled guard digits outside): convert_base_exact = convert_base_spec for EVERY exponent (C08_convert_exact_asis_spec; the small-exponent branch is this function, "
              "C08_convert_base_small_is_exact); every float the loop returns is the specification of the value (fallback) or the common rounding of both ends of a pass, each end being the specification of that end "
              "(C08_convert_large_loop_returns, C08_large_end_is_spec, C08_large_pass_retry); the stability test is SOUND: spec_round is monotone in the numerator for every mode (floor + bump form, C08_spec_round_floor_form, "
              "C08_spec_round_mono), the specification of a base change is constant between two values on which it agrees with an Inexact flag - also across a power of the base, where the flags of the two ends differ "
              "(C08_convert_value_spec_between) - hence both ends rounding to the same float with the same Inexact flag implies that EVERY value between them has exactly that float and flag as its specification "
              "(C08_large_ends_agree_correct); the ends enclose every value within NB^-pad |A| of the approximant A (C08_ends_enclose; abstract form C08_monotone_stable_between); the formulas of the loop are regenerated (C08_gen5_*).")
LEVEL_NOTE = ("Since round 5 the ln/exp route of convert_base (|e| > 38 between bases WITHOUT a common root) is repaired (F05 fixed: stability test of the rounding over the error interval of the approximant, "
              "exact fallback, retry with doubled guard digits) and the verdict is STRICT on every route: the answer must be convert_base_spec (one rounding of the exact value). What stays conditional: that the "
              "approximant of a pass errs by at most NB^(1-2p-extra) of its magnitude follows from C08_convert_large_route_error_guarded only under the k-ulp contract of ln / ln_base / exp (k <= 512; C11: certified "
              "per case, observed <= 4, not proved universally) - the step from 'both ends round alike' to 'the value is rounded like them' is proved (C08_large_ends_agree_correct); termination of the loop outside the window (the value is then no (p+1)-digit float: prime-factor argument "
              "in the finding F05) is argued, not proved in Coq. The as-is model of the whole loop is evaluated on every route case (asis=same|diff; time budget, else only the strict verdict). "
              "The division step itself (div_round_once = correctly rounded quotient) is C06's theorem div_round_once_correct, cited; TextIoModel.convert_base_asis / C08_convert_small_neg describe the code "
              "BEFORE 344196e and are kept because other properties cite them (C08_convert4_agrees: same answers wherever the code did not change). Compared, not proved: "
              "the power-of-two branch of from_parts_const; Debug output (exact text of Float/DebugSpec.v, IBig's Debug at its C07 specification); the f32 operations inside the C11 models (instantiated in "
              "the oracle with IEEE single arithmetic, log2 = double log2 rounded); soundness of the two log2 bounds with_base divides is C12's contract (decided on every case with C12's bracket test). Trusted: "
              "Coq kernel, translators (round_low_part bodies; tools/translate_c08_r3.py: THRESHOLD_SMALL_EXP, work precision of the ln/exp route, with_base's formula, precision rules of TryFrom<f32/f64> and "
              "FromStr; tools/translate_c08_r4.py: straight-line statement compiler for the fmt rounding prefixes, common_root, the common-root branch, and the two tables; tools/translate_c08_r5.py: formulas and shape of the retry loop of the ln/exp route), extraction + FastZ.v, zarith, harness; UBig::from_str_radix / in_radix / IBig Debug at their C07 specifications; IBig arithmetic is Z (C01/C02).")
TECHNIQUE = "Coq proof (as-is models of parser, printer incl. padding and the radix-specific formats, with_precision, every convert_base route (= one specification of the value on every route without logarithm; the repaired ln/exp route returns the specification or the common rounding of both ends of its error interval), with_base precision, IEEE import, from_parts_const = specification or proved contract; print->parse round trip; regenerated fragments incl. rounding bodies of fmt.rs) + extracted specification, as-is models and contract checker on a correspondence run"
RULE = ("cases = API (FromStr / from_str_native for FBig and Repr; Display, LowerExp, UpperExp, Debug for FBig and Repr with flags + 0 < > ^ "
        "x width x precision option; Binary / Octal / LowerHex / UpperHex of FBig and Repr in the bases 2, 8, 16 (positional and hexadecimal form) with a precision shorter than the significand in every mode: "
        "dropped parts zero / below / at / above one half, all-maximal digits (carry); integer-valued floats in the top slice NewB^p' <= |x| < B^p of their precision, both directions between 2, 3, 10, 36 ...; "
        "print-then-parse round trips; with_precision; with_base, with_base_and_precision, to_decimal, "
        "to_binary; with_base's precision alone (wb_prec: source precisions where NewB^n <= B^p is tight, convergents of log NB / log B, up to 2^14 digits, 2^15 thorough); "
        "TryFrom<f32/f64> for FBig and Repr; from_parts_const with DoubleWord significands around every power of the base incl. the largest that fits) x base {2,3,8,10,16,36} "
        "(base changes: 15 source bases x their targets: same, power up/down, common root, multiple, coprime) x six modes x precision "
        "{0 (unlimited),1,2,3,5,10,17,24,53,64,100} x significand digit counts {1,2,p-1,p} incl. all-(B-1) and 10..0 patterns x "
        "exponents {0, +-1, +-2, -d-1..-d+1, +-37, +-38, +-39 (the small-exponent threshold), +-40, +-77, +-100, +-1000, +-3000 (10^4 thorough)}; texts: every "
        "form of the documented grammar (sign, digits with underscores and leading zeros, point with either side empty, all scale "
        "markers in both cases, hex-float form, signed scales with leading zeros up to the ends of isize) plus a malformed stream (mutations by inserting, "
        "deleting, doubling characters from a set of signs, markers, separators, prefixes, non-ASCII); IEEE bit patterns: zeros, "
        "subnormals, extremes of each class, infinities, NaNs, random. non-trivial = the text was accepted / a rounding or a "
        "conversion was performed / the oracle evaluated the specification on a finite value; distinct = distinct case texts.")
EXPLANATION = ("Verdicts: parse_spec (grammar read left to right) for texts; display_spec / sci_spec = pad_spec around display_body_spec / sci_body_spec (layout + spec_round + padding) for "
               "printed texts, compared as whole texts; radix_spec (Float/RadixFmtModel.v) for {:b} {:o} {:x} {:X}; Float/DebugSpec.v for Debug; with_precision_spec; for base changes on EVERY route "
               "(same base, power-related bases, |exponent| <= 38, bases with a common root, and since the repair of F05 in round 5 the ln/exp route) the answer must be exactly convert_base_spec (the correctly rounded "
               "p-digit float of the exact value s*B^e, normal form, truthful flag), together with the precision rule of with_base (maximal or one less; sound bounds by C12's bracket test); "
               "from_parts_const_spec; ieee_decode for f32/f64. The as-is model of the whole retry loop of the ln/exp route (Float/LargeExpAsis5.v on the C11 as-is models of ln / exp) is evaluated on every route case "
               "(asis=same|diff; paths large-window / large-far = inside / outside the window of the exact fallback). No known-finding tag is left in this check.")
TRUSTED_BASE = [
    "Coq 8.16.1 kernel",
    "tools/translate_c08_r4.py compiles the rounding prefixes of Repr::fmt_round / fmt_round_scientific, the loop body of utils::common_root and the common-root branch of convert_base (straight-line Rust -> Gallina) and reads the tables of impl_fmt_with_base! and of the scale markers (status in the evidence; theorems C08_gen4_*)",
    "tools/translate_c08_r5.py reads the retry loop of the ln/exp route of convert_base (work precision with extra digits, padding of the interval ends, next number of extra digits, window of the exact fallback; shape of the rest checked by patterns) - status in the evidence; theorems C08_gen5_*",
    "tools/translate.py renders the six round_low_part bodies of float/src/round.rs faithfully; tools/translate_c08_r3.py renders THRESHOLD_SMALL_EXP, the work precision of the ln/exp route, with_base's formula and the precision rules of TryFrom<f32/f64> / FromStr (float/src/convert.rs, parse.rs) - status in the evidence; tools/translate_c11_r3.py the guard-digit formulas the C11 models read",
    "extraction: ExtrOcamlBasic + ExtrOcamlZBigInt + coq/extract/FastZ.v directives; zarith 1.12; oracle/driver_c08.ml (f32 operations of the C11 models = IEEE single arithmetic via OCaml doubles, log2 = double log2 rounded to single)",
    "harness/src/bin/c08.rs and hlib (floats moved through raw words; texts as hex bytes)",
    "Conv/ConvModel.div_round_once and its theorem div_round_once_correct (C06: the padded division of convert_base is the correctly rounded quotient) are cited, not re-proved",
    "UBig::from_str_radix, IBig::in_radix and IBig's Debug behave as Int/IoSpec.v, Int/IoDebugModel.v say (C07); IBig arithmetic is Z (C01, C02); log2_bounds are sound (C12; re-decided per case); the as-is models of Context::ln / exp of Float/ElemAsis.v (C11) transcribe the code (fidelity measured by C11 and, through the route, here)",
    "core::fmt::Formatter reports width/precision/flags as written in the format string; DebugStruct's pretty printer lays fields out as documented; isize::from_str accepts [+-]?[0-9]+ within range",
]
ASSUMPTIONS = [
    "floats are finite, normalised (Repr::new) and fit their context precision (digits <= p or p = 0), as FBig::from_repr requires",
    "64-bit target: isize = 64 bits, THRESHOLD_SMALL_EXP = 38",
    "ulp_p(x) = B^(floor(log_B |x|) - p + 1)",
]

DIG = "0123456789abcdefghijklmnopqrstuvwxyz"


def H(s):
    return "-" if s == "" else s.encode("utf-8").hex()


def gen_sig(rng, b, d):
    if d <= 0:
        return 0
    lo, hi = b ** (d - 1), b ** d - 1
    k = rng.below(8)
    if k == 0:
        return hi
    if k == 1:
        return lo
    if k == 2:
        return min(hi, lo + 1)
    if k == 3:
        return max(lo, hi - 1)
    if k == 4:
        # half-way patterns: d-1 digits then the half digit
        if b % 2 == 0 and d >= 2:
            return rng.range(b ** (d - 2), b ** (d - 1) - 1) * b + b // 2
    return rng.range(lo, hi)


def precisions(rng, tier):
    c = [1, 1, 2, 2, 3, 3, 5, 10, 17, 24, 53, 64, 100]
    if tier == "thorough":
        c += [200, 500]
    return rng.choice(c)


def gen_float(rng, tier, b, unlimited_ok=True, big_exp=True):
    """(sig, exp, p0) with digits(sig) <= p0 or p0 = 0"""
    p = precisions(rng, tier)
    d = min(p, rng.choice([1, 2, max(1, p - 1), p, p]))
    s = gen_sig(rng, b, d)
    es = [0, 0, 1, -1, 2, -2, -d, -d - 1, -d + 1, -d - 3, 5, -7, 37, 38, 39, -37, -38, -39]
    if big_exp:
        es += [100, -100, 1000, -1000, 10000 if tier == "thorough" else 3000, -10000 if tier == "thorough" else -3000, 40, -40, 77, -77]
    e = rng.choice(es)
    if rng.chance(1, 30):
        s = 0
        e = 0
    if rng.chance(1, 2):
        s = -s
    if unlimited_ok and rng.chance(1, 12):
        p = 0
    return s, e, p


def digits_text(rng, v, b, upper=False):
    if v == 0:
        return "0"
    out = ""
    while v:
        out = DIG[v % b] + out
        v //= b
    return out.upper() if upper else out


def sprinkle(rng, s):
    """underscores inside / around a digit run"""
    if rng.chance(2, 3) or s == "":
        return s
    out = ""
    for ch in s:
        if rng.chance(1, 4):
            out += "_"
        out += ch
    if rng.chance(1, 4):
        out += "_"
    return out


def marker_for(rng, b, hexform):
    if rng.chance(1, 4):
        return "@"
    if b == 10:
        return rng.choice("eE")
    if b == 2:
        return rng.choice("pP") if hexform else rng.choice("bB")
    if b == 8:
        return rng.choice("oO")
    if b == 16:
        return rng.choice("hH")
    return "@"


def gen_text(rng, tier, b):
    """a text of the documented grammar"""
    hexform = (b == 2 and rng.chance(1, 2))
    r = 16 if hexform else b
    ni = rng.choice([0, 1, 1, 2, 3, 5, 9, 20, 40])
    nf = rng.choice([0, 0, 1, 2, 3, 7, 20])
    form = rng.below(4)   # 0: int only, 1: int '.', 2: int '.' frac, 3: '.' frac
    if form == 0 or form == 1:
        nf = 0
        ni = max(1, ni)
    if form == 3:
        ni = 0
        nf = max(1, nf)
    if form == 2:
        ni, nf = max(1, ni), max(1, nf)

    def run(n):
        k = rng.below(5)
        if k == 0:
            s = "0" * n
        elif k == 1:
            s = "".join(DIG[r - 1] for _ in range(n))
        elif k == 2 and n >= 2:
            s = "0" * (n // 2) + "".join(DIG[rng.below(r)] for _ in range(n - n // 2))
        elif k == 3 and n >= 2:
            s = "".join(DIG[rng.below(r)] for _ in range(n - n // 2)) + "0" * (n // 2)
        else:
            s = "".join(DIG[rng.below(r)] for _ in range(n))
        if rng.chance(1, 3):
            s = s.upper()
        return sprinkle(rng, s)
    body = run(ni)
    if form >= 1:
        body += "." + run(nf)
    if hexform:
        body = rng.choice(["0x", "0x", "0X"]) + body
    sign = rng.choice(["", "", "+", "-", "-"])
    text = sign + body
    if rng.chance(3, 5):
        sc = rng.choice([0, 1, 2, 7, 12, 37, 38, 39, 100, 1000, 99999, 2 ** 31, 2 ** 62])
        scs = rng.choice(["", "", "+", "-", "-"]) + "0" * rng.choice([0, 0, 0, 1, 3]) + str(sc)
        text += marker_for(rng, b, hexform) + scs
    return text


MUT = ["+", "-", "_", ".", "e", "E", "p", "P", "b", "B", "o", "O", "h", "H", "@", "x", "X", "0", "0x", " ", "一", "ß", "1", "z",
       "9223372036854775807", "-9223372036854775808", "9223372036854775808"]


def mutate(rng, s):
    for _ in range(rng.choice([1, 1, 2, 3])):
        k = rng.below(4)
        pos = rng.below(len(s) + 1)
        if k == 0 or len(s) == 0:
            s = s[:pos] + rng.choice(MUT) + s[pos:]
        elif k == 1:
            pos = rng.below(len(s))
            s = s[:pos] + s[pos + 1:]
        elif k == 2:
            pos = rng.below(len(s))
            s = s[:pos] + s[pos] + s[pos:]
        else:
            pos = rng.below(len(s))
            s = s[:pos] + rng.choice(MUT) + s[pos + 1:]
    return s


def gen_parse(rng, tier, b):
    t = gen_text(rng, tier, b)
    if rng.chance(2, 5):
        t = mutate(rng, t)
    op = rng.choice(["parse", "parse", "parse", "parse_native", "parse_repr"])
    return "%s %x %s %s" % (op, b, rng.choice(MODES), H(t))


FLAGS = ["-", "-", "-", "+", "0", "+0", "<", "<+", "<0", "<+0", ">", ">+", ">0", ">+0", "^", "^+", "^0", "^+0"]


def ndigits(v, b):
    v = abs(v)
    d = 0
    while v:
        v //= b
        d += 1
    return d


def gen_print(rng, tier, b):
    s, e, p0 = gen_float(rng, tier, b, big_exp=False)
    if rng.chance(1, 8):
        e = rng.choice([100, -100, 300, -300])
    d = ndigits(s, b)
    op = rng.choice(["disp", "disp", "disp", "disp", "disp_repr", "lexp", "lexp", "lexp_repr", "uexp", "uexp_repr"])
    fl = rng.choice(FLAGS)
    approx_len = d + abs(e) + 2
    w = rng.choice(["-", "-", "-", 0, 1, 2, 3, 4, 5, 6, 8, approx_len - 1, approx_len, approx_len + 1, approx_len + 2, approx_len + 7, 40])
    if op.startswith("disp"):
        pr = rng.choice(["-", "-", 0, 0, 1, 2, 3, -e - 1, -e, -e + 1, -e - 2, -e - d, -e - d - 1, -e - d + 1, 30])
    else:
        pr = rng.choice(["-", "-", 0, 0, 1, 2, 3, d - 2, d - 1, d, d + 1, 30])
    fx = lambda v: "-" if v == "-" else "%x" % max(0, v)
    return "%s %x %s %s %s %x %s %s %s" % (op, b, rng.choice(MODES), hx(s), hx(e), p0, fl, fx(w), fx(pr))


def gen_misc(rng, tier, b):
    s, e, p0 = gen_float(rng, tier, b, big_exp=False)
    if rng.chance(1, 6):
        e = rng.choice([100, -100, 1000, -1000])
    k = rng.below(10)
    if k < 2:
        op = rng.choice(["dbg", "dbg_alt", "dbg_repr", "dbg_repr_alt"])
        return "%s %x %s %s %s %x" % (op, b, rng.choice(MODES), hx(s), hx(e), p0)
    if k < 6:
        return "%s %x %s %s %s %x" % (rng.choice(["rt", "rt", "rt_exp"]), b, rng.choice(MODES), hx(s), hx(e), p0)
    d = ndigits(s, b)
    p = rng.choice([0, 1, 2, 3, max(1, d - 1), max(1, d - 1), d, d + 1, max(1, d - 2), max(1, d // 2), p0, p0 + 1])
    return "with_precision %x %s %s %s %x %x" % (b, rng.choice(MODES), hx(s), hx(e), p0, p)


def gen_conv(rng, tier, b):
    # the class of the base pair first, then a pair of the class: every route of convert_base is met from
    # every family of source bases (the power routes not only from / to base 2)
    cls = rng.choice(["same", "up", "up", "up", "up", "down", "down", "down", "root", "root"] + ["other"] * 10)
    k = rng.below(10)
    if k >= 8:
        op = rng.choice(["to_decimal", "to_binary"])
        b = rng.choice(sorted(CONV_PAIRS))
        nb = 10 if op == "to_decimal" else 2
    else:
        b, nb = rng.choice(PAIRS_BY_CLASS[cls])
    s, e, p0 = gen_float(rng, tier, b)
    if p0 > 64 and abs(e) > 1000:
        e = e // 30
    n = max(exact_log(nb, b), exact_log(b, nb))
    if n > 1 and rng.chance(1, 2):
        # power-related bases: every residue of the exponent modulo n, both signs of the quotient
        q = rng.choice([0, 0, 1, -1, 2, -2, 3, -3, 7, -7, 13, -13, 40, -40, 100, -100, 1000, -1000])
        e = n * q + rng.below(n)
    mode = rng.choice(MODES)
    if k < 4:
        return "with_base %x %s %x %s %s %x" % (b, mode, nb, hx(s), hx(e), p0)
    if k < 8:
        d = ndigits(s, b)
        p = rng.choice([0, 1, 2, 3, 5, max(1, d - 1), d, d + 1, 2 * d, 10, 24, 53, 64, p0])
        return "with_base_prec %x %s %x %s %s %x %x" % (b, mode, nb, hx(s), hx(e), p0, p)
    return "%s %x %s %s %s %x" % (op, b, mode, hx(s), hx(e), p0)


def gen_conv_jump(rng, tier):
    """round 5 (repaired ln/exp route: |e| > 38 between bases without a common root): values ON or NEXT TO a jump of the
    rounding function of the target precision - a float of p digits or the middle between two of them.
    kind 0: the value IS such a number (exponent inside the window of the exact fallback): p = its digit count -1/0/+1/+2;
    kind 1: the value is within 2^-bits of such a number but is none, exponent far outside the window
            (|e| > 128 * bits): the stability test fails in the first pass(es) and the route retries with doubled guard digits;
    kind 2: small precisions at huge exponents (window vs far at the threshold |e| / 128 = bits -1/0/+1)."""
    b, nb = rng.choice(PAIRS_BY_CLASS["other"])
    mode = rng.choice(MODES)
    kind = rng.below(3)
    sign = rng.choice([1, -1])
    if kind == 0:
        e = rng.choice([39, 40, 41, 45, 50, 64, 77, 100, 150, -39, -40, -41, -45, -50, -64, -77, -100])
        j = gen_sig(rng, b, rng.choice([1, 1, 2, 3, 5]))
        if e >= 0:
            sv, num, den = j, j * b ** e, 1
        else:
            D = b ** (-e)
            g = D
            while True:                      # the part of D coprime to nb
                c = gcd(g, nb)
                if c == 1:
                    break
                while g % c == 0:
                    g //= c
            sv = j * g                       # value j / (D / g), and D / g divides a power of nb
            if ndigits(sv, b) > 400:
                return gen_conv_jump(rng, tier)
            num, den = j, D // g
        k = 0
        while num % den:
            num *= nb
            k += 1
            if k > 4000:
                return gen_conv_jump(rng, tier)
        m = num // den
        while m % nb == 0:
            m //= nb
        d = ndigits(m, nb)
        pt = max(1, d + rng.choice([-2, -1, -1, 0, 0, 0, 1, 2]))
        if pt > 600:
            return gen_conv_jump(rng, tier)
        return "with_base_prec %x %s %x %s %s %x %x" % (b, mode, nb, hx(sign * sv), hx(e), 0 if rng.chance(1, 2) else ndigits(sv, b), pt)
    lb, lnb = b.bit_length(), nb.bit_length()
    if kind == 1:
        pt = rng.choice([1, 1, 2, 3, 4, 6, 9, 17])
        bits = rng.choice([3 * pt * lnb, 4 * pt * lnb + 20, 6 * pt * lnb + 40, 120, 200 if tier == "thorough" else 90])
        e = rng.choice([1, -1]) * (128 * (max(bits, (pt + 1) * lnb) + 3) + rng.below(2000))
        m = gen_sig(rng, nb, pt)
        tie = rng.chance(1, 3)
        jn = 2 * m + 1 if tie else 2 * m            # jump point jn / 2 * nb^q
        # q such that jn / 2 * nb^q / b^e has about `bits` bits
        q = int(round((e * math.log2(b) + bits - math.log2(jn / 2)) / math.log2(nb)))
        num = jn * (nb ** q if q >= 0 else 1) * (b ** (-e) if e < 0 else 1)
        den = 2 * (nb ** (-q) if q < 0 else 1) * (b ** e if e >= 0 else 1)
        sv = num // den + rng.choice([0, 0, 1, 1, -1, 2])
        if sv <= 0 or sv * den == num:
            sv += 1
        return "with_base_prec %x %s %x %s %s %x %x" % (b, mode, nb, hx(sign * sv), hx(e), 0, pt)
    pt = rng.choice([1, 2, 3, 5])
    sv = gen_sig(rng, b, rng.choice([1, 2, 4, 9]))
    bits = max(sv.bit_length(), (pt + 1) * lnb) + 1
    e = rng.choice([1, -1]) * (128 * (bits + rng.choice([-1, 0, 0, 1, 1, 2])) + rng.choice([0, 1, 64, 127]))
    if abs(e) <= 38:
        e = 39
    return "with_base_prec %x %s %x %s %s %x %x" % (b, mode, nb, hx(sign * sv), hx(e), 0, pt)


def gen_conv_int_top(rng, tier):
    """integer-valued floats in the top slice of their precision, NewB^p' <= |x| < B^p (p' the target precision with_base
    chooses: NewB^p' <= B^p < NewB^(p'+1)): they fit the SOURCE precision but not the target one and have to be rounded
    (seeded change C08_E: a shortcut for integers with the wrong precision in its guard).  Both directions between
    2, 3, 10, 36 and their neighbours; also one digit below the slice (exact) and the two ends of it."""
    b, nb = rng.choice([(2, 10), (2, 10), (10, 2), (10, 2), (2, 3), (3, 2), (3, 10), (10, 3), (36, 10), (36, 2), (36, 3), (10, 16),
                        (2, 5), (5, 2), (7, 10), (7, 2), (16, 10), (8, 10), (100, 3), (6, 10)])
    p = rng.choice([1, 2, 3, 4, 5, 7, 10, 17, 20, 24, 53, 64, 100])
    top = b ** p
    pp, v = 0, 1
    while v * nb <= top:
        v *= nb
        pp += 1
    lo = v          # NewB^p'
    k = rng.below(8)
    if lo >= top:   # B^p is a power of NewB (cannot happen for these pairs, p >= 1) - fall back
        lo = max(1, top // 2)
    if k == 0:
        s = lo
    elif k == 1:
        s = top - 1
    elif k == 2:
        s = min(top - 1, lo + 1)
    elif k == 3:
        s = max(1, lo - 1)          # just below the slice: representable, exact
    elif k == 4:
        # a tie / half-way pattern of the target digits: (odd multiple of NewB^j / 2) inside the slice when NewB is even
        j = max(0, ndigits(top - 1, nb) - pp)
        unit = nb ** max(1, j)
        s = (rng.range(lo, top - 1) // unit) * unit + (unit // 2 if nb % 2 == 0 else unit // 2 + rng.below(2))
        s = min(max(s, lo), top - 1)
    else:
        s = rng.range(lo, top - 1)
    while s % b == 0:               # exponent 0 after normalisation
        s += 1
    if s >= top:
        s = top - 1
        while s % b == 0:
            s -= 1
    if rng.chance(1, 2):
        s = -s
    mode = rng.choice(MODES)
    k2 = rng.below(10)
    if k2 < 5 or (b, nb) not in [(x, y) for x in CONV_PAIRS for y in CONV_PAIRS[x]]:
        if nb == 10 and rng.chance(1, 2):
            return "to_decimal %x %s %s 0 %x" % (b, mode, hx(s), p)
        if nb == 2 and rng.chance(1, 2):
            return "to_binary %x %s %s 0 %x" % (b, mode, hx(s), p)
        return "with_base %x %s %x %s 0 %x" % (b, mode, nb, hx(s), p)
    if k2 < 8:
        return "with_base %x %s %x %s 0 %x" % (b, mode, nb, hx(s), p)
    return "with_base_prec %x %s %x %s 0 %x %x" % (b, mode, nb, hx(s), p, rng.choice([pp, pp, max(1, pp - 1), pp + 1]))


RADIX_OPS = {2: ["bin", "bin", "lhex", "lhex", "uhex", "bin_repr", "lhex_repr", "uhex_repr"],
             8: ["oct", "oct", "oct", "oct_repr"],
             16: ["lhex", "lhex", "uhex", "uhex", "lhex_repr", "uhex_repr"]}


def gen_radix(rng, tier):
    """{:b} {:o} {:x} {:X} of FBig / Repr in the bases 2, 8, 16 - mostly WITH a precision shorter than the significand
    (in hexadecimal digits = 4 bits each for the hexadecimal form of base 2), in every mode: dropped parts that are
    zero / below / at / above one half, all-ones significands (carry into a new digit), one digit, zero; flags + width"""
    b = rng.choice([2, 2, 8, 16])
    op = rng.choice(RADIX_OPS[b])
    hexform = (b == 2 and op.startswith(("lhex", "uhex")))
    p0 = precisions(rng, tier)
    d = min(p0, rng.choice([1, 2, 3, 5, 8, 9, 12, 13, 16, 17, 24, 33, p0, p0]))
    k = rng.below(10)
    lo, hi = b ** (d - 1), b ** d - 1
    if k == 0:
        s = hi                                    # all digits maximal: every rounding up carries
    elif k == 1:
        s = lo
    elif k == 2 and d >= 3:
        # kept part, then exactly one half of the dropped part (base even): ties
        cut = rng.range(1, d - 1)
        s = rng.range(b ** (d - cut - 1), b ** (d - cut) - 1) * b ** cut + (b ** cut) // 2
    elif k == 3 and d >= 3:
        cut = rng.range(1, d - 1)
        s = rng.range(b ** (d - cut - 1), b ** (d - cut) - 1) * b ** cut + (b ** cut) // 2 + rng.choice([-1, 1])
    elif k == 4 and d >= 3:
        cut = rng.range(1, d - 1)
        s = (b ** (d - cut) - 1) * b ** cut + rng.range(0, b ** cut - 1)      # kept digits all maximal
    else:
        s = rng.range(lo, hi)
    e = rng.choice([0, 0, 1, -1, 3, -3, -d, -d + 1, 7, -9, 100, -100, 1000])
    if rng.chance(1, 25):
        s, e = 0, 0
    if rng.chance(1, 2):
        s = -s
    nd = (ndigits(s, 2) + 3) // 4 if hexform else ndigits(s, b)          # printed digits
    pr = rng.choice(["-", 0, 0, 1, 1, 2, 3, max(0, nd - 3), max(0, nd - 2), max(0, nd - 2), nd - 1, nd, nd + 2, 20])
    fl = rng.choice(FLAGS)
    approx_len = nd + 6
    w = rng.choice(["-", "-", "-", 0, 3, 6, approx_len - 1, approx_len, approx_len + 1, approx_len + 4, 30])
    fx = lambda v: "-" if v == "-" else "%x" % max(0, v)
    return "%s %x %s %s %s %x %s %s %s" % (op, b, rng.choice(MODES), hx(s), hx(e), p0, fl, fx(w), fx(pr))


def gen_wb_prec(rng, tier):
    """FBig::with_base's precision: source precisions at the places where NewB^n <= B^p is tight (p = ceil(n log NB / log B)
    and its neighbours, for n up to 2^14, 2^15 thorough), small precisions, powers of two, the convergents of log NB / log B"""
    import math
    cls = rng.choice(["up", "down", "root", "other", "other", "other", "other"])
    b, nb = rng.choice(PAIRS_BY_CLASS[cls])
    ratio = math.log(nb) / math.log(b)
    k = rng.below(10)
    if k < 3:
        p0 = rng.choice([0, 1, 1, 2, 3, 4, 5, 7, 10, 17, 24, 53, 64, 100, 113, 237])
    elif k < 8:
        n = rng.range(1, (1 << 15) if tier == "thorough" else (1 << 14))
        if rng.chance(1, 3):
            n = rng.choice([1 << rng.range(1, 13), (1 << rng.range(1, 13)) + 1, (1 << rng.range(2, 13)) - 1])
        p0 = max(1, int(math.ceil(n * ratio)) + rng.choice([-1, 0, 0, 0, 1]))
    else:
        # continued fraction convergents of log NB / log B: p0 / n within 1 / n^2 of the ratio
        h0, h1, k0, k1, x = 0, 1, 1, 0, ratio
        cands = []
        for _ in range(12):
            a = int(math.floor(x))
            h0, h1 = h1, a * h1 + h0
            k0, k1 = k1, a * k1 + k0
            if 0 < h1 < (60000 if tier == "thorough" else 30000):
                cands.append(h1)
            if x - a < 1e-12:
                break
            x = 1.0 / (x - a)
        p0 = rng.choice(cands) + rng.choice([-1, 0, 0, 1]) if cands else 7
        p0 = max(1, p0)
    return "wb_prec %x %s %x %x" % (b, rng.choice(MODES), nb, p0)


def gen_fpc(rng, tier, b):
    """FBig::from_parts_const: DoubleWord significands around the powers of the base (also the largest one that fits),
    trailing zero digits, all-ones, zero; min_precision absent / below / at / above the digit count"""
    k = rng.below(8)
    top = 1 << 128
    maxpow = 1
    while maxpow * b < top:
        maxpow *= b
    if k == 0:
        v = rng.choice([0, 1, b - 1, b, top - 1, top - 2, 1 << 127, 1 << 64, (1 << 64) - 1, 1 << 32, (1 << 32) - 1])
    elif k == 1:
        v = min(top - 1, maxpow + rng.choice([-1, 0, 0, 1, 12345]))
    elif k == 2:
        v = min(top - 1, maxpow * rng.range(1, max(1, (top - 1) // maxpow)))
    elif k == 3:
        d = rng.range(1, 40)
        v = min(top - 1, b ** min(d, 127) + rng.choice([-1, 0, 1]))
    elif k == 4:
        v = min(top - 1, rng.bits(rng.range(1, 100)) * b ** rng.range(1, 5))
    else:
        v = rng.bits(rng.choice([8, 32, 33, 64, 65, 127, 128]))
    v = max(0, v)
    d = ndigits(v, b)
    mp = rng.choice(["-", "-", 0, 1, max(0, d - 1), d, d + 1, 60])
    e = rng.choice([0, 0, 1, -1, -5, 7, 100, -100])
    return "fpc %x %s %s %s %s" % (b, rng.choice(MODES), hx(-v if rng.chance(1, 2) else v), hx(e), mp if mp == "-" else "%x" % mp)


def gen_ieee(rng, tier):
    if rng.chance(1, 2):
        mw, ew, op = 23, 8, rng.choice(["from_f32", "from_f32", "from_f32_repr"])
    else:
        mw, ew, op = 52, 11, rng.choice(["from_f64", "from_f64", "from_f64_repr"])
    ex = rng.choice([0, 0, 1, 2, (1 << (ew - 1)) - 1, (1 << (ew - 1)), (1 << ew) - 2, (1 << ew) - 1, rng.below(1 << ew)])
    fr = rng.choice([0, 1, (1 << mw) - 1, 1 << (mw - 1), rng.bits(mw), rng.bits(mw), 1 << rng.below(mw), rng.bits(mw) >> rng.below(mw)])
    sg = rng.below(2)
    bits = (sg << (mw + ew)) | (ex << mw) | fr
    return "%s 2 %s %x" % (op, rng.choice(MODES), bits)


def valid(text):
    """premise of the property (also used by the shrinker): the operand fits its precision"""
    t = text.split()
    op = t[0]
    try:
        if op in ("bin", "oct", "lhex", "uhex", "bin_repr", "oct_repr", "lhex_repr", "uhex_repr"):
            b, s, p0 = int(t[1], 16), core.unhx(t[3]), int(t[5], 16)
            if b not in RADIX_OPS or op not in RADIX_OPS[b]:
                return False
            return p0 == 0 or ndigits(s, b) <= p0
        if op in ("disp", "disp_repr", "lexp", "lexp_repr", "uexp", "uexp_repr", "dbg", "dbg_alt", "dbg_repr", "dbg_repr_alt", "rt", "rt_exp",
                  "with_precision", "to_decimal", "to_binary"):
            b, s, p0 = int(t[1], 16), core.unhx(t[3]), int(t[5], 16)
            if op in ("to_decimal", "to_binary"):
                if b not in CONV_PAIRS:
                    return False
            elif b not in (2, 3, 5, 7, 8, 10, 16, 36):
                return False
            return p0 == 0 or ndigits(s, b) <= p0
        if op in ("with_base", "with_base_prec"):
            b, s, p0 = int(t[1], 16), core.unhx(t[4]), int(t[6], 16)
            return (p0 == 0 or ndigits(s, b) <= p0) and int(t[3], 16) in CONV_PAIRS.get(b, [])
        if op == "wb_prec":
            return int(t[3], 16) in CONV_PAIRS.get(int(t[1], 16), []) and int(t[4], 16) < (1 << 20)
    except Exception:
        return False
    return True


def gen_cases(rng, tier, n):
    out = []
    while len(out) < n:
        b = rng.choice(BASES)
        k = rng.below(100)
        if k < 30:
            c = gen_parse(rng, tier, b)
        elif k < 52:
            c = gen_print(rng, tier, b)
        elif k < 68:
            c = gen_misc(rng, tier, b)
        elif k < 82:
            c = gen_conv(rng, tier, b)
        elif k < 84:
            c = gen_conv_jump(rng, tier)
        elif k < 87:
            c = gen_conv_int_top(rng, tier)
        elif k < 90:
            c = gen_radix(rng, tier)
        elif k < 92:
            c = gen_wb_prec(rng, tier)
        elif k < 94:
            c = gen_fpc(rng, tier, b)
        else:
            c = gen_ieee(rng, tier)
        if valid(c):
            out.append(c)
    return out
