"""C07 - integer text and byte encodings round-trip and match the reference digits."""
import os
import sys
import core
from core import hx, gen_int, gen_mag

# coq/gen/IoTables.v (byte ranges of digit_from_ascii_byte, the 0b/0o/0x prefix table, MIN/MAX_RADIX, DigitCase
# offsets, MAX_(D)WORD_DIGITS_NON_POW_2, constants of max_exp_in_word/dword, CHUNK_LENs, SWAR constants) is
# regenerated from the Rust sources when this plug-in is imported, i.e. before the proof phase of every run
# (tools/translate.py is shared and not ours to edit).  coq/theories/Int/IoTablesProof.v proves the hand-written
# models equal to the tables.  Unparseable source is not an alarm: the previous copy stays (marked STALE), the
# status goes into the evidence (extra_phase) and the correspondence run alone ties the models.
sys.path.insert(0, os.path.join(core.ROOT, "tools"))
try:
    import translate_c07
    IO_TABLES_STATUS = translate_c07.generate(core.REPO, os.path.join(core.COQ, "gen"))
except Exception as _ex:  # the generator itself broke: same fallback as an unparseable source
    IO_TABLES_STATUS = "unparsed generator-failed: %s" % str(_ex)[:200]
# round 3: coq/gen/IoTables3.v (trait table of fmt/mod.rs, the in_radix digit-case rule, sign / padding literals, the
# Debug printer's literals and radix, BUFFER_LEN_MIN, the separator byte, the num-traits / serde string routes)
try:
    import translate_c07_r3
    IO_TABLES3_STATUS = translate_c07_r3.generate(core.REPO, os.path.join(core.COQ, "gen"))
except Exception as _ex:
    IO_TABLES3_STATUS = "unparsed generator-failed: %s" % str(_ex)[:200]
# round 4: coq/gen/IoDispatch4.v (the dispatch functions of parse/*.rs and fmt/*.rs: which converter for which radix, which path
# for which length / representation, loop conditions and split points of the divide-and-conquer parser, the length shortcut of
# the printer's squaring loop, the width formula of the power-of-two printer) and InRadixWriter::format_prepared (symbolic run of its
# output statements) as generated Gallina functions
try:
    import translate_c07_r4
    IO_DISPATCH4_STATUS = translate_c07_r4.generate(core.REPO, os.path.join(core.COQ, "gen"))
except Exception as _ex:
    IO_DISPATCH4_STATUS = "unparsed generator-failed: %s" % str(_ex)[:200]


def extra_phase(tier, seed, exes, oracle):
    word = IO_TABLES_STATUS.split(" ", 1)[0]
    word3 = IO_TABLES3_STATUS.split(" ", 1)[0]
    word4 = IO_DISPATCH4_STATUS.split(" ", 1)[0]
    return {
        "evaluations": 0,
        "hist": {"FRAGMENT:translator_c07:IoTables:" + word: 1, "FRAGMENT:translator_c07_r3:IoTables3:" + word3: 1,
                 "FRAGMENT:translator_c07_r4:IoDispatch4:" + word4: 1},
        "nontrivial": [],
        "samples": [{"fragment": "coq/gen/IoDispatch4.v (tools/translate_c07_r4.py from integer/src/parse/mod.rs, parse/power_two.rs, "
                                 "parse/non_power_two.rs, fmt/mod.rs, fmt/power_two.rs, fmt/non_power_two.rs, math.rs)",
                     "status": IO_DISPATCH4_STATUS,
                     "tied_by": "C07_dispatch_print_eq, C07_dispatch_parse_eq, C07_dispatch_parse_dc, C07_dispatch_parse_powers, C07_dispatch_fmt_powers, "
                                "C07_dispatch_p2_width, C07_dispatch_print, C07_dispatch_parse, C07_layout_gen_eq, C07_layout_gen" if word4 == "ok"
                                else "correspondence run only (source not parsed; previous copy marked STALE)"},
                    {"fragment": "coq/gen/IoTables3.v (tools/translate_c07_r3.py from integer/src/fmt/mod.rs, fmt/non_power_two.rs, "
                                 "fmt/digit_writer.rs, parse/*.rs, third_party/num_traits.rs, third_party/serde.rs)",
                     "status": IO_TABLES3_STATUS,
                     "tied_by": "C07_fmt_tables, C07_trait_table, C07_inradix_case, C07_layout_literals, C07_debug, C07_third_party_routes, C07_digit_table" if word3 == "ok"
                                else "correspondence run only (source not parsed; previous copy marked STALE)"},
                    {"fragment": "coq/gen/IoTables.v (tools/translate_c07.py from integer/src/radix.rs, parse/mod.rs, math.rs, "
                                 "fmt/non_power_two.rs, parse/non_power_two.rs, arch/generic/digits.rs)",
                     "status": IO_TABLES_STATUS,
                     "tied_by": "C07_tables_digit, C07_tables_prefix, C07_tables_consts, C07_digit_buffers_fit, C07_swar_chunk" if word == "ok"
                                else "correspondence run only (source not parsed; previous copy marked STALE)"}],
        "failures": [],
    }


ID = "C07"
READY = True
ORACLE = "c07"
HARNESS_BIN = "c07"
NCASES = {"quick": 7000, "thorough": 120000}
CASE_TIMEOUT = {"quick": 30, "thorough": 120}
# the same cases on the 64-bit and on the force_bits="32" build: every `ok` answer carries `wb=<bits>`, the oracle runs the
# word-level and value-level as-is models at exactly that word size (digits per word, chunk lengths, the double-word /
# array switch and the Debug format differ between the builds)
CONFIGS = ["default", "w32"]
if os.environ.get("C07_CONFIGS"):       # sensitivity experiments only
    CONFIGS = os.environ["C07_CONFIGS"].split(",")


def canon_answer(ans):
    """cross-configuration comparison: the word-size token is dropped; Debug texts (marked `dbg`) show all digits below a
    DOUBLE word and head..tail of digits_per_word digits above, i.e. they depend on the word size by design - each build's
    answer is judged against the specification at its own word size, the comparison between builds skips them"""
    toks = ans.split(" ")
    if "dbg" in toks:
        return "ok dbg"
    return " ".join(t for t in toks if not t.startswith("wb="))

LEVEL_TEXT = ("Machine-checked Coq theorems for all inputs (no size bound; every even word size >= 8 bits that holds the radix, in "
              "particular 16/32/64): the digit specification is the unique positional representation; the radix table is the largest "
              "power fitting a word; the as-is models of the printers and parsers equal the specification (value and error kind) at "
              "TWO levels: the value level (every dispatch, threshold and estimate-then-correct loop of fmt/*.rs, parse/*.rs) and the "
              "word level, where nothing below the converters is left at its meaning on Z - fast_div_by_word_in_place groups, "
              "mul_word_in_place_with_carry chunks, the double-word split, the [Word; CHUNK_LEN] bounds and assert_eq! of the "
              "printer, and for the divide-and-conquer paths the as-is models of C01 (pow, sqr, mul) and C02 (div_rem) cited by "
              "their theorems; DigitWriter (buffering, flush, SWAR digit->ASCII) prints the byte-wise map of the digits for every "
              "chunk length and every partition into write calls; format_prepared equals core::fmt's pad_integral for every flag "
              "combination; the trait table of fmt/mod.rs (radix / prefix / DigitCase for UBig and IBig), the in_radix digit-case "
              "rule, digit_from_ascii_byte evaluated on all 256 bytes, the 0b/0o/0x table and the constants are REGENERATED from the "
              "source on every run and the theorems are proved over the generated definitions; the Debug printer (head..tail digits, "
              "digit count, bit length; one Knuth step on the normalised divisor) prints its specification; every accepted text is "
              "in the grammar and means its positional value, the rest is NoDigits/InvalidDigit; print-then-parse is the identity "
              "under any decoration; to/from little- and big-endian bytes (own models), two's complement signed bytes, to_chunks and "
              "from_chunks (word loops shl_in_place + add_in_place with the allocation sizes of the code) equal their "
              "specifications and are mutually inverse on ALL integers. Round 4: words_to_chunks / to_chunks at word level (zeroed "
              "buffers of ceil(chunk_bits/WORD_BITS)+1 words, slice copies, top-word mask, C09's shr_in_place) is total and denotes "
              "the specification chunks for every normalised word array and chunk width; the Debug printer now contains C12's as-is "
              "model of log_word_base (proved total within bit length + 1 rounds and exact for EVERY estimate passing the code's "
              "assertion) instead of a hypothesis on the logarithm; the DISPATCH of parse/*.rs and fmt/*.rs (converter per radix, "
              "path per length / representation, chunk_bytes, loop and split conditions of the divide-and-conquer parser, the length "
              "shortcut of the printer's squaring loop, the power-of-two width formula) and the whole sign / prefix / padding layout of "
              "format_prepared (a symbolic run of its write_str / write_char-loop / write_digits statements) are REGENERATED as Gallina "
              "functions; the converters and the layout read through them are proved equal to the transcription and to the specification.")
LEVEL_NOTE = ("Trusted: Coq kernel, extraction incl. FastZ.v directives, zarith, the Rust harness (it also lays the same digits out "
              "with the real Formatter::pad_integral and with u128/i128 formatting). Still by contract / meaning: num-modular's "
              "PreMulInv1by1 and Normalized2by1Divisor primitives inside the C07 word loops (exact division; C02 proves the "
              "transcribed primitives), the f32 estimate inside log_word_base (any value passing `assert!(est_pow <= target)`; "
              "that it passes is C14's log2_bounds), the word-level multiplications inside log_word_base (on Z in C12's model), "
              "comparisons of big numbers (C05), shifts inside UBig::pow (C09). num-traits Num::from_str_radix is now run (harness "
              "built with dashu-int's num-traits feature) next to the regenerated route; the serde string forms are exercised "
              "through serde_json. The correspondence run uses the 64-bit and the force_bits=\"32\" build; the models are "
              "evaluated at the word size of the answering build. Pre-repair models of F01-F03 are refuted on their witnesses.")
TECHNIQUE = "Coq proof (word-level and value-level as-is models = spec for all inputs; regenerated tables and dispatch functions) + extracted-model correspondence run on the 64-bit and 32-bit builds"
RULE = ("every case on BOTH builds (64-bit and force_bits=32 words; a third of the size classes are taken from the 32-bit thresholds: 9 decimal "
        "digits per word, 144-digit printer chunks, 2304-digit parser chunks, 3 words of 32 bits = array representation, Debug switch at "
        "2^64); cases = {format, debug, parse, num-traits parse, bytes, chunks, serde} x all 35 radices (+2 invalid) x values/texts whose digit count sits at -1/0/+1 of: "
        "digits_per_word, 2 words, the printer's medium/large switch (16 groups), every doubling of the cached radix powers incl. the "
        "word-count shortcut of the squaring loop (2*len-1 words, as large as possible), the parser's 256-group chunk switch and its "
        "2x/4x/8x divide-and-conquer splits; digit patterns {random, all r-1, 10..0, zero groups}; 88 formatter flag combinations x "
        "widths around the natural width x fills; Debug at one word / double word / 2^128 +-1 / powers of ten / extreme heads and tails "
        "with and without `#`, `+`, ignored width flags; texts decorated with sign, radix prefix, underscores, either case, leading "
        "zeros; malformed stream (empty, sign only, double sign, underscore only, bad prefix, digit >= radix, one corrupted byte in a "
        "long text) and a sweep of EVERY byte value 0..255 in a digit position of a short text, the bytes one bit away from digits / "
        "letters also inside long multi-chunk texts (thorough: every byte in both); signed/unsigned bytes at every byte-boundary "
        "magnitude +-1 and arbitrary byte strings; chunk widths around word multiples, chunks wider than the chunk width; serde_json "
        "round trips and prefix-grammar texts. Non-trivial = the oracle evaluated the Coq specification on it; distinct = distinct case texts.")
EXPLANATION = ("Theorems in coq/props/C07.v; every implementation answer is judged against the extracted specification "
               "(digits_spec, pad_integral_spec, debug_spec, from_str_*_spec, le/be(_signed)_value, to/from_chunks_spec); the extracted "
               "as-is models - value level (fmt_asis, body_asis, byte/chunk models), through the regenerated trait tables "
               "(fmt_tables_asis), word level (fmt_words_asis / body_words_asis over IoWords, IoDword, C01's and C02's models; "
               "from_chunks_words_z, to_chunks_words_z), the DigitWriter model (dw_text), debug_asis, debug_lwb_asis (C12's log_word_base "
               "model inside, run from a lowered estimate) and the converters read through the regenerated dispatch (digits_gen, body_gen) - "
               "must all give the same answers (model_fidelity), at the word size of the answering build (wb= token: 64 and 32).")
TRUSTED_BASE = [
    "Coq 8.16.1 kernel (coqc); vm_compute only for closed witnesses/examples and for the 256-entry byte table (finite domain, bound stated)",
    "extraction: ExtrOcamlBasic + ExtrOcamlZBigInt + coq/extract/FastZ.v (Z.lor/log2/pow/... -> zarith)",
    "OCaml 4.13.1 + zarith 1.12, oracle/common.ml, oracle/driver_c07.ml; Rust harness harness/src/bin/c07.rs; serde_json for the serde forms",
    "core::fmt (format_args!, Formatter flag accessors, pad_integral used as the reference layout), u128/i128 formatting",
    "tools/translate_c07.py, tools/translate_c07_r3.py and tools/translate_c07_r4.py (regular-expression readers, a small expression interpreter for "
    "digit_from_ascii_byte, an expression / if-chain translator for the dispatch functions): an unreadable source falls back to the correspondence run "
    "alone (reported as `unparsed` in the evidence)",
    "num-modular primitives inside the C07 word loops by their contract (exact division); the f32 estimate of log_word_base (C14); big comparisons by meaning",
]
ASSUMPTIONS = [
    "UBig::from_words / as_words / IBig::from_parts / as_sign_words transport values faithfully (harness never uses the parser/printer to move values)",
    "texts are valid UTF-8 (the API takes &str); formatter widths stay below 65536 (Rust's limit)",
    "64-bit and 32-bit words in the correspondence run (the models and theorems are parametric in the word size: any even w >= 8 with w mod 8 = 0 for bytes; "
    "a 16-bit build does not compile: const evaluation in mul/ntt.rs)",
    "Debug: the bit length of the number fits a machine word (Buffer::MAX_CAPACITY guarantees it)",
    "word-level models are evaluated in the run for magnitudes up to 70000 bits / texts up to 23000 bytes (list-based kernels are slow); longer ones by the value-level models",
]

LETTERS = "0123456789abcdefghijklmnopqrstuvwxyz"
SPECS_NW = ["", "0", "#", "#0", "+", "+0", "+#", "+#0"]
SPECS_WW = [fl + "w" for fl in SPECS_NW] + [f + al + fl + "w" for f in ["", "*", "S"] for al in "<^>" for fl in SPECS_NW]
STD_KINDS = ["disp", "bin", "oct", "lhex", "uhex"]


# word size the size classes of the next case are taken from (gen_cases switches it per case: both builds run every case,
# two thirds of the cases sit at the thresholds of the 64-bit build, one third at those of the 32-bit build)
WB = 64


def dpw_of(r, bits=None):
    bits = bits or WB
    if r & (r - 1) == 0:
        return bits // (r.bit_length() - 1)
    d, p = 0, 1
    while p * r < (1 << bits):
        p *= r
        d += 1
    return d


def to_radix(v, r):
    if v == 0:
        return "0"
    s = []
    while v:
        v, d = divmod(v, r)
        s.append(LETTERS[d])
    return "".join(reversed(s))


def xs(text):
    return "x" + text.encode("utf-8").hex()


def xb(b):
    return "x" + bytes(b).hex()


def digit_count_classes(rng, r, tier, huge):
    d = dpw_of(r)
    pow2 = r & (r - 1) == 0
    c = [1, 1, 2, 3, d - 1, d, d + 1, 2 * d - 1, 2 * d, 2 * d + 1, 3 * d, 3 * d + 1, 5 * d + 2]
    # printer: medium/large switch (14..16 words), chunk power R^16 and its squarings
    c += [16 * d - 1, 16 * d, 16 * d + 1, 17 * d, 32 * d - 1, 32 * d, 32 * d + 1, 33 * d + 3, rng.range(1, 40 * d)]
    if pow2:
        c += [64 * d, 64 * d + 1, rng.range(1, 70 * d)]
    if huge:
        k = 256 * d
        c = [64 * d - 1, 64 * d, 64 * d + 1, 128 * d, 128 * d + 1, k - 1, k, k + 1, k + d, 2 * k - 1, 2 * k, 2 * k + 1, 3 * k, rng.range(k, 3 * k)]
        if tier == "thorough":
            c += [4 * k - 1, 4 * k, 4 * k + 1, 5 * k + 7, 8 * k, 8 * k + 1]
        else:
            c += [4 * k, 4 * k + 1]
    return max(1, rng.choice(c))


def gen_digits(rng, r, nd):
    """nd digit values, first non-zero, in an interesting pattern"""
    d = dpw_of(r)
    k = rng.below(7)
    if k == 0:
        ds = [r - 1] * nd
    elif k == 1:
        ds = [1] + [0] * (nd - 1)
    elif k == 2:
        ds = [1] + [0] * (nd - 2) + [1] if nd > 1 else [1]
    elif k == 3:
        # zero groups aligned from the right (zero padding of groups / chunks)
        ds = [rng.below(r) for _ in range(nd)]
        g = rng.choice([d, d, 16 * d, 256 * d])
        for _ in range(rng.range(1, 3)):
            start = nd - g * rng.range(1, max(1, nd // g + 1))
            for i in range(max(0, start), min(nd, max(0, start) + g - rng.below(2))):
                ds[i] = 0
    else:
        ds = [rng.below(r) for _ in range(nd)]
    if ds[0] == 0:
        ds[0] = rng.range(1, r - 1)
    return ds


def value_of(ds, r):
    # balanced product tree would be faster; sizes here are modest
    if len(ds) < 2000:
        v = 0
        for x in ds:
            v = v * r + x
        return v
    h = len(ds) // 2
    return value_of(ds[:h], r) * r ** (len(ds) - h) + value_of(ds[h:], r)


def decorate(rng, ds, r):
    """text of the digit values with case / underscore / leading-zero decoration"""
    mode = rng.below(4)
    out = []
    for x in ds:
        ch = LETTERS[x]
        if mode == 1 or (mode >= 2 and rng.chance(1, 2)):
            ch = ch.upper()
        out.append(ch)
    z = rng.choice([0, 0, 0, 1, 2, dpw_of(r), dpw_of(r) + 1])
    out = ["0"] * z + out
    u = rng.below(6)
    if u == 1:
        for _ in range(rng.range(1, 4)):
            out.insert(rng.range(1, len(out)), "_")
    elif u == 2:
        out.insert(rng.below(len(out) + 1), "_")
        out.insert(0, "_")
        out.append("_")
    elif u == 3:
        # many underscores: the length test of the power-of-two parser counts them
        for _ in range(rng.range(len(out) // 2, 2 * len(out) + 2)):
            out.insert(rng.below(len(out) + 1), "_")
    elif u == 4:
        # regular grouping
        g = rng.choice([3, 4, 8])
        k = len(out) - g
        while k > 0:
            out.insert(k, "_")
            k -= g
    return "".join(out)


def parse_case(rng, tier, huge=False):
    r = rng.choice([2, 3, 4, 5, 7, 8, 9, 10, 10, 10, 11, 16, 16, 32, 35, 36, rng.range(2, 36)])
    nd = digit_count_classes(rng, r, tier, huge)
    if huge and r & (r - 1) and rng.chance(1, 2):
        nd = parse_dc_len(rng, r, tier)
    ds = gen_digits(rng, r, nd)
    body = decorate(rng, ds, r)
    sign = rng.choice(["", "", "+", "-", "-"])
    apis = ["ur", "ir", "ir"]
    prefix = ""
    radix_arg = r
    if r == 10:
        apis += ["uf", "if", "us", "is", "up", "ip"]
    if r in (2, 8, 16):
        apis += ["up", "ip", "ud", "id", "ip"]
    apis += ["ud", "id"]
    api = rng.choice(apis)
    if api[1] in "pd" and r in (2, 8, 16) and (api[1] == "p" or rng.chance(2, 3)):
        prefix = {2: "0b", 8: "0o", 16: "0x"}[r]
        radix_arg = rng.choice([10, 16, 36, 2, rng.range(2, 36)])
    return "parse %s %x %s" % (api, radix_arg, xs(sign + prefix + body))


JUNK = ["/", ":", "@", "[", "`", "{", " ", "\t", "\n", "\x00", "\x7f", ".", ",", "e", "E", "x", "X", "b", "o", "+", "-", "_",
        "١", "ß", "１", "\U0001d7cf", "g", "G", "z", "Z", "9", "8", "2", "1", "0", "a", "A", "f", "F"]
FIXED_BAD = ["", "+", "-", "+-1", "-+1", "--1", "++1", "_", "__", "+_", "-_", "_+1", "0x", "0x_", "0b", "0o", "0b2", "0o8", "0xg",
             "0X1f", "0B1", "0O7", "+0x", "-0x", "0x-1", "0x+1", "-0x-1", "x1", "0_x1", " 1", "1 ", "1\n", "١٢", "1.0", "1e5",
             "1_", "_1", "0_", "_0", "00", "000_", "-0", "+0", "-00", "0x0", "-0x0", "0b_1", "0b1_", "1__2", "ß", "1ß", "１"]


def char_with_byte(rng, b):
    """a (valid UTF-8) character whose encoding contains the byte b; None for the bytes UTF-8 never uses"""
    if b < 0x80:
        return chr(b)
    if b < 0xC0:                               # continuation byte: second byte of a 2-byte character, or inside a longer one
        k = rng.below(3)
        if k == 0:
            return chr(0x80 + (b - 0x80)) if b >= 0x80 else None          # C2 b / C3 b  (U+0080..U+00BF -> C2 xx)
        if k == 1:
            return chr(0x0100 + (b - 0x80))                               # C4 b
        return chr(0x2000 + (b - 0x80))                                   # E2 80 b
    if 0xC2 <= b <= 0xDF:
        return chr(((b & 0x1F) << 6) | rng.below(64))
    if 0xE0 <= b <= 0xEF:
        lo = 0x800 if b == 0xE0 else (b & 0x0F) << 12
        hi = 0xD7FF if b == 0xED else ((b & 0x0F) << 12) | 0xFFF
        return chr(rng.range(lo, hi))
    if 0xF0 <= b <= 0xF4:
        lo = 0x10000 if b == 0xF0 else (b & 0x07) << 18
        hi = 0x10FFFF if b == 0xF4 else ((b & 0x07) << 18) | 0x3FFFF
        return chr(rng.range(lo, hi))
    return None                                # C0, C1, F5..FF


# bytes one bit away from a digit or a letter, the neighbours of the ranges, the separator and the signs
NEAR_BYTES = sorted(set(list(range(0x10, 0x1A)) + [0x2F, 0x3A, 0x40, 0x5B, 0x5C, 0x5D, 0x5E, 0x5F, 0x60, 0x7B, 0x7C, 0x7D, 0x7E, 0x7F] +
                        list(range(0x70, 0x7A)) + list(range(0x01, 0x10)) + list(range(0x1A, 0x20)) + list(range(0x20, 0x30)) +
                        list(range(0xB0, 0xBA)) + list(range(0xC1, 0xDB)) + list(range(0xE1, 0xFB)) + [0x80, 0xA0, 0xBF, 0xC2, 0xE0, 0xF0, 0xF4]))


def byte_case(rng, tier, b, long_text):
    """the byte b in a digit position: of a one-word text (first / middle / last / alone), or inside a long text that goes
    through the chunk / divide-and-conquer / bit-packing paths; every API; the specification decides what it means"""
    ch = char_with_byte(rng, b)
    if ch is None:
        ch = chr(rng.choice([0x11, 0x5B, 0x7B, 0xB1]))
    r = rng.choice([2, 8, 10, 10, 16, 36, 36, rng.range(2, 36)])
    if long_text:
        nd = digit_count_classes(rng, r, tier, rng.chance(1, 6))
        body = list(decorate(rng, gen_digits(rng, r, nd), r))
        pos = rng.choice([0, len(body) - 1, rng.below(len(body)), len(body) // 2, max(0, len(body) - dpw_of(r) - 1), min(len(body) - 1, dpw_of(r))])
        body[pos] = ch
        text = "".join(body)
    else:
        d = LETTERS[rng.below(r)]
        text = rng.choice([ch, ch + d, d + ch, d + ch + d, ch + ch, d + d + ch + d, "0" + ch, ch + "_" + d, d + "_" + ch])
    api = rng.choice(["ur", "ir", "ur", "ir", "up", "ip", "ud", "id"] + (["uf", "if", "us", "is"] if r == 10 else []))
    return "parse %s %x %s" % (api, r, xs(rng.choice(["", "", "+", "-"]) + text))


def byte_sweep(rng, tier):
    """EVERY byte value 0..255 in a digit position of a short text; the bytes next to the digit / letter ranges (one bit
    away from them) also inside long texts; in the thorough tier every byte in both"""
    out = []
    for b in range(256):
        out.append(byte_case(rng, tier, b, False))
        if tier == "thorough" or b in NEAR_BYTES:
            out.append(byte_case(rng, tier, b, True))
    return out


def malformed_case(rng, tier):
    k = rng.below(10)
    if rng.chance(1, 5):
        return byte_case(rng, tier, rng.choice(NEAR_BYTES) if rng.chance(1, 2) else rng.below(256), rng.chance(1, 2))
    r = rng.choice([2, 3, 8, 9, 10, 10, 11, 16, 35, 36, rng.range(2, 36)])
    api = rng.choice(["ur", "ir", "ur", "ir", "up", "ip", "ud", "id"] + (["uf", "if", "us", "is"] if r == 10 else []))
    if k < 3:
        text = rng.choice(FIXED_BAD)
    elif k < 5:
        n = rng.range(1, 12)
        text = "".join(rng.choice(JUNK) for _ in range(n))
    elif k < 6:
        # digit exactly at / next to the radix
        text = rng.choice(["", "1", "10"]) + rng.choice([LETTERS[r] if r < 36 else "{", LETTERS[r - 1], LETTERS[r].upper() if r < 36 else "[", LETTERS[r - 1].upper()]) + rng.choice(["", "0", "1_"])
    elif k < 7 and rng.chance(1, 8):
        # invalid radix
        return "parse %s %x %s" % (rng.choice(["ur", "ir"]), rng.choice([0, 1, 37, 64, 256]), xs(rng.choice(["1", "0", "", "z"])))
    else:
        # a long valid text with one byte corrupted: errors must surface from every path
        huge = rng.chance(1, 12)
        nd = digit_count_classes(rng, r, tier, huge)
        body = list(decorate(rng, gen_digits(rng, r, nd), r))
        pos = rng.choice([0, len(body) - 1, rng.below(len(body)), len(body) // 2, max(0, len(body) - dpw_of(r) - 1)])
        body[pos] = rng.choice(["/", ":", "@", "[", "`", "{", "-", "+", " ", LETTERS[r] if r < 36 else "!", "ß"])
        text = rng.choice(["", "", "+", "-"]) + "".join(body)
    return "parse %s %x %s" % (api, r, xs(text))


def value_with_digits(rng, r, nd):
    ds = gen_digits(rng, r, nd)
    k = rng.below(8)
    if k == 0:
        return r ** nd - 1
    if k == 1:
        return r ** (nd - 1)
    if k == 2 and nd > 1:
        return r ** (nd - 1) + rng.choice([1, -1])
    return value_of(ds, r)


def fmt_size_case(rng, tier, huge=False):
    r = rng.choice([2, 3, 4, 5, 7, 8, 9, 10, 10, 10, 11, 16, 32, 35, 36, rng.range(2, 36)])
    if rng.chance(1, 3):
        # by word count (representation classes Small/Large, medium/large switch at 14..16 words)
        nm = 16 * dpw_of(r) // (dpw_of(r) + 1) if r & (r - 1) else 15      # the longest magnitude of the medium printer
        n = rng.choice([0, 1, 2, 2, 3, 3, 4, 13, 14, 15, 16, 17, 31, 32, 33, nm, nm + 1, nm + 1, nm + 2])
        v = mag_words(rng, n)
        if n and rng.chance(1, 2 if n > nm else 4):
            # as large as n words allow: the most groups of digits_per_word digits a value of that length can have (the bound
            # behind `len * (digits_per_word + 1) <= CHUNK_LEN * digits_per_word`: one group more than CHUNK_LEN overflows low_groups)
            v = (1 << (WB * n)) - 1 - rng.choice([0, rng.bits(WB), rng.bits(WB * n // 2)])
    else:
        v = value_with_digits(rng, r, digit_count_classes(rng, r, tier, huge))
    if rng.chance(1, 2):
        v = -v
    ty = rng.choice("ui")
    std = {10: "disp", 2: "bin", 8: "oct", 16: rng.choice(["lhex", "uhex"])}
    kind = std[r] if r in std and rng.chance(1, 2) else "r%x" % r
    spec = rng.choice(["", "", "#"])
    return "fmt %s %s .%s 0 %s" % (ty, kind, spec, hx(v))


# ------------------------------------------------------------------------------------------------
# divide-and-conquer printer: values built from its own split structure (PreparedLarge::new)
# ------------------------------------------------------------------------------------------------
NP2 = [r for r in range(3, 37) if r & (r - 1)]
_DC_POW = {}


def dc_powers(r, k):
    """[P_0 .. P_k], P_i = r^(16*digits_per_word*2^i): the radix powers the printer caches"""
    ps = _DC_POW.setdefault((r, WB), [(r ** dpw_of(r)) ** 16])
    while len(ps) <= k:
        ps.append(ps[-1] * ps[-1])
    return ps[:k + 1]


def wlen64(v):
    return (v.bit_length() + WB - 1) // WB


def mag_words(rng, n):
    """a magnitude of exactly n words of the current word size"""
    if WB == 64 or n == 0:
        return gen_mag(rng, n)
    v = gen_mag(rng, (n + 1) // 2) & ((1 << (32 * n)) - 1)
    return v | (1 << (32 * n - 1 - rng.below(31))) if v.bit_length() <= 32 * (n - 1) else v


def big_below(rng, n):
    """uniform-ish value in [0, n) for arbitrarily large n"""
    return rng.bits(n.bit_length() + 8) % n if n > 0 else 0


def dc_near(rng, p):
    """a value compared with the cached power p: equal, +-1, or - the case a word-count comparison
    cannot tell apart - below p with exactly as many words as p (at every distance)"""
    lo = 1 << (WB * (wlen64(p) - 1))
    k = rng.below(10)
    if k == 0:
        return p
    if k == 1:
        return p + 1
    if k == 2:
        return p - 1
    if k == 3:
        return lo
    if k == 4:
        return lo + 1
    if k == 5:
        return (lo + p) // 2
    if k == 6:
        return lo - 1                       # one word shorter
    if k == 7:
        return p + big_below(rng, p)        # above, below 2p
    return lo + big_below(rng, p - lo)      # same word count, below p


def dc_rem(rng, ps, j):
    """a remainder below ps[j] as write_big_chunk sees it: zero halves, exact lower powers, all r-1"""
    p = ps[j]
    k = rng.below(8)
    if k == 0:
        return 0
    if k == 1:
        return 1
    if k == 2:
        return p - 1
    if k == 3 and j > 0:
        i = rng.below(j)
        return rng.choice([ps[i], ps[i] - 1, ps[i] + 1, big_below(rng, ps[i])])       # upper half (or more) zero
    if k == 4 and j > 0:
        return big_below(rng, ps[j - 1]) * ps[j - 1] + rng.choice([0, 1, ps[j - 1] - 1])  # lower half trivial
    if k == 5:
        return p - 1 - big_below(rng, 1 << rng.range(1, 64))
    return big_below(rng, p)


def dc_quot(rng, ps, j):
    """the running quotient x of the division cascade when the powers ps[0..j] are still to be
    tried: every relation of x to ps[j] (>=, <, same word count but smaller, shorter), recursively"""
    if j < 0:
        # what is left for the top chunk (PreparedMedium): 1 .. P_0 - 1
        p0 = ps[0]
        return max(1, rng.choice([1, 2, p0 - 1, 1 + big_below(rng, p0 - 1), (1 << (WB * rng.range(0, wlen64(p0) - 1))) - rng.below(2),
                                  1 + big_below(rng, 1 << rng.range(1, p0.bit_length() - 1))]))
    p = ps[j]
    k = rng.below(6)
    if k < 2:
        x = dc_near(rng, p)
        if x >= p * p:
            x = p
        return x
    if k < 4:
        # x >= p: divided; the quotient goes on down the cascade
        return dc_quot(rng, ps, j - 1) * p + dc_rem(rng, ps, j)
    return dc_quot(rng, ps, j - 1)


def dc_value(rng, r, k):
    """a magnitude whose largest cached power is ps[k] (k >= 0), or just below/at the next squaring"""
    ps = dc_powers(r, k)
    top = ps[k]
    c = rng.below(12)
    if c == 0:
        return top * top - 1 - rng.below(2)            # just below the next squaring
    if c == 1:
        return top + rng.below(2)                      # the power itself
    if c == 2:
        return top * top + rng.below(2)                # the next power is cached: x = 1
    if c == 3 or c == 4:
        # exactly 2*len(top) - 1 words: the length shortcut of the squaring loop (`2 * prev.len() - 1 > number.len()`) does not
        # fire, the square must be computed and compared; where top^2 has that many words too the value may lie on either side
        nw = 2 * wlen64(top) - 1
        hi = (1 << (WB * nw)) - 1
        return rng.choice([hi, hi - big_below(rng, 1 << rng.range(1, WB * nw - 1)), (1 << (WB * (nw - 1))) + big_below(rng, 1 << (WB * (nw - 1))),
                           max(top * top - 1, 1 << (WB * (nw - 1))), min(hi, top * top + big_below(rng, top))])
    return dc_quot(rng, ps, k - 1) * top + dc_rem(rng, ps, k)


def fmt_dc_case(rng, tier, deep=False):
    r = rng.choice(NP2 + [10, 10, 10, 3, 7, 36])
    if deep:
        k = rng.choice([3, 3, 4]) if tier == "quick" else rng.choice([3, 4, 4, 5, 6])
    else:
        k = rng.choice([0, 1, 1, 1, 2, 2, 2])
    v = dc_value(rng, r, k)
    if not deep and rng.chance(1, 4):
        # the length shortcut of the squaring loop: 2*len(P_k) - 1 words, as large as that allows (the quotient by P_k is then
        # as far above P_k as it can be: one more squaring is needed, or the top chunk overflows its CHUNK_LEN groups)
        top = dc_powers(r, k)[k]
        nw = 2 * wlen64(top) - 1
        v = (1 << (WB * nw)) - 1 - rng.choice([0, 1, big_below(rng, 1 << (WB * nw - 3))])
    if rng.chance(1, 3):
        v = -v
    kind = "disp" if r == 10 and rng.chance(1, 2) else "r%x" % r
    return "fmt %s %s .%s 0 %s" % (rng.choice("ui"), kind, rng.choice(["", "", "#"]), hx(v))


def parse_dc_len(rng, r, tier):
    """text lengths at the parser's own split points: chunk_bytes * (2^i + 2^j) -1/0/+1, i.e. the high
    part of a split sits at a lower split point itself"""
    k = 256 * dpw_of(r)
    i = rng.choice([0, 1, 1, 2]) if tier == "quick" else rng.choice([0, 1, 2, 3, 3])
    n = k << i
    hi = rng.choice([1, 2, dpw_of(r), dpw_of(r) + 1, k - 1, k, k + 1] + [(k << j) + e for j in range(i) for e in (-1, 0, 1)] + [n - 1, n])
    return n + hi


def fmt_flag_case(rng, tier):
    kind = rng.choice(STD_KINDS + ["r%x" % rng.range(2, 36), "r%x" % rng.choice([3, 10, 16, 36])])
    r = {"disp": 10, "bin": 2, "oct": 8, "lhex": 16, "uhex": 16}.get(kind) or int(kind[1:], 16)
    k = rng.below(10)
    if k < 5:
        v = rng.choice([0, 1, r - 1, r, 255, 256, (1 << 31) - 1, 1 << 31, (1 << 32) - 1, 1 << 32, (1 << 63) - 1, 1 << 63, (1 << 64) - 1, 1 << 64,
                        (1 << 127) - 1, 1 << 127, (1 << 128) - 1, 1 << 128, rng.bits(rng.range(1, 128))])
    elif k < 9:
        v = mag_words(rng, rng.choice([1, 2, 3, 4, 5]))
    else:
        v = mag_words(rng, rng.choice([14, 15, 16, 17, 20]))
    neg = rng.chance(1, 2)
    ty = rng.choice("ui")
    spec = rng.choice(SPECS_WW) if rng.chance(7, 8) else rng.choice(SPECS_NW)
    nat = len(to_radix(v, r)) + (1 if (neg and ty == "i") or "+" in spec else 0) + (2 if "#" in spec and not kind.startswith("r") and kind != "disp" else 0)
    width = max(0, rng.choice([0, 1, nat - 2, nat - 1, nat, nat + 1, nat + 2, nat + 3, nat + 4, 2 * nat, 2 * nat + 1, nat + rng.range(0, 12), rng.below(40)]))
    return "fmt %s %s .%s %x %s" % (ty, kind, spec, width, hx(-v if neg else v))


def bytes_case(rng, tier):
    k = rng.below(10)
    if k < 6:
        c = rng.below(4)
        if c == 0:
            j = rng.choice([1, 2, 7, 8, 9, 15, 16, 17, 23, 24, 25, 31, 32, 33, rng.range(1, 80)])
            v = (1 << (8 * j - rng.choice([0, 0, 1, 7]))) + rng.choice([0, 0, 1, -1])
        elif c == 1:
            v = gen_mag(rng, rng.choice([1, 2, 3, 3, 4, 5])) >> rng.below(64)
        else:
            v = abs(gen_int(rng, tier))
        if rng.chance(1, 2):
            v = -v
        return "to_bytes %s %s %s" % (rng.choice("ui"), rng.choice(["le", "be"]), hx(v))
    n = rng.choice([0, 1, 2, 7, 8, 9, 15, 16, 17, 18, 23, 24, 25, 32, 33, rng.below(90)])
    b = [rng.below(256) for _ in range(n)]
    ty, end = rng.choice("ui"), rng.choice(["le", "be"])
    if n:
        c = rng.below(8)
        if c == 0:
            b = [0xFF] * n
        elif c == 1:
            b = [0] * n
        elif c == 2:
            b = [0] * (n - 1) + [0x80]
        elif c == 3:
            b = [rng.below(256) for _ in range(max(0, n - 3))] + [rng.choice([0x80, 0x7F, 0xFF, 0])] * min(3, n)
        elif c == 4:
            b[-1] = rng.choice([0, 0x7F, 0x80, 0xFF])
    if end == "be":
        b = b[::-1]
    return "from_bytes %s %s %s" % (ty, end, xb(b))


def chunks_case(rng, tier):
    widths = [1, 2, 3, 7, 8, 9, 31, 32, 33, 63, 64, 65, 95, 96, 97, 100, 127, 128, 129, 159, 160, 161, 191, 192, 193, 200, 256, 320, rng.range(1, 300)]
    if rng.chance(3, 5):
        v = abs(gen_int(rng, tier)) if rng.chance(2, 3) else mag_words(rng, rng.choice([1, 2, 3, 3, 4, 5, 6, 7, 9])) >> rng.below(WB)
        nb = v.bit_length()
        # also: the last window ends exactly on a word boundary / one bit before and after it; a window of ceil(cb / W) + 1 words
        cb = rng.choice(widths + [max(1, nb - 1), max(1, nb), nb + 1, max(1, nb // 2), max(1, nb // 2 + 1), max(1, nb // 3),
                                  WB * rng.range(1, 4) + rng.choice([-1, 1, WB // 2, WB - 2]), max(1, (nb // WB) * WB // 2)])
        if nb // cb > 1500:
            cb = max(cb, nb // 1500)
        if rng.chance(1, 60):
            cb = 0
        return "to_chunks %s %x" % (hx(v), cb)
    cb = rng.choice(widths)
    n = rng.choice([0, 1, 2, 3, 4, 5, 8, 20])
    cs = []
    for _ in range(n):
        c = rng.below(5)
        if c == 0:
            cs.append(0)
        elif c == 1:
            cs.append(rng.bits(cb))
        elif c == 2:
            cs.append((1 << cb) - 1)
        else:
            cs.append(rng.bits(rng.range(1, 2 * cb + 70)))  # chunks may be wider than chunk_bits
    return "from_chunks %x%s" % (cb, "".join(" " + hx(c) for c in cs))


DBG_SPECS_NW = [".", ".", ".#", ".#", ".+", ".+#"]
DBG_SPECS_WW = [".w", ".0w", ".#0w", ".+w", ".<w", ".*^+#w", ".*>#w"]


def dbg_value(rng, tier):
    """magnitudes around the Debug printer's switches: one word, double word (all digits), >= a double word (D + D digits,
    D = digits_per_word(10): 19 on 64-bit words, 9 on 32-bit words); head / tail digit patterns (9..9, 10..0, zeros at the
    start of the tail), exact powers of ten, word boundaries - at the word size WB of this case"""
    W = WB
    D = dpw_of(10)
    k = rng.below(14)
    if k == 0:
        return rng.choice([0, 1, 9, 10, (1 << (W - 1)), (1 << W) - 1, 1 << W, (1 << W) + 1, (1 << (2 * W - 1)), (1 << (2 * W)) - 1, 1 << (2 * W),
                           (1 << (2 * W)) + 1, 10 ** D - 1, 10 ** D, 10 ** (2 * D) - 1, 10 ** (2 * D), 10 ** (2 * D) + 1, 10 ** (2 * D + 1) - 1, 10 ** (2 * D + 1)])
    if k == 1:
        e = rng.choice([2 * D, 2 * D + 1, 2 * D + 2, 2 * D + 3, 3 * D, 3 * D + 1, 4 * D, 4 * D + 1, 4 * D + 2, rng.range(2 * D, 400)])
        return 10 ** e + rng.choice([-1, 0, 1, 10 ** D - 1, 10 ** D, 10 ** (D - 1), rng.below(10 ** D)])
    if k == 2:
        # head 99..9 / 100..0 with an arbitrary tail: the one Knuth step at its extremes
        e = rng.range(2 * D + 1, 200)
        head = rng.choice([10 ** D - 1, 10 ** (D - 1), 10 ** (D - 1) + 1, 10 ** D - 2, rng.range(10 ** (D - 1), 10 ** D - 1)])
        return head * 10 ** (e - D + 1) + rng.choice([0, 1, 10 ** (e - D + 1) - 1, rng.below(10 ** (e - D + 1))])
    if k == 3:
        # tail with leading zeros
        hi = rng.bits(rng.range(W + 6, 400)) + (1 << (W + 6))
        return hi * 10 ** D + rng.choice([0, 1, 9, 10 ** (D - 1) - 1, 10 ** (D - 1), rng.below(10 ** rng.range(1, D))])
    if k == 4:
        # word boundaries of the number and of the divisor 10^(digits-D)
        n = rng.choice([2, 3, 3, 4, 5, 8, 16, 33])
        return (1 << (W * n)) + rng.choice([-1, 0, 1])
    if k == 5:
        return mag_words(rng, rng.choice([3, 3, 4, 5, 6, 7, 8, 15, 16, 17, 31, 32, 33, 64]))
    if k == 6 and tier == "thorough":
        return gen_mag(rng, rng.choice([100, 257, 600, 1500]))
    if k == 7:
        return rng.bits(rng.range(1, 2 * W))
    if k == 8:
        return (1 << (2 * W)) + rng.bits(rng.range(1, 2 * W))
    if k == 9:
        return mag_words(rng, rng.choice([1, 2, 2]))
    return abs(gen_int(rng, tier))


def dbg_case(rng, tier):
    v = dbg_value(rng, tier)
    if rng.chance(1, 2):
        v = -v
    spec = rng.choice(DBG_SPECS_NW) if rng.chance(3, 4) else rng.choice(DBG_SPECS_WW)
    return "dbg %s %s %x %s" % (rng.choice("ui"), spec, rng.choice([0, 1, 5, 30, 60, 100]), hx(v))


def serde_case(rng, tier):
    if rng.chance(1, 2):
        r = 10
        v = value_with_digits(rng, r, digit_count_classes(rng, r, tier, False)) * rng.choice([1, -1])
        return "serde %s %s" % (rng.choice("ui"), hx(v))
    # the human readable deserialiser: prefix grammar, default radix 10, the radix is dropped
    if rng.chance(1, 3):
        text = rng.choice(FIXED_BAD)
    else:
        r = rng.choice([10, 10, 2, 8, 16])
        body = decorate(rng, gen_digits(rng, r, digit_count_classes(rng, r, tier, False)), r)
        text = rng.choice(["", "", "+", "-"]) + {2: "0b", 8: "0o", 16: "0x", 10: ""}[r] + body
    return "deser %s %s" % (rng.choice("ui"), xs(text))


def gen_cases(rng, tier, n):
    out = byte_sweep(rng.fork("bytes") if hasattr(rng, "fork") else rng, tier)
    nhuge = 0
    max_huge = 200 if tier == "quick" else 3000
    global WB
    while len(out) < n:
        k = rng.below(100)
        WB = 32 if rng.chance(1, 3) else 64
        huge = False
        if rng.chance(1, 40) and nhuge < max_huge:
            huge = True
            nhuge += 1
        if k < 21:
            out.append(fmt_flag_case(rng, tier))
        elif k < 25:
            out.append(dbg_case(rng, tier) if rng.chance(3, 4) else serde_case(rng, tier))
        elif k < 29:
            out.append(fmt_dc_case(rng, tier, huge))
        elif k < 46:
            out.append(fmt_size_case(rng, tier, huge))
        elif k < 68:
            c = parse_case(rng, tier, huge)
            if rng.chance(1, 12) and c.split(" ")[1] in ("ur", "ir"):
                # the same text through num_traits::Num::from_str_radix (third_party/num_traits.rs)
                c = "numtr %s %s" % (c.split(" ")[1][0], c.split(" ", 2)[2])
            out.append(c)
        elif k < 80:
            c = malformed_case(rng, tier)
            if rng.chance(1, 12) and c.split(" ")[1] in ("ur", "ir"):
                c = "numtr %s %s" % (c.split(" ")[1][0], c.split(" ", 2)[2])
            out.append(c)
        elif k < 90:
            out.append(bytes_case(rng, tier))
        elif k < 96:
            out.append(chunks_case(rng, tier))
        elif k < 98:
            r = rng.range(2, 36)
            out.append("roundtrip %x %s" % (r, hx(value_with_digits(rng, r, digit_count_classes(rng, r, tier, huge)) * rng.choice([1, -1]))))
        elif k < 99:
            out.append("tostr %s %s" % (rng.choice("ui"), hx(gen_int(rng, tier))))
        else:
            out.append("fmt %s r%x . 0 %s" % (rng.choice("ui"), rng.choice([0, 1, 37, 100]), hx(gen_int(rng, tier))))
    WB = 64
    return out
