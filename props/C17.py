"""C17 - the hand-managed integer storage is memory-safe and keeps its invariants."""
import os
import core
from core import hx, gen_mag

ID = "C17"
READY = True
ORACLE = "c17"
HARNESS_BIN = "c17"
NCASES = {"quick": 20000, "thorough": 200000}
CASE_TIMEOUT = {"quick": 30, "thorough": 120}
CONFIGS = ["default", "release"]
SHRINK = True

LEVEL_TEXT = ("Machine-checked Coq theorems about an abstract machine that transcribes integer/src/buffer.rs and repr.rs (every assert!, "
              "debug_assert! and unsafe-block precondition is an explicit guard, the allocator is a ghost heap): Repr::from_buffer - the exit of "
              "every arithmetic operation - establishes the representation invariant from any owned buffer; clone, clone_from between values "
              "of any sizes (also statics), ones, construction, drop, move, swap, neg, abs preserve the invariant of the whole pool, fail no "
              "guard, free every block exactly once and leak nothing - lifted by induction to all finite histories of these steps. The real "
              "code is tied to the machine by a correspondence run under a guard/counting allocator: layout of every value after every step, "
              "allocation ledger, values, in two build profiles.")
LEVEL_NOTE = ("PARTIAL: the theorems are about the abstract machine, not about the Rust unsafe blocks themselves (pointer arithmetic, transmute "
              "layout equality, realloc are outside every theorem; the guard allocator with red zones, poisoning and a quarantine searches "
              "for their failures). The buffer handling of add, sub, mul, shl, shr, set_bit, clear_bit (all call forms) is transcribed in the "
              "machine and its exact capacities are compared on every run, but the history theorem does not cover these steps (only their "
              "exit from_buffer and push_resizing/ensure_capacity are proved). div, gcd, pow, sqrt, and/or/xor, conversions and the scratch "
              "bump allocator of memory.rs are only compared (invariant + ledger + value after every step). Word contents enter at value level.")
TECHNIQUE = "Coq proof over an abstract storage machine (invariant by induction over histories) + extracted-machine correspondence run under a guard allocator"
RULE = ("a case is a history of 1-40 steps over a pool of 4 values; steps = constructors (from_words with padding, bytes, primitives, ones, "
        "statics) x arithmetic/bit/shift operations in every call form (vv vr rv rr and the assigning forms, also with both operands the same "
        "slot) x clone/clone_from/drop/move/swap/neg; sizes drawn from word counts {0,1,2,3,4,5,7,8,9,16,17,24,25,31,32,33,48,64,100} and from "
        "positions that move a value across the inline/heap boundary (2<->3 words) and across the reallocation thresholds "
        "(len = capacity, capacity = max_compact_capacity(len) +-1). A case is non-trivial when at least one value lived on the heap; "
        "distinct = distinct history texts.")
EXPLANATION = ("Theorems (coq/props/C17.v) are about the storage machine of coq/theories/Int/StorageModel.v. Tie: after every step of every "
               "history the harness reports the layout of all values and the allocator ledger; the oracle checks them against the extracted "
               "layout specification and runs the extracted machine beside the implementation (exact capacities = fidelity statistic).")
TRUSTED_BASE = [
    "Coq 8.16.1 kernel",
    "the transcription of buffer.rs / repr.rs / the buffer handling of add_ops, mul_ops, shift_ops, bits.rs into coq/theories/Int/StorageModel.v (by hand; compared on every run: exact capacities)",
    "extraction: ExtrOcamlBasic + ExtrOcamlZBigInt + coq/extract/FastZ.v; OCaml 4.13.1 + zarith; oracle/common.ml, oracle/driver_c17.ml (the value semantics of the steps are zarith arithmetic in the driver)",
    "Rust harness harness/src/bin/c17.rs incl. its guard/counting #[global_allocator] (red zones, poisoning, quarantine, realloc always moves); verif_hooks::repr_layout_ibig",
    "the unsafe blocks of buffer.rs/repr.rs/memory.rs do what their guards assume (NOT proved; searched by the guard allocator only - a Miri support run is not implemented)",
]
ASSUMPTIONS = [
    "values stay far below Buffer::MAX_CAPACITY words (2^58): the AllocateTooMuch / capacity-overflow outcomes are not exercised",
    "the global allocator returns valid blocks (out-of-memory is not exercised)",
]

LENS = [0, 1, 1, 2, 2, 3, 3, 3, 4, 5, 7, 8, 9, 16, 17, 24, 25, 31, 32, 33, 48, 64, 100]
W = 64


def nwords(x):
    return (abs(x).bit_length() + 63) // 64


def default_cap(n):
    return n + n // 8 + 2


def next_pow2(x):
    return 1 if x <= 1 else 1 << (x - 1).bit_length()


STATICS = [0, -0x1234, 0xffffffffffffffff0000000000000001, 1 << 128,
           -0xdeadbeef0123456789abcdeffedcba987654321000000000ffffffff, (1 << 515) - 1, -((1 << 768) + 1)]


def wrap(bits, signed, m):
    m &= (1 << bits) - 1
    if signed and m >= 1 << (bits - 1):
        m -= 1 << bits
    return m


def small_prim(ty, x):
    m = abs(x) & ((1 << 64) - 1)
    if ty == "u64":
        return m
    if ty == "u8":
        return m & 255
    v = wrap(64, True, m)
    return wrap(64, True, -v) if x < 0 else v


def prim_value(ty, x):
    bits = {"8": 8, "16": 16, "32": 32, "64": 64, "size": 64, "128": 128}[ty[1:]]
    signed = ty[0] == "i"
    v = wrap(bits, signed, abs(x) & ((1 << 128) - 1))
    return wrap(bits, True, -v) if (signed and x < 0) else v


def tdiv(x, y):
    q = abs(x) // abs(y)
    return q if (x < 0) == (y < 0) else -q


def taken(form, a, b):
    if form in ("vv", "av"):
        return [a] if a == b else [a, b]
    if form in ("vr", "ar"):
        return [a]
    if form == "rv":
        return [b]
    return []


def sim(v, t):
    """exact effect of a step on the values (mirror of spec_step in oracle/driver_c17.ml)"""
    s = lambda i: int(t[i], 16)
    z = lambda i: int(t[i], 16)
    op = t[0]
    if op in ("fw", "fle", "fbe", "dw"):
        v[s(1)] = z(2)
    elif op == "ones":
        v[s(1)] = (1 << s(2)) - 1
    elif op == "prim":
        v[s(1)] = prim_value(t[2], z(3))
    elif op in ("st", "scf"):
        v[s(1)] = STATICS[min(s(2), 6)]
    elif op == "sadd":
        v[s(1)] = v[s(2)] + STATICS[min(s(3), 6)]
    elif op == "smul":
        if v[s(2)] >= 0:
            v[s(1)] = v[s(2)] * abs(STATICS[min(s(3), 6)])
    elif op in ("cl", "cf"):
        v[s(1)] = v[s(2)]
    elif op == "ucf":
        if v[s(1)] >= 0 and v[s(2)] >= 0:
            v[s(1)] = v[s(2)]
    elif op == "dr":
        v[s(1)] = 0
    elif op == "mv":
        x = v[s(2)]
        v[s(2)] = 0
        v[s(1)] = x
    elif op == "sw":
        v[s(1)], v[s(2)] = v[s(2)], v[s(1)]
    elif op == "neg":
        v[s(1)] = -v[s(1)]
    elif op == "negr":
        v[s(1)] = -v[s(2)]
    elif op == "abs":
        v[s(1)] = abs(v[s(1)])
    elif op[0] in "ui" and op[1:] in ("add", "sub", "mul", "div", "rem", "and", "or", "xor", "gcd"):
        form, d, a, b = t[1], s(2), s(3), s(4)
        x, y = v[a], v[b]
        if op[0] == "u" and (x < 0 or y < 0):
            return
        for i in taken(form, a, b):
            v[i] = 0
        k = op[1:]
        if k in ("div", "rem") and y == 0:
            return
        if op == "usub" and x < y:
            return
        if k == "gcd" and x == 0 and y == 0:
            return
        import math
        r = {"add": lambda: x + y, "sub": lambda: x - y, "mul": lambda: x * y, "div": lambda: tdiv(x, y),
             "rem": lambda: x - y * tdiv(x, y), "and": lambda: x & y, "or": lambda: x | y, "xor": lambda: x ^ y,
             "gcd": lambda: math.gcd(x, y)}[k]()
        v[d] = r
    elif op == "udivrem":
        d, e, a, b = s(1), s(2), s(3), s(4)
        if d == e or v[a] < 0 or v[b] <= 0:
            return
        q, r = divmod(v[a], v[b])
        v[d] = q
        v[e] = r
    elif op in ("shl", "shr", "ishl", "ishr"):
        form, d, a, n = t[1], s(2), s(3), s(4)
        x = v[a]
        if op[0] == "s" and x < 0:
            return
        if (op[0] == "s" and form != "r") or (op[0] == "i" and form == "v"):
            v[a] = 0
        v[d] = x << n if op.endswith("shl") else x >> n
    elif op in ("setbit", "clrbit", "chb", "npow2"):
        d, n = s(1), s(2)
        x = v[d]
        if x < 0:
            return
        v[d] = {"setbit": x | (1 << n), "clrbit": x & ~(1 << n), "chb": x & ((1 << n) - 1), "npow2": next_pow2(x)}[op]
    elif op == "split":
        d, e, a, n = s(1), s(2), s(3), s(4)
        if d == e or v[a] < 0:
            return
        x = v[a]
        v[a] = 0
        v[d] = x & ((1 << n) - 1)
        v[e] = x >> n
    elif op == "pow":
        v[s(1)] = v[s(2)] ** s(3)
    elif op == "sqr":
        if v[s(2)] >= 0:
            v[s(1)] = v[s(2)] ** 2
    elif op == "sqrt":
        if v[s(2)] >= 0:
            import math
            v[s(1)] = math.isqrt(v[s(2)])
    elif op == "ring":
        kind, d, a, b, e = t[1], s(2), s(3), s(4), s(5)
        m = abs(v[b])
        if m <= 1:
            return
        import math
        inv = lambda x: pow(x, -1, m) if math.gcd(x, m) == 1 else 0
        sg = lambda x, y: -y if x < 0 else y
        if kind == "new":
            v[b] = 0
            r = m
        elif kind == "res":
            r = v[a] % m
        elif kind == "mul":
            x, y = v[a] % m, v[d] % m
            r = (x * y + x - y) % m
        elif kind == "inv":
            r = inv(v[a] % m)
        elif kind == "pow":
            r = pow(v[a] % m, e, m)
        elif kind == "rem":
            r = sg(v[a], abs(v[a]) % m)
        elif kind == "remv":
            x = v[a]
            v[a] = 0
            r = sg(x, abs(x) % m)
        elif kind == "div":
            r = sg(v[a], abs(v[a]) // m)
        elif kind == "rmul":
            r = pow(abs(v[a]) % m, 3, m)
        elif kind == "rinv":
            r = inv(abs(v[a]) % m)
        elif kind == "rpow":
            r = pow(abs(v[a]) % m, e, m)
        else:
            r = (-3 * (abs(v[a]) % m)) % m
        v[d] = r
    elif op in ("addp", "subp", "mulp"):
        p = small_prim(t[2], z(3))
        d = s(1)
        v[d] = v[d] + p if op == "addp" else (v[d] - p if op == "subp" else v[d] * p)


FORMS = ["vv", "vr", "rv", "rr", "av", "ar"]
MAXW = 420  # words: keep values bounded so that a history stays fast


def gen_value(rng, signed=True):
    n = rng.choice(LENS)
    m = gen_mag(rng, n)
    if rng.chance(1, 6) and n >= 1:
        # values at a carry boundary: all ones / 2^k / 2^k - 1 patterns over whole words
        m = rng.choice([(1 << (64 * n)) - 1, 1 << (64 * n - 1), 1 << (64 * (n - 1)), (1 << (64 * n)) - rng.range(1, 3)])
    return -m if (signed and rng.chance(1, 3)) else m


BN = [3, 3, 3, 4, 5, 7, 8, 9, 15, 16, 17, 24, 31, 32, 33]
M64 = (1 << 64) - 1


def max_compact(n):
    return n + n // 4 + 4


def top_set(rng, n):
    """a magnitude of exactly n words"""
    return (1 << (64 * n - 1)) | rng.bits(64 * n - 1) if n > 0 else 0


def gen_boundary(rng, k=None):
    """2-4 steps that put a FRESH value of known capacity into a slot (from_words without padding:
    capacity = default_capacity(len); two words: inline) and apply ONE arithmetic step placed exactly at
    a threshold of the buffer handling of that step kind: the carry that crosses 2 -> 3 words, the borrow
    that comes back 3 -> 2, len = capacity (the next carry must reallocate: push_resizing), the in-place
    test of shl_large at equality and one beyond, ensure_capacity at equality / one beyond, the shrink
    rule of from_buffer at capacity = max_compact_capacity(len) and one beyond."""
    d = rng.below(4)
    e = (d + 1 + rng.below(3)) % 4
    t = rng.choice([d, d, e, (e + 1) % 4 if (e + 1) % 4 != d else e])
    n = rng.choice(BN)
    c = default_cap(n)
    form = rng.choice(FORMS)
    sgn = rng.choice(["u", "u", "i"])
    fw = lambda slot, x: "fw %x %s 0" % (slot, hx(x))
    dw = lambda slot, x: "dw %x %s 0" % (slot, hx(x))
    if k is None:
        k = rng.below(21)
    if k == 0:
        # add: two double words whose sum needs a third word (add_dword spills) or just does not
        x = (1 << 128) - rng.choice([1, 1, 2, 1 << 64, rng.bits(64) + 1])
        y = rng.choice([(1 << 128) - x, (1 << 128) - x - 1, 1, x, rng.bits(128)])
        return [dw(d, x), dw(e, y), "%sadd %s %x %x %x" % (sgn, form, t, d, e)]
    if k == 1:
        # sub: three words minus something that leaves two / one / zero words (buffer freed, value inline)
        x = (1 << 128) + rng.choice([0, 0, 1, rng.bits(64), rng.bits(128)])
        y = rng.choice([1, x - (1 << 128) + 1, x - M64, x - 1, x, rng.bits(128) | 1])
        return [fw(d, x), fw(e, y) if y >> 128 else dw(e, y), "%ssub %s %x %x %x" % (sgn, form, t, d, e)]
    if k == 2:
        # add_large: n words + c words = ensure_capacity at equality (no reallocation, len = capacity), with or
        # without a final carry (push_resizing must reallocate); c + 1 words: ensure_capacity reallocates
        ny = rng.choice([c, c, c, c + 1, c - 1, n])
        x = top_set(rng, n)
        carry = rng.chance(1, 2)
        y = ((1 << (64 * ny)) - x) if carry else (top_set(rng, ny) >> 1 | 1 << (64 * ny - 2)) if ny > n else (((1 << (64 * n)) - 1) ^ x) | 1 << (64 * n - 2)
        if y <= 0 or nwords(y) < 1:
            y = 1
        return [fw(d, x), fw(e, y) if nwords(y) > 2 else dw(e, y), "%sadd %s %x %x %x" % (sgn, form, t, d, e)]
    if k == 3:
        # add of a primitive to an all-ones value with len = capacity - the carry ripples to a new top word
        x = (1 << (64 * n)) - 1
        steps = [fw(d, x), "setbit %x %x" % (d, 64 * c - 1)]          # len = capacity, in place
        y = (1 << (64 * c)) - (x | 1 << (64 * c - 1))
        steps.append(fw(e, y) if nwords(y) > 2 else dw(e, y))
        steps.append("%sadd %s %x %x %x" % (sgn, rng.choice(["vr", "av", "ar", "vv", "rr", "rv"]), t, d, e))
        return steps
    if k == 4:
        # sub that shrinks: result of L words where capacity = max_compact_capacity(L) (kept) or one more (reallocated)
        big = rng.choice([16, 24, 32, 33, 40])
        cb = default_cap(big)
        ls = [l for l in range(3, big) if max_compact(l) in (cb - 1, cb, cb + 1)] + [1, 2, 3]
        l = rng.choice(ls)
        x = top_set(rng, big)
        r = top_set(rng, l)
        y = x - r
        st = [fw(d, x), fw(e, y)]
        if rng.chance(1, 3):
            # negative result: the signed subtraction swaps the roles (sub_large_ref_val grows the shorter buffer)
            return st + ["isub %s %x %x %x" % (form, t, e, d)]
        return st + ["%ssub %s %x %x %x" % (sgn, form, t, d, e)]
    if k == 5:
        # signed subtraction of a longer from a shorter value: the by-value right operand is grown to len lhs
        x = top_set(rng, n)
        ny = rng.choice([c, c + 1, c - 1, n + 1])
        y = top_set(rng, ny)
        a, b = rng.choice([(d, e), (e, d)])
        return [fw(d, x), fw(e, y), "%s %s %x %x %x" % (rng.choice(["isub", "iadd"]), form, t, a, b), "neg %x" % rng.choice([d, e, t])]
    if k == 6:
        # mul: double word x double word around the 2 / 3 / 4 word results
        x = rng.choice([M64, 1 << 64, (1 << 128) - 1, rng.bits(128) | 1 << 127, rng.bits(64) | 1 << 63])
        y = rng.choice([M64, 1 << 64, (1 << 128) - 1, 2, rng.bits(128) | 1 << 127, rng.bits(64) | 1 << 63, 1 << 63])
        return [dw(d, x), dw(e, y), "%smul %s %x %x %x" % (sgn, form, t, d, e)]
    if k == 7:
        # mul_large_dword on a buffer with len = capacity: word carry (push_resizing) / double word carry (len + 2)
        x = top_set(rng, n) | 1 << (64 * n - 1)
        steps = [fw(d, x)]
        if rng.chance(2, 3):
            steps.append("setbit %x %x" % (d, 64 * rng.choice([c, c, c - 1]) - 1))
        y = rng.choice([M64, 2, 1 << 63, (1 << 128) - 1, 1 << 64, 1 << 127, rng.bits(64) | 1, 3])
        if y <= M64 and rng.chance(1, 2):
            steps.append("mulp %x u64 %s" % (d, hx(y)))
        else:
            steps += [dw(e, y), "%smul %s %x %x %x" % (sgn, form, t, d, e)]
        return steps
    if k == 8:
        # shl_large: in-place test capacity >= len + shift_words + 1 at equality, one word beyond, one bit around
        x = top_set(rng, n) if rng.chance(1, 2) else (1 << (64 * n)) - 1
        sw = rng.choice([c - n - 1, c - n - 1, c - n, c - n - 2, 0])
        bits = 64 * max(0, sw) + rng.choice([0, 0, 1, 63])
        return [fw(d, x), "%s %s %x %x %x" % (rng.choice(["shl", "shl", "ishl"]), rng.choice(["v", "a", "a", "r"]), t, d, bits)]
    if k == 9:
        # shl of one / two words that spills: shl_dword (1 << n: n / 64 + 1 words; else shift_words + 3)
        x = rng.choice([1, 1, 3, M64, 1 << 64, (1 << 128) - 1, rng.bits(128) | 1])
        lz = 128 - x.bit_length()
        bits = rng.choice([lz, lz + 1, lz + 64, 128, 127, 129, 64 * rng.range(2, 20) + rng.choice([0, 1, 63])])
        return [dw(d, x), "%s %s %x %x %x" % (rng.choice(["shl", "shl", "ishl"]), rng.choice(["v", "a", "r"]), t, d, bits)]
    if k == 10:
        # shr: down to 3 / 2 / 1 / 0 words, and to L words with capacity = max_compact_capacity(L) or one beyond
        big = rng.choice([5, 8, 16, 24, 32, 33, 40])
        cb = default_cap(big)
        ls = [l for l in range(3, big) if max_compact(l) in (cb - 1, cb, cb + 1)] + [0, 1, 2, 3, 3]
        l = rng.choice(ls)
        x = top_set(rng, big) | 1 << (64 * big - 1)
        bits = 64 * (big - l) + rng.choice([0, 0, 63, 1])
        return [fw(d, x), "%s %s %x %x %x" % (rng.choice(["shr", "shr", "ishr"]), rng.choice(["v", "a", "a", "r"]), t, d, max(0, bits))]
    if k == 11:
        # set_bit on a buffer: idx < len; idx = len .. capacity - 1 (in place); idx = capacity (ensure_capacity reallocates)
        x = top_set(rng, n)
        idx = rng.choice([n - 1, n, n, c - 1, c - 1, c, c, c + 1, c + 7])
        steps = [fw(d, x), "setbit %x %x" % (d, 64 * idx + rng.choice([0, 63, rng.below(64)]))]
        if rng.chance(1, 2):
            steps.append("clrbit %x %x" % (d, 64 * idx + rng.below(64)))
        return steps
    if k == 12:
        # set_bit on an inline value: bit 127 / 128 (with_bit_dword_spilled: idx + 1 words, idx - 2 zeros)
        x = rng.choice([0, 1, M64, 1 << 64, (1 << 128) - 1, rng.bits(128)])
        bit = rng.choice([127, 128, 128, 129, 191, 192, 64 * rng.range(2, 30) + rng.below(64)])
        steps = [dw(d, x), "setbit %x %x" % (d, bit), "clrbit %x %x" % (d, bit)]
        return steps if rng.chance(2, 3) else steps[:2]
    if k == 13:
        # clear_bit of the only bit above two words / of the top bit of a long value (shrink or inline)
        big = rng.choice([3, 3, 4, 9, 17, 33])
        lowl = rng.choice([0, 1, 2, 3])
        x = 1 << rng.range(64 * (big - 1), 64 * big - 1)
        x |= top_set(rng, lowl)
        return [fw(d, x), "clrbit %x %x" % (d, x.bit_length() - 1)]
    if k == 14:
        # x op= &x.clone() patterns on a heap value at len = capacity
        x = (1 << (64 * n)) - 1
        steps = [fw(d, x), "setbit %x %x" % (d, 64 * c - 1)]
        steps.append("%s %s %x %x %x" % (rng.choice(["uadd", "iadd", "isub", "usub", "umul", "imul"]), rng.choice(["av", "ar", "vv", "vr", "rv", "rr"]), d, d, d))
        return steps
    if k == 20:
        # Buffer::into_boxed_slice: a modulus with len < capacity <= max_compact_capacity(len) (no shrink needed by
        # the compactness rule, the Box still has to be exactly len words), with len = capacity, and with a
        # capacity far above (after a shift right)
        x = top_set(rng, n) | 1
        steps = [fw(d, x)]
        r = rng.below(3)
        if r == 1:
            steps.append("setbit %x %x" % (d, 64 * c - 1))
        elif r == 2:
            steps.append("shr a %x %x %x" % (d, d, 64 * rng.range(0, max(0, n - 3))))
        steps.append(dw(e, rng.bits(128) | 1) if rng.chance(1, 2) else fw(e, top_set(rng, rng.choice([3, n, n + 2, 2 * n]))))
        steps.append("ring %s %x %x %x %x" % (rng.choice(RING_KINDS), t, e, d, rng.choice([0, 1, 2, 5, 17])))
        return steps
    if k == 16:
        # & : a long value and a mask that leaves 3 / 2 / 1 / 0 words (truncate + shrink or inline); small & large (lowest_dword)
        big = rng.choice([3, 4, 9, 17, 33])
        l = rng.choice([0, 1, 2, 3, 3, big])
        x = top_set(rng, big)
        y = rng.choice([top_set(rng, l), (1 << (64 * l)) - 1, top_set(rng, l) | 1 << (64 * big - 1)]) if l else rng.choice([0, 1 << (64 * big)])
        o = rng.choice(["uand", "uand", "iand"])
        a, b = rng.choice([(d, e), (e, d)])
        return [fw(d, x), fw(e, y) if nwords(y) > 2 else dw(e, y), "%s %s %x %x %x" % (o, form, t, a, b)]
    if k == 17:
        # | ^ : n words with c (= capacity: ensure_capacity at equality) / c + 1 / n words; x ^ x = 0; equal top words (shrink)
        x = top_set(rng, n)
        ny = rng.choice([c, c, c + 1, n, n, 2, 1])
        y = rng.choice([top_set(rng, ny), x, x ^ rng.bits(64 * rng.choice([1, 2, 3])), x ^ top_set(rng, max(1, n - 1))])
        o = rng.choice(["uor", "uxor", "uxor", "ior", "ixor"])
        a, b = rng.choice([(d, e), (e, d)])
        return [fw(d, x), fw(e, y) if nwords(y) > 2 else dw(e, y), "%s %s %x %x %x" % (o, form, t, a, b)]
    if k == 18:
        # / : a dividend with len = capacity whose quotient has a top word (push_resizing must reallocate), quotients
        # of 3 / 2 / 1 / 0 words, division by one and two words, by zero with an owned dividend (released)
        x = top_set(rng, n)
        steps = [fw(d, x)]
        if rng.chance(1, 2):
            steps.append("setbit %x %x" % (d, 64 * c - 1))
            nx = c
        else:
            nx = n
        ny = rng.choice([3, 3, max(3, nx - 2), max(3, nx - 1), nx, 2, 1, 0])
        y = rng.choice([1 << (64 * (ny - 1)), top_set(rng, ny) >> rng.choice([1, 32, 63]), top_set(rng, ny)]) if ny else 0
        steps.append(fw(e, y) if nwords(y) > 2 else dw(e, y))
        steps.append("%s %s %x %x %x" % (rng.choice(["udiv", "udiv", "idiv"]), form, t, d, e))
        return steps
    if k == 19:
        # % : remainder of 3 / 2 / 1 / 0 words in the divisor's buffer; dividend shorter than the divisor
        # (from_buffer of the dividend / clone_from_slice into the by-value divisor)
        ny = rng.choice([3, 3, 4, n, n + 1, n + 2])
        y = top_set(rng, ny)
        nx = rng.choice([n, n, n + 3, 3])
        x = rng.choice([top_set(rng, nx), y * top_set(rng, 2) + rng.bits(64 * rng.choice([1, 2, 3])), y * 3])
        a, b = (d, e)
        return [fw(d, x) if nwords(x) > 2 else dw(d, x), fw(e, y), "%s %s %x %x %x" % (rng.choice(["urem", "urem", "irem"]), form, t, a, b)]
    # subtraction / addition of a primitive across the boundary
    x = rng.choice([1 << 128, (1 << 128) + 5, (1 << 128) - 1, 1 << 192])
    return [fw(d, x) if x >> 128 else dw(d, x), "%s %x %s %s" % (rng.choice(["subp", "addp"]), d, rng.choice(["u64", "i64"]), hx(rng.choice([1, 5, 6, M64 >> 1])))]


RING_KINDS = ["new", "res", "res", "mul", "inv", "pow", "pow", "rem", "remv", "div", "rmul", "rinv", "rpow", "rneg"]


def gen_ring(rng, v, fresh=None):
    """modular arithmetic through ConstDivisor / Reduced / Reducer: the Buffer -> Box<[Word]> conversions
    (Buffer::into_boxed_slice) happen for a modulus of >= 3 words; also one- and two-word moduli"""
    d, a = rng.below(4), rng.below(4)
    cand = [i for i in range(4) if nwords(v[i]) >= 3] if rng.chance(3, 4) else [i for i in range(4) if abs(v[i]) >= 2]
    steps = []
    if not cand or fresh or rng.chance(1, 4):
        b = rng.below(4)
        n = rng.choice([1, 2, 3, 3, 3, 4, 5, 8, 9, 16, 17, 33])
        m = gen_mag(rng, n) | rng.choice([0, 1])
        if m < 2:
            m = 3
        steps.append("fw %x %s %x" % (b, hx(m * rng.choice([1, 1, -1])), rng.choice([0, 0, 1])))
    else:
        b = rng.choice(cand)
    kind = rng.choice(RING_KINDS)
    e = rng.choice([0, 0, 1, 2, 3, 5, 17, rng.below(40)])
    steps.append("ring %s %x %x %x %x" % (kind, d, a, b, e))
    return steps


def gen_step(rng, v):
    """one step (or a short list of steps), chosen with knowledge of the current values"""
    if rng.chance(1, 7):
        return gen_boundary(rng)
    d, a, b = rng.below(4), rng.below(4), rng.below(4)
    k = rng.below(100)
    big = [i for i in range(4) if nwords(v[i]) >= 3]
    if k < 12:
        x = gen_value(rng)
        r = rng.below(6)
        if r == 0:
            return "fw %x %s %x" % (d, hx(x), rng.choice([0, 0, 1, 2, 3, 9]))
        if r == 1:
            return "%s %x %s %x" % (rng.choice(["fle", "fbe"]), d, hx(x), rng.choice([0, 0, 1, 7, 8, 9, 17]))
        if r == 2:
            return "ones %x %x" % (d, rng.choice([0, 1, 63, 64, 65, 127, 128, 129, 191, 192, 193, 64 * rng.range(3, 40) + rng.choice([-1, 0, 1]), rng.below(3000)]))
        if r == 3:
            x = gen_mag(rng, rng.choice([0, 1, 2, 2])) * rng.choice([1, -1])
            return "dw %x %s %x" % (d, hx(x), rng.below(2))
        if r == 4:
            ty = rng.choice(["u8", "u16", "u32", "u64", "u128", "usize", "i8", "i16", "i32", "i64", "i128", "isize"])
            bits = {"8": 8, "16": 16, "32": 32, "64": 64, "size": 64, "128": 128}[ty[1:]]
            if ty[0] == "u":
                x = rng.choice([0, 1, (1 << bits) - 1, rng.bits(bits)])
            else:
                x = rng.choice([0, 1, -1, (1 << (bits - 1)) - 1, -(1 << (bits - 1)), rng.bits(bits - 1), -rng.bits(bits - 1)])
            return "prim %x %s %s" % (d, ty, hx(x))
        return "fw %x %s 0" % (d, hx(x))
    if k < 18:
        return "%s %x %x" % (rng.choice(["st", "scf", "scf"]), d, rng.below(7))
    if k < 21:
        return "%s %x %x %x" % (rng.choice(["sadd", "smul"]), d, a, rng.below(7))
    if k < 33:
        # clone_from between values of any sizes (larger / smaller / equal), self patterns
        op = rng.choice(["cf", "cf", "cf", "ucf", "cl"])
        if rng.chance(1, 5):
            a = d
        return "%s %x %x" % (op, d, a)
    if k < 38:
        return rng.choice(["dr %x" % d, "mv %x %x" % (d, a), "sw %x %x" % (d, a), "neg %x" % d, "negr %x %x" % (d, a), "abs %x" % d])
    if k < 60:
        if rng.chance(1, 4):
            b = a
        total = nwords(v[a]) + nwords(v[b])
        ops = ["uadd", "usub", "iadd", "isub", "uadd", "usub", "iadd", "isub", "uand", "uor", "uxor", "iand", "ior", "ixor"]
        if total <= MAXW:
            ops += ["umul", "imul", "umul", "imul", "udiv", "urem", "idiv", "irem", "ugcd"]
        o = rng.choice(ops)
        if o[1:] in ("div", "rem") and v[b] == 0 and rng.chance(7, 8):
            nz = [i for i in range(4) if v[i] != 0]
            if nz:
                b = rng.choice(nz)
        return "%s %s %x %x %x" % (o, rng.choice(FORMS), d, a, b)
    if k < 62:
        e = (d + 1 + rng.below(3)) % 4
        nz = [i for i in range(4) if v[i] > 0]
        if v[b] == 0 and nz and rng.chance(7, 8):
            b = rng.choice(nz)
        return "udivrem %x %x %x %x" % (d, e, a, b)
    if k < 76:
        # shifts that move the length across the thresholds
        x = abs(v[a])
        n = nwords(x)
        form = rng.choice(["v", "r", "a"])
        if rng.chance(1, 2) and n + 1 < MAXW:
            cap = default_cap(n)
            c = [0, 1, 63, 64, 65, 128, 64 * (cap - n - 1), 64 * (cap - n), 64 * (cap - n) + 1, 64 * (cap - n + 1), 64 * rng.range(0, 12) + rng.choice([0, 1, 63])]
            return "%s %s %x %x %x" % (rng.choice(["shl", "shl", "ishl"]), form, d, a, max(0, rng.choice(c)))
        cap = default_cap(n)
        keep = max(0, (cap - 4) * 4 // 5)  # length at which capacity = max_compact_capacity(length)
        c = [0, 1, 63, 64, 65, x.bit_length(), max(0, x.bit_length() - 1), 64 * max(0, n - 2), 64 * max(0, n - 2) + 1, 64 * max(0, n - 3), 64 * max(0, n - 3) + 63,
             64 * max(0, n - keep), 64 * max(0, n - keep - 1), 64 * max(0, n - keep + 1), rng.below(64 * n + 70)]
        return "%s %s %x %x %x" % (rng.choice(["shr", "shr", "ishr"]), form, d, a, max(0, rng.choice(c)))
    if k < 86:
        x = abs(v[d])
        n = nwords(x)
        cap = default_cap(n)
        c = [0, 63, 64, 127, 128, 129, 191, 192, 64 * n - 1, 64 * n, 64 * n + 1, 64 * (n + 1), 64 * cap - 1, 64 * cap, 64 * cap + 64, 64 * rng.range(0, 40) + rng.below(64),
             max(0, x.bit_length() - 1)]
        return "%s %x %x" % (rng.choice(["setbit", "setbit", "clrbit", "clrbit", "chb", "npow2"]), d, max(0, rng.choice(c)))
    if k < 88:
        e = (d + 1 + rng.below(3)) % 4
        x = abs(v[a])
        return "split %x %x %x %x" % (d, e, a, rng.choice([0, 1, 64, 128, 129, 192, max(0, x.bit_length() - 1), x.bit_length(), rng.below(64 * nwords(x) + 70)]))
    if k < 91:
        x = v[a]
        if x == 0 or abs(x) == 1:
            e = rng.below(200)
        else:
            e = rng.range(0, max(1, min(40, (MAXW * 64) // max(1, abs(x).bit_length()))))
        return rng.choice(["pow %x %x %x" % (d, a, e), "sqr %x %x" % (d, a) if nwords(x) * 2 <= MAXW else "sqrt %x %x" % (d, a), "sqrt %x %x" % (d, a)])
    if k < 95:
        ty = rng.choice(["u64", "u8", "i64"])
        x = rng.choice([0, 1, 2, 255, (1 << 64) - 1, 1 << 63, rng.bits(64), -1, -rng.bits(63)])
        op = rng.choice(["addp", "subp", "mulp"])
        if op == "mulp" and nwords(v[d]) + 1 > MAXW:
            op = "addp"
        return "%s %x %s %s" % (op, d, ty, hx(x))
    if k < 97:
        return gen_ring(rng, v)
    if k < 99:
        kind = rng.choice(["le", "be", "ule", "ube", "words", "parts", "str10", "str16", "str7", "chunks", "u128", "i128", "ubig"])
        if kind == "chunks":
            return "rt %x chunks %x" % (d, rng.choice([1, 7, 63, 64, 65, 128, 200]) if nwords(v[d]) < 40 else 64)
        return "rt %x %s" % (d, kind)
    return "rd %x" % d


def gen_history(rng, tier):
    v = [0, 0, 0, 0]
    n = rng.choice([1, 2, 3, 5, 8, 12, 20, 30, 40])
    steps = []
    while len(steps) < n:
        sts = gen_step(rng, v)
        if isinstance(sts, str):
            sts = [sts]
        w = list(v)
        for st in sts:
            sim(w, st.split())
        if max(nwords(x) for x in w) > 2 * MAXW:
            continue
        v = w
        steps.extend(sts)
    return "hist " + " ; ".join(steps)


def gen_cases(rng, tier, n):
    return [gen_history(rng, tier) for _ in range(n)]


def canon_answer(a):
    # the layout, the ledger and the values do not depend on the build profile
    return a
